(* C13, the global-name index of rope.contrib.autoimport (sqlite.AutoImport with observe=True).

   The index maps a module to the global names it exports (rows (name, module) of the names table; a
   module without indexable names has no rows).  Modules are identified by the path of their file
   ("pkg/m.py" <-> "pkg.m", "pkg/__init__.py" <-> "pkg"): the harness keeps file and folder name pools
   apart, so that the correspondence path <-> dotted module name is one to one.

   AutoImport registers a raw ResourceObserver(changed, moved, removed):
     _changed(r)      not r.is_folder(): update_resource(r)  = delete the module's rows, add its names
     _moved(r, new)   not r.is_folder(): delete the rows of r's module, update_resource(new)
     _removed(r)      not r.is_folder(): delete the rows of r's module
   Folder events are ignored, there is no created callback (a created file is empty) and no validate
   callback: the two open findings. *)
From stdpp Require Import gmap list sets.
From Coq Require Import NArith.
From RopeVerif.C13 Require Import Observer.

(* the tree as the index sees it: a Python file with the global names that can be read from it (none for
   an empty file, a file with a syntax error, only underscored names, only imports), or a folder / other file *)
Notation aitree := (gmap (list N) (option (list N))).
Notation aindex := (gmap (list N) (list N)).

Definition rows (v : option (list N)) : option (list N) :=
  match v with Some (n :: ns) => Some (n :: ns) | _ => None end.
(* AutoImport(project).generate_cache() / update_resource of every Python file on a brand-new index *)
Definition fresh_index (d : aitree) : aindex := omap rows d.

Record aistate := AIState { atree : aitree; aidx : aindex }.

Inductive aiop :=
| AWrite (p : list N) (names : list N)        (* ChangeContents of a Python file *)
| ACreate (p : list N) (isdir : bool)
| ARemove (p : list N)
| AMove (p q : list N).

Definition is_folder (d : aitree) (p : list N) : bool := bool_decide (d !! p = Some None).

(* the change of the tree *)
Definition ai_tree (d : aitree) (o : aiop) : aitree :=
  match o with
  | AWrite p ns => <[p := Some ns]> d
  | ACreate p isdir => <[p := if isdir then None else Some []]> d
  | ARemove p => if is_folder d p then remove_tree p d else delete p d
  | AMove p q => if is_folder d p then move_tree p q d
                 else match d !! p with Some v => <[q := v]> (delete p d) | None => d end
  end.

(* update_resource: _del_if_exist, then one row per name *)
Definition put (p : list N) (ns : list N) (i : aindex) : aindex :=
  match ns with [] => delete p i | _ => <[p := ns]> i end.
Definition names_at (d : aitree) (p : list N) : list N :=
  match d !! p with Some (Some ns) => ns | _ => [] end.

(* the observer *)
Definition ai_event (d d' : aitree) (o : aiop) (i : aindex) : aindex :=
  match o with
  | AWrite p _ => put p (names_at d' p) i
  | ACreate _ _ => i
  | ARemove p => if is_folder d p then i else delete p i
  | AMove p q => if is_folder d p then i else put q (names_at d' q) (delete p i)
  end.

Inductive aistep :=
| SRope (o : aiop)                  (* through rope *)
| SExternal (os : list aiop).       (* behind rope's back, then project.validate(): the index is not told *)

Definition ai_step (s : aistate) (t : aistep) : aistate :=
  match t with
  | SRope o => let d' := ai_tree (atree s) o in AIState d' (ai_event (atree s) d' o (aidx s))
  | SExternal os => AIState (foldl ai_tree (atree s) os) (aidx s)
  end.

Definition ai_coherent (s : aistate) : Prop := aidx s = fresh_index (atree s).
Global Instance ai_coherent_dec s : Decision (ai_coherent s).
Proof. unfold ai_coherent. apply _. Defined.

(* the two defect shapes: a folder that is moved or removed through rope (with anything indexed below it),
   and a change behind rope's back that changes what a brand-new index would hold *)
Definition nothing_below {A} (p : list N) (m : gmap (list N) A) : bool :=
  bool_decide (filter (fun kv : list N * A => under p kv.1 = true) m = ∅).
Definition ai_ok (s : aistate) (t : aistep) : bool :=
  match t with
  | SRope (AMove p q) =>
      (* a valid move: p exists, q is free, they are not nested *)
      bool_decide (is_Some (atree s !! p)) && negb (under p q) && negb (under q p) && nothing_below q (atree s)
      && (negb (is_folder (atree s) p) || nothing_below p (aidx s))
  | SRope (ARemove p) => negb (is_folder (atree s) p) || nothing_below p (aidx s)
  | SRope (AWrite p _) => negb (is_folder (atree s) p)
  | SRope (ACreate p _) => bool_decide (atree s !! p = None)
  | SExternal os => bool_decide (fresh_index (foldl ai_tree (atree s) os) = fresh_index (atree s))
  end.
