(* Proofs about the auto-import index model. *)
From stdpp Require Import gmap list sets.
From Coq Require Import NArith.
From RopeVerif.C13 Require Import Observer PathProofs AutoImport.

Lemma fresh_lookup (d : aitree) k : fresh_index d !! k = d !! k ≫= rows.
Proof. unfold fresh_index. by rewrite lookup_omap. Qed.

Lemma put_lookup (p : list N) (ns : list N) (i : aindex) (k : list N) :
  put p ns i !! k = if decide (k = p) then rows (Some ns) else i !! k.
Proof.
  unfold put. destruct ns as [|n ns]; destruct (decide (k = p)) as [->|Hne]; cbn.
  - by rewrite lookup_delete.
  - by rewrite lookup_delete_ne.
  - by rewrite lookup_insert.
  - by rewrite lookup_insert_ne.
Qed.

(* every change made through rope to a file keeps the index equal to a brand-new one; so do folder
   creations, and moves / removals of folders below which nothing is indexed *)
Theorem ai_step_coherent s t : ai_coherent s -> ai_ok s t = true -> ai_coherent (ai_step s t).
Proof.
  unfold ai_coherent. intros Hc Hok. destruct t as [o|os]; cbn in *.
  - destruct o as [p ns|p isd|p|p q]; cbn in *.
    + (* write *)
      apply map_eq. intros k. rewrite put_lookup, fresh_lookup. unfold names_at.
      destruct (decide (k = p)) as [->|Hne]; [by rewrite !lookup_insert|].
      by rewrite lookup_insert_ne, Hc, fresh_lookup.
    + (* create: an empty file or a folder has no rows *)
      apply bool_decide_eq_true in Hok.
      apply map_eq. intros k. rewrite Hc, !fresh_lookup.
      destruct (decide (k = p)) as [->|Hne]; [rewrite lookup_insert, Hok; by destruct isd|].
      by rewrite lookup_insert_ne.
    + (* remove *)
      destruct (is_folder (atree s) p) eqn:Hf; cbn in Hok.
      * apply bool_decide_eq_true in Hok.
        apply map_eq. intros k. rewrite fresh_lookup, remove_tree_lookup.
        destruct (under p k) eqn:Hu; [|by rewrite Hc, fresh_lookup].
        destruct (aidx s !! k) as [v|] eqn:Hk; [|done].
        exfalso. apply (map_filter_empty_not_lookup _ _ k v Hok); done.
      * apply map_eq. intros k. rewrite fresh_lookup.
        destruct (decide (k = p)) as [->|Hne]; [by rewrite !lookup_delete|].
        by rewrite !lookup_delete_ne, Hc, fresh_lookup.
    + (* move *)
      apply andb_true_iff in Hok as [Hok Hidx]. apply andb_true_iff in Hok as [Hok Hq].
      apply andb_true_iff in Hok as [Hok Hqp]. apply andb_true_iff in Hok as [Hp Hpq].
      apply bool_decide_eq_true in Hp as [v Hp]. apply negb_true_iff in Hpq, Hqp.
      apply bool_decide_eq_true in Hq.
      assert (forall k, under q k = true -> atree s !! k = None) as Hfree.
      { intros k Hu. destruct (atree s !! k) as [w|] eqn:Hk; [|done].
        exfalso. apply (map_filter_empty_not_lookup _ _ k w Hq); done. }
      destruct (is_folder (atree s) p) eqn:Hf; cbn in Hidx.
      * apply bool_decide_eq_true in Hidx.
        (* nothing is indexed below p: nothing below p has rows *)
        assert (forall k, under p k = true -> atree s !! k ≫= rows = None) as Hnone.
        { intros k Hu. rewrite <- fresh_lookup, <- Hc. destruct (aidx s !! k) as [w|] eqn:Hk; [|done].
          exfalso. apply (map_filter_empty_not_lookup _ _ k w Hidx); done. }
        apply map_eq. intros k. rewrite fresh_lookup, move_tree_lookup by done.
        destruct (under p k) eqn:Hu; [by rewrite Hc, fresh_lookup, Hnone|].
        destruct (under q k) eqn:Hu'.
        -- apply under_spec in Hu' as [r ->]. rewrite swapf_under_q by done.
           rewrite Hnone by apply under_app. by rewrite Hc, fresh_lookup, Hfree by apply under_app.
        -- by rewrite swapf_other, Hc, fresh_lookup.
      * rewrite Hp. apply map_eq. intros k. rewrite put_lookup, fresh_lookup. unfold names_at.
        destruct (decide (k = q)) as [->|Hne].
        -- rewrite !lookup_insert. by destruct v as [[|]|].
        -- rewrite lookup_insert_ne by done.
           destruct (decide (k = p)) as [->|Hne']; [by rewrite !lookup_delete|].
           by rewrite !lookup_delete_ne, Hc, fresh_lookup.
  - apply bool_decide_eq_true in Hok. unfold fresh_index in *. rewrite Hok. exact Hc.
Qed.

(* the query: the names the index holds for a module *)
Definition ai_query (s : aistate) (m : list N) : list N := default [] (aidx s !! m).

Theorem ai_query_agrees s m :
  ai_coherent s -> ai_query s m = ai_query (AIState (atree s) (fresh_index (atree s))) m.
Proof. unfold ai_coherent, ai_query. cbn. by intros ->. Qed.

Fixpoint ai_admissible (s : aistate) (ts : list aistep) : bool :=
  match ts with [] => true | t :: r => ai_ok s t && ai_admissible (ai_step s t) r end.

Theorem ai_history_agrees d ts :
  let s0 := AIState d (fresh_index d) in
  ai_admissible s0 ts = true -> ai_coherent (foldl ai_step s0 ts).
Proof.
  cbn. assert (ai_coherent (AIState d (fresh_index d))) as H by done. revert H.
  generalize (AIState d (fresh_index d)). induction ts as [|t ts IH]; intros s Hc Ha; cbn in *; [done|].
  apply andb_true_iff in Ha as [H1 H2]. apply IH; [by apply ai_step_coherent|done].
Qed.

(* ------------------------------------------------------------------------------- the open findings *)
(* pkg/__init__.py ("ka") and pkg/ma.py ("kb") are indexed; pkg is moved to pkg2 through rope *)
Definition aw_tree : aitree :=
  list_to_map [([0%N], None); ([0%N; 3%N], Some [1%N]); ([0%N; 5%N], Some [2%N])].
Definition aw_state : aistate := AIState aw_tree (fresh_index aw_tree).

Lemma autoimport_folder_move_refuted :
  exists s t m, ai_coherent s /\ t = SRope (AMove [0%N] [4%N]) /\ ~ ai_coherent (ai_step s t)
                /\ ai_query (ai_step s t) m <> ai_query (AIState (atree (ai_step s t)) (fresh_index (atree (ai_step s t)))) m.
Proof.
  exists aw_state, (SRope (AMove [0%N] [4%N])), [4%N; 5%N].
  split; [apply (bool_decide_unpack _); by vm_compute|]. split; [done|].
  split; [apply (bool_decide_eq_false_1 (ai_coherent _)); by vm_compute|].
  apply (bool_decide_eq_false_1 (_ = _)). by vm_compute.
Qed.

Lemma autoimport_folder_remove_refuted :
  exists s, ai_coherent s /\ ~ ai_coherent (ai_step s (SRope (ARemove [0%N]))).
Proof.
  exists aw_state. split; [apply (bool_decide_unpack _); by vm_compute|].
  apply (bool_decide_eq_false_1 (ai_coherent _)). by vm_compute.
Qed.

(* ma.py ("ka") is rewritten behind rope's back ("kb"), project.validate() follows *)
Lemma autoimport_no_validate_refuted :
  exists s t, ai_coherent s /\ t = SExternal [AWrite [5%N] [2%N]] /\ ~ ai_coherent (ai_step s t).
Proof.
  exists (AIState (list_to_map [([5%N], Some [1%N])]) (fresh_index (list_to_map [([5%N], Some [1%N])]))),
         (SExternal [AWrite [5%N] [2%N]]).
  split; [apply (bool_decide_unpack _); by vm_compute|]. split; [done|].
  apply (bool_decide_eq_false_1 (ai_coherent _)). by vm_compute.
Qed.

(* non-vacuity: files written, emptied, moved and removed, an empty package moved *)
Definition ai_ex : list aistep :=
  [SRope (ACreate [5%N] false); SRope (AWrite [5%N] [1%N; 2%N]); SRope (ACreate [0%N] true);
   SRope (ACreate [0%N; 3%N] false); SRope (AMove [5%N] [0%N; 9%N]); SRope (AWrite [0%N; 9%N] []);
   SRope (AMove [0%N] [4%N]); SRope (AWrite [4%N; 9%N] [3%N]); SRope (ARemove [4%N; 9%N])].

Lemma ai_example :
  ai_admissible (AIState ∅ (fresh_index ∅)) ai_ex = true
  /\ map_to_list (aidx (foldl ai_step (AIState ∅ (fresh_index ∅)) (take 8 ai_ex))) = [([4%N; 9%N], [3%N])].
Proof. split; by vm_compute. Qed.
