(* Correspondence runner for the auto-import index (stream C): the harness writes the tree as the index sees
   it, the live index before the step, the model steps the action translates to, and the live index and
   the brand-new index after it. *)
From stdpp Require Import gmap list sets.
From Coq Require Import NArith.
From RopeVerif.C13 Require Import Observer AutoImport AutoImportProofs.

Record aicase := {
  a_tree : list (list N * option (list N));
  a_idx : list (list N * list N);
  a_steps : list aistep;
  a_post : list (list N * list N);        (* the live index afterwards *)
  a_fresh : list (list N * list N)        (* a brand-new index afterwards *)
}.

(* 0 agree; 1 the live index differs from the model's; 2 the brand-new index differs from the model's *)
Definition run_aicase (c : aicase) : N :=
  let s := AIState (list_to_map (a_tree c)) (list_to_map (a_idx c)) in
  let s' := foldl ai_step s (a_steps c) in
  if negb (bool_decide (aidx s' = list_to_map (a_post c))) then 1%N
  else if negb (bool_decide (fresh_index (atree s') = list_to_map (a_fresh c))) then 2%N
  else 0%N.

(* 1: coherent before; 2: every step inside the domain of C13_autoimport_step_coherent; 4: coherent after (model) *)
Definition aiflags (c : aicase) : N :=
  let s := AIState (list_to_map (a_tree c)) (list_to_map (a_idx c)) in
  ((if bool_decide (ai_coherent s) then 1 else 0) + (if ai_admissible s (a_steps c) then 2 else 0)
   + (if bool_decide (ai_coherent (foldl ai_step s (a_steps c))) then 4 else 0))%N.

Fixpoint aimismatches_from (i : N) (cs : list aicase) : list (N * N) :=
  match cs with
  | [] => []
  | c :: r =>
      let code := run_aicase c in
      if N.eqb code 0 then aimismatches_from (N.succ i) r else (i, code) :: aimismatches_from (N.succ i) r
  end.
Definition aimismatches (cs : list aicase) : list (N * N) := aimismatches_from 0 cs.
Definition all_aiflags (cs : list aicase) : list N := map aiflags cs.
