(* Proofs of the line-extent theorems under the layout hypotheses of Layout.v. *)
From Coq Require Import List NArith Bool PeanoNat Lia.
From RopeVerif.C15 Require Import Syntax Scoping RopeScopes Fragment RopeScopesProofs LookupProofs ExtentProofs Layout Witnesses Theorems.
Import ListNotations.

Section Ends.
  Variable lay : list lineinfo.
  Local Open Scope N_scope.

  Lemma In_lines_between a b l : In l (lines_between a b) <-> a <= l <= b.
  Proof.
    unfold lines_between. rewrite in_map_iff. split.
    - intros [i [<- Hi]]. apply in_seq in Hi. lia.
    - intros H. exists (N.to_nat (l - a)). split; [lia|]. apply in_seq. lia.
  Qed.

  Lemma code_start_eq l : code_start lay l = code_start_b lay l.
  Proof. reflexivity. Qed.

  Lemma fwd_to_some test : forall fuel a d,
    fwd_to lay test fuel a = Some d ->
    a <= d <= nlines lay /\ test (line_at lay d) = true /\ forall l, a <= l < d -> test (line_at lay l) = false.
  Proof.
    induction fuel as [|f IH]; intros a d H; cbn [fwd_to] in H; [discriminate|].
    destruct (N.ltb (nlines lay) a) eqn:E; [discriminate|]. apply N.ltb_ge in E.
    destruct (test (line_at lay a)) eqn:T.
    - inversion H; subst. repeat split; try lia; auto; intros l Hl; lia.
    - apply IH in H as (H1 & H2 & H3). repeat split; try lia; auto.
      intros l Hl. destruct (N.eq_dec l a) as [->|Hne]; [exact T | apply H3; lia].
  Qed.

  Lemma fwd_to_none test : forall fuel a,
    fwd_to lay test fuel a = None -> (N.to_nat (nlines lay + 1 - a) < fuel)%nat ->
    forall l, a <= l <= nlines lay -> test (line_at lay l) = false.
  Proof.
    induction fuel as [|f IH]; intros a H Hf l Hl; [lia|]. cbn [fwd_to] in H.
    destruct (N.ltb (nlines lay) a) eqn:E; [apply N.ltb_lt in E; lia|].
    destruct (test (line_at lay a)) eqn:T; [discriminate|].
    destruct (N.eq_dec l a) as [->|Hne]; [exact T|]. apply (IH (N.succ a)); auto; lia.
  Qed.

  Lemma next_code_spec l :
    l <= nlines lay ->
    l < next_code lay l /\ next_code lay l <= nlines lay + 1
    /\ (forall l', l < l' < next_code lay l -> code_start_b lay l' = false)
    /\ (next_code lay l <= nlines lay -> code_start_b lay (next_code lay l) = true).
  Proof.
    intros Hl. unfold next_code. destruct (fwd_to lay is_code (S (length lay)) (l + 1)) as [d|] eqn:E.
    - apply fwd_to_some in E as (H1 & H2 & H3).
      split; [lia|]. split; [lia|]. split; [|intros _; exact H2]. intros l' Hl'. apply H3. lia.
    - split; [lia|]. split; [lia|]. split; [|intros H; lia].
      intros l' Hl'. apply (fwd_to_none _ _ _ E); [unfold nlines; lia | lia].
  Qed.

  Theorem block_end_ok_sound s stop :
    (rk s = KFunction \/ rk s = KClass) -> block_end_ok lay s stop = true -> rope_end lay s = stop.
  Proof.
    intros Hk H. unfold block_end_ok in H.
    set (stopL := back_to_start lay (S (length lay)) stop) in *.
    set (I := body_indent lay s) in *.
    repeat (apply andb_prop in H as [H ?]).
    rename H0 into Hnoend, H1 into Hend, H2 into Hded, H3 into Hins, H4 into Hcode, H5 into Hsn, H6 into Hls, H7 into Hbl.
    apply N.leb_le in Hsn, Hls, Hbl.
    destruct (next_code_spec stopL ltac:(lia)) as (D1 & D2 & D3 & D4).
    set (d := next_code lay stopL) in *.
    rewrite forallb_forall in Hins, Hnoend.
    pose proof (code_start_pos lay _ Hcode) as Hpos.
    assert (F : find_scope_end lay s = stopL).
    { unfold find_scope_end.
      assert (B : (if N.leb (rblast s) (snd (logical_line_in lay (rstart s)))
                   then (indents lay (rstart s) + 4) else indents lay (rbfirst s)) = I) by reflexivity.
      assert (G : scan_end lay (S (length lay)) (N.min (rblast s + 1) (nlines lay)) I (rblast s) = stopL).
      { apply (scan_end_regular lay I stopL d); auto; try lia.
        - intros Hd. split; [now apply D4|]. apply orb_prop in Hded as [Hd'|Hd']; [apply N.ltb_lt in Hd'; lia | now apply N.ltb_lt].
        - unfold nlines in *. lia.
        - intros l' Hl' Hc.
          assert (Hin : In l' (lines_between (if one_liner lay s then rblast s + 1 else rblast s) stopL)).
          { apply In_lines_between. destruct (one_liner lay s) eqn:O.
            - cbn in H. apply N.ltb_lt in H. lia.
            - lia. }
          specialize (Hins _ Hin). rewrite code_start_eq in Hc. rewrite Hc in Hins. cbn in Hins. now apply N.leb_le. }
      destruct Hk as [K|K]; rewrite K, B; exact G. }
    unfold rope_end. rewrite F.
    rewrite (logical_line_in_start lay stopL stop); auto.
    - unfold code_start_b, is_code in Hcode. now apply andb_prop in Hcode as [Hc _].
    - intros l' Hl'. assert (Hin : In l' (lines_between stopL (N.pred stop))) by (apply In_lines_between; lia).
      specialize (Hnoend _ Hin). now apply negb_true_iff in Hnoend.
  Qed.

  Lemma scope_end_ok_sound r stop :
    rk r <> KModule -> rk r <> KLambda -> scope_end_ok lay r stop = true -> rope_end lay r = stop.
  Proof.
    intros Hm Hl H. unfold scope_end_ok in H. destruct (rk r) eqn:K; try congruence.
    - apply block_end_ok_sound; auto.
    - apply block_end_ok_sound; auto.
    - unfold comp_end_ok in H. apply N.eqb_eq in H. unfold rope_end, find_scope_end. now rewrite K.
  Qed.

  (* ---------------------------------------------------------------- every scope of the two trees *)
  Lemma ends_ok_unfold r s :
    ends_ok lay r s = scope_end_ok lay r (sstop s)
                      && (fix go (rcs : list rscope) (scs : list sscope) : bool :=
                            match rcs, scs with
                            | [], [] => true
                            | x :: a, y :: b => ends_ok lay x y && go a b
                            | _, _ => false
                            end) (rchildren r) (schildren s).
  Proof. destruct r, s; reflexivity. Qed.

  Lemma ends_ok_children rcs scs i :
    (fix go (rcs : list rscope) (scs : list sscope) : bool :=
       match rcs, scs with
       | [], [] => true
       | x :: a, y :: b => ends_ok lay x y && go a b
       | _, _ => false
       end) rcs scs = true ->
    match nth_error rcs i, nth_error scs i with
    | Some x, Some y => ends_ok lay x y = true
    | None, None => True
    | _, _ => False
    end.
  Proof.
    revert scs i. induction rcs as [|x a IH]; intros [|y b] i H; try discriminate.
    - destruct i; exact I.
    - apply andb_prop in H as [H1 H2]. destruct i; cbn; [exact H1 | now apply IH].
  Qed.

  Lemma ends_ok_at p : forall r s pre racc sacc,
    ends_ok lay r s = true ->
    match rchain_from r pre p racc, schain_from s pre p sacc with
    | Some (x :: _), Some (y :: _) => ends_ok lay (snd x) (snd y) = true
    | None, None => True
    | _, _ => False
    end.
  Proof.
    induction p as [|i p IH]; intros r s pre racc sacc H; cbn [rchain_from schain_from]; [exact H|].
    rewrite ends_ok_unfold in H. apply andb_prop in H as [_ H].
    pose proof (ends_ok_children _ _ i H) as Hi.
    destruct (nth_error (rchildren r) i); destruct (nth_error (schildren s) i); try contradiction; [|exact I].
    now apply IH.
  Qed.
End Ends.

(* rope's tree has no lambda and only one module scope *)
Lemma rx_scopes_comp_only e : Forall (fun c => rk c = KComp) (rx_scopes e).
Proof. apply rx_scopes_kind. Qed.

Theorem scope_ends_agree lay p nl path rs ss :
  ends_ok lay (rope_tree p) (spec_tree nl p) = true ->
  scope_at (rope_tree p) path = Some rs -> sscope_at (spec_tree nl p) path = Some ss ->
  rk rs <> KModule -> rk rs <> KLambda ->
  rope_end lay rs = sstop ss.
Proof.
  intros H Hr Hs Hm Hl. unfold scope_at, sscope_at, rchain, schain in *.
  pose proof (ends_ok_at lay path _ _ [] [] [] H) as Ha.
  destruct (rchain_from (rope_tree p) [] path []) as [[|[p1 r1] rch]|]; try discriminate.
  destruct (schain_from (spec_tree nl p) [] path []) as [[|[p2 s2] sch]|]; try discriminate.
  inversion Hr; inversion Hs; subst. cbn in Ha. rewrite ends_ok_unfold in Ha. apply andb_prop in Ha as [Ha _].
  now apply scope_end_ok_sound.
Qed.

(* ------------------------------------------------------------------ the scope holding a line *)
Section ForLine.
  Variable lay : list lineinfo.
  Variable mn : list ident.
  Variable l : N.
  Hypothesis Hl : li_empty (line_at lay l) = false.
  Local Open Scope N_scope.

  Lemma lines_ok_unfold r :
    lines_ok lay r = indent_ok lay r && header_ok r && siblings_ok lay (rchildren r)
                     && (fix go (cs : list rscope) : bool :=
                           match cs with [] => true | c :: a => lines_ok lay c && go a end) (rchildren r).
  Proof. destruct r; reflexivity. Qed.

  Lemma lines_ok_children cs :
    (fix go (cs : list rscope) : bool := match cs with [] => true | c :: a => lines_ok lay c && go a end) cs = true ->
    Forall (fun c => lines_ok lay c = true) cs.
  Proof. induction cs as [|c a IH]; intros H; constructor; apply andb_prop in H as [H1 H2]; auto. Qed.

  Lemma ends_ok_children_all rcs scs :
    (fix go (rcs : list rscope) (scs : list sscope) : bool :=
       match rcs, scs with
       | [], [] => true
       | x :: a, y :: b => ends_ok lay x y && go a b
       | _, _ => false
       end) rcs scs = true ->
    Forall2 (fun c cs => ends_ok lay c cs = true) rcs scs.
  Proof.
    revert scs. induction rcs as [|x a IH]; intros [|y b] H; try discriminate; constructor;
      apply andb_prop in H as [H1 H2]; auto.
  Qed.

  (* facts about one sub-scope *)
  Lemma child_facts c cs :
    tree_agree mn c cs -> rk c <> KModule -> ends_ok lay c cs = true ->
    rk c = sk cs /\ rope_start c = sstart cs /\ rope_end lay c = sstop cs
    /\ is_block (sk cs) = is_blockk (rk c).
  Proof.
    intros Ht Hm He. destruct (tree_agree_inv _ _ _ Ht) as (Ek & _ & _ & _ & Hlam & _).
    assert (Es : rope_start c = sstart cs).
    { inversion Ht; subst. cbn. cbn in Hm. destruct k; try reflexivity. congruence. }
    rewrite ends_ok_unfold in He. apply andb_prop in He as [He _].
    repeat split; auto.
    - now apply scope_end_ok_sound.
    - rewrite <- Ek. destruct (rk c); try reflexivity; congruence.
  Qed.

  Section Pick.
    Variable pre : path.
    Variable hold : rscope -> path -> path.
    Variable sfl : sscope -> path -> path.

    Definition PICK : nat -> list rscope -> option path :=
      fix pick (i : nat) (cs : list rscope) : option path :=
        match cs with
        | [] => None
        | c :: r =>
            if N.leb (rope_start c) l
            then if N.leb l (rope_end lay c)
                 then (if N.leb (indents lay (rope_start c)) (indents lay l)
                       then Some (hold c (pre ++ [i])) else Some pre)
                 else pick (S i) r
            else None
        end.
    Definition FIRST : nat -> list sscope -> option path :=
      fix first (i : nat) (cs : list sscope) : option path :=
        match cs with
        | [] => None
        | c :: r =>
            if is_block (sk c) && N.leb (sstart c) l && N.leb l (sstop c)
            then Some (sfl c (pre ++ [i]))
            else first (S i) r
        end.

    Lemma first_none scs : forall i,
      Forall (fun cs => is_block (sk cs) = false \/ l < sstart cs) scs -> FIRST i scs = None.
    Proof.
      induction scs as [|c r IH]; intros i H; [reflexivity|]. inversion H as [|? ? Hc Hr]; subst.
      cbn [FIRST]. fold FIRST.
      destruct Hc as [Hc|Hc].
      - rewrite Hc. cbn. now apply IH.
      - assert (E : N.leb (sstart c) l = false) by (apply N.leb_gt; exact Hc).
        rewrite E, andb_false_r. cbn. now apply IH.
    Qed.

    Lemma pick_first full : forall rcs scs,
      Forall2 (tree_agree mn) rcs scs ->
      Forall (fun c => rk c <> KModule) rcs ->
      Forall2 (fun c cs => ends_ok lay c cs = true) rcs scs ->
      Forall (fun c => lines_ok lay c = true) rcs ->
      siblings_ok lay rcs = true ->
      Forall2 (fun c cs => forall pre', exists q', hold c pre' = pre' ++ q'
                                                 /\ sfl cs pre' = pre' ++ strip_comps c q') rcs scs ->
      forall i0, (forall j, nth_error full (i0 + j) = nth_error rcs j) ->
      exists q, match PICK i0 rcs with Some p => p | None => pre end = pre ++ q
                /\ match FIRST i0 scs with Some p => p | None => pre end = pre ++ strip_cs full q.
    Proof.
      induction 1 as [|c cs rcs scs Ht Hts IH]; intros Hnm Hends Hlines Hsib Hrec i0 Hfull.
      - exists []. cbn. rewrite app_nil_r. auto.
      - inversion Hnm as [|? ? Hm Hnm']; subst. inversion Hends as [|? ? ? ? He Hends']; subst.
        inversion Hlines as [|? ? Hlc Hlines']; subst. inversion Hrec as [|? ? ? ? Hc Hrec']; subst.
        cbn [siblings_ok] in Hsib. apply andb_prop in Hsib as [Hsib1 Hsib2].
        rewrite forallb_forall in Hsib1.
        destruct (child_facts c cs Ht Hm He) as (Ek & Es & Ee & Eb).
        (* later siblings that are blocks start after this one ends, and all start at or after its start *)
        assert (Hlater : forall c', In c' rcs -> rope_start c <= rope_start c'
                                    /\ (is_blockk (rk c) = true \/ is_blockk (rk c') = true -> rope_end lay c < rope_start c')).
        { intros c' Hin. specialize (Hsib1 _ Hin). apply andb_prop in Hsib1 as [A B]. apply N.leb_le in A.
          split; [exact A|]. intros Hb. apply orb_prop in B as [B|B]; [|now apply N.ltb_lt].
          apply negb_true_iff in B. apply orb_false_iff in B as [B1 B2]. destruct Hb; congruence. }
        (* no later sibling that is a block contains a line at or before [bound] when all of them start after it *)
        assert (Hnone : forall bound, (forall c', In c' rcs -> is_blockk (rk c') = true -> bound < rope_start c') ->
                                      l <= bound -> FIRST (S i0) scs = None).
        { intros bound Hb Hle. apply first_none.
          clear - Hts Hnm' Hends' Hb Hle. revert Hnm' Hends' Hb.
          induction Hts as [|x y a b Hxy Hab IHa]; intros Hnm' Hends' Hb; constructor.
          - inversion Hnm'; inversion Hends'; subst.
            destruct (child_facts x y Hxy) as (_ & Es' & _ & Eb'); auto.
            destruct (is_blockk (rk x)) eqn:Bx; [|left; congruence].
            right. rewrite <- Es'. specialize (Hb x (or_introl eq_refl) Bx). lia.
          - inversion Hnm'; inversion Hends'; subst. apply IHa; auto. intros c' Hc'. apply Hb. now right. }
        cbn [PICK FIRST]. fold PICK. fold FIRST.
        rewrite <- Es, <- Ee, Eb.
        destruct (N.leb (rope_start c) l) eqn:E1.
        + apply N.leb_le in E1. destruct (N.leb l (rope_end lay c)) eqn:E2.
          * apply N.leb_le in E2.
            destruct (is_blockk (rk c)) eqn:Bc.
            -- (* a function / class containing the line *)
               cbn [andb].
               assert (Hind : N.leb (indents lay (rope_start c)) (indents lay l) = true).
               { rewrite lines_ok_unfold in Hlc. repeat (apply andb_prop in Hlc as [Hlc ?]).
                 unfold indent_ok in Hlc. rewrite Bc in Hlc. cbn in Hlc. rewrite forallb_forall in Hlc.
                 assert (Hin : In l (lines_between (rope_start c) (rope_end lay c))) by (apply In_lines_between; lia).
                 specialize (Hlc _ Hin). rewrite Hl in Hlc. exact Hlc. }
               rewrite Hind. destruct (Hc (pre ++ [i0])) as [q' [Hq1 Hq2]].
               exists (i0 :: q'). rewrite Hq1, Hq2, <- !app_assoc. cbn [app strip_cs].
               specialize (Hfull 0%nat). rewrite Nat.add_0_r in Hfull. cbn in Hfull. rewrite Hfull, Bc.
               split; reflexivity.
            -- (* a comprehension whose lines include the line: no function / class follows on these lines *)
               cbn [andb].
               assert (Fn : FIRST (S i0) scs = None).
               { apply (Hnone (rope_end lay c)); [|exact E2]. intros c' Hin Hb'.
                 apply (Hlater c' Hin). now right. }
               rewrite Fn.
               destruct (N.leb (indents lay (rope_start c)) (indents lay l)).
               ++ destruct (Hc (pre ++ [i0])) as [q' [Hq1 _]]. exists (i0 :: q').
                  rewrite Hq1, <- app_assoc. cbn [app strip_cs].
                  specialize (Hfull 0%nat). rewrite Nat.add_0_r in Hfull. cbn in Hfull. rewrite Hfull, Bc.
                  rewrite app_nil_r. split; reflexivity.
               ++ exists []. cbn [strip_cs]. rewrite !app_nil_r. split; reflexivity.
          * (* the line is after this sub-scope *)
            apply N.leb_gt in E2.
            assert (E3 : N.leb l (rope_end lay c) = false) by (apply N.leb_gt; exact E2).
            rewrite andb_false_r.
            apply IH; auto. intros j. specialize (Hfull (S j)). cbn [nth_error] in Hfull. rewrite <- Hfull. f_equal. lia.
        + (* the line is before this sub-scope, hence before all later ones *)
          apply N.leb_gt in E1. rewrite andb_false_r. cbn [andb].
          assert (Fn : FIRST (S i0) scs = None).
          { apply (Hnone l); [|lia]. intros c' Hin _. destruct (Hlater c' Hin) as [A _]. lia. }
          rewrite Fn. exists []. cbn [strip_cs]. rewrite !app_nil_r. split; reflexivity.
    Qed.
  End Pick.

  Lemma holding_spec r s :
    tree_agree mn r s -> ends_ok lay r s = true -> lines_ok lay r = true ->
    forall pre, exists q, holding lay r pre l = pre ++ q
                          /\ spec_scope_for_line s pre l = pre ++ strip_comps r q.
  Proof.
    intros Ht. induction Ht using tree_agree_ind'. intros He Hlo pre.
    rewrite ends_ok_unfold in He. apply andb_prop in He as [_ He]. cbn [rchildren schildren] in He.
    rewrite lines_ok_unfold in Hlo. cbn [rchildren] in Hlo.
    apply andb_prop in Hlo as [Hlo Hgo]. apply andb_prop in Hlo as [Hlo Hsib]. apply andb_prop in Hlo as [Hind Hhead].
    cbn [holding spec_scope_for_line rchildren schildren].
    destruct (negb (skind_eqb (rk (RScope k name st bf bl evs bases rcs)) KModule)
              && N.eqb (rope_start (RScope k name st bf bl evs bases rcs)) l) eqn:Eh.
    - (* the header line of the scope itself *)
      exists []. rewrite app_nil_r. split; [reflexivity|]. cbn [strip_comps strip_cs]. rewrite app_nil_r.
      apply andb_prop in Eh as [Ek El].
      assert (Fn : FIRST pre (fun c p => spec_scope_for_line c p l) 0 scs = None).
      { apply first_none.
        assert (Kb : is_blockk k = true \/ k = KComp).
        { cbn in Ek. destruct k; cbn in Ek; try discriminate; auto; congruence. }
        destruct Kb as [Kb|Kb].
        - unfold header_ok in Hhead. cbn [rk rchildren] in Hhead. rewrite Kb in Hhead. cbn in Hhead.
          rewrite forallb_forall in Hhead.
          apply ends_ok_children_all in He.
          clear - H H1 He Hhead El. revert H1 He Hhead.
          induction H as [|x y a b Hxy Hab IHa]; intros H1 He Hhead; constructor.
          + inversion H1; inversion He; subst.
            destruct (child_facts x y Hxy) as (_ & Es' & _ & Eb'); auto.
            destruct (is_blockk (rk x)) eqn:Bx; [|left; congruence]. right.
            specialize (Hhead x (or_introl eq_refl)). rewrite Bx in Hhead. cbn in Hhead. apply N.ltb_lt in Hhead.
            rewrite <- Es'. apply N.eqb_eq in El. cbn in El. lia.
          + inversion H1; inversion He; subst. apply IHa; auto.
            intros c Hc. apply Hhead. now right.
        - (* a comprehension has only comprehensions below it *)
          specialize (H2 Kb). apply ends_ok_children_all in He. clear - H H1 H2 He. revert H1 H2 He.
          induction H as [|x y a b Hxy Hab IHa]; intros H1 H2 He; constructor.
          + inversion H1; inversion H2; inversion He; subst.
            destruct (child_facts x y Hxy) as (_ & _ & _ & Eb'); auto. left. rewrite Eb'.
            match goal with Hx : rk x = KComp |- _ => now rewrite Hx end.
          + inversion H1; inversion H2; inversion He; subst. apply IHa; auto. }
      unfold FIRST in Fn. rewrite Fn. reflexivity.
    - (* among the sub-scopes *)
      assert (Hrec : Forall2 (fun c cs => forall pre', exists q', holding lay c pre' l = pre' ++ q'
                                 /\ spec_scope_for_line cs pre' l = pre' ++ strip_comps c q') rcs scs).
      { pose proof (ends_ok_children_all _ _ He) as He'. pose proof (lines_ok_children _ Hgo) as Hgo'.
        clear - H0 He' Hgo'. revert He' Hgo'. induction H0 as [|x y a b Hxy Hab IHa]; intros He Hgo; constructor.
        - inversion He; inversion Hgo; subst. now apply Hxy.
        - inversion He; inversion Hgo; subst. now apply IHa. }
      destruct (pick_first pre (fun c p => holding lay c p l) (fun c p => spec_scope_for_line c p l) rcs rcs scs
                  H H1 (ends_ok_children_all _ _ He) (lines_ok_children _ Hgo) Hsib Hrec 0%nat (fun j => eq_refl))
        as [q [Hq1 Hq2]].
      exists q. unfold PICK in Hq1. unfold FIRST in Hq2. split; [exact Hq1 | exact Hq2].
  Qed.
End ForLine.

Theorem scope_for_line lay p nl l :
  in_fragment_C15 p = true ->
  ends_ok lay (rope_tree p) (spec_tree nl p) = true ->
  lines_ok lay (rope_tree p) = true ->
  li_empty (line_at lay l) = false ->
  strip_comps (rope_tree p) (rope_scope_for_line lay (rope_tree p) l) = spec_scope_for_line (spec_tree nl p) [] l.
Proof.
  intros Hf He Hlo Hl. pose proof (program_agree nl p Hf) as Ht.
  destruct (holding_spec lay _ l Hl _ _ Ht He Hlo []) as [q [H1 H2]].
  unfold rope_scope_for_line. rewrite H1, H2. reflexivity.
Qed.

(* the same for every scope of a module of the fragment (rope's tree has no lambda scope there) *)
Theorem scope_ends_agree_fragment lay p nl path rs ss :
  in_fragment_C15 p = true ->
  ends_ok lay (rope_tree p) (spec_tree nl p) = true ->
  scope_at (rope_tree p) path = Some rs -> sscope_at (spec_tree nl p) path = Some ss ->
  rk rs <> KModule ->
  rope_end lay rs = sstop ss.
Proof.
  intros Hf He Hr Hs Hm. pose proof (program_agree nl p Hf) as Ht.
  assert (G : sglobals (spec_tree nl p) = []) by (cbn; now apply fragment_root).
  assert (B : forall y, In y (sbound (spec_tree nl p)) <-> In y (flat_map s_binds p)) by (cbn; tauto).
  pose proof (agree_at _ _ _ Ht eq_refl G B path rs ss Hr Hs) as Ha.
  destruct (tree_agree_inv _ _ _ Ha) as (_ & _ & _ & _ & Hlam & _).
  now apply (scope_ends_agree lay p nl path rs ss).
Qed.

(* non-vacuity: both example modules (the second consists of one-line definitions whose body statement
   continues over several physical lines, a multi-line comprehension, blank and comment lines) satisfy the
   layout hypotheses; lines inside a continued one-liner and inside a method are attributed as CPython does *)
Lemma example_layouts :
  in_fragment_C15 w_oneliners = true
  /\ ends_ok lay_example (rope_tree w_example) (spec_tree 20 w_example) = true
  /\ lines_ok lay_example (rope_tree w_example) = true
  /\ ends_ok lay_oneliners (rope_tree w_oneliners) (spec_tree 21 w_oneliners) = true
  /\ lines_ok lay_oneliners (rope_tree w_oneliners) = true
  /\ rope_scope_for_line lay_oneliners (rope_tree w_oneliners) 4 = [0; 0]%nat
  /\ spec_scope_for_line (spec_tree 21 w_oneliners) [] 4 = [0; 0]%nat
  /\ rope_scope_for_line lay_oneliners (rope_tree w_oneliners) 17 = [2]%nat
  /\ strip_comps (rope_tree w_oneliners) [2]%nat = []
  /\ (exists s, scope_at (rope_tree w_oneliners) [0; 0]%nat = Some s /\ one_liner lay_oneliners s = true
                /\ rope_end lay_oneliners s = 4%N).
Proof.
  repeat (split; [vm_compute; reflexivity|]). eexists. split; [vm_compute; reflexivity|]. vm_compute. auto.
Qed.
