(* Correspondence runner for C15.  A case carries the program (translated from the source by the harness),
   the line layout, and two independent observations of the same source:
     c_rope_*  what rope reports (scope tree, names per scope, lookups canonicalised to the owning scope,
               scope for each line),
     c_py_*    what CPython reports (symtable walked by the harness; extents from ast).
   Computed here: MODEL (RopeScopes.v) against rope, SPEC (Scoping.v) against CPython, and - inside the
   theorem's domain - MODEL against SPEC (cannot differ while the theorems are in force). *)
From Coq Require Import List NArith Bool PeanoNat.
From RopeVerif.C15 Require Import Syntax Scoping RopeScopes Fragment Layout.
Import ListNotations.

Definition scope_obs := (path * skind * (N * N) * list ident)%type.

Record case := {
  c_prog : program;
  c_layout : list lineinfo;
  c_builtins : list ident;
  c_idents : list ident;
  c_rope_scopes : list scope_obs;              (* preorder *)
  c_rope_lookups : list (list binding);        (* per scope in preorder, per identifier of c_idents *)
  c_rope_lines : list path;                    (* get_inner_scope_for_line(l) for l = 1 .. nlines *)
  c_py_scopes : list scope_obs;
  c_py_lookups : list (list binding)
}.

Definition names_eqb (a b : list ident) : bool :=
  forallb (fun x => mem x b) a && forallb (fun x => mem x a) b.

(* 0 equal; 1 shape / kind / start; 2 stop; 3 names *)
Fixpoint cmp_scopes (check_stop : bool) (a b : list scope_obs) : N :=
  match a, b with
  | [], [] => 0
  | (p, k, (s, e), ns) :: a', (q, k', (s', e'), ns') :: b' =>
      if negb (path_eqb p q && skind_eqb k k' && N.eqb s s') then 1
      else if check_stop && negb (skind_eqb k KModule) && negb (N.eqb e e') then 2
      else if negb (names_eqb ns ns') then 3
      else cmp_scopes check_stop a' b'
  | _, _ => 1
  end%N.

Fixpoint list_eqb {A} (eqb : A -> A -> bool) (a b : list A) : bool :=
  match a, b with
  | [], [] => true
  | x :: a', y :: b' => eqb x y && list_eqb eqb a' b'
  | _, _ => false
  end.

Definition model_scopes (lay : list lineinfo) (rt : rscope) : list scope_obs :=
  map (fun ps => let '(p, s) := ps in (p, rk s, (rope_start s, rope_end lay s), keys (revs s))) (r_all rt).

Fixpoint s_all_from (pre : path) (t : sscope) : list (path * sscope) :=
  (pre, t) ::
  (fix go (i : nat) (cs : list sscope) : list (path * sscope) :=
     match cs with
     | [] => []
     | c :: r => s_all_from (pre ++ [i]) c ++ go (S i) r
     end) 0%nat (schildren t).

Definition spec_scopes (st : sscope) : list scope_obs :=
  map (fun ps => let '(p, s) := ps in (p, sk s, (sstart s, sstop s), spec_names s)) (s_all_from [] st).

(* the model's names without the names that are only instance attributes (rope adds self.x to the class) *)
Definition model_real_scopes (rt : rscope) : list scope_obs :=
  map (fun ps => let '(p, s) := ps in (p, rk s, (rope_start s, 0%N), real_names (revs s))) (r_all rt).

Definition model_lookups (bi idents : list ident) (rt : rscope) : list (list binding) * bool :=
  let '(tbl, stable) := rope_inh bi rt idents in
  (map (fun ps => map (fun x => rope_lookup bi (inh_of tbl) rt (fst ps) x) idents) (r_all rt), stable).

Definition spec_lookups (bi idents : list ident) (st : sscope) : list (list binding) :=
  map (fun ps => map (fun x => spec_resolve bi st (fst ps) x) idents) (s_all_from [] st).

Definition model_lines (lay : list lineinfo) (rt : rscope) : list path :=
  map (fun i => rope_scope_for_line lay rt (N.of_nat (S i))) (seq 0 (length lay)).

(* result codes
     0  agree
     1 2 3    MODEL vs rope: scope tree / end lines / names
     4        MODEL vs rope: lookups          5  MODEL vs rope: scope for a line
     9        outside the model's domain (cyclic superclass relation): not compared
     11 12 13 SPEC vs CPython: scope tree / end lines / names      14  SPEC vs CPython: lookups
     21 23 24 inside the theorems' domain but MODEL and SPEC differ (tree / names / lookups)
     22 25    inside the domain of the layout theorems but MODEL and SPEC differ (end lines / scope for a line) *)
Definition run_case (c : case) : N :=
  let rt := rope_tree (c_prog c) in
  let st := spec_tree (nlines (c_layout c)) (c_prog c) in
  let bi := c_builtins c in
  let code := cmp_scopes true (model_scopes (c_layout c) rt) (c_rope_scopes c) in
  if negb (N.eqb code 0) then code
  else
    let '(ml, stable) := model_lookups bi (c_idents c) rt in
    if negb stable then 9
    else if negb (list_eqb (list_eqb binding_eqb) ml (c_rope_lookups c)) then 4
    else if negb (list_eqb path_eqb (model_lines (c_layout c) rt) (c_rope_lines c)) then 5
    else
      let code := cmp_scopes true (spec_scopes st) (c_py_scopes c) in
      if negb (N.eqb code 0) then 10 + code
      else
        let sl := spec_lookups bi (c_idents c) st in
        if negb (list_eqb (list_eqb binding_eqb) sl (c_py_lookups c)) then 14
        else if in_fragment_C15 (c_prog c) then
          (* the theorems apply: shape and names of the two trees, and every lookup outside the
             per-query exclusion, must coincide *)
          let code := cmp_scopes false (model_real_scopes rt) (spec_scopes st) in
          if negb (N.eqb code 0) then 20 + code
          else if negb (list_eqb (fun a b => list_eqb (fun u v => match u, v with
                                                                  | None, _ | _, None => true
                                                                  | Some x, Some y => binding_eqb x y
                                                                  end) a b)
                          (map (fun ps => map (fun x => if query_ok (inh_of (fst (rope_inh bi rt (c_idents c)))) rt (fst ps) x
                                                        then Some (rope_lookup bi (inh_of (fst (rope_inh bi rt (c_idents c)))) rt (fst ps) x)
                                                        else None) (c_idents c)) (r_all rt))
                          (map (map Some) sl))
               then 24
          else if ends_ok (c_layout c) rt st then
            (* the layout hypotheses of C15_scope_ends_agree / C15_scope_for_line hold: ends and line scopes coincide *)
            let ce := cmp_scopes true (model_scopes (c_layout c) rt)
                        (map (fun o => match o with (p0, k0, e0, _) => (p0, k0, e0, []) end) (spec_scopes st)) in
            if N.eqb ce 1 || N.eqb ce 2
            then 22
            else if lines_ok (c_layout c) rt
                    && negb (forallb (fun i =>
                               let l := N.of_nat (S i) in
                               li_empty (line_at (c_layout c) l)
                               || path_eqb (strip_comps rt (rope_scope_for_line (c_layout c) rt l))
                                           (spec_scope_for_line st [] l))
                             (seq 0 (length (c_layout c))))
            then 25 else 0
          else 0
        else 0.
Close Scope N_scope.

Fixpoint mismatches_from (i : N) (cs : list case) : list (N * N) :=
  match cs with
  | [] => []
  | c :: r =>
      let code := run_case c in
      if N.eqb code 0 then mismatches_from (N.succ i) r else (i, code) :: mismatches_from (N.succ i) r
  end.
Definition mismatches (cs : list case) : list (N * N) := mismatches_from 0 cs.

(* SPEC against CPython only (real-world modules whose imports and base classes resolve are outside the
   model's domain, but not outside the spec's) *)
Definition run_case_spec (c : case) : N :=
  let st := spec_tree (nlines (c_layout c)) (c_prog c) in
  let code := cmp_scopes true (spec_scopes st) (c_py_scopes c) in
  if negb (N.eqb code 0) then (10 + code)%N
  else if negb (list_eqb (list_eqb binding_eqb) (spec_lookups (c_builtins c) (c_idents c) st) (c_py_lookups c)) then 14%N
  else 0%N.
Fixpoint spec_mismatches_from (i : N) (cs : list case) : list (N * N) :=
  match cs with
  | [] => []
  | c :: r =>
      let code := run_case_spec c in
      if N.eqb code 0 then spec_mismatches_from (N.succ i) r else (i, code) :: spec_mismatches_from (N.succ i) r
  end.
Definition spec_mismatches (cs : list case) : list (N * N) := spec_mismatches_from 0 cs.

(* which cases are inside the domain of the theorems (1) or not (0), for the evidence *)
Definition in_domain (cs : list case) : list N :=
  map (fun c => if in_fragment_C15 (c_prog c) then 1%N else 0%N) cs.
(* 0 outside the fragment; 1 inside; 2 also [ends_ok]; 3 also [lines_ok] (domain of C15_scope_for_line) *)
Definition in_domains (cs : list case) : list N :=
  map (fun c =>
         let rt := rope_tree (c_prog c) in
         let st := spec_tree (nlines (c_layout c)) (c_prog c) in
         if in_fragment_C15 (c_prog c)
         then if ends_ok (c_layout c) rt st then (if lines_ok (c_layout c) rt then 3 else 2) else 1
         else 0)%N cs.
