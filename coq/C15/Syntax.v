(* PyF / PyF+ : the Python fragment the program-level properties (C15, C02, C01, C20) quantify over.

   What is here
   ------------
   * identifiers are [N] (the harness interns spellings; the interning table is part of each case);
   * every identifier *token* of the source is an [occ]: a unique occurrence id (the index of its NAME
     token in [tokenize] order, so ids and offsets are interchangeable in the harness), a kind, and the
     identifier.  Names in Load position are [KUse], in Store position [KStore], in Del position [KDel];
     the other kinds are the non-expression identifier tokens (definition names, parameters, keyword
     argument names, attribute names, import components, aliases, global / nonlocal declarations);
   * expressions [expr] (mutually with comprehension clauses [comp]) keep exactly what scoping needs:
     names, attribute access, subscripts, tuple/list displays (also used as assignment targets; [*e] is
     the one-element [ETuple]), calls (keyword arguments are [EKw] elements of the argument list, [**e]
     is a plain element), the walrus, lambda, the four comprehension forms, and [EOp] for every other
     operator / display / f-string / conditional expression, whose operands are all that matters;
   * statements [stmt] carry their line number ([lineno] of the [ast] node); definitions, lambdas and
     comprehensions also carry [end_lineno].  [SExpr] stands for every simple statement that is just a
     list of evaluated expressions (expression statement, raise, assert);
   * PyF+ (constructs on which rope is *expected to disagree* with CPython) is part of the same syntax:
     positional-only / keyword-only parameters ([PPosOnly], [PKwOnly]), [SNonlocal], [ENamed], [ELambda],
     augmented assignment, [SDel].  What is inside a theorem's domain is decided by boolean predicates
     ([Scoping.v], [RopeScopesProofs.v]), not by the syntax.
   * not representable (the translator [harness/c15_gen.py:to_gallina] returns None): match statements,
     async forms, yield / await, type aliases and type parameters, try-star.

   The translator from Python source is harness/c15_gen.py (CPython [ast] + [tokenize]; trusted parser).

   Induction principles [expr_comp_ind] (mutual, with [Forall] for the nested lists) and [stmt_ind']
   are provided because Coq's generated principles ignore the nested lists. *)
From Coq Require Import List NArith Bool.
Import ListNotations.

Notation ident := N.

Inductive okind :=
| KUse | KStore | KDel                       (* Name nodes: Load / Store / Del *)
| KDefName | KClassName | KParam | KKwArg | KAttr
| KImportMod | KImportName | KAlias | KGlobalDecl | KNonlocalDecl | KExceptName.

Inductive occ := Occ (id : N) (k : okind) (x : ident).
Definition oid (o : occ) : N := let 'Occ i _ _ := o in i.
Definition okind_of (o : occ) : okind := let 'Occ _ k _ := o in k.
Definition oname (o : occ) : ident := let 'Occ _ _ x := o in x.

Inductive ckind := CList | CSet | CDict | CGen.
Inductive pkind := PPosOnly | PArg | PVarArg | PKwOnly | PKwArg.
Inductive param := Param (k : pkind) (o : occ).
Definition pkind_of (p : param) : pkind := let 'Param k _ := p in k.
Definition pocc (p : param) : occ := let 'Param _ o := p in o.
Definition pname (p : param) : ident := oname (pocc p).

Inductive expr :=
| EName (o : occ)
| EConst
| EAttr (e : expr) (o : occ)                  (* e.attr *)
| ESub (e i : expr)                           (* e[i] *)
| ETuple (es : list expr)                     (* tuple / list display or target; starred element *)
| EOp (es : list expr)                        (* any other operator or display: operands in source order *)
| ECall (f : expr) (args : list expr)         (* keyword arguments are EKw elements *)
| EKw (o : occ) (e : expr)                    (* name=e inside a call / class keyword *)
| ENamed (o : occ) (v : expr)                 (* o := v *)
| ELambda (line stop : N) (ps : list param) (argexprs : list expr) (body : expr)
| EComp (k : ckind) (line stop : N) (elts : list expr) (gens : list comp)
with comp :=
| Comp (target iter : expr) (ifs : list expr).

Inductive handler (S : Type) :=
| Handler (line : N) (type : option expr) (name : option occ) (body : list S).
Arguments Handler {S}.

Inductive stmt :=
| SExpr (line : N) (es : list expr)           (* expression statement / raise / assert *)
| SReturn (line : N) (e : option expr)
| SAssign (line : N) (targets : list expr) (value : expr)
| SAug (line : N) (target value : expr)
| SAnn (line : N) (target ann : expr) (value : option expr)
| SDel (line : N) (targets : list expr)
| SPass (line : N)                            (* pass / break / continue *)
| SIf (line : N) (test : expr) (body orelse : list stmt)
| SWhile (line : N) (test : expr) (body orelse : list stmt)
| SFor (line : N) (target iter : expr) (body orelse : list stmt)
| SWith (line : N) (items : list (expr * option expr)) (body : list stmt)
| STry (line : N) (body : list stmt) (handlers : list (handler stmt)) (orelse final : list stmt)
| SDef (line stop : N) (decos : list expr) (name : occ) (ps : list param)
       (argexprs : list expr)                 (* annotations and defaults, in the field order of ast.arguments *)
       (returns : option expr) (body : list stmt)
| SClass (line stop : N) (decos : list expr) (name : occ) (bases : list expr) (body : list stmt)
| SImport (line : N) (names : list (list occ * option occ))        (* dotted path, alias *)
| SFrom (line : N) (level : N) (modname : list occ) (names : option (list (occ * option occ)))  (* None: star *)
| SGlobal (line : N) (names : list occ)
| SNonlocal (line : N) (names : list occ).

Definition program := list stmt.

Definition stmt_line (s : stmt) : N :=
  match s with
  | SExpr l _ | SReturn l _ | SAssign l _ _ | SAug l _ _ | SAnn l _ _ _ | SDel l _ | SPass l
  | SIf l _ _ _ | SWhile l _ _ _ | SFor l _ _ _ _ | SWith l _ _ | STry l _ _ _ _
  | SDef l _ _ _ _ _ _ _ | SClass l _ _ _ _ _ | SImport l _ | SFrom l _ _ _ | SGlobal l _ | SNonlocal l _ => l
  end.

Definition hbody {S} (h : handler S) : list S := let 'Handler _ _ _ b := h in b.

(* ------------------------------------------------------------------ helpers shared by spec and model *)
Definition mem (x : ident) (l : list ident) : bool := existsb (N.eqb x) l.
Definition opt_list {A} (o : option A) : list A := match o with Some a => [a] | None => [] end.

(* names in Store position of an assignment / for / with / comprehension target: Name, and the elements
   of tuple / list / starred targets; attribute and subscript targets bind nothing *)
Fixpoint target_names (e : expr) : list ident :=
  match e with
  | EName o => [oname o]
  | ETuple es => flat_map target_names es
  | _ => []
  end.

(* ------------------------------------------------------------------ induction principles *)
Section ExprInd.
  Variable P : expr -> Prop.
  Variable Q : comp -> Prop.
  Hypothesis HName : forall o, P (EName o).
  Hypothesis HConst : P EConst.
  Hypothesis HAttr : forall e o, P e -> P (EAttr e o).
  Hypothesis HSub : forall e i, P e -> P i -> P (ESub e i).
  Hypothesis HTuple : forall es, Forall P es -> P (ETuple es).
  Hypothesis HOp : forall es, Forall P es -> P (EOp es).
  Hypothesis HCall : forall f args, P f -> Forall P args -> P (ECall f args).
  Hypothesis HKw : forall o e, P e -> P (EKw o e).
  Hypothesis HNamed : forall o v, P v -> P (ENamed o v).
  Hypothesis HLambda : forall l s ps ae b, Forall P ae -> P b -> P (ELambda l s ps ae b).
  Hypothesis HComp : forall k l s elts gens, Forall P elts -> Forall Q gens -> P (EComp k l s elts gens).
  Hypothesis HC : forall t i ifs, P t -> P i -> Forall P ifs -> Q (Comp t i ifs).

  Fixpoint expr_ind' (e : expr) : P e :=
    let all := fix all (l : list expr) : Forall P l :=
      match l with [] => Forall_nil _ | x :: r => Forall_cons _ (expr_ind' x) (all r) end in
    let allc := fix allc (l : list comp) : Forall Q l :=
      match l with [] => Forall_nil _ | x :: r => Forall_cons _ (comp_ind' x) (allc r) end in
    match e with
    | EName o => HName o
    | EConst => HConst
    | EAttr e o => HAttr e o (expr_ind' e)
    | ESub e i => HSub e i (expr_ind' e) (expr_ind' i)
    | ETuple es => HTuple es (all es)
    | EOp es => HOp es (all es)
    | ECall f args => HCall f args (expr_ind' f) (all args)
    | EKw o e => HKw o e (expr_ind' e)
    | ENamed o v => HNamed o v (expr_ind' v)
    | ELambda l s ps ae b => HLambda l s ps ae b (all ae) (expr_ind' b)
    | EComp k l s elts gens => HComp k l s elts gens (all elts) (allc gens)
    end
  with comp_ind' (c : comp) : Q c :=
    let all := fix all (l : list expr) : Forall P l :=
      match l with [] => Forall_nil _ | x :: r => Forall_cons _ (expr_ind' x) (all r) end in
    match c with
    | Comp t i ifs => HC t i ifs (expr_ind' t) (expr_ind' i) (all ifs)
    end.

  Lemma expr_comp_ind : (forall e, P e) /\ (forall c, Q c).
  Proof. split; [exact expr_ind' | exact comp_ind']. Qed.
End ExprInd.

Section StmtInd.
  Variable P : stmt -> Prop.
  Definition HP (h : handler stmt) : Prop := Forall P (hbody h).
  Hypothesis HExpr : forall l es, P (SExpr l es).
  Hypothesis HReturn : forall l e, P (SReturn l e).
  Hypothesis HAssign : forall l ts v, P (SAssign l ts v).
  Hypothesis HAug : forall l t v, P (SAug l t v).
  Hypothesis HAnn : forall l t a v, P (SAnn l t a v).
  Hypothesis HDel : forall l ts, P (SDel l ts).
  Hypothesis HPass : forall l, P (SPass l).
  Hypothesis HIf : forall l t b o, Forall P b -> Forall P o -> P (SIf l t b o).
  Hypothesis HWhile : forall l t b o, Forall P b -> Forall P o -> P (SWhile l t b o).
  Hypothesis HFor : forall l t i b o, Forall P b -> Forall P o -> P (SFor l t i b o).
  Hypothesis HWith : forall l items b, Forall P b -> P (SWith l items b).
  Hypothesis HTry : forall l b hs o f, Forall P b -> Forall HP hs -> Forall P o -> Forall P f -> P (STry l b hs o f).
  Hypothesis HDef : forall l s d n ps ae r b, Forall P b -> P (SDef l s d n ps ae r b).
  Hypothesis HClass : forall l s d n bs b, Forall P b -> P (SClass l s d n bs b).
  Hypothesis HImport : forall l ns, P (SImport l ns).
  Hypothesis HFrom : forall l lv m ns, P (SFrom l lv m ns).
  Hypothesis HGlobal : forall l ns, P (SGlobal l ns).
  Hypothesis HNonlocal : forall l ns, P (SNonlocal l ns).

  Fixpoint stmt_ind' (s : stmt) : P s :=
    let all := fix all (l : list stmt) : Forall P l :=
      match l with [] => Forall_nil _ | x :: r => Forall_cons _ (stmt_ind' x) (all r) end in
    let allh := fix allh (l : list (handler stmt)) : Forall HP l :=
      match l with
      | [] => Forall_nil _
      | h :: r => Forall_cons _ (match h return HP h with Handler _ _ _ b => all b end) (allh r)
      end in
    match s with
    | SExpr l es => HExpr l es
    | SReturn l e => HReturn l e
    | SAssign l ts v => HAssign l ts v
    | SAug l t v => HAug l t v
    | SAnn l t a v => HAnn l t a v
    | SDel l ts => HDel l ts
    | SPass l => HPass l
    | SIf l t b o => HIf l t b o (all b) (all o)
    | SWhile l t b o => HWhile l t b o (all b) (all o)
    | SFor l t i b o => HFor l t i b o (all b) (all o)
    | SWith l items b => HWith l items b (all b)
    | STry l b hs o f => HTry l b hs o f (all b) (allh hs) (all o) (all f)
    | SDef l s d n ps ae r b => HDef l s d n ps ae r b (all b)
    | SClass l s d n bs b => HClass l s d n bs b (all b)
    | SImport l ns => HImport l ns
    | SFrom l lv m ns => HFrom l lv m ns
    | SGlobal l ns => HGlobal l ns
    | SNonlocal l ns => HNonlocal l ns
    end.
End StmtInd.
