(* MODEL of rope's scope construction and name lookup, written handler for handler after
     rope/base/pyobjectsdef.py  _ExpressionVisitor, _AssignVisitor, _AnnAssignVisitor, _ScopeVisitor,
                                _ComprehensionVisitor, _ClassVisitor, _ClassInitVisitor, _FunctionVisitor,
                                PyFunction.get_param_names / get_parameters, PyClass._get_bases /
                                _create_concluded_attributes
     rope/base/pyobjects.py     PyDefinedObject._create_structural_attributes / get_attributes
     rope/base/nameanalyze.py   get_name_levels
     rope/base/pyscopes.py      Scope.lookup / _propagated_lookup, GlobalScope.get_names, ClassScope,
                                FunctionScope._visit_function, ComprehensionScope._visit_comprehension,
                                _HoldingScopeFinder.find_scope_end / get_holding_scope, Scope.get_end
   Quirks are kept: what a visitor has no handler for falls through [generic_visit] (children are visited
   with the same visitor); what a handler does not descend into is not visited at all ([_AugAssign] is
   [pass], [_For] skips the iterable, [_With] the context expressions, [_excepthandler] the type,
   [_AnnAssignVisitor] the value, [_FunctionVisitor._Return] the returned expression, [_comprehension] the
   conditions); there is no [_Nonlocal], [_Delete], [_Lambda]; parameters are [args.args + vararg + kwarg].

   A scope's [names] dictionary is modelled as the list of *events* (name, kind) in the order the visitor
   performs them; [entry] replays the dictionary discipline ([_assigned] and the self-attribute handler
   only insert when they may, everything else overwrites).

   Only binding identity is modelled (which scope owns the PyName a lookup returns), not type inference.
   The one place where rope's lookup depends on inference is the list of superclasses of a class; the
   model resolves a base that is a plain Name bound by a class statement, and treats every other base as
   unresolvable (the harness keeps the correspondence inside that domain). *)
From Coq Require Import List NArith Bool PeanoNat.
From RopeVerif.C15 Require Import Syntax Scoping.
Import ListNotations.

Inductive nkind :=
| NAssigned                  (* _assigned: AssignedName, inserted only if the name has no non-assigned entry *)
| NDefFun | NDefClass        (* DefinedName / EvaluatedName *)
| NImport                    (* ImportedModule / ImportedName *)
| NGlobal (in_module : bool) (* _Global: the module's own PyName (true) or a fresh AssignedName (false) *)
| NParam                     (* ParameterName, added after the visit *)
| NSelfAttr                  (* _ClassInitVisitor._Attribute: only if not already present *)
| NCompTarget.               (* _ComprehensionVisitor._Name in Store context *)

Definition weak (k : nkind) : bool := match k with NAssigned | NSelfAttr => true | _ => false end.
Notation events := (list (ident * nkind)).
Definition assigned (xs : list ident) : events := map (fun x => (x, NAssigned)) xs.

Inductive rscope :=
| RScope (k : skind) (name : option ident)
         (start bfirst blast : N)          (* lineno of the node, of body[0], of body[-1] *)
         (evs : events)
         (bases : list (option ident))     (* class bases: Some a for a plain Name, None otherwise *)
         (children : list rscope).         (* the [defineds] list *)
Definition rk (s : rscope) := let 'RScope k _ _ _ _ _ _ _ := s in k.
Definition rname (s : rscope) := let 'RScope _ n _ _ _ _ _ _ := s in n.
Definition rstart (s : rscope) := let 'RScope _ _ a _ _ _ _ _ := s in a.
Definition rbfirst (s : rscope) := let 'RScope _ _ _ a _ _ _ _ := s in a.
Definition rblast (s : rscope) := let 'RScope _ _ _ _ a _ _ _ := s in a.
Definition revs (s : rscope) := let 'RScope _ _ _ _ _ e _ _ := s in e.
Definition rbases (s : rscope) := let 'RScope _ _ _ _ _ _ b _ := s in b.
Definition rchildren (s : rscope) := let 'RScope _ _ _ _ _ _ _ c := s in c.

(* ------------------------------------------------------------------ _ExpressionVisitor *)
(* names assigned through [_NamedExpr]; comprehensions are not entered, lambdas are (generic_visit) *)
Fixpoint rx_names (e : expr) : events :=
  match e with
  | EName _ | EConst => []
  | EAttr e _ => rx_names e
  | ESub e i => rx_names e ++ rx_names i
  | ETuple es | EOp es => flat_map rx_names es
  | ECall f args => rx_names f ++ flat_map rx_names args
  | EKw _ e => rx_names e
  | ENamed o v => (oname o, NAssigned) :: rx_names v
  | ELambda _ _ _ ae body => flat_map rx_names ae ++ rx_names body
  | EComp _ _ _ _ _ => []
  end.

Definition comp_target_events (t : expr) : events :=
  map (fun x => (x, NCompTarget)) (target_names t).

(* _ComprehensionVisitor._comprehension: visit(target) (Store names), visit(iter) *)
Definition cg_names (c : comp) : events :=
  match c with Comp t i _ => comp_target_events t ++ rx_names t ++ rx_names i end.

(* [defineds] appended while visiting an expression: one PyComprehension per comprehension met;
   its scope is built by [_ComprehensionVisitor] over the children of the node: the element(s), then
   for each generator the target and the iterable (conditions are not visited) *)
Fixpoint rx_scopes (e : expr) : list rscope :=
  match e with
  | EName _ | EConst => []
  | EAttr e _ => rx_scopes e
  | ESub e i => rx_scopes e ++ rx_scopes i
  | ETuple es | EOp es => flat_map rx_scopes es
  | ECall f args => rx_scopes f ++ flat_map rx_scopes args
  | EKw _ e => rx_scopes e
  | ENamed _ v => rx_scopes v
  | ELambda _ _ _ ae body => flat_map rx_scopes ae ++ rx_scopes body
  | EComp _ l _ elts gens =>
      [RScope KComp None l l l
              (flat_map rx_names elts ++ flat_map cg_names gens)
              []
              (flat_map rx_scopes elts ++ flat_map cg_scopes gens)]
  end
with cg_scopes (c : comp) : list rscope :=
  match c with Comp t i _ => rx_scopes t ++ rx_scopes i end.

Definition orx_names (o : option expr) : events := match o with Some e => rx_names e | None => [] end.
Definition orx_scopes (o : option expr) : list rscope := match o with Some e => rx_scopes e | None => [] end.

(* ------------------------------------------------------------------ _ClassInitVisitor *)
(* targets [self.attr] (directly, or inside tuple / list targets) *)
Fixpoint self_attrs (self : ident) (t : expr) : list ident :=
  match t with
  | EAttr (EName o) a => if N.eqb (oname o) self then [oname a] else []
  | ETuple es => flat_map (self_attrs self) es
  | _ => []
  end.
Definition self_events (self : ident) (t : expr) : events :=
  map (fun x => (x, NSelfAttr)) (self_attrs self t).

(* visiting the body of a method with _ClassInitVisitor: events and defineds added to the CLASS.
   [_Assign] (inherited from _AssignVisitor) visits the targets, then visits the value with a fresh
   _ExpressionVisitor whose scope_visitor is the class visitor; [_For], [_With], [_FunctionDef],
   [_ClassDef] are [pass]; other compound statements are entered by generic_visit *)
Fixpoint ci_names (self : ident) (s : stmt) : events :=
  match s with
  | SAssign _ ts v => flat_map (self_events self) ts ++ rx_names v
  | SAug _ t _ => self_events self t
  | SAnn _ t _ _ => self_events self t
  | SIf _ _ b o | SWhile _ _ b o => flat_map (ci_names self) b ++ flat_map (ci_names self) o
  | STry _ b hs o f =>
      flat_map (ci_names self) b
      ++ flat_map (fun h => match h with Handler _ _ _ hb => flat_map (ci_names self) hb end) hs
      ++ flat_map (ci_names self) o ++ flat_map (ci_names self) f
  | _ => []
  end.
Fixpoint ci_scopes (s : stmt) : list rscope :=
  match s with
  | SAssign _ _ v => rx_scopes v
  | SIf _ _ b o | SWhile _ _ b o => flat_map ci_scopes b ++ flat_map ci_scopes o
  | STry _ b hs o f =>
      flat_map ci_scopes b
      ++ flat_map (fun h => match h with Handler _ _ _ hb => flat_map ci_scopes hb end) hs
      ++ flat_map ci_scopes o ++ flat_map ci_scopes f
  | _ => []
  end.

(* node.args.args[0] *)
Fixpoint first_arg (ps : list param) : option ident :=
  match ps with
  | [] => None
  | Param PArg o :: _ => Some (oname o)
  | _ :: r => first_arg r
  end.

(* ------------------------------------------------------------------ parameters *)
(* PyFunction.get_param_names: arguments.args, then vararg, then kwarg *)
Definition rope_param_names (ps : list param) : list ident :=
  map pname (filter (fun p => match pkind_of p with PArg => true | _ => false end) ps)
  ++ map pname (filter (fun p => match pkind_of p with PVarArg => true | _ => false end) ps)
  ++ map pname (filter (fun p => match pkind_of p with PKwArg => true | _ => false end) ps).
Definition param_events (ps : list param) : events := map (fun x => (x, NParam)) (rope_param_names ps).

(* ------------------------------------------------------------------ _ScopeVisitor *)
Definition import_events (n : list occ * option occ) : events :=
  match n with
  | (_, Some a) => [(oname a, NImport)]
  | (o :: _, None) => [(oname o, NImport)]
  | ([], None) => []
  end.
Definition from_events (n : occ * option occ) : ident * nkind :=
  match n with (_, Some a) => (oname a, NImport) | (o, None) => (oname o, NImport) end.
Definition item_events (it : expr * option expr) : events :=
  match it with (_, Some v) => assigned (target_names v) | (_, None) => [] end.

Definition last_line (dflt : N) (b : list stmt) : N := stmt_line (last b (SPass dflt)).
Definition first_line (dflt : N) (b : list stmt) : N := match b with s :: _ => stmt_line s | [] => dflt end.
Definition base_name (e : expr) : option ident := match e with EName o => Some (oname o) | _ => None end.
Definition is_kw (e : expr) : bool := match e with EKw _ _ => true | _ => false end.

Section Visit.
  Variable mn : list ident.     (* keys of the module's attributes, consulted by _Global *)

  (* [cls] = the visitor is a _ClassVisitor *)
  Fixpoint rs_names (cls : bool) (s : stmt) : events :=
    match s with
    | SExpr _ es => flat_map rx_names es
    | SReturn _ _ => []
    | SAssign _ ts v => assigned (flat_map target_names ts) ++ rx_names v
    | SAug _ _ _ => []
    | SAnn _ t _ _ => assigned (target_names t)
    | SDel _ ts => flat_map rx_names ts
    | SPass _ => []
    | SIf _ t b o | SWhile _ t b o => rx_names t ++ flat_map (rs_names cls) b ++ flat_map (rs_names cls) o
    | SFor _ t _ b o => assigned (target_names t) ++ flat_map (rs_names cls) b ++ flat_map (rs_names cls) o
    | SWith _ items b => flat_map item_events items ++ flat_map (rs_names cls) b
    | STry _ b hs o f =>
        flat_map (rs_names cls) b
        ++ flat_map (fun h => match h with
                              | Handler _ _ nm hb => assigned (map oname (opt_list nm)) ++ flat_map (rs_names cls) hb
                              end) hs
        ++ flat_map (rs_names cls) o ++ flat_map (rs_names cls) f
    | SDef _ _ _ n ps _ _ body =>
        (oname n, NDefFun)
        :: (if cls then match first_arg ps with
                        | Some self => flat_map (ci_names self) body
                        | None => []
                        end
            else [])
    | SClass _ _ _ n _ _ => [(oname n, NDefClass)]
    | SImport _ ns => flat_map import_events ns
    | SFrom _ _ _ (Some ns) => map from_events ns
    | SFrom _ _ _ None => []
    | SGlobal _ ns => map (fun o => (oname o, NGlobal (mem (oname o) mn))) ns
    | SNonlocal _ _ => []
    end.

  Fixpoint rs_scopes (cls : bool) (s : stmt) : list rscope :=
    match s with
    | SExpr _ es => flat_map rx_scopes es
    | SReturn _ _ => []
    | SAssign _ _ v => rx_scopes v
    | SAug _ _ _ => []
    | SAnn _ _ _ _ => []
    | SDel _ ts => flat_map rx_scopes ts
    | SPass _ => []
    | SIf _ t b o | SWhile _ t b o => rx_scopes t ++ flat_map (rs_scopes cls) b ++ flat_map (rs_scopes cls) o
    | SFor _ _ _ b o => flat_map (rs_scopes cls) b ++ flat_map (rs_scopes cls) o
    | SWith _ _ b => flat_map (rs_scopes cls) b
    | STry _ b hs o f =>
        flat_map (rs_scopes cls) b
        ++ flat_map (fun h => match h with Handler _ _ _ hb => flat_map (rs_scopes cls) hb end) hs
        ++ flat_map (rs_scopes cls) o ++ flat_map (rs_scopes cls) f
    | SDef l _ d n ps ae r body =>
        (* FunctionScope._visit_function: children of the FunctionDef node in field order
           args, body, decorator_list, returns; then names.update(get_parameters()) *)
        RScope KFunction (Some (oname n)) l (first_line l body) (last_line l body)
               (flat_map rx_names ae ++ flat_map (rs_names false) body ++ flat_map rx_names d ++ orx_names r
                ++ param_events ps)
               []
               (flat_map rx_scopes ae ++ flat_map (rs_scopes false) body ++ flat_map rx_scopes d ++ orx_scopes r)
        :: (if cls then match first_arg ps with
                        | Some _ => flat_map ci_scopes body
                        | None => []
                        end
            else [])
    | SClass l _ d n bs body =>
        (* _ClassVisitor over the children of the ClassDef node: bases, keywords, body, decorator_list *)
        [RScope KClass (Some (oname n)) l (first_line l body) (last_line l body)
                (flat_map rx_names bs ++ flat_map (rs_names true) body ++ flat_map rx_names d)
                (map base_name (filter (fun e => negb (is_kw e)) bs))
                (flat_map rx_scopes bs ++ flat_map (rs_scopes true) body ++ flat_map rx_scopes d)]
    | SImport _ _ | SFrom _ _ _ _ | SGlobal _ _ | SNonlocal _ _ => []
    end.
End Visit.

Definition keys (e : events) : list ident := map fst e.

(* the module: its own visitor runs before its attributes exist ([module[name]] inside a module-level
   [global] statement re-enters the computation, which yields no names), nested scopes are computed
   lazily afterwards *)
Definition rope_tree (p : program) : rscope :=
  let evs := flat_map (rs_names [] false) p in
  RScope KModule None 1 (first_line 1 p) (last_line 1 p) evs [] (flat_map (rs_scopes (keys evs) false) p).

(* ------------------------------------------------------------------ the names dictionary *)
Fixpoint entry_from (cur : option nkind) (evs : events) (x : ident) : option nkind :=
  match evs with
  | [] => cur
  | (y, k) :: r =>
      if N.eqb y x
      then entry_from (if weak k then match cur with Some c => Some c | None => Some k end else Some k) r x
      else entry_from cur r x
  end.
Definition entry (evs : events) (x : ident) : option nkind := entry_from None evs x.

(* which scope owns the PyName stored under an entry of the scope at path [p] *)
Definition own_binding (p : path) (k : nkind) : binding :=
  match k with NGlobal true => BScope [] | _ => BScope p end.

(* ------------------------------------------------------------------ paths *)
Fixpoint rchain_from (t : rscope) (pre p : path) (acc : list (path * rscope)) : option (list (path * rscope)) :=
  match p with
  | [] => Some ((pre, t) :: acc)
  | i :: r =>
      match nth_error (rchildren t) i with
      | Some c => rchain_from c (pre ++ [i]) r ((pre, t) :: acc)
      | None => None
      end
  end.
Definition rchain (t : rscope) (p : path) : option (list (path * rscope)) := rchain_from t [] p [].

(* ------------------------------------------------------------------ lookup *)
Section Lookup.
  Variable bi : list ident.                              (* builtins *)
  Variable inh : path -> ident -> option binding.        (* concluded (inherited) attributes of the class at a path *)

  (* [name in scope.get_names()] for the innermost scope of the chain:
     Function: visitor names + parameters; Class: concluded attributes updated with structural ones;
     Module: builtins updated with the module's attributes; Comprehension: dict(parent.get_names())
     updated with its own *)
  Fixpoint gnames (ch : list (path * rscope)) (x : ident) : option binding :=
    match ch with
    | [] => None
    | (p, s) :: outer =>
        match entry (revs s) x with
        | Some k => Some (own_binding p k)
        | None =>
            match rk s with
            | KComp => gnames outer x
            | KModule => if mem x bi then Some BBuiltin else None
            | KClass => inh p x
            | _ => None
            end
        end
    end.

  (* Scope._propagated_lookup: ClassScope.get_propagated_names() is {} *)
  Fixpoint propagated (ch : list (path * rscope)) (x : ident) : binding :=
    match ch with
    | [] => BNone
    | (p, s) :: outer =>
        if is_class (rk s) then propagated outer x
        else match gnames ch x with
             | Some b => b
             | None => propagated outer x
             end
    end.

  (* Scope.lookup *)
  Definition lookup_chain (ch : list (path * rscope)) (x : ident) : binding :=
    match ch with
    | [] => BNone
    | _ :: outer =>
        match gnames ch x with
        | Some b => b
        | None => propagated outer x
        end
    end.
End Lookup.

Definition rope_lookup (bi : list ident) (inh : path -> ident -> option binding)
           (t : rscope) (p : path) (x : ident) : binding :=
  match rchain t p with
  | Some ch => lookup_chain bi inh ch x
  | None => BNone
  end.

(* ------------------------------------------------------------------ inherited attributes *)
Fixpoint path_eqb (p q : path) : bool :=
  match p, q with
  | [], [] => true
  | i :: p', j :: q' => Nat.eqb i j && path_eqb p' q'
  | _, _ => false
  end.
Definition binding_eqb (a b : binding) : bool :=
  match a, b with
  | BScope p, BScope q => path_eqb p q
  | BBuiltin, BBuiltin | BNone, BNone => true
  | _, _ => false
  end.

Fixpoint r_all_from (pre : path) (t : rscope) : list (path * rscope) :=
  (pre, t) ::
  (fix go (i : nat) (cs : list rscope) : list (path * rscope) :=
     match cs with
     | [] => []
     | c :: r => r_all_from (pre ++ [i]) c ++ go (S i) r
     end) 0%nat (rchildren t).
Definition r_all (t : rscope) : list (path * rscope) := r_all_from [] t.

(* index of the last child that is a class named [a] *)
Definition last_class_child (cs : list rscope) (a : ident) : option nat :=
  (fix go (i : nat) (cs : list rscope) (found : option nat) : option nat :=
     match cs with
     | [] => found
     | c :: r =>
         go (S i) r (if is_class (rk c) && match rname c with Some n => N.eqb n a | None => false end
                     then Some i else found)
     end) 0%nat cs None.

Definition scope_at (t : rscope) (p : path) : option rscope :=
  match rchain t p with Some ((_, s) :: _) => Some s | _ => None end.

Notation inh_table := (list (path * ident * binding)).
Definition inh_of (tbl : inh_table) (q : path) (x : ident) : option binding :=
  match find (fun e => path_eqb (fst (fst e)) q && N.eqb (snd (fst e)) x) tbl with
  | Some (_, b) => Some b
  | None => None
  end.

Section Inherit.
  Variable bi : list ident.
  Variable t : rscope.
  Variable idents : list ident.   (* the identifiers of the case *)

  (* PyClass._get_bases with the superclasses' attributes taken from the previous approximation:
     a base Name is looked up from the scope of the class's parent; it denotes a class when the entry
     it resolves to was made by a class statement *)
  Definition super_of (tbl : inh_table) (q : path) (a : ident) : option path :=
    match rope_lookup bi (inh_of tbl) t (removelast q) a with
    | BScope o =>
        match scope_at t o with
        | Some so =>
            match entry (revs so) a with
            | Some NDefClass =>
                match last_class_child (rchildren so) a with
                | Some j => Some (o ++ [j])
                | None => None
                end
            | _ => None
            end
        | None => None
        end
    | _ => None
    end.

  (* base.get_attributes()[x] : structural first, then concluded *)
  Definition class_attr (tbl : inh_table) (q : path) (x : ident) : option binding :=
    match scope_at t q with
    | Some s =>
        match entry (revs s) x with
        | Some k => Some (own_binding q k)
        | None => inh_of tbl q x
        end
    | None => None
    end.

  (* for base in reversed(superclasses): result.update(base.get_attributes())  -- the first base wins *)
  Definition inh_step (tbl : inh_table) : inh_table :=
    flat_map (fun ps =>
      let '(q, s) := ps in
      if is_class (rk s) then
        let supers := flat_map (fun b => match b with
                                         | Some a => opt_list (super_of tbl q a)
                                         | None => []
                                         end) (rbases s) in
        flat_map (fun x =>
          match flat_map (fun sp => opt_list (class_attr tbl sp x)) supers with
          | b :: _ => [(q, x, b)]
          | [] => []
          end) idents
      else []) (r_all t).

  Fixpoint inh_iter (n : nat) : inh_table :=
    match n with O => [] | S k => inh_step (inh_iter k) end.

  Definition inh_table_eqb (a b : inh_table) : bool :=
    (fix go (a b : inh_table) : bool :=
       match a, b with
       | [], [] => true
       | (p, x, u) :: a', (q, y, v) :: b' => path_eqb p q && N.eqb x y && binding_eqb u v && go a' b'
       | _, _ => false
       end) a b.
End Inherit.

(* the table after as many rounds as there are scopes, and whether it is a fixed point
   (it is not when the superclass relation is cyclic; rope then depends on evaluation order) *)
Definition rope_inh (bi : list ident) (t : rscope) (idents : list ident) : inh_table * bool :=
  let n := length (r_all t) in
  let tbl := inh_iter bi t idents n in
  (tbl, inh_table_eqb tbl (inh_step bi t idents tbl)).

(* ------------------------------------------------------------------ extents *)
(* one record per physical line (index 0 = line 1): indentation (count_line_indents), whether the line is
   blank or a comment (_is_empty_line), whether a logical line starts / ends on it
   (CachingLogicalLineFinder.starts / ends) *)
Record lineinfo := LI { li_indent : N; li_empty : bool; li_start : bool; li_end : bool }.
Definition li_default := LI 0 true false false.
Definition line_at (lay : list lineinfo) (l : N) : lineinfo :=
  match l with
  | N0 => li_default
  | _ => nth (N.to_nat (N.pred l)) lay li_default
  end.

Section Extents.
  Variable lay : list lineinfo.
  Definition nlines : N := N.of_nat (length lay).
  Definition indents (l : N) : N := li_indent (line_at lay l).

  (* CachingLogicalLineFinder.logical_line_in: walk back to a start, then forward to an end *)
  Fixpoint back_to_start (fuel : nat) (l : N) : N :=
    match fuel with
    | O => 0
    | S f => if N.eqb l 0 then 0 else if li_start (line_at lay l) then l else back_to_start f (N.pred l)
    end.
  Fixpoint fwd_to (test : lineinfo -> bool) (fuel : nat) (l : N) : option N :=
    match fuel with
    | O => None
    | S f => if N.ltb nlines l then None else if test (line_at lay l) then Some l else fwd_to test f (N.succ l)
    end.
  Definition logical_line_in (l : N) : N * N :=
    let fuel := S (length lay) in
    let s := back_to_start fuel l in
    match (if N.eqb s 0 then fwd_to li_start fuel l else Some s) with
    | None => (l, l)
    | Some s' => match fwd_to li_end fuel s' with Some e => (s', e) | None => (s', s') end
    end.

  (* the loop of find_scope_end over generate_starts(from, nlines + 1) *)
  Fixpoint scan_end (fuel : nat) (l : N) (body_indents : N) (e : N) : N :=
    match fuel with
    | O => e
    | S f =>
        if N.ltb nlines l then e
        else
          let li := line_at lay l in
          if li_start li && negb (li_empty li)
          then if N.ltb (li_indent li) body_indents then e else scan_end f (N.succ l) body_indents l
          else scan_end f (N.succ l) body_indents e
    end.

  Definition find_scope_end (s : rscope) : N :=
    match rk s with
    | KModule => nlines
    | KComp => rstart s
    | _ =>
        let e := rblast s in
        let body_indents :=
          if N.leb e (snd (logical_line_in (rstart s))) then (indents (rstart s) + 4)%N
          else indents (rbfirst s) in
        scan_end (S (length lay)) (N.min (e + 1)%N nlines) body_indents e
    end.

  (* Scope.get_end *)
  Definition rope_end (s : rscope) : N := snd (logical_line_in (find_scope_end s)).
  Definition rope_start (s : rscope) : N := match rk s with KModule => 1 | _ => rstart s end.

  (* _HoldingScopeFinder.get_holding_scope(module_scope, lineno) with line_indents = indents(lineno) *)
  Fixpoint holding (s : rscope) (pre : path) (l : N) : path :=
    if negb (skind_eqb (rk s) KModule) && N.eqb (rope_start s) l then pre
    else
      let fix pick (i : nat) (cs : list rscope) : option path :=
        match cs with
        | [] => None
        | c :: r =>
            if N.leb (rope_start c) l
            then if N.leb l (rope_end c)
                 then (if N.leb (indents (rope_start c)) (indents l)
                       then Some (holding c (pre ++ [i]) l) else Some pre)
                 else pick (S i) r
            else None
        end in
      match pick 0%nat (rchildren s) with
      | Some p => p
      | None => pre
      end.
  Definition rope_scope_for_line (t : rscope) (l : N) : path := holding t [] l.
End Extents.
