(* Part 4 of the proofs: what is proved about line extents.  The END line of a scope is computed by rope from
   indentation ([find_scope_end]); that it equals [end_lineno] is established per case by the correspondence
   and the oracle, not by a theorem.  Proved here, for every layout and every tree:
     - [holding_sound]   the scope rope reports for a line ([get_holding_scope]) is reached through scopes
                         whose own extent [get_start .. get_end] contains the line (soundness with respect to
                         rope's extents), and the reported path is a valid path of the tree;
     - [scan_end_ge], [find_scope_end_ge]   the computed end is never before the last statement of the body. *)
From Coq Require Import List NArith Bool PeanoNat Lia.
From RopeVerif.C15 Require Import Syntax Scoping RopeScopes.
Import ListNotations.

Section RInd.
  Variable P : rscope -> Prop.
  Hypothesis H : forall k name st bf bl evs bases cs, Forall P cs -> P (RScope k name st bf bl evs bases cs).
  Fixpoint rscope_ind' (s : rscope) : P s :=
    match s with
    | RScope k name st bf bl evs bases cs =>
        H k name st bf bl evs bases cs
          ((fix all (l : list rscope) : Forall P l :=
              match l with [] => Forall_nil _ | x :: r => Forall_cons _ (rscope_ind' x) (all r) end) cs)
    end.
End RInd.

Section Sound.
  Variable lay : list lineinfo.

  Definition contains (s : rscope) (l : N) : Prop :=
    (rope_start s <= l)%N /\ (l <= rope_end lay s)%N.

  (* [q] is a path below [s] all of whose scopes contain line [l] *)
  Inductive below (l : N) : rscope -> path -> Prop :=
  | B_here s : below l s []
  | B_down s i c q : nth_error (rchildren s) i = Some c -> contains c l -> below l c q -> below l s (i :: q).

  Lemma pick_sound l pre (hold : rscope -> path -> path) cs :
    Forall (fun c => forall pre, exists q, hold c pre = pre ++ q /\ below l c q) cs ->
    forall i0,
    match (fix pick (i : nat) (cs : list rscope) : option path :=
             match cs with
             | [] => None
             | c :: r =>
                 if N.leb (rope_start c) l
                 then if N.leb l (rope_end lay c)
                      then (if N.leb (indents lay (rope_start c)) (indents lay l)
                            then Some (hold c (pre ++ [i])) else Some pre)
                      else pick (S i) r
                 else None
             end) i0 cs with
    | None => True
    | Some p => p = pre \/ exists j c q, nth_error cs j = Some c /\ contains c l /\ below l c q
                                         /\ p = pre ++ (i0 + j)%nat :: q
    end.
  Proof.
    induction 1 as [|c r Hc _ IH]; intros i0; [exact I|].
    destruct (N.leb (rope_start c) l) eqn:E1; [|exact I].
    destruct (N.leb l (rope_end lay c)) eqn:E2.
    - destruct (N.leb (indents lay (rope_start c)) (indents lay l)); [|now left].
      right. destruct (Hc (pre ++ [i0])) as [q [Hq Hb]]. exists 0%nat, c, q. repeat split; auto.
      + now apply N.leb_le.
      + now apply N.leb_le.
      + rewrite Hq, <- app_assoc, Nat.add_0_r. reflexivity.
    - specialize (IH (S i0)).
      match goal with |- match ?X with _ => _ end => destruct X as [p|] end; [|exact I].
      destruct IH as [->|(j & c' & q & Hn & Hc' & Hb & ->)]; [now left|].
      right. exists (S j), c', q. split; [exact Hn|]. split; [exact Hc'|]. split; [exact Hb|]. do 2 f_equal. lia.
  Qed.

  Lemma holding_below l s : forall pre, exists q, holding lay s pre l = pre ++ q /\ below l s q.
  Proof.
    induction s using rscope_ind'. intros pre.
    cbn [holding].
    destruct (negb (skind_eqb (rk (RScope k name st bf bl evs bases cs)) KModule)
              && N.eqb (rope_start (RScope k name st bf bl evs bases cs)) l).
    - exists []. rewrite app_nil_r. split; [reflexivity | constructor].
    - pose proof (pick_sound l pre (fun c p => holding lay c p l) cs H 0%nat) as Hp.
      cbn [rchildren].
      match goal with |- exists q, match ?X with _ => _ end = _ /\ _ => destruct X as [p|] end.
      + destruct Hp as [->|(j & c & q & Hn & Hc & Hb & ->)].
        * exists []. rewrite app_nil_r. split; [reflexivity | constructor].
        * exists (j :: q). split; [reflexivity|]. econstructor; eauto.
      + exists []. rewrite app_nil_r. split; [reflexivity | constructor].
  Qed.

  (* a path below a scope is a valid path of the tree, and the chain it yields consists of containing scopes *)
  Lemma below_chain l s q : below l s q ->
    forall pre acc, exists ch, rchain_from s pre q acc = Some (ch ++ (pre, s) :: acc)
                               /\ Forall (fun ps => contains (snd ps) l) ch.
  Proof.
    induction 1 as [s | s i c q Hn Hc Hb IH]; intros pre acc.
    - exists []. split; [reflexivity | constructor].
    - cbn [rchain_from]. rewrite Hn. destruct (IH (pre ++ [i]) ((pre, s) :: acc)) as [ch [E F]].
      exists (ch ++ [(pre ++ [i], c)]). split.
      + rewrite E, <- app_assoc. reflexivity.
      + apply Forall_app. split; [exact F|]. constructor; [exact Hc | constructor].
  Qed.

  Theorem holding_sound t l :
    exists ch, rchain t (rope_scope_for_line lay t l) = Some (ch ++ [([], t)])
               /\ Forall (fun ps => contains (snd ps) l) ch.
  Proof.
    unfold rope_scope_for_line, rchain. destruct (holding_below l t []) as [q [E B]]. rewrite E. cbn [app].
    apply (below_chain l t q B [] []).
  Qed.

  (* ---------------------------------------------------------------- the end is not before the last statement *)
  Lemma scan_end_ge fuel : forall l bi e, (e <= l)%N -> (e <= scan_end lay fuel l bi e)%N.
  Proof.
    induction fuel as [|f IH]; intros l bi e Hle; cbn [scan_end]; [lia|].
    destruct (N.ltb (nlines lay) l); [lia|].
    destruct (li_start (line_at lay l) && negb (li_empty (line_at lay l))).
    - destruct (N.ltb (li_indent (line_at lay l)) bi); [lia|].
      specialize (IH (N.succ l) bi l). lia.
    - specialize (IH (N.succ l) bi e). lia.
  Qed.

  Lemma find_scope_end_ge s :
    (rk s = KFunction \/ rk s = KClass) -> (rblast s <= nlines lay)%N -> (rblast s <= find_scope_end lay s)%N.
  Proof.
    intros Hk Hn. unfold find_scope_end. destruct Hk as [-> | ->];
      (match goal with |- (_ <= scan_end _ _ ?l ?b ?e)%N => apply (scan_end_ge _ l b e) end); lia.
  Qed.
End Sound.

(* ------------------------------------------------------------------ the end line under a regular layout *)
Section EndRegular.
  Variable lay : list lineinfo.
  Local Open Scope N_scope.

  (* a logical line that is not blank / comment starts on line l *)
  Definition code_start (l : N) : bool := li_start (line_at lay l) && negb (li_empty (line_at lay l)).

  Lemma code_start_pos l : code_start l = true -> l <> 0.
  Proof. intros H ->. discriminate. Qed.

  (* the indentation walk of find_scope_end stops exactly at [stopL] when: [stopL] starts a code line, every code
     line up to it is indented at least [I], and the next code line after it (line [d], or none: d = n + 1) is
     indented less *)
  Lemma scan_end_regular I stopL d :
    code_start stopL = true -> stopL < d -> d <= nlines lay + 1 -> stopL <= nlines lay ->
    (forall l, stopL < l < d -> code_start l = false) ->
    (d <= nlines lay -> code_start d = true /\ indents lay d < I) ->
    forall fuel l e,
      (N.to_nat (nlines lay + 1 - l) < fuel)%nat ->
      l <= d ->
      (forall l', l <= l' <= stopL -> code_start l' = true -> I <= indents lay l') ->
      (l <= stopL \/ (stopL < l /\ e = stopL)) ->
      scan_end lay fuel l I e = stopL.
  Proof.
    intros Hs Hd Hdn Hsn Hgap Hded. induction fuel as [|f IH]; intros l e Hfuel Hld Hin Hinv; [lia|].
    cbn [scan_end]. destruct (N.ltb (nlines lay) l) eqn:E.
    - apply N.ltb_lt in E. destruct Hinv as [H|[_ H]]; [lia | exact H].
    - apply N.ltb_ge in E.
      change (li_start (line_at lay l) && negb (li_empty (line_at lay l))) with (code_start l).
      change (li_indent (line_at lay l)) with (indents lay l).
      destruct (code_start l) eqn:C.
      + destruct (N.le_gt_cases l stopL) as [Hl|Hl].
        * (* inside the scope *)
          assert (Hi : I <= indents lay l) by (apply Hin; [lia | exact C]).
          destruct (N.ltb (indents lay l) I) eqn:L; [apply N.ltb_lt in L; lia|].
          apply IH; [lia | lia | intros l' Hl' Hc; apply Hin; [lia | exact Hc] | lia].
        * (* the first code line after the scope: the dedent *)
          assert (l = d).
          { destruct (N.eq_dec l d) as [->|Hne]; [reflexivity|]. rewrite Hgap in C by lia. discriminate. }
          subst l. destruct (Hded E) as [_ Hlt]. apply N.ltb_lt in Hlt. rewrite Hlt.
          destruct Hinv as [H|[_ H]]; [lia | exact H].
      + assert (Hne : l <> stopL) by (intros ->; congruence).
        assert (Hld' : l < d).
        { destruct (N.eq_dec l d) as [->|Hx]; [|lia]. destruct (Hded E) as [Hc _]. congruence. }
        apply IH; [lia | lia | intros l' Hl' Hc; apply Hin; [lia | exact Hc] | lia].
  Qed.

  Lemma fwd_to_first test b : forall fuel a,
    (forall l, a <= l < b -> test (line_at lay l) = false) -> test (line_at lay b) = true ->
    b <= nlines lay -> a <= b -> (N.to_nat (b - a) < fuel)%nat ->
    fwd_to lay test fuel a = Some b.
  Proof.
    induction fuel as [|f IH]; intros a Hno Hb Hbn Hab Hf; [lia|].
    cbn [fwd_to]. destruct (N.ltb (nlines lay) a) eqn:E; [apply N.ltb_lt in E; lia|].
    destruct (N.eq_dec a b) as [->|Hne]; [now rewrite Hb|].
    rewrite Hno by lia. apply IH; auto; try lia. intros l Hl. apply Hno. lia.
  Qed.

  Lemma logical_line_in_start l stop :
    l <> 0 -> li_start (line_at lay l) = true ->
    li_end (line_at lay stop) = true -> (forall l', l <= l' < stop -> li_end (line_at lay l') = false) ->
    l <= stop -> stop <= nlines lay ->
    logical_line_in lay l = (l, stop).
  Proof.
    intros Hl Hs He Hno Hle Hn. unfold logical_line_in.
    assert (B : back_to_start lay (S (length lay)) l = l).
    { cbn [back_to_start]. destruct (N.eqb l 0) eqn:E; [apply N.eqb_eq in E; contradiction|]. now rewrite Hs. }
    rewrite B. destruct (N.eqb l 0) eqn:E; [apply N.eqb_eq in E; contradiction|].
    rewrite (fwd_to_first li_end stop (S (length lay)) l); auto.
    unfold nlines in Hn. lia.
  Qed.

  (* layout hypothesis for the scope [s]: its body starts on a later line than its header, [stopL] is the last
     code line start of the scope, [stop] the line on which that logical line ends, [d] the next code line *)
  Record regular_end (s : rscope) (stopL stop d : N) : Prop := {
    re_multi : snd (logical_line_in lay (rstart s)) < rblast s;
    re_last : rblast s <= stopL /\ stopL <= stop /\ stop <= nlines lay;
    re_code : code_start stopL = true;
    re_inside : forall l, rblast s <= l <= stopL -> code_start l = true -> indents lay (rbfirst s) <= indents lay l;
    re_next : stopL < d /\ d <= nlines lay + 1;
    re_gap : forall l, stopL < l < d -> code_start l = false;
    re_dedent : d <= nlines lay -> code_start d = true /\ indents lay d < indents lay (rbfirst s);
    re_end : li_end (line_at lay stop) = true /\ forall l, stopL <= l < stop -> li_end (line_at lay l) = false
  }.

  Theorem rope_end_regular s stopL stop d :
    (rk s = KFunction \/ rk s = KClass) ->
    regular_end s stopL stop d ->
    rope_end lay s = stop.
  Proof.
    intros Hk [Hm (H1 & H2 & H3) Hc Hin (Hd1 & Hd2) Hgap Hded (He1 & He2)].
    pose proof (code_start_pos _ Hc) as Hpos.
    assert (F : find_scope_end lay s = stopL).
    { unfold find_scope_end.
      assert (L : N.leb (rblast s) (snd (logical_line_in lay (rstart s))) = false) by (apply N.leb_gt; exact Hm).
      destruct Hk as [K|K]; rewrite K, L.
      - apply (scan_end_regular _ stopL d); auto; try lia.
        + unfold nlines in *. lia.
        + intros l' Hl' Hc'. apply Hin; [lia | exact Hc'].
      - apply (scan_end_regular _ stopL d); auto; try lia.
        + unfold nlines in *. lia.
        + intros l' Hl' Hc'. apply Hin; [lia | exact Hc']. }
    unfold rope_end. rewrite F.
    rewrite (logical_line_in_start stopL stop); auto.
    unfold code_start in Hc. apply andb_prop in Hc as [Hc _]. exact Hc.
  Qed.
End EndRegular.
