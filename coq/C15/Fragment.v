(* The domain of the C15 theorems, as boolean predicates (the harness evaluates the same predicates inside
   the case files to count how many generated cases the theorems speak about).

   [in_fragment_C15 p] holds when the module [p] uses none of the constructs on which rope's scope
   construction departs from CPython.  THE BOUNDARY, clause by clause; every clause that excludes a real
   departure names the open finding (findings.d/C15.json) whose replay is the witness of the [_refuted]
   theorem in coq/Props/C15.v, and the structural signature harness/c15.py attributes failures to:

     clause of the predicate                                   finding / refuted theorem
     --------------------------------------------------------  ------------------------------------------------
     param_ok: PKwOnly                                         C15-kwonly-param          C15_kwonly_refuted
     param_ok: PPosOnly                                        C15-posonly-param         C15_posonly_refuted
     frag_stmt SNonlocal = false                               C15-nonlocal              C15_nonlocal_refuted
     block_ok, 1st conjunct (bound only by aug. assign / del)  C15-aug-or-del-only-binding  C15_augassign_only_refuted
     block_ok, 2nd and 3rd conjunct (global name rebound by
       def/class/import, or not bound at module level)         C15-global-declaration-not-honoured  C15_global_not_honoured_refuted
     in_fragment_C15, last conjunct (global at module level)   C15-module-level-global-unbound  C15_module_level_global_refuted
     expr_ok: ELambda = false                                  C15-lambda-no-scope       C15_lambda_refuted
     expr_ok false inside comprehensions (ENamed)              C15-walrus-in-comprehension  C15_walrus_in_comprehension_refuted
     simple_expr for: return value, for target / iterable,
       with items, except type, augmented / annotated
       assignment, assignment targets, comprehension
       conditions                                              C15-unvisited-expression  C15_unvisited_expression_refuted
     simple_expr for: decorators, defaults, annotations,
       return annotation, base classes, the first iterable of
       a comprehension; ci_simple (values assigned in methods) C15-misattached-expression  C15_misattached_expression_refuted
     query_ok, class clause (inherited / instance attribute)   C15-class-inherited-attribute, C15-class-self-attribute
     query_ok, comprehension clause                            C15-comprehension-in-class
     (layout, Layout.v: comp_end_ok)                           C15-comprehension-extent  C15_comprehension_extent_refuted

   CONSERVATIVE exclusions (rope agrees with CPython there, checked with the oracle; the predicate is kept as it
   is because C02 / C01 / C20 are proved against it):
     - del targets must be [simple_expr] although rope's generic visit finds comprehensions / walrus inside
       subscripts of del targets exactly as CPython does;
     - a global statement at module level is excluded even when the module binds the name (only the unbound
       case departs);
     - a lambda is excluded wherever it occurs (rope never creates its scope, so the trees always differ).
   Constructs the syntax cannot express (match, async, yield / await, type parameters) are outside PyF.

   The lookup theorem has one more, per-query, exclusion ([query_ok]): looking up from a class body a
   name that is only an inherited or instance attribute of that class, and looking up from a comprehension
   written directly in a class body a name that is an attribute of the class. *)
From Coq Require Import List NArith Bool.
From RopeVerif.C15 Require Import Syntax Scoping RopeScopes.
Import ListNotations.

Definition oforall {A} (f : A -> bool) (o : option A) : bool := match o with Some a => f a | None => true end.

(* no comprehension, lambda or walrus anywhere inside *)
Fixpoint simple_expr (e : expr) : bool :=
  match e with
  | EName _ | EConst => true
  | EAttr e _ => simple_expr e
  | ESub e i => simple_expr e && simple_expr i
  | ETuple es | EOp es => forallb simple_expr es
  | ECall f args => simple_expr f && forallb simple_expr args
  | EKw _ e => simple_expr e
  | ENamed _ _ | ELambda _ _ _ _ _ | EComp _ _ _ _ _ => false
  end.

(* an expression in a position rope visits with the scope's own visitor; [w]: a walrus is allowed here
   (not inside a comprehension).  In a comprehension the first iterable and every condition are simple. *)
Fixpoint expr_ok (w : bool) (e : expr) : bool :=
  match e with
  | EName _ | EConst => true
  | EAttr e _ => expr_ok w e
  | ESub e i => expr_ok w e && expr_ok w i
  | ETuple es | EOp es => forallb (expr_ok w) es
  | ECall f args => expr_ok w f && forallb (expr_ok w) args
  | EKw _ e => expr_ok w e
  | ENamed _ v => w && expr_ok w v
  | ELambda _ _ _ _ _ => false
  | EComp _ _ _ elts gens =>
      forallb (expr_ok false) elts
      && match gens with
         | [] => false
         | Comp t0 i0 ifs0 :: rest =>
             expr_ok false t0 && simple_expr i0 && forallb simple_expr ifs0 && forallb gen_ok rest
         end
  end
with gen_ok (c : comp) : bool :=
  match c with Comp t i ifs => expr_ok false t && expr_ok false i && forallb simple_expr ifs end.

Definition param_ok (p : param) : bool :=
  match pkind_of p with PPosOnly | PKwOnly => false | _ => true end.

(* statements of a method body that _ClassInitVisitor reaches: assigned values must be simple *)
Fixpoint ci_simple (s : stmt) : bool :=
  match s with
  | SAssign _ _ v => simple_expr v
  | SIf _ _ b o | SWhile _ _ b o => forallb ci_simple b && forallb ci_simple o
  | STry _ b hs o f =>
      forallb ci_simple b
      && forallb (fun h => match h with Handler _ _ _ hb => forallb ci_simple hb end) hs
      && forallb ci_simple o && forallb ci_simple f
  | _ => true
  end.

Definition disjoint (a b : list ident) : bool := forallb (fun x => negb (mem x b)) a.

Section Frag.
  Variable mn : list ident.      (* names bound at module level *)

  (* conditions on one scope's block: [ps] are its parameters *)
  Definition block_ok (ps : list ident) (body : list stmt) : bool :=
    let globals := flat_map s_globals body in
    forallb (fun x => mem x (ps ++ flat_map (s_binds_gen false) body ++ globals)) (flat_map s_binds body)
    && disjoint globals (ps ++ flat_map s_defimp body)
    && forallb (fun x => mem x mn) globals.

  Fixpoint frag_stmt (cls : bool) (s : stmt) : bool :=
    match s with
    | SExpr _ es => forallb (expr_ok true) es
    | SReturn _ e => oforall simple_expr e
    | SAssign _ ts v => forallb simple_expr ts && expr_ok true v
    | SAug _ t v => simple_expr t && simple_expr v
    | SAnn _ t a v => simple_expr t && simple_expr a && oforall simple_expr v
    | SDel _ ts => forallb simple_expr ts
    | SPass _ => true
    | SIf _ t b o | SWhile _ t b o => expr_ok true t && forallb (frag_stmt cls) b && forallb (frag_stmt cls) o
    | SFor _ t i b o => simple_expr t && simple_expr i && forallb (frag_stmt cls) b && forallb (frag_stmt cls) o
    | SWith _ items b =>
        forallb (fun it => match it with (c, v) => simple_expr c && oforall simple_expr v end) items
        && forallb (frag_stmt cls) b
    | STry _ b hs o f =>
        forallb (frag_stmt cls) b
        && forallb (fun h => match h with
                             | Handler _ ty _ hb => oforall simple_expr ty && forallb (frag_stmt cls) hb
                             end) hs
        && forallb (frag_stmt cls) o && forallb (frag_stmt cls) f
    | SDef _ _ d _ ps ae r body =>
        forallb simple_expr d && forallb simple_expr ae && oforall simple_expr r
        && forallb param_ok ps
        && forallb (frag_stmt false) body
        && block_ok (map pname ps) body
        && (if cls then match first_arg ps with Some _ => forallb ci_simple body | None => true end else true)
    | SClass _ _ d _ bs body =>
        forallb simple_expr d && forallb simple_expr bs
        && forallb (frag_stmt true) body
        && block_ok [] body
    | SImport _ _ | SFrom _ _ _ _ | SGlobal _ _ => true
    | SNonlocal _ _ => false
    end.
End Frag.

Definition in_fragment_C15 (p : program) : bool :=
  let mn := flat_map s_binds p in
  forallb (frag_stmt mn false) p
  && block_ok mn [] p
  && match flat_map s_globals p with [] => true | _ => false end.

(* ------------------------------------------------------------------ per-query exclusion *)
Definition is_self (k : nkind) : bool := match k with NSelfAttr => true | _ => false end.
(* the name has an entry in the scope's table that is not only an instance attribute *)
Definition has_real (evs : events) (x : ident) : bool :=
  existsb (fun e => N.eqb (fst e) x && negb (is_self (snd e))) evs.
Definition real_names (evs : events) : list ident := filter (has_real evs) (keys evs).

Section Query.
  Variable inh : path -> ident -> option binding.

  Definition class_has (p : path) (s : rscope) (x : ident) : bool :=
    mem x (keys (revs s)) || match inh p x with Some _ => true | None => false end.

  (* from a comprehension outwards through comprehensions: is the first other scope a class that has [x]
     as an attribute, reached before a comprehension that binds [x] itself *)
  Fixpoint comp_sees_class (ch : list (path * rscope)) (x : ident) : bool :=
    match ch with
    | [] => false
    | (p, s) :: outer =>
        match rk s with
        | KComp => if mem x (keys (revs s)) then false else comp_sees_class outer x
        | KClass => class_has p s x
        | _ => false
        end
    end.

  Definition query_ok_chain (ch : list (path * rscope)) (x : ident) : bool :=
    match ch with
    | [] => true
    | (p, s) :: outer =>
        match rk s with
        | KClass => has_real (revs s) x || negb (class_has p s x)
        | KComp => negb (comp_sees_class ch x)
        | _ => true
        end
    end.
End Query.

Definition query_ok (inh : path -> ident -> option binding) (t : rscope) (p : path) (x : ident) : bool :=
  match rchain t p with
  | Some ch => query_ok_chain inh ch x
  | None => true
  end.
