(* Part 3 of the proofs: the statements of coq/Props/C15.v about whole modules, the refutations (each
   witness is the replay input of a recorded finding, see Witnesses.v) and the non-vacuity examples. *)
From Coq Require Import List NArith Bool PeanoNat Lia.
From RopeVerif.C15 Require Import Syntax Scoping RopeScopes Fragment RopeScopesProofs LookupProofs ExtentProofs Witnesses.
Import ListNotations.

Definition sscope_at (t : sscope) (p : path) : option sscope :=
  match schain t p with Some ((_, s) :: _) => Some s | _ => None end.

Lemma fragment_root p :
  in_fragment_C15 p = true -> flat_map s_globals p = [].
Proof.
  unfold in_fragment_C15. intros H. apply andb_prop in H as [_ G].
  destruct (flat_map s_globals p); [reflexivity | discriminate].
Qed.

(* ------------------------------------------------------------------ scope tree *)
Lemma scopes_agree p nl :
  in_fragment_C15 p = true -> rshape (rope_tree p) = sshape (spec_tree nl p).
Proof. intros H. eapply tree_agree_shape. now apply program_agree. Qed.

(* ------------------------------------------------------------------ names of every scope *)
Lemma chains_head mn mg p c rest q cs srest :
  chains mn mg ((p, c) :: rest) ((q, cs) :: srest) -> tree_agree mn c cs.
Proof. intros H. inversion H; subst; assumption. Qed.

Lemma agree_at mn rt st :
  tree_agree mn rt st -> rk rt = KModule -> sglobals st = [] -> (forall x, In x (sbound st) <-> In x mn) ->
  forall path rs ss, scope_at rt path = Some rs -> sscope_at st path = Some ss -> tree_agree mn rs ss.
Proof.
  intros Ht Hk Hg Hb path rs ss Hr Hs. unfold scope_at, sscope_at, rchain, schain in *.
  assert (Hroot : chains mn (spec_module_globals st) [([], rt)] [([], st)]).
  { constructor; auto. now apply (module_globals_spec mn rt st). }
  pose proof (chains_from mn (spec_module_globals st) path rt st [] [] [] Ht Hroot) as Hc.
  destruct (rchain_from rt [] path []) as [[|[p1 r1] rch]|]; try discriminate.
  destruct (schain_from st [] path []) as [[|[p2 s2] sch]|]; try discriminate.
  inversion Hr; inversion Hs; subst. eapply chains_head; eauto.
Qed.

Lemma names_agree_at p nl path rs ss :
  in_fragment_C15 p = true ->
  scope_at (rope_tree p) path = Some rs -> sscope_at (spec_tree nl p) path = Some ss ->
  forall x, In x (real_names (revs rs)) <-> In x (spec_names ss).
Proof.
  intros Hf Hr Hs x.
  pose proof (program_agree nl p Hf) as Ht.
  assert (Ha : tree_agree (flat_map s_binds p) rs ss).
  { assert (G : sglobals (spec_tree nl p) = []) by (cbn; now apply fragment_root).
    assert (B : forall y, In y (sbound (spec_tree nl p)) <-> In y (flat_map s_binds p)) by (cbn; tauto).
    exact (agree_at _ _ _ Ht eq_refl G B path rs ss Hr Hs). }
  destruct (tree_agree_inv _ _ _ Ha) as (_ & Enl & N & _).
  unfold real_names, spec_names. rewrite filter_In, Enl, app_nil_r, in_app_iff.
  rewrite <- (na_real _ _ _ _ N x). split; [tauto|]. intros H. split; [now apply has_real_keys | exact H].
Qed.

(* ------------------------------------------------------------------ lookup *)
Lemma lookup_agrees p nl bi inh path x :
  in_fragment_C15 p = true ->
  query_ok inh (rope_tree p) path x = true ->
  rope_lookup bi inh (rope_tree p) path x = spec_resolve bi (spec_tree nl p) path x.
Proof.
  intros Hf Hq. pose proof (program_agree nl p Hf) as Ht.
  assert (G : sglobals (spec_tree nl p) = []) by (cbn; now apply fragment_root).
  assert (B : forall y, In y (sbound (spec_tree nl p)) <-> In y (flat_map s_binds p)) by (cbn; tauto).
  exact (lookup_agrees_trees _ bi inh _ _ Ht eq_refl G B path x Hq).
Qed.

(* parameters: the names rope records for a function scope contain every parameter, for every parameter kind
   the fragment allows (plain, default, *args, **kwargs) - a corollary worth stating on its own *)
Lemma params_recorded ps :
  forallb param_ok ps = true -> forall x, In x (map pname ps) -> In x (keys (param_events ps)).
Proof.
  intros H x Hx. unfold param_events, keys. rewrite map_map. cbn. rewrite map_id.
  now apply rope_params_ok.
Qed.

(* ------------------------------------------------------------------ refutations *)
Definition names_differ (p : program) (nl : N) : Prop :=
  exists path rs ss x, scope_at (rope_tree p) path = Some rs /\ sscope_at (spec_tree nl p) path = Some ss
                       /\ ~ (In x (real_names (revs rs)) <-> In x (spec_names ss)).

Definition lookup_differs (p : program) (nl : N) (bi ids : list ident) : Prop :=
  exists path x, rope_lookup bi (inh_of (fst (rope_inh bi (rope_tree p) ids))) (rope_tree p) path x
                 <> spec_resolve bi (spec_tree nl p) path x.

Ltac names_witness pa xx :=
  exists pa; eexists; eexists; exists xx;
  split; [vm_compute; reflexivity|]; split; [vm_compute; reflexivity|];
  vm_compute; intuition (try discriminate; try congruence).

Lemma kwonly_refuted : in_fragment_C15 w_kwonly_param = false /\ names_differ w_kwonly_param 3.
Proof. split; [vm_compute; reflexivity|]. names_witness [0%nat] 2%N. Qed.

Lemma posonly_refuted : in_fragment_C15 w_posonly_param = false /\ names_differ w_posonly_param 3.
Proof. split; [vm_compute; reflexivity|]. names_witness [0%nat] 1%N. Qed.

Lemma aug_only_refuted :
  in_fragment_C15 w_aug_or_del_only_binding = false /\ names_differ w_aug_or_del_only_binding 5.
Proof. split; [vm_compute; reflexivity|]. names_witness (@nil nat) 1%N. Qed.

Lemma walrus_in_comprehension_refuted :
  in_fragment_C15 w_walrus_in_comprehension = false /\ names_differ w_walrus_in_comprehension 4.
Proof. split; [vm_compute; reflexivity|]. names_witness [0%nat] 3%N. Qed.

Lemma nonlocal_refuted :
  in_fragment_C15 w_nonlocal = false /\ lookup_differs w_nonlocal 7 bi_nonlocal ids_nonlocal.
Proof. split; [vm_compute; reflexivity|]. exists [0%nat; 0%nat], 1%N. vm_compute. discriminate. Qed.

Lemma global_not_honoured_refuted :
  in_fragment_C15 w_global_declaration_not_honoured = false
  /\ lookup_differs w_global_declaration_not_honoured 6 bi_global_declaration_not_honoured ids_global_declaration_not_honoured.
Proof. split; [vm_compute; reflexivity|]. exists [1%nat], 1%N. vm_compute. discriminate. Qed.

(* the three per-query exclusions: the modules are inside the fragment, the query is not allowed *)
Definition query_refuted (p : program) (nl : N) (bi ids : list ident) : Prop :=
  in_fragment_C15 p = true /\
  exists path x,
    let inh := inh_of (fst (rope_inh bi (rope_tree p) ids)) in
    query_ok inh (rope_tree p) path x = false
    /\ rope_lookup bi inh (rope_tree p) path x <> spec_resolve bi (spec_tree nl p) path x.

Lemma class_inherited_refuted :
  query_refuted w_class_inherited_attribute 6 bi_class_inherited_attribute ids_class_inherited_attribute.
Proof. split; [vm_compute; reflexivity|]. exists [1%nat], 0%N. vm_compute. split; [reflexivity | discriminate]. Qed.

Lemma class_self_attribute_refuted :
  query_refuted w_class_self_attribute 6 bi_class_self_attribute ids_class_self_attribute.
Proof. split; [vm_compute; reflexivity|]. exists [0%nat], 0%N. vm_compute. split; [reflexivity | discriminate]. Qed.

Lemma comprehension_in_class_refuted :
  query_refuted w_comprehension_in_class 5 bi_comprehension_in_class ids_comprehension_in_class.
Proof. split; [vm_compute; reflexivity|]. exists [0%nat; 0%nat], 0%N. vm_compute. split; [reflexivity | discriminate]. Qed.

(* the scope tree itself differs *)
Lemma lambda_refuted :
  in_fragment_C15 w_lambda_no_scope = false /\ rshape (rope_tree w_lambda_no_scope) <> sshape (spec_tree 3 w_lambda_no_scope).
Proof. split; [vm_compute; reflexivity|]. vm_compute. discriminate. Qed.

Lemma unvisited_refuted :
  in_fragment_C15 w_unvisited_expression = false
  /\ rshape (rope_tree w_unvisited_expression) <> sshape (spec_tree 3 w_unvisited_expression).
Proof. split; [vm_compute; reflexivity|]. vm_compute. discriminate. Qed.

Lemma misattached_refuted :
  in_fragment_C15 w_misattached_expression = false
  /\ rshape (rope_tree w_misattached_expression) <> sshape (spec_tree 5 w_misattached_expression).
Proof. split; [vm_compute; reflexivity|]. vm_compute. discriminate. Qed.

(* end line of a comprehension scope inside a multi-line statement *)
Lemma comprehension_extent_refuted :
  in_fragment_C15 w_comprehension_extent = true /\
  exists rs ss, scope_at (rope_tree w_comprehension_extent) [0%nat] = Some rs
                /\ sscope_at (spec_tree 4 w_comprehension_extent) [0%nat] = Some ss
                /\ rope_end lay_comprehension_extent rs <> sstop ss.
Proof.
  split; [vm_compute; reflexivity|]. eexists. eexists.
  split; [vm_compute; reflexivity|]. split; [vm_compute; reflexivity|]. vm_compute. discriminate.
Qed.

(* ------------------------------------------------------------------ non-vacuity *)
Lemma example_in_fragment :
  in_fragment_C15 w_example = true /\ length (r_all (rope_tree w_example)) = 7%nat.
Proof. vm_compute. auto. Qed.

(* a query from the method A.m for the global-declared x (answer: the module), from the nested function g
   for the enclosing function's parameter y, and from the inner comprehension for the outer one's variable i *)
Lemma example_queries :
  let inh := inh_of (fst (rope_inh bi_example (rope_tree w_example) ids_example)) in
  query_ok inh (rope_tree w_example) [0; 0]%nat 1%N = true
  /\ rope_lookup bi_example inh (rope_tree w_example) [0; 0]%nat 1%N = BScope []
  /\ query_ok inh (rope_tree w_example) [1; 0]%nat 12%N = true
  /\ rope_lookup bi_example inh (rope_tree w_example) [1; 0]%nat 12%N = BScope [1%nat]
  /\ query_ok inh (rope_tree w_example) [1; 1; 0]%nat 15%N = true
  /\ rope_lookup bi_example inh (rope_tree w_example) [1; 1; 0]%nat 15%N = BScope [1; 1]%nat.
Proof. vm_compute. repeat split. Qed.

Lemma example_names :
  exists rs ss, scope_at (rope_tree w_example) [0; 0]%nat = Some rs
                /\ sscope_at (spec_tree 20 w_example) [0; 0]%nat = Some ss
                /\ length (spec_names ss) = 10%nat.
Proof. eexists. eexists. split; [vm_compute; reflexivity|]. split; [vm_compute; reflexivity|]. vm_compute. reflexivity. Qed.

(* line 7 of the example ([x = a] inside the method A.m) is held by the method's scope, whose extent is 5..12;
   line 16 (the comprehension line in f) by the outer comprehension's scope *)
Lemma example_lines :
  rope_scope_for_line lay_example (rope_tree w_example) 7 = [0; 0]%nat
  /\ rope_scope_for_line lay_example (rope_tree w_example) 16 = [1; 1]%nat
  /\ (exists s, scope_at (rope_tree w_example) [0; 0]%nat = Some s /\ rope_start s = 5%N /\ rope_end lay_example s = 12%N).
Proof. split; [vm_compute; reflexivity|]. split; [vm_compute; reflexivity|]. eexists. split; [vm_compute; reflexivity|]. vm_compute. auto. Qed.

(* the layout hypothesis of [rope_end_regular] holds for the method A.m of the example (lines 5..12, the next
   code line, 13, is the dedented [def f]) *)
Lemma example_regular_end :
  exists s, scope_at (rope_tree w_example) [0; 0]%nat = Some s
            /\ (rk s = KFunction \/ rk s = KClass)
            /\ regular_end lay_example s 12 12 13.
Proof.
  eexists. split; [vm_compute; reflexivity|]. split; [left; reflexivity|].
  split.
  - vm_compute. reflexivity.
  - vm_compute. repeat split; discriminate.
  - vm_compute. reflexivity.
  - intros l Hl Hc. assert (l = 12%N) by (cbn in Hl; lia). subst l. vm_compute. discriminate.
  - vm_compute. split; [reflexivity | discriminate].
  - intros l Hl. lia.
  - intros _. vm_compute. split; reflexivity.
  - split; [vm_compute; reflexivity|]. intros l Hl. lia.
Qed.

(* a global statement at module level for a name the module never binds *)
Lemma module_level_global_refuted :
  in_fragment_C15 w_module_level_global_unbound = false
  /\ lookup_differs w_module_level_global_unbound 3 bi_module_level_global_unbound ids_module_level_global_unbound.
Proof. split; [vm_compute; reflexivity|]. exists (@nil nat), 0%N. vm_compute. discriminate. Qed.
