(* Proofs about the model of rope's scopes (RopeScopes.v) against the CPython spec (Scoping.v) on the
   fragment of Fragment.v.  Part 1: the names dictionary, expressions, statements, the scope tree. *)
From Coq Require Import List NArith Bool PeanoNat Lia.
From RopeVerif.C15 Require Import Syntax Scoping RopeScopes Fragment.
Import ListNotations.

(* ------------------------------------------------------------------ generalities *)
Lemma mem_In x l : mem x l = true <-> In x l.
Proof.
  unfold mem. rewrite existsb_exists. split.
  - intros [y [Hy E]]. apply N.eqb_eq in E. now subst.
  - intros H. exists x. split; [exact H | apply N.eqb_refl].
Qed.

Lemma mem_false x l : mem x l = false <-> ~ In x l.
Proof. rewrite <- mem_In. destruct (mem x l); split; intros; congruence. Qed.

Lemma In_keys x (evs : events) : In x (keys evs) <-> exists k, In (x, k) evs.
Proof.
  unfold keys. rewrite in_map_iff. split.
  - intros [[y k] [E H]]. cbn in E. subst. now exists k.
  - intros [k H]. now exists (x, k).
Qed.

Lemma keys_app (a b : events) : keys (a ++ b) = keys a ++ keys b.
Proof. apply map_app. Qed.

Lemma keys_assigned xs : keys (assigned xs) = xs.
Proof. unfold keys, assigned. rewrite map_map. cbn. apply map_id. Qed.

Lemma In_assigned x k xs : In (x, k) (assigned xs) <-> k = NAssigned /\ In x xs.
Proof.
  unfold assigned. rewrite in_map_iff. split.
  - intros [y [E H]]. inversion E; subst. auto.
  - intros [-> H]. now exists x.
Qed.

(* ------------------------------------------------------------------ the names dictionary *)
Lemma entry_from_keys cur evs x :
  ~ In x (keys evs) -> entry_from cur evs x = cur.
Proof.
  revert cur. induction evs as [|[y k] r IH]; intros cur H; cbn; [reflexivity|].
  cbn in H. destruct (N.eqb y x) eqn:E.
  - apply N.eqb_eq in E. tauto.
  - apply IH. tauto.
Qed.

Lemma entry_from_some cur evs x k :
  entry_from cur evs x = Some k -> cur = Some k \/ In (x, k) evs.
Proof.
  revert cur. induction evs as [|[y k'] r IH]; intros cur H; cbn in *; [now left|].
  destruct (N.eqb y x) eqn:E.
  - apply N.eqb_eq in E. subst y. apply IH in H. destruct H as [H|H]; [|now right; right].
    destruct (weak k').
    + destruct cur; [now left|]. inversion H; subst. right; now left.
    + inversion H; subst. right; now left.
  - apply IH in H. tauto.
Qed.

Lemma entry_from_not_none cur evs x :
  (cur <> None \/ In x (keys evs)) -> entry_from cur evs x <> None.
Proof.
  revert cur. induction evs as [|[y k] r IH]; intros cur H; cbn in *.
  - tauto.
  - destruct (N.eqb y x) eqn:E.
    + apply IH. left. destruct (weak k); [destruct cur|]; discriminate.
    + apply IH. destruct H as [H|[H|H]]; auto. apply N.eqb_neq in E. tauto.
Qed.

Lemma entry_none evs x : entry evs x = None <-> ~ In x (keys evs).
Proof.
  unfold entry. split.
  - intros H Hin. eapply entry_from_not_none; [right; exact Hin | exact H].
  - apply entry_from_keys.
Qed.

Lemma entry_some_in evs x k : entry evs x = Some k -> In (x, k) evs.
Proof. unfold entry. intros H. apply entry_from_some in H. destruct H; [discriminate | assumption]. Qed.

(* the statement actually used: all non-weak events of x carry K, one exists, and every weak event of x
   that comes first is overwritten by it *)
Lemma entry_from_all_strong K evs x : forall cur,
  (forall k, In (x, k) evs -> weak k = false -> k = K) ->
  (cur = Some K \/ exists k, In (x, k) evs /\ weak k = false) ->
  (forall c, cur = Some c -> c = K \/ exists k, In (x, k) evs /\ weak k = false) ->
  entry_from cur evs x = Some K.
Proof.
  induction evs as [|[y k] r IH]; intros cur Hall Hex Hcur; cbn.
  - destruct Hex as [H|[k [[] _]]]. exact H.
  - destruct (N.eqb y x) eqn:E.
    + apply N.eqb_eq in E. subst y.
      destruct (weak k) eqn:W.
      * (* weak event: keeps cur, or becomes k (weak) which must later be overwritten *)
        apply IH.
        -- intros k' H1 H2. apply Hall; [now right | exact H2].
        -- destruct Hex as [->|[k' [[H|H] Wk]]].
           ++ now left.
           ++ inversion H; subst. congruence.
           ++ right. now exists k'.
        -- intros c Hc. destruct cur as [c0|].
           ++ inversion Hc; subst c0. destruct (Hcur c eq_refl) as [H|[k' [[H|H] Wk]]].
              ** now left.
              ** inversion H; subst. congruence.
              ** right. now exists k'.
           ++ inversion Hc; subst c. right.
              destruct Hex as [H|[k' [[H|H] Wk]]]; [discriminate| |].
              ** inversion H; subst. congruence.
              ** now exists k'.
      * assert (k = K) by (apply Hall; [now left | exact W]). subst k.
        apply IH.
        -- intros k' H1 H2. apply Hall; [now right | exact H2].
        -- now left.
        -- intros c Hc. inversion Hc. now left.
    + apply IH.
      * intros k' H1 H2. apply Hall; [now right | exact H2].
      * destruct Hex as [H|[k' [[H|H] Wk]]]; [now left | |].
        -- inversion H; subst. rewrite N.eqb_refl in E. discriminate.
        -- right. now exists k'.
      * intros c Hc. destruct (Hcur c Hc) as [H|[k' [[H|H] Wk]]]; [now left | |].
        -- inversion H; subst. rewrite N.eqb_refl in E. discriminate.
        -- right. now exists k'.
Qed.

Lemma entry_all_strong K evs x :
  (forall k, In (x, k) evs -> weak k = false -> k = K) ->
  (exists k, In (x, k) evs /\ weak k = false) ->
  entry evs x = Some K.
Proof.
  intros H1 H2. unfold entry. apply entry_from_all_strong; auto; intros c Hc; discriminate.
Qed.

Lemma has_real_iff evs x : has_real evs x = true <-> exists k, In (x, k) evs /\ k <> NSelfAttr.
Proof.
  unfold has_real. rewrite existsb_exists. split.
  - intros [[y k] [Hin H]]. cbn in H. apply andb_prop in H as [E S]. apply N.eqb_eq in E. subst y.
    exists k. split; [exact Hin|]. intros ->. discriminate.
  - intros [k [Hin Hk]]. exists (x, k). split; [exact Hin|]. cbn. rewrite N.eqb_refl. cbn.
    destruct k; try reflexivity. congruence.
Qed.

Lemma has_real_keys evs x : has_real evs x = true -> In x (keys evs).
Proof. rewrite has_real_iff, In_keys. intros [k [H _]]. now exists k. Qed.

(* ------------------------------------------------------------------ lists *)
Lemma flat_map_nil_cond {A B} (c : A -> bool) (f : A -> list B) l :
  Forall (fun a => c a = true -> f a = []) l -> forallb c l = true -> flat_map f l = [].
Proof.
  induction 1 as [|a l Ha _ IH]; cbn; [reflexivity|]. intros H. apply andb_prop in H as [H1 H2].
  rewrite Ha by exact H1. now rewrite IH.
Qed.

Lemma flat_map_eq_cond {A B} (c : A -> bool) (f g : A -> list B) l :
  Forall (fun a => c a = true -> f a = g a) l -> forallb c l = true -> flat_map f l = flat_map g l.
Proof.
  induction 1 as [|a l Ha _ IH]; cbn; [reflexivity|]. intros H. apply andb_prop in H as [H1 H2].
  rewrite Ha by exact H1. now rewrite IH.
Qed.

Lemma Forall2_flat_map_cond {A B C} (R : B -> C -> Prop) (c : A -> bool) (f : A -> list B) (g : A -> list C) l :
  Forall (fun a => c a = true -> Forall2 R (f a) (g a)) l -> forallb c l = true ->
  Forall2 R (flat_map f l) (flat_map g l).
Proof.
  induction 1 as [|a l Ha _ IH]; cbn; [constructor|]. intros H. apply andb_prop in H as [H1 H2].
  apply Forall2_app; auto.
Qed.

Lemma Forall_flat_map {A B} (P : B -> Prop) (f : A -> list B) l :
  Forall (fun a => Forall P (f a)) l -> Forall P (flat_map f l).
Proof. induction 1; cbn; [constructor|]. apply Forall_app; auto. Qed.

Lemma Forall_impl_cond {A} (c : A -> bool) (P : A -> Prop) l :
  Forall (fun a => c a = true -> P a) l -> forallb c l = true -> Forall P l.
Proof.
  induction 1 as [|a l Ha _ IH]; cbn; [constructor|]. intros H. apply andb_prop in H as [H1 H2].
  constructor; auto.
Qed.

(* ------------------------------------------------------------------ expressions *)
Lemma simple_expr_ok e : forall w, simple_expr e = true -> expr_ok w e = true.
Proof.
  induction e using expr_ind' with (Q := fun _ => True); try solve [intros; exact I]; intros w Hs; cbn in *; try reflexivity;
    try discriminate; auto.
  - apply andb_prop in Hs as [A B]. now rewrite IHe1, IHe2.
  - rewrite forallb_forall in *. rewrite Forall_forall in H. intros x Hx. apply H; auto.
  - rewrite forallb_forall in *. rewrite Forall_forall in H. intros x Hx. apply H; auto.
  - apply andb_prop in Hs as [A B]. rewrite IHe by exact A. cbn.
    rewrite forallb_forall in *. rewrite Forall_forall in H. intros x Hx. apply H; auto.
Qed.

Lemma simple_expr_nil e :
  simple_expr e = true -> rx_names e = [] /\ rx_scopes e = [] /\ e_walrus e = [] /\ e_scopes e = [].
Proof.
  induction e using expr_ind' with (Q := fun _ => True); try solve [intros; exact I]; intros Hs; cbn in *; try discriminate; auto.
  - apply andb_prop in Hs as [A B]. destruct (IHe1 A) as (a1 & a2 & a3 & a4).
    destruct (IHe2 B) as (b1 & b2 & b3 & b4). now rewrite a1, a2, a3, a4, b1, b2, b3, b4.
  - repeat split; apply (flat_map_nil_cond simple_expr); auto;
      (eapply Forall_impl; [|exact H]); cbn; intros a Ha Hc; now apply Ha.
  - repeat split; apply (flat_map_nil_cond simple_expr); auto;
      (eapply Forall_impl; [|exact H]); cbn; intros a Ha Hc; now apply Ha.
  - apply andb_prop in Hs as [A B]. destruct (IHe A) as (a1 & a2 & a3 & a4). rewrite a1, a2, a3, a4. cbn.
    repeat split; apply (flat_map_nil_cond simple_expr); auto;
      (eapply Forall_impl; [|exact H]); cbn; intros a Ha Hc; now apply Ha.
Qed.

Lemma simple_list_nil es :
  forallb simple_expr es = true ->
  flat_map rx_names es = [] /\ flat_map rx_scopes es = [] /\ flat_map e_walrus es = [] /\ flat_map e_scopes es = [].
Proof.
  intros H. repeat split; apply (flat_map_nil_cond simple_expr); auto; apply Forall_forall; intros e _ He;
    now apply simple_expr_nil.
Qed.

Lemma simple_opt_nil o :
  oforall simple_expr o = true -> orx_names o = [] /\ orx_scopes o = [] /\ oe_walrus o = [] /\ oe_scopes o = [].
Proof. destruct o; cbn; [apply simple_expr_nil | auto]. Qed.

Lemma gen_ok_first t0 i0 ifs0 :
  expr_ok false t0 = true -> simple_expr i0 = true -> forallb simple_expr ifs0 = true ->
  gen_ok (Comp t0 i0 ifs0) = true.
Proof. intros A B C. cbn. rewrite A, (simple_expr_ok _ false B), C. reflexivity. Qed.

(* inside a comprehension of the fragment there is no walrus *)
Lemma expr_ok_false_nil e : expr_ok false e = true -> rx_names e = [] /\ e_walrus e = [].
Proof.
  induction e using expr_ind'
    with (Q := fun c => gen_ok c = true -> c_walrus c = [] /\ cg_names c = comp_target_events (match c with Comp t _ _ => t end));
    intros Hs; cbn in *; try discriminate; auto.
  - apply andb_prop in Hs as [A B]. destruct (IHe1 A) as [a1 a2]. destruct (IHe2 B) as [b1 b2].
    now rewrite a1, a2, b1, b2.
  - split; apply (flat_map_nil_cond (expr_ok false)); auto;
      (eapply Forall_impl; [|exact H]); cbn; intros a Ha Hc; now apply Ha.
  - split; apply (flat_map_nil_cond (expr_ok false)); auto;
      (eapply Forall_impl; [|exact H]); cbn; intros a Ha Hc; now apply Ha.
  - apply andb_prop in Hs as [A B]. destruct (IHe A) as [a1 a2]. rewrite a1, a2. cbn.
    split; apply (flat_map_nil_cond (expr_ok false)); auto;
      (eapply Forall_impl; [|exact H]); cbn; intros a Ha Hc; now apply Ha.
  - (* comprehension *)
    apply andb_prop in Hs as [A B]. split; [reflexivity|].
    assert (E1 : flat_map e_walrus elts = []).
    { apply (flat_map_nil_cond (expr_ok false)); auto.
      (eapply Forall_impl; [|exact H]); cbn; intros a Ha Hc; now apply Ha. }
    rewrite E1. cbn.
    destruct gens as [|[t0 i0 ifs0] rest]; [discriminate|].
    apply andb_prop in B as [B B4]. apply andb_prop in B as [B B3]. apply andb_prop in B as [B1 B2].
    inversion H0 as [|c0 l0 Hc Hl]; subst.
    cbn. destruct (Hc (gen_ok_first _ _ _ B1 B2 B3)) as [W _]. cbn in W. rewrite W. cbn.
    apply (flat_map_nil_cond gen_ok); auto.
    (eapply Forall_impl; [|exact Hl]); cbn; intros a Ha Hg; now apply Ha.
  - (* generator *)
    apply andb_prop in Hs as [A C]. apply andb_prop in A as [A B].
    destruct (IHe1 A) as [a1 a2]. destruct (IHe2 B) as [b1 b2].
    destruct (simple_list_nil _ C) as (_ & _ & c3 & _).
    rewrite a1, a2, b1, b2, c3. cbn. rewrite app_nil_r. auto.
Qed.

Lemma rx_names_assigned e : forall x0 k0, In (x0, k0) (rx_names e) -> k0 = NAssigned.
Proof.
  induction e using expr_ind' with (Q := fun _ => True); try solve [intros; exact I];
    intros x0 k0 Hin; cbn in *; try contradiction; eauto.
  - apply in_app_or in Hin as [Hin|Hin]; eauto.
  - apply in_flat_map in Hin as [e [He Hin]]. rewrite Forall_forall in H. eapply H; eauto.
  - apply in_flat_map in Hin as [e [He Hin]]. rewrite Forall_forall in H. eapply H; eauto.
  - apply in_app_or in Hin as [Hin|Hin]; eauto.
    apply in_flat_map in Hin as [e' [He Hin]]. rewrite Forall_forall in H. eapply H; eauto.
  - destruct Hin as [Hin|Hin]; [inversion Hin; reflexivity | eauto].
  - apply in_app_or in Hin as [Hin|Hin]; eauto.
    apply in_flat_map in Hin as [e' [He Hin]]. rewrite Forall_forall in H. eapply H; eauto.
Qed.

(* outside comprehensions the walrus targets rope records are those CPython binds *)
Lemma expr_ok_walrus e : forall w, expr_ok w e = true -> keys (rx_names e) = e_walrus e.
Proof.
  induction e using expr_ind' with (Q := fun _ => True); try solve [intros; exact I];
    intros w Hs; cbn in *; try discriminate; auto.
  - eauto.
  - apply andb_prop in Hs as [A B]. rewrite keys_app. now rewrite (IHe1 w A), (IHe2 w B).
  - unfold keys. rewrite flat_map_concat_map, concat_map, map_map, <- flat_map_concat_map.
    apply (flat_map_eq_cond (expr_ok w)); auto.
    (eapply Forall_impl; [|exact H]); cbn; intros a Ha Hc. now apply (Ha w).
  - unfold keys. rewrite flat_map_concat_map, concat_map, map_map, <- flat_map_concat_map.
    apply (flat_map_eq_cond (expr_ok w)); auto.
    (eapply Forall_impl; [|exact H]); cbn; intros a Ha Hc. now apply (Ha w).
  - apply andb_prop in Hs as [A B]. rewrite keys_app, (IHe w A). f_equal.
    unfold keys. rewrite flat_map_concat_map, concat_map, map_map, <- flat_map_concat_map.
    apply (flat_map_eq_cond (expr_ok w)); auto.
    (eapply Forall_impl; [|exact H]); cbn; intros a Ha Hc. now apply (Ha w).
  - eauto.
  - apply andb_prop in Hs as [A B]. cbn. f_equal. eauto.
  - (* comprehension: no walrus inside *)
    assert (Hc : expr_ok false (EComp k l s elts gens) = true) by exact Hs.
    apply expr_ok_false_nil in Hc as [_ Hc]. cbn in Hc. now rewrite Hc.
Qed.

(* ------------------------------------------------------------------ agreement of one scope / of the trees *)
Record names_agree (k : skind) (evs : events) (bound globals : list ident) : Prop := {
  na_real : forall x, has_real evs x = true <-> In x bound \/ In x globals;
  na_glob : forall x, In x globals -> entry evs x = Some (NGlobal true);
  na_nglob : forall x b, entry evs x = Some (NGlobal b) -> In x globals;
  na_noself : is_class k = false -> forall x, In x (keys evs) -> has_real evs x = true
}.

Section TreeAgree.
  Variable mn : list ident.      (* the names bound at module level *)

  Inductive tree_agree : rscope -> sscope -> Prop :=
  | TA k name st bf bl evs bases rcs stop bound globals scs :
      Forall2 tree_agree rcs scs ->
      Forall (fun c => rk c <> KModule) rcs ->
      (k = KComp -> Forall (fun c => rk c = KComp) rcs) ->
      k <> KLambda ->
      names_agree k evs bound globals ->
      incl globals mn ->
      tree_agree (RScope k name st bf bl evs bases rcs) (SScope k st stop bound globals [] scs).
End TreeAgree.

Lemma names_agree_uniform k K xs :
  K <> NSelfAttr -> (forall b, K <> NGlobal b) ->
  names_agree k (map (fun x => (x, K)) xs) xs [].
Proof.
  intros H1 H2. split.
  - intros x. rewrite has_real_iff. split.
    + intros [k' [Hin _]]. apply in_map_iff in Hin as [y [E Hy]]. inversion E; subst. now left.
    + intros [H|[]]. exists K. split; [|exact H1]. apply in_map_iff. now exists x.
  - intros x [].
  - intros x b H. apply entry_some_in in H. apply in_map_iff in H as [y [E Hy]]. inversion E. congruence.
  - intros _ x Hx. rewrite has_real_iff. apply In_keys in Hx as [k' Hin]. exists k'. split; [exact Hin|].
    apply in_map_iff in Hin as [y [E Hy]]. inversion E. congruence.
Qed.

Lemma rx_scopes_kind e : Forall (fun c => rk c = KComp) (rx_scopes e).
Proof.
  induction e using expr_ind' with (Q := fun _ => True); try solve [intros; exact I]; cbn; auto.
  - apply Forall_app; auto.
  - apply Forall_flat_map. exact H.
  - apply Forall_flat_map. exact H.
  - apply Forall_app; split; auto. apply Forall_flat_map. exact H.
  - apply Forall_app; split; auto. apply Forall_flat_map. exact H.
Qed.

Lemma rx_scopes_not_module e : Forall (fun c => rk c <> KModule) (rx_scopes e).
Proof. eapply Forall_impl; [|apply rx_scopes_kind]. cbn. intros a ->. discriminate. Qed.

Lemma cg_scopes_kind c : Forall (fun c => rk c = KComp) (cg_scopes c).
Proof. destruct c. cbn. apply Forall_app; split; apply rx_scopes_kind. Qed.

Lemma flat_rx_kind es : Forall (fun c => rk c = KComp) (flat_map rx_scopes es).
Proof. apply Forall_flat_map. apply Forall_forall. intros; apply rx_scopes_kind. Qed.
Lemma flat_cg_kind gens : Forall (fun c => rk c = KComp) (flat_map cg_scopes gens).
Proof. apply Forall_flat_map. apply Forall_forall. intros; apply cg_scopes_kind. Qed.
Lemma kind_comp_not_module l : Forall (fun c => rk c = KComp) l -> Forall (fun c => rk c <> KModule) l.
Proof. apply Forall_impl. intros a ->. discriminate. Qed.

Lemma comp_events_targets gens :
  forallb gen_ok gens = true ->
  flat_map cg_names gens = map (fun x => (x, NCompTarget)) (flat_map c_targets gens).
Proof.
  induction gens as [|[t i ifs] r IH]; cbn; [reflexivity|]. intros H.
  apply andb_prop in H as [H Hr]. apply andb_prop in H as [H _]. apply andb_prop in H as [A B].
  destruct (expr_ok_false_nil _ A) as [a _]. destruct (expr_ok_false_nil _ B) as [b _].
  rewrite a, b, IH by exact Hr. cbn. rewrite app_nil_r. unfold comp_target_events. now rewrite map_app.
Qed.

(* the comprehension scopes rope creates for an expression of the fragment are CPython's *)
Lemma expr_ok_scopes mn e : forall w, expr_ok w e = true -> Forall2 (tree_agree mn) (rx_scopes e) (e_scopes e).
Proof.
  induction e using expr_ind'
    with (Q := fun c => gen_ok c = true -> Forall2 (tree_agree mn) (cg_scopes c) (c_scopes c));
    intros; cbn in *; try discriminate; try (constructor; fail); eauto.
  - apply andb_prop in H as [A B]. apply Forall2_app; eauto.
  - apply (Forall2_flat_map_cond _ (expr_ok w)); auto.
    (eapply Forall_impl; [|exact H]); cbn; intros a Ha Hc. now apply (Ha w).
  - apply (Forall2_flat_map_cond _ (expr_ok w)); auto.
    (eapply Forall_impl; [|exact H]); cbn; intros a Ha Hc. now apply (Ha w).
  - apply andb_prop in H0 as [A B]. apply Forall2_app; eauto.
    apply (Forall2_flat_map_cond _ (expr_ok w)); auto.
    (eapply Forall_impl; [|exact H]); cbn; intros a Ha Hc. now apply (Ha w).
  - apply andb_prop in H as [A B]. eauto.
  - (* comprehension *)
    apply andb_prop in H1 as [A B].
    destruct gens as [|[t0 i0 ifs0] rest]; [discriminate|].
    apply andb_prop in B as [B B4]. apply andb_prop in B as [B B3]. apply andb_prop in B as [B1 B2].
    inversion H0 as [|c0 l0 Hc Hl]; subst.
    destruct (simple_expr_nil _ B2) as (i1 & i2 & i3 & i4).
    destruct (simple_list_nil _ B3) as (_ & _ & _ & f4).
    rewrite i4. constructor; [|constructor].
    assert (G : forallb gen_ok (Comp t0 i0 ifs0 :: rest) = true).
    { cbn [forallb]. rewrite (gen_ok_first _ _ _ B1 B2 B3). exact B4. }
    assert (E : flat_map rx_names elts = []).
    { apply (flat_map_nil_cond (expr_ok false)); auto. apply Forall_forall. intros e _ He.
      now apply expr_ok_false_nil. }
    rewrite E, (comp_events_targets _ G). cbn [app flat_map c_targets].
    constructor.
    + (* children *)
      apply Forall2_app.
      * apply (Forall2_flat_map_cond _ (expr_ok false)); auto.
        (eapply Forall_impl; [|exact H]); cbn; intros a Ha Hc'. now apply (Ha false).
      * cbn [flat_map cg_scopes]. rewrite i2, f4. cbn [app]. rewrite app_nil_r.
        apply Forall2_app.
        -- specialize (Hc (gen_ok_first _ _ _ B1 B2 B3)). cbn in Hc. rewrite i2, i4, f4 in Hc. cbn in Hc.
           now rewrite !app_nil_r in Hc.
        -- apply (Forall2_flat_map_cond _ gen_ok); auto.
    + apply kind_comp_not_module. apply Forall_app; split;
        [apply flat_rx_kind | apply (flat_cg_kind (Comp t0 i0 ifs0 :: rest))].
    + intros _. apply Forall_app; split;
        [apply flat_rx_kind | apply (flat_cg_kind (Comp t0 i0 ifs0 :: rest))].
    + discriminate.
    + apply names_agree_uniform; [discriminate | intros b; discriminate].
    + intros x [].
  - (* generator *)
    apply andb_prop in H0 as [A C]. apply andb_prop in A as [A B].
    destruct (simple_list_nil _ C) as (_ & _ & _ & c4). rewrite c4, app_nil_r.
    apply Forall2_app; eauto.
Qed.

(* ------------------------------------------------------------------ statements: events against bindings *)
Definition strongdef (k : nkind) : Prop := k = NDefFun \/ k = NDefClass \/ k = NImport.

Section Events.
  Variable mn : list ident.

  (* what the events [evs] a visitor performs for a piece of a block have to do with the names the piece binds
     ([bf], not counting augmented assignment and del), binds by def/class/import ([df]) and declares global ([gl]) *)
  Record ev_ok (cls : bool) (evs : events) (bf df gl : list ident) : Prop := {
    eo_kind : forall x k, In (x, k) evs ->
        (k = NAssigned /\ In x bf) \/ (strongdef k /\ In x df) \/ (k = NGlobal (mem x mn) /\ In x gl)
        \/ (k = NSelfAttr /\ cls = true);
    eo_bound : forall x, In x bf -> exists k, In (x, k) evs /\ (k = NAssigned \/ strongdef k);
    eo_glob : forall x, In x gl -> In (x, NGlobal (mem x mn)) evs;
    eo_def : forall x, In x df -> In x bf
  }.

  Lemma ev_ok_nil cls : ev_ok cls [] [] [] [].
  Proof. split; intros; try contradiction. Qed.

  Lemma ev_ok_app cls e1 b1 d1 g1 e2 b2 d2 g2 :
    ev_ok cls e1 b1 d1 g1 -> ev_ok cls e2 b2 d2 g2 -> ev_ok cls (e1 ++ e2) (b1 ++ b2) (d1 ++ d2) (g1 ++ g2).
  Proof.
    intros [a1 a2 a3 a4] [c1 c2 c3 c4]. split.
    - intros x k H. apply in_app_or in H as [H|H]; [apply a1 in H | apply c1 in H];
        rewrite !in_app_iff; intuition.
    - intros x H. apply in_app_or in H as [H|H]; [apply a2 in H | apply c2 in H];
        destruct H as [k [H1 H2]]; exists k; rewrite in_app_iff; auto.
    - intros x H. apply in_app_or in H as [H|H]; rewrite in_app_iff; auto.
    - intros x H. apply in_app_or in H as [H|H]; rewrite in_app_iff; auto.
  Qed.

  Lemma ev_ok_flat_map {A} cls (c : A -> bool) (f : A -> events) (b d g : A -> list ident) l :
    Forall (fun a => c a = true -> ev_ok cls (f a) (b a) (d a) (g a)) l -> forallb c l = true ->
    ev_ok cls (flat_map f l) (flat_map b l) (flat_map d l) (flat_map g l).
  Proof.
    induction 1 as [|a l Ha _ IH]; cbn; [intros; apply ev_ok_nil|]. intros H.
    apply andb_prop in H as [H1 H2]. apply ev_ok_app; auto.
  Qed.

  Lemma ev_ok_assigned cls xs : ev_ok cls (assigned xs) xs [] [].
  Proof.
    split; try (intros; contradiction).
    - intros x k H. apply In_assigned in H as [-> H]. auto.
    - intros x H. exists NAssigned. split; [now apply In_assigned | now left].
  Qed.

  Lemma ev_ok_walrus cls w e : expr_ok w e = true -> ev_ok cls (rx_names e) (e_walrus e) [] [].
  Proof.
    intros H. pose proof (expr_ok_walrus e w H) as K. split; try (intros; contradiction).
    - intros x k Hin. pose proof (rx_names_assigned _ _ _ Hin) as ->. left. split; [reflexivity|].
      rewrite <- K. apply In_keys. now exists NAssigned.
    - intros x Hin. rewrite <- K in Hin. apply In_keys in Hin as [k Hin].
      pose proof (rx_names_assigned _ _ _ Hin) as ->. exists NAssigned. auto.
  Qed.

  Lemma ev_ok_walrus_list cls w es :
    forallb (expr_ok w) es = true -> ev_ok cls (flat_map rx_names es) (flat_map e_walrus es) [] [].
  Proof.
    induction es as [|e r IH]; cbn; [intros; apply ev_ok_nil|]. intros H. apply andb_prop in H as [H1 H2].
    change (@nil ident) with (@nil ident ++ @nil ident). apply ev_ok_app; [now apply (ev_ok_walrus cls w) | auto].
  Qed.

  Lemma ev_ok_ext cls evs bf df gl bf' df' gl' :
    ev_ok cls evs bf df gl -> bf = bf' -> df = df' -> gl = gl' -> ev_ok cls evs bf' df' gl'.
  Proof. intros; subst; assumption. Qed.
End Events.

Lemma ci_simple_events self s :
  ci_simple s = true -> (forall x k, In (x, k) (ci_names self s) -> k = NSelfAttr) /\ ci_scopes s = [].
Proof.
  induction s using stmt_ind'; cbn; intros Hs; try (split; [intros x k [] | reflexivity]).
  - (* assign *)
    destruct (simple_expr_nil _ Hs) as (a1 & a2 & _). rewrite a1, a2, app_nil_r. split; [|reflexivity].
    intros x k H. apply in_flat_map in H as [t [_ H]]. unfold self_events in H.
    apply in_map_iff in H as [y [E _]]. now inversion E.
  - split; [|reflexivity]. intros x k H. unfold self_events in H. apply in_map_iff in H as [y [E _]]. now inversion E.
  - split; [|reflexivity]. intros x k H. unfold self_events in H. apply in_map_iff in H as [y [E _]]. now inversion E.
  - (* if *)
    apply andb_prop in Hs as [A B]. split.
    + intros x k Hin. apply in_app_or in Hin as [Hin|Hin]; apply in_flat_map in Hin as [s' [Hs' Hin]].
      * rewrite Forall_forall in H. rewrite forallb_forall in A. eapply (H s' Hs' (A s' Hs')); eauto.
      * rewrite Forall_forall in H0. rewrite forallb_forall in B. eapply (H0 s' Hs' (B s' Hs')); eauto.
    + rewrite (flat_map_nil_cond ci_simple ci_scopes b), (flat_map_nil_cond ci_simple ci_scopes o); auto;
        (eapply Forall_impl; [|eassumption]); cbn; intros a Ha Hc; now apply Ha.
  - (* while *)
    apply andb_prop in Hs as [A B]. split.
    + intros x k Hin. apply in_app_or in Hin as [Hin|Hin]; apply in_flat_map in Hin as [s' [Hs' Hin]].
      * rewrite Forall_forall in H. rewrite forallb_forall in A. eapply (H s' Hs' (A s' Hs')); eauto.
      * rewrite Forall_forall in H0. rewrite forallb_forall in B. eapply (H0 s' Hs' (B s' Hs')); eauto.
    + rewrite (flat_map_nil_cond ci_simple ci_scopes b), (flat_map_nil_cond ci_simple ci_scopes o); auto;
        (eapply Forall_impl; [|eassumption]); cbn; intros a Ha Hc; now apply Ha.
  - (* try *)
    apply andb_prop in Hs as [Hs D]. apply andb_prop in Hs as [Hs C]. apply andb_prop in Hs as [A B].
    assert (HH : forall h, In h hs -> (forall x k, In (x, k) (match h with Handler _ _ _ hb => flat_map (ci_names self) hb end) -> k = NSelfAttr)
                                     /\ match h with Handler _ _ _ hb => flat_map ci_scopes hb end = []).
    { intros [hl ht hn hb] Hh. rewrite Forall_forall in H0. specialize (H0 _ Hh). unfold HP in H0. cbn in H0.
      rewrite forallb_forall in B. specialize (B _ Hh). cbn in B. split.
      - intros x k Hin. apply in_flat_map in Hin as [s' [Hs' Hin]].
        rewrite Forall_forall in H0. rewrite forallb_forall in B. eapply (H0 s' Hs' (B s' Hs')); eauto.
      - apply (flat_map_nil_cond ci_simple); auto. (eapply Forall_impl; [|exact H0]); cbn; intros a Ha Hc; now apply Ha. }
    split.
    + intros x k Hin. rewrite !in_app_iff in Hin. destruct Hin as [Hin|[Hin|[Hin|Hin]]];
        apply in_flat_map in Hin as [s' [Hs' Hin]].
      * rewrite Forall_forall in H. rewrite forallb_forall in A. eapply (H s' Hs' (A s' Hs')); eauto.
      * eapply (HH s' Hs'); eauto.
      * rewrite Forall_forall in H1. rewrite forallb_forall in C. eapply (H1 s' Hs' (C s' Hs')); eauto.
      * rewrite Forall_forall in H2. rewrite forallb_forall in D. eapply (H2 s' Hs' (D s' Hs')); eauto.
    + rewrite (flat_map_nil_cond ci_simple ci_scopes b), (flat_map_nil_cond ci_simple ci_scopes o),
        (flat_map_nil_cond ci_simple ci_scopes f); auto;
        try ((eapply Forall_impl; [|eassumption]); cbn; intros a Ha Hc; now apply Ha).
      cbn. rewrite app_nil_r.
      clear - HH. induction hs as [|h r IH]; cbn; [reflexivity|].
      rewrite (proj2 (HH h (or_introl eq_refl))). cbn. apply IH. intros h' Hh'. apply HH. now right.
Qed.

Lemma ci_simple_list self body :
  forallb ci_simple body = true ->
  (forall x k, In (x, k) (flat_map (ci_names self) body) -> k = NSelfAttr) /\ flat_map ci_scopes body = [].
Proof.
  intros H. split.
  - intros x k Hin. apply in_flat_map in Hin as [s [Hs Hin]]. rewrite forallb_forall in H.
    eapply (proj1 (ci_simple_events self s (H s Hs))); eauto.
  - apply (flat_map_nil_cond ci_simple); auto. apply Forall_forall. intros s _ Hs.
    apply (proj2 (ci_simple_events 0%N s Hs)).
Qed.

Section StmtEvents.
  Variable mn : list ident.      (* module names the fragment predicate refers to *)
  Variable mn' : list ident.     (* module names rope's _Global handler consults *)

  Lemma item_events_ok cls items :
    forallb (fun it : expr * option expr => match it with (c, v) => simple_expr c && oforall simple_expr v end) items = true ->
    ev_ok mn' cls (flat_map item_events items) (flat_map item_binds items) [] [].
  Proof.
    induction items as [|[c [v|]] r IH]; cbn; [intros; apply ev_ok_nil | |]; intros H;
      apply andb_prop in H as [H1 H2]; apply andb_prop in H1 as [A B].
    - destruct (simple_expr_nil _ A) as (_ & _ & a3 & _). cbn in B. destruct (simple_expr_nil _ B) as (_ & _ & b3 & _).
      rewrite a3, b3, app_nil_r. cbn [app].
      change (@nil ident) with (@nil ident ++ @nil ident). apply ev_ok_app; [apply ev_ok_assigned | auto].
    - destruct (simple_expr_nil _ A) as (_ & _ & a3 & _). rewrite a3. cbn [app]. auto.
  Qed.

  Lemma ev_ok_single_def cls x K : strongdef K -> ev_ok mn' cls [(x, K)] [x] [x] [].
  Proof.
    intros HK. split.
    - intros y k H. destruct H as [E|H]; [|destruct H]. inversion E; subst. right; left. split; [exact HK | now left].
    - intros y H. destruct H as [E|H]; [|destruct H]. subst. exists K. split; [now left | now right].
    - intros y H. destruct H.
    - auto.
  Qed.

  Lemma import_events_ok cls ns :
    ev_ok mn' cls (flat_map import_events ns) (flat_map import_bound ns) (flat_map import_bound ns) [].
  Proof.
    induction ns as [|[p a] r IH]; cbn [flat_map]; [apply ev_ok_nil|].
    change (@nil ident) with (@nil ident ++ @nil ident). apply ev_ok_app; [|exact IH].
    destruct p as [|o p]; destruct a as [a|]; cbn [import_events import_bound];
      try apply ev_ok_nil; apply ev_ok_single_def; right; right; reflexivity.
  Qed.

  Lemma from_events_ok cls ns :
    ev_ok mn' cls (map from_events ns) (map from_bound ns) (map from_bound ns) [].
  Proof.
    induction ns as [|[n a] r IH]; cbn [map]; [apply ev_ok_nil|].
    change (?a :: map from_events r) with ([a] ++ map from_events r).
    change (?a :: map from_bound r) with ([a] ++ map from_bound r).
    change (@nil ident) with (@nil ident ++ @nil ident). apply ev_ok_app; [|exact IH].
    destruct a as [a|]; cbn [from_events from_bound]; apply ev_ok_single_def; right; right; reflexivity.
  Qed.

  Lemma global_events_ok cls ns :
    ev_ok mn' cls (map (fun o => (oname o, NGlobal (mem (oname o) mn'))) ns) [] [] (map oname ns).
  Proof.
    split; try (intros; contradiction).
    - intros x k H. apply in_map_iff in H as [o [E Ho]]. inversion E; subst. right; right; left.
      split; [reflexivity | now apply in_map].
    - intros x H. apply in_map_iff in H as [o [E Ho]]. subst. apply in_map_iff. now exists o.
  Qed.

  Ltac list_ok H A :=
    match goal with
    | |- ev_ok _ ?c _ _ _ _ =>
        eapply (ev_ok_flat_map mn' c (frag_stmt mn c));
        [ (eapply Forall_impl; [|exact H]); cbn; intros ? Ha Hc; now apply Ha | exact A ]
    end.

  (* the events of a statement of the fragment are exactly its bindings (other than augmented assignment / del),
     its def/class/import bindings and its global declarations *)
  Lemma stmt_events s : forall cls,
    frag_stmt mn cls s = true ->
    ev_ok mn' cls (rs_names mn' cls s) (s_binds_gen false s) (s_defimp s) (s_globals s).
  Proof.
    induction s using stmt_ind'; intros cls Hf; cbn [rs_names s_binds_gen s_defimp s_globals frag_stmt] in *.
    - (* expr *) now apply (ev_ok_walrus_list mn' cls true).
    - (* return *) destruct (simple_opt_nil _ Hf) as (_ & _ & a & _). rewrite a. apply ev_ok_nil.
    - (* assign *)
      apply andb_prop in Hf as [A B]. destruct (simple_list_nil _ A) as (_ & _ & a & _). rewrite a. cbn [app].
      change (@nil ident) with (@nil ident ++ @nil ident). apply ev_ok_app; [apply ev_ok_assigned | now apply (ev_ok_walrus mn' cls true)].
    - (* aug *)
      apply andb_prop in Hf as [A B]. destruct (simple_expr_nil _ A) as (_ & _ & a & _).
      destruct (simple_expr_nil _ B) as (_ & _ & b & _). rewrite a, b. apply ev_ok_nil.
    - (* ann *)
      apply andb_prop in Hf as [A C]. apply andb_prop in A as [A B].
      destruct (simple_expr_nil _ A) as (_ & _ & a1 & _). destruct (simple_expr_nil _ B) as (_ & _ & b1 & _).
      destruct (simple_opt_nil _ C) as (_ & _ & c1 & _). rewrite a1, b1, c1, app_nil_r. apply ev_ok_assigned.
    - (* del *)
      destruct (simple_list_nil _ Hf) as (a1 & _ & a3 & _). rewrite a1, a3. apply ev_ok_nil.
    - apply ev_ok_nil.
    - (* if *)
      apply andb_prop in Hf as [A C]. apply andb_prop in A as [A B].
      apply (ev_ok_app mn' cls (rx_names t) (e_walrus t) [] []);
        [now apply (ev_ok_walrus mn' cls true) | apply ev_ok_app]; [list_ok H B | list_ok H0 C].
    - (* while *)
      apply andb_prop in Hf as [A C]. apply andb_prop in A as [A B].
      apply (ev_ok_app mn' cls (rx_names t) (e_walrus t) [] []);
        [now apply (ev_ok_walrus mn' cls true) | apply ev_ok_app]; [list_ok H B | list_ok H0 C].
    - (* for *)
      apply andb_prop in Hf as [A D]. apply andb_prop in A as [A C]. apply andb_prop in A as [A B].
      destruct (simple_expr_nil _ A) as (_ & _ & a1 & _). destruct (simple_expr_nil _ B) as (_ & _ & b1 & _).
      rewrite a1, b1. cbn [app].
      apply (ev_ok_app mn' cls (assigned (target_names t)) (target_names t) [] []);
        [apply ev_ok_assigned | apply ev_ok_app]; [list_ok H C | list_ok H0 D].
    - (* with *)
      apply andb_prop in Hf as [A B].
      apply (ev_ok_app mn' cls (flat_map item_events items) (flat_map item_binds items) [] []);
        [now apply item_events_ok | list_ok H B].
    - (* try *)
      apply andb_prop in Hf as [Hf D]. apply andb_prop in Hf as [Hf C]. apply andb_prop in Hf as [A B].
      apply ev_ok_app; [list_ok H A|]. apply ev_ok_app; [|apply ev_ok_app; [list_ok H1 C | list_ok H2 D]].
      (* handlers *)
      clear - H0 B. induction hs as [|[hl ht hn hb] r IH]; cbn; [apply ev_ok_nil|].
      inversion H0 as [|h0 r0 Hh Hr]; subst. cbn in B. apply andb_prop in B as [B Br]. apply andb_prop in B as [B1 B2].
      apply ev_ok_app; [|now apply IH].
      destruct (simple_opt_nil _ B1) as (_ & _ & t3 & _). rewrite t3. cbn [app].
      apply (ev_ok_app mn' cls (assigned (map oname (opt_list hn))) (map oname (opt_list hn)) [] []).
      + apply ev_ok_assigned.
      + unfold HP in Hh. cbn in Hh. list_ok Hh B2.
    - (* def *)
      repeat (apply andb_prop in Hf as [Hf ?]).
      destruct (simple_list_nil _ Hf) as (_ & _ & d3 & _). destruct (simple_list_nil _ H5) as (_ & _ & a3 & _).
      destruct (simple_opt_nil _ H4) as (_ & _ & r3 & _). rewrite d3, a3, r3. cbn [app].
      split.
      + intros x k [E|Hin].
        * inversion E; subst. right; left. split; [now left | now left].
        * right; right; right. destruct cls; [|contradiction]. destruct (first_arg ps) as [self|]; [|contradiction].
          split; [|reflexivity]. eapply (proj1 (ci_simple_list self b H0)); eauto.
      + intros x [<-|[]]. exists NDefFun. split; [now left | right; now left].
      + intros x [].
      + auto.
    - (* class *)
      repeat (apply andb_prop in Hf as [Hf ?]).
      destruct (simple_list_nil _ Hf) as (_ & _ & d3 & _). destruct (simple_list_nil _ H2) as (_ & _ & b3 & _).
      rewrite d3, b3. cbn [app].
      split.
      + intros x k [E|[]]. inversion E; subst. right; left. split; [right; now left | now left].
      + intros x [<-|[]]. exists NDefClass. split; [now left | right; right; now left].
      + intros x [].
      + auto.
    - apply import_events_ok.
    - destruct ns; [apply from_events_ok | apply ev_ok_nil].
    - apply global_events_ok.
    - discriminate.
  Qed.
End StmtEvents.

(* ------------------------------------------------------------------ a whole block *)
Lemma disjoint_spec a b : disjoint a b = true <-> forall x, In x a -> ~ In x b.
Proof.
  unfold disjoint. rewrite forallb_forall. split; intros H x Hx.
  - specialize (H x Hx). apply negb_true_iff in H. now apply mem_false.
  - apply negb_true_iff. apply mem_false. now apply H.
Qed.

Lemma names_agree_of_ev mn' k cls evs bf df gl ps rps bt :
  ev_ok mn' cls evs bf df gl ->
  (cls = true -> is_class k = true) ->
  (forall x, In x rps <-> In x ps) ->
  (forall x, In x bt -> In x (ps ++ bf ++ gl)) ->
  (forall x, In x bf -> In x bt) ->
  disjoint gl (ps ++ df) = true ->
  (forall x, In x gl -> mem x mn' = true) ->
  names_agree k (evs ++ map (fun x => (x, NParam)) rps) (ps ++ bt) gl.
Proof.
  intros [e1 e2 e3 e4] Hcls Hps Hbt Hmono Hdis Hmn.
  rewrite disjoint_spec in Hdis.
  assert (Hp : forall x k', In (x, k') (map (fun x => (x, NParam)) rps) -> k' = NParam /\ In x ps).
  { intros x k' H. apply in_map_iff in H as [y [E Hy]]. inversion E; subst. split; [reflexivity | now apply Hps]. }
  split.
  - intros x. rewrite has_real_iff. split.
    + intros [k' [Hin Hk]]. apply in_app_or in Hin as [Hin|Hin].
      * destruct (e1 _ _ Hin) as [[-> H]|[[Hs H]|[[-> H]|[-> _]]]].
        -- left. apply in_or_app. right. now apply Hmono.
        -- left. apply in_or_app. right. apply Hmono. now apply e4.
        -- now right.
        -- congruence.
      * apply Hp in Hin as [_ Hin]. left. apply in_or_app. now left.
    + intros H.
      assert (H' : In x ps \/ In x bf \/ In x gl).
      { destruct H as [H|H]; [|auto]. apply in_app_or in H as [H|H]; [auto|].
        apply Hbt in H. rewrite !in_app_iff in H. tauto. }
      destruct H' as [H'|[H'|H']].
      * exists NParam. split; [|discriminate]. apply in_or_app. right. apply in_map_iff. exists x.
        split; [reflexivity | now apply Hps].
      * destruct (e2 _ H') as [k' [Hin Hk]]. exists k'. split; [apply in_or_app; now left|].
        destruct Hk as [->|[->|[->| ->]]]; discriminate.
      * exists (NGlobal (mem x mn')). split; [apply in_or_app; left; now apply e3 | discriminate].
  - intros x Hx. apply entry_all_strong.
    + intros k' Hin W. apply in_app_or in Hin as [Hin|Hin].
      * destruct (e1 _ _ Hin) as [[-> H]|[[Hs H]|[[-> H]|[-> _]]]]; try discriminate.
        -- exfalso. apply (Hdis x Hx). apply in_or_app. now right.
        -- now rewrite (Hmn x Hx).
      * apply Hp in Hin as [_ Hin]. exfalso. apply (Hdis x Hx). apply in_or_app. now left.
    + exists (NGlobal (mem x mn')). split; [apply in_or_app; left; now apply e3 | reflexivity].
  - intros x b H. apply entry_some_in in H. apply in_app_or in H as [H|H].
    + destruct (e1 _ _ H) as [[E _]|[[Hs _]|[[_ Hg]|[E _]]]]; try discriminate; try assumption.
      destruct Hs as [E|[E|E]]; discriminate.
    + apply Hp in H as [E _]. discriminate.
  - intros Hk x Hx. rewrite has_real_iff. apply In_keys in Hx as [k' Hin]. exists k'. split; [exact Hin|].
    intros ->. apply in_app_or in Hin as [Hin|Hin].
    + destruct (e1 _ _ Hin) as [[E _]|[[Hs _]|[[E _]|[_ E]]]]; try discriminate.
      * destruct Hs as [E|[E|E]]; discriminate.
      * rewrite (Hcls E) in Hk. discriminate.
    + apply Hp in Hin as [E _]. discriminate.
Qed.

Lemma binds_gen_mono s : forall x, In x (s_binds_gen false s) -> In x (s_binds_gen true s).
Proof.
  induction s using stmt_ind'; intros x Hx; cbn [s_binds_gen] in *; auto.
  - rewrite !in_app_iff in *. cbn in Hx. tauto.
  - rewrite !in_app_iff in *. cbn in Hx. tauto.
  - rewrite !in_app_iff in *. destruct Hx as [Hx|[Hx|Hx]]; auto.
    + right; left. apply in_flat_map in Hx as [s [Hs Hx]]. apply in_flat_map. exists s. split; auto.
      rewrite Forall_forall in H. now apply H.
    + right; right. apply in_flat_map in Hx as [s [Hs Hx]]. apply in_flat_map. exists s. split; auto.
      rewrite Forall_forall in H0. now apply H0.
  - rewrite !in_app_iff in *. destruct Hx as [Hx|[Hx|Hx]]; auto.
    + right; left. apply in_flat_map in Hx as [s [Hs Hx]]. apply in_flat_map. exists s. split; auto.
      rewrite Forall_forall in H. now apply H.
    + right; right. apply in_flat_map in Hx as [s [Hs Hx]]. apply in_flat_map. exists s. split; auto.
      rewrite Forall_forall in H0. now apply H0.
  - rewrite !in_app_iff in *. destruct Hx as [Hx|[Hx|[Hx|[Hx|Hx]]]]; auto.
    + do 3 right; left. apply in_flat_map in Hx as [s [Hs Hx]]. apply in_flat_map. exists s. split; auto.
      rewrite Forall_forall in H. now apply H.
    + do 4 right. apply in_flat_map in Hx as [s [Hs Hx]]. apply in_flat_map. exists s. split; auto.
      rewrite Forall_forall in H0. now apply H0.
  - rewrite !in_app_iff in *. destruct Hx as [Hx|Hx]; auto.
    right. apply in_flat_map in Hx as [s [Hs Hx]]. apply in_flat_map. exists s. split; auto.
    rewrite Forall_forall in H. now apply H.
  - rewrite !in_app_iff in *. destruct Hx as [Hx|[Hx|[Hx|Hx]]].
    + left. apply in_flat_map in Hx as [s [Hs Hx]]. apply in_flat_map. exists s. split; auto.
      rewrite Forall_forall in H. now apply H.
    + right; left. apply in_flat_map in Hx as [[hl ht hn hb] [Hh Hx]]. apply in_flat_map.
      exists (Handler hl ht hn hb). split; auto. rewrite !in_app_iff in *.
      destruct Hx as [Hx|[Hx|Hx]]; auto. right; right.
      apply in_flat_map in Hx as [s [Hs Hx]]. apply in_flat_map. exists s. split; auto.
      rewrite Forall_forall in H0. specialize (H0 _ Hh). unfold HP in H0. cbn in H0.
      rewrite Forall_forall in H0. now apply H0.
    + right; right; left. apply in_flat_map in Hx as [s [Hs Hx]]. apply in_flat_map. exists s. split; auto.
      rewrite Forall_forall in H1. now apply H1.
    + right; right; right. apply in_flat_map in Hx as [s [Hs Hx]]. apply in_flat_map. exists s. split; auto.
      rewrite Forall_forall in H2. now apply H2.
Qed.

Lemma binds_gen_mono_list b : forall x, In x (flat_map (s_binds_gen false) b) -> In x (flat_map s_binds b).
Proof.
  intros x Hx. apply in_flat_map in Hx as [s [Hs Hx]]. apply in_flat_map. exists s. split; auto.
  now apply binds_gen_mono.
Qed.

Lemma rope_params_ok ps :
  forallb param_ok ps = true -> forall x, In x (rope_param_names ps) <-> In x (map pname ps).
Proof.
  intros H x. unfold rope_param_names. rewrite !in_app_iff, !in_map_iff. split.
  - intros [[p [E Hp]]|[[p [E Hp]]|[p [E Hp]]]]; apply filter_In in Hp as [Hp _]; now exists p.
  - intros [p [E Hp]]. rewrite forallb_forall in H. specialize (H p Hp). unfold param_ok in H.
    destruct (pkind_of p) eqn:K; try discriminate.
    + left. exists p. split; auto. apply filter_In. now rewrite K.
    + right; left. exists p. split; auto. apply filter_In. now rewrite K.
    + right; right. exists p. split; auto. apply filter_In. now rewrite K.
Qed.

Lemma block_ok_spec mn ps body :
  block_ok mn ps body = true ->
  (forall x, In x (flat_map s_binds body) -> In x (ps ++ flat_map (s_binds_gen false) body ++ flat_map s_globals body))
  /\ disjoint (flat_map s_globals body) (ps ++ flat_map s_defimp body) = true
  /\ (forall x, In x (flat_map s_globals body) -> In x mn).
Proof.
  unfold block_ok. intros H. apply andb_prop in H as [H C]. apply andb_prop in H as [A B]. repeat split.
  - intros x Hx. rewrite forallb_forall in A. apply mem_In. now apply A.
  - exact B.
  - intros x Hx. rewrite forallb_forall in C. apply mem_In. now apply C.
Qed.

Lemma item_scopes_nil items :
  forallb (fun it : expr * option expr => match it with (c, v) => simple_expr c && oforall simple_expr v end) items = true ->
  flat_map item_scopes items = [].
Proof.
  induction items as [|[c [v|]] r IH]; cbn; [reflexivity| |]; intros H;
    apply andb_prop in H as [H1 H2]; apply andb_prop in H1 as [A B].
  - destruct (simple_expr_nil _ A) as (_ & _ & _ & a4). cbn in B. destruct (simple_expr_nil _ B) as (_ & _ & _ & b4).
    rewrite a4, b4. cbn. auto.
  - destruct (simple_expr_nil _ A) as (_ & _ & _ & a4). rewrite a4. cbn. auto.
Qed.

(* ------------------------------------------------------------------ statements: the scope tree *)
Lemma frag_nonlocals mn s : forall cls, frag_stmt mn cls s = true -> s_nonlocals s = [].
Proof.
  induction s using stmt_ind'; intros cls Hf; cbn [s_nonlocals frag_stmt] in *; try reflexivity; try discriminate.
  - apply andb_prop in Hf as [A C]. apply andb_prop in A as [A B].
    rewrite (flat_map_nil_cond (frag_stmt mn cls) s_nonlocals b), (flat_map_nil_cond (frag_stmt mn cls) s_nonlocals o); auto;
      (eapply Forall_impl; [|eassumption]); cbn; intros a Ha Hc; now apply (Ha cls).
  - apply andb_prop in Hf as [A C]. apply andb_prop in A as [A B].
    rewrite (flat_map_nil_cond (frag_stmt mn cls) s_nonlocals b), (flat_map_nil_cond (frag_stmt mn cls) s_nonlocals o); auto;
      (eapply Forall_impl; [|eassumption]); cbn; intros a Ha Hc; now apply (Ha cls).
  - apply andb_prop in Hf as [A D]. apply andb_prop in A as [A C].
    rewrite (flat_map_nil_cond (frag_stmt mn cls) s_nonlocals b), (flat_map_nil_cond (frag_stmt mn cls) s_nonlocals o); auto;
      (eapply Forall_impl; [|eassumption]); cbn; intros a Ha Hc; now apply (Ha cls).
  - apply andb_prop in Hf as [A B].
    apply (flat_map_nil_cond (frag_stmt mn cls)); auto.
    (eapply Forall_impl; [|eassumption]); cbn; intros a Ha Hc; now apply (Ha cls).
  - apply andb_prop in Hf as [Hf D]. apply andb_prop in Hf as [Hf C]. apply andb_prop in Hf as [A B].
    rewrite (flat_map_nil_cond (frag_stmt mn cls) s_nonlocals b), (flat_map_nil_cond (frag_stmt mn cls) s_nonlocals o),
      (flat_map_nil_cond (frag_stmt mn cls) s_nonlocals f); auto;
      try ((eapply Forall_impl; [|eassumption]); cbn; intros a Ha Hc; now apply (Ha cls)).
    cbn. rewrite app_nil_r.
    clear - H0 B. induction hs as [|[hl ht hn hb] r IH]; cbn; [reflexivity|].
    inversion H0 as [|h0 r0 Hh Hr]; subst. cbn in B. apply andb_prop in B as [B Br]. apply andb_prop in B as [B1 B2].
    rewrite IH by assumption. rewrite app_nil_r. unfold HP in Hh. cbn in Hh.
    apply (flat_map_nil_cond (frag_stmt mn cls)); auto.
    (eapply Forall_impl; [|eassumption]); cbn; intros a Ha Hc; now apply (Ha cls).
Qed.

Lemma frag_nonlocals_list mn cls body : forallb (frag_stmt mn cls) body = true -> flat_map s_nonlocals body = [].
Proof.
  intros H. apply (flat_map_nil_cond (frag_stmt mn cls)); auto. apply Forall_forall. intros s _ Hs.
  now apply (frag_nonlocals mn s cls).
Qed.

Section StmtScopes.
  Variable mn : list ident.
  Variable mn' : list ident.
  Hypothesis Hmn : forall x, In x mn -> In x mn'.

  Definition SCL (rl : list rscope) (sl : list sscope) : Prop :=
    Forall2 (tree_agree mn) rl sl /\ Forall (fun c => rk c <> KModule) rl.

  Lemma scl_nil : SCL [] [].
  Proof. split; constructor. Qed.

  Lemma scl_app a b c d : SCL a b -> SCL c d -> SCL (a ++ c) (b ++ d).
  Proof. intros [A1 A2] [B1 B2]. split; [now apply Forall2_app | apply Forall_app; now split]. Qed.

  Lemma scl_flat_map {A} (c : A -> bool) (f : A -> list rscope) (g : A -> list sscope) l :
    Forall (fun a => c a = true -> SCL (f a) (g a)) l -> forallb c l = true -> SCL (flat_map f l) (flat_map g l).
  Proof.
    induction 1 as [|a l Ha _ IH]; cbn; [intros; apply scl_nil|]. intros H. apply andb_prop in H as [H1 H2].
    apply scl_app; auto.
  Qed.

  Lemma scl_expr w e : expr_ok w e = true -> SCL (rx_scopes e) (e_scopes e).
  Proof. intros H. split; [now apply (expr_ok_scopes mn e w) | apply rx_scopes_not_module]. Qed.

  Lemma scl_exprs w es : forallb (expr_ok w) es = true -> SCL (flat_map rx_scopes es) (flat_map e_scopes es).
  Proof.
    intros H. apply (scl_flat_map (expr_ok w)); auto. apply Forall_forall. intros e _ He. now apply (scl_expr w).
  Qed.

  Lemma block_names cls k ps body :
    (cls = true -> is_class k = true) ->
    forallb (frag_stmt mn cls) body = true ->
    forallb param_ok ps = true ->
    block_ok mn (map pname ps) body = true ->
    names_agree k (flat_map (rs_names mn' cls) body ++ param_events ps)
                (map pname ps ++ flat_map s_binds body) (flat_map s_globals body).
  Proof.
    intros Hk Hf Hp Hb. destruct (block_ok_spec _ _ _ Hb) as (B1 & B2 & B3).
    unfold param_events.
    eapply (names_agree_of_ev mn' k cls _ (flat_map (s_binds_gen false) body) (flat_map s_defimp body)).
    - apply (ev_ok_flat_map mn' cls (frag_stmt mn cls)); auto. apply Forall_forall. intros s _ Hs.
      now apply (stmt_events mn mn').
    - exact Hk.
    - now apply rope_params_ok.
    - exact B1.
    - apply binds_gen_mono_list.
    - exact B2.
    - intros x Hx. apply mem_In. apply Hmn. now apply B3.
  Qed.

  Ltac scl_list H A :=
    match goal with
    | |- SCL (flat_map (rs_scopes _ ?c) _) _ =>
        apply (scl_flat_map (frag_stmt mn c)); [ (eapply Forall_impl; [|exact H]); cbn; intros ? Ha Hc; now apply Ha | exact A ]
    end.

  (* the sub-scopes rope records for a statement of the fragment are CPython's, in the same order *)
  Lemma stmt_scopes s : forall cls, frag_stmt mn cls s = true -> SCL (rs_scopes mn' cls s) (s_scopes s).
  Proof.
    induction s using stmt_ind'; intros cls Hf; cbn [rs_scopes s_scopes frag_stmt] in *.
    - now apply (scl_exprs true).
    - destruct (simple_opt_nil _ Hf) as (_ & _ & _ & a). rewrite a. apply scl_nil.
    - apply andb_prop in Hf as [A B]. destruct (simple_list_nil _ A) as (_ & _ & _ & a). rewrite a. cbn [app].
      now apply (scl_expr true).
    - apply andb_prop in Hf as [A B]. destruct (simple_expr_nil _ A) as (_ & _ & _ & a).
      destruct (simple_expr_nil _ B) as (_ & _ & _ & b). rewrite a, b. apply scl_nil.
    - apply andb_prop in Hf as [A C]. apply andb_prop in A as [A B].
      destruct (simple_expr_nil _ A) as (_ & _ & _ & a1). destruct (simple_expr_nil _ B) as (_ & _ & _ & b1).
      destruct (simple_opt_nil _ C) as (_ & _ & _ & c1). rewrite a1, b1, c1. apply scl_nil.
    - destruct (simple_list_nil _ Hf) as (_ & a2 & _ & a4). rewrite a2, a4. apply scl_nil.
    - apply scl_nil.
    - apply andb_prop in Hf as [A C]. apply andb_prop in A as [A B].
      apply scl_app; [now apply (scl_expr true) | apply scl_app]; [scl_list H B | scl_list H0 C].
    - apply andb_prop in Hf as [A C]. apply andb_prop in A as [A B].
      apply scl_app; [now apply (scl_expr true) | apply scl_app]; [scl_list H B | scl_list H0 C].
    - apply andb_prop in Hf as [A D]. apply andb_prop in A as [A C]. apply andb_prop in A as [A B].
      destruct (simple_expr_nil _ A) as (_ & _ & _ & a1). destruct (simple_expr_nil _ B) as (_ & _ & _ & b1).
      rewrite a1, b1. cbn [app]. apply scl_app; [scl_list H C | scl_list H0 D].
    - apply andb_prop in Hf as [A B]. rewrite (item_scopes_nil _ A). cbn [app]. scl_list H B.
    - apply andb_prop in Hf as [Hf D]. apply andb_prop in Hf as [Hf C]. apply andb_prop in Hf as [A B].
      apply scl_app; [scl_list H A|]. apply scl_app; [|apply scl_app; [scl_list H1 C | scl_list H2 D]].
      clear - H0 B. induction hs as [|[hl ht hn hb] r IH]; cbn; [apply scl_nil|].
      inversion H0 as [|h0 r0 Hh Hr]; subst. cbn in B. apply andb_prop in B as [B Br]. apply andb_prop in B as [B1 B2].
      apply scl_app; [|now apply IH].
      destruct (simple_opt_nil _ B1) as (_ & _ & _ & t4). rewrite t4. cbn [app].
      unfold HP in Hh. cbn in Hh. scl_list Hh B2.
    - (* def *)
      apply andb_prop in Hf as [Hf F7]. apply andb_prop in Hf as [Hf F6]. apply andb_prop in Hf as [Hf F5].
      apply andb_prop in Hf as [Hf F4]. apply andb_prop in Hf as [Hf F3]. apply andb_prop in Hf as [F1 F2].
      destruct (simple_list_nil _ F1) as (d1 & d2 & _ & d4). destruct (simple_list_nil _ F2) as (a1 & a2 & _ & a4).
      destruct (simple_opt_nil _ F3) as (r1 & r2 & _ & r4).
      rewrite d1, d2, d4, a1, a2, a4, r1, r2, r4. cbn [app]. rewrite !app_nil_r.
      assert (Hci : (if cls then match first_arg ps with Some _ => flat_map ci_scopes b | None => [] end else []) = []).
      { destruct cls; [|reflexivity]. destruct (first_arg ps); [|reflexivity]. now apply (ci_simple_list 0%N). }
      rewrite Hci.
      assert (Hb : SCL (flat_map (rs_scopes mn' false) b) (flat_map s_scopes b)) by (scl_list H F5).
      destruct Hb as [Hb1 Hb2].
      split; [|constructor; [cbn; discriminate | constructor]].
      constructor; [|constructor].
      rewrite (frag_nonlocals_list mn false b F5).
      constructor; auto.
      + discriminate.
      + discriminate.
      + apply (block_names false); auto; discriminate.
      + intros x Hx. now apply (proj2 (proj2 (block_ok_spec _ _ _ F6))).
    - (* class *)
      apply andb_prop in Hf as [Hf F4]. apply andb_prop in Hf as [Hf F3]. apply andb_prop in Hf as [F1 F2].
      destruct (simple_list_nil _ F1) as (d1 & d2 & _ & d4). destruct (simple_list_nil _ F2) as (b1 & b2 & _ & b4).
      rewrite d1, d2, d4, b1, b2, b4. cbn [app]. rewrite !app_nil_r.
      assert (Hb : SCL (flat_map (rs_scopes mn' true) b) (flat_map s_scopes b)) by (scl_list H F3).
      destruct Hb as [Hb1 Hb2].
      split; [|constructor; [cbn; discriminate | constructor]].
      constructor; [|constructor].
      rewrite (frag_nonlocals_list mn true b F3).
      constructor; auto.
      + discriminate.
      + discriminate.
      + pose proof (block_names true KClass [] b (fun _ => eq_refl) F3 eq_refl F4) as N.
        cbn in N. unfold param_events in N. cbn in N. now rewrite app_nil_r in N.
      + intros x Hx. now apply (proj2 (proj2 (block_ok_spec _ _ _ F4))).
    - apply scl_nil.
    - apply scl_nil.
    - apply scl_nil.
    - discriminate.
  Qed.
End StmtScopes.

(* ------------------------------------------------------------------ the whole module *)
Lemma module_names_agree p :
  in_fragment_C15 p = true ->
  names_agree KModule (flat_map (rs_names [] false) p) (flat_map s_binds p) (flat_map s_globals p).
Proof.
  unfold in_fragment_C15. intros H. apply andb_prop in H as [H G]. apply andb_prop in H as [F B].
  destruct (block_ok_spec _ _ _ B) as (B1 & B2 & B3).
  destruct (flat_map s_globals p) eqn:EG; [|discriminate].
  pose proof (names_agree_of_ev [] KModule false (flat_map (rs_names [] false) p)
                (flat_map (s_binds_gen false) p) (flat_map s_defimp p) [] [] [] (flat_map s_binds p)) as N.
  cbn [map app] in N. rewrite !app_nil_r in N. apply N.
  - eapply ev_ok_ext; [|reflexivity|reflexivity|exact EG].
    apply (ev_ok_flat_map [] false (frag_stmt (flat_map s_binds p) false)); auto.
    apply Forall_forall. intros s _ Hs. now apply (stmt_events (flat_map s_binds p) []).
  - discriminate.
  - tauto.
  - intros x Hx. specialize (B1 x Hx). cbn [app] in B1. now rewrite app_nil_r in B1.
  - apply binds_gen_mono_list.
  - reflexivity.
  - intros x [].
Qed.

Theorem program_agree nl p :
  in_fragment_C15 p = true ->
  tree_agree (flat_map s_binds p) (rope_tree p) (spec_tree nl p).
Proof.
  intros Hf. pose proof (module_names_agree p Hf) as N.
  unfold in_fragment_C15 in Hf. apply andb_prop in Hf as [H G]. apply andb_prop in H as [F B].
  destruct (flat_map s_globals p) eqn:EG; [|discriminate].
  unfold rope_tree, spec_tree. rewrite EG, (frag_nonlocals_list _ false p F).
  assert (Hmn : forall x, In x (flat_map s_binds p) -> In x (keys (flat_map (rs_names [] false) p))).
  { intros x Hx. apply has_real_keys. apply (na_real _ _ _ _ N). now left. }
  assert (S : SCL (flat_map s_binds p) (flat_map (rs_scopes (keys (flat_map (rs_names [] false) p)) false) p)
                  (flat_map s_scopes p)).
  { apply (scl_flat_map _ (frag_stmt (flat_map s_binds p) false)); auto.
    apply Forall_forall. intros s _ Hs. now apply stmt_scopes. }
  destruct S as [S1 S2].
  constructor; auto.
  - discriminate.
  - discriminate.
  - intros x [].
Qed.

(* ------------------------------------------------------------------ induction on tree_agree *)
Section TAInd.
  Variable mn : list ident.
  Variable P : rscope -> sscope -> Prop.
  Hypothesis HTA : forall k name st bf bl evs bases rcs stop bound globals scs,
      Forall2 (tree_agree mn) rcs scs -> Forall2 P rcs scs ->
      Forall (fun c => rk c <> KModule) rcs ->
      (k = KComp -> Forall (fun c => rk c = KComp) rcs) ->
      k <> KLambda ->
      names_agree k evs bound globals ->
      incl globals mn ->
      P (RScope k name st bf bl evs bases rcs) (SScope k st stop bound globals [] scs).

  Fixpoint tree_agree_ind' r s (H : tree_agree mn r s) {struct H} : P r s :=
    match H in tree_agree _ r s return P r s with
    | TA _ k name st bf bl evs bases rcs stop bound globals scs Hc Hm Hk Hl Hn Hi =>
        HTA k name st bf bl evs bases rcs stop bound globals scs Hc
            ((fix go rcs scs (F : Forall2 (tree_agree mn) rcs scs) {struct F} : Forall2 P rcs scs :=
                match F in Forall2 _ rcs scs return Forall2 P rcs scs with
                | Forall2_nil _ => Forall2_nil _
                | Forall2_cons x y hxy hr => Forall2_cons x y (tree_agree_ind' x y hxy) (go _ _ hr)
                end) rcs scs Hc)
            Hm Hk Hl Hn Hi
    end.
End TAInd.

(* ------------------------------------------------------------------ shape of the trees *)
Inductive shape := Shape (k : skind) (start : N) (children : list shape).

Fixpoint rshape (r : rscope) : shape :=
  match r with RScope k _ st _ _ _ _ cs => Shape k st (map rshape cs) end.
Fixpoint sshape (s : sscope) : shape :=
  match s with SScope k st _ _ _ _ cs => Shape k st (map sshape cs) end.

Lemma tree_agree_shape mn r s : tree_agree mn r s -> rshape r = sshape s.
Proof.
  intros H. induction H using tree_agree_ind'. cbn. f_equal.
  clear - H0. induction H0; cbn; [reflexivity|]. now f_equal.
Qed.
