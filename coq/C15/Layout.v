(* The layout hypothesis of the line-extent theorems, as boolean predicates over the layout table (one record
   per physical line: indentation, blank-or-comment, starts / ends a logical line) and the two scope trees.

   [block_end_ok lay s stop]  for a function / class scope [s] whose ast node ends on line [stop]:
       - [stop] is the last line of a logical line whose first line [stopL] is a code line (a logical line that
         is not blank and not a comment starts there), at or after the last statement of the body;
       - every code line from the last body statement down to [stopL] is indented at least like the body
         (the body's indentation is the indentation of the first body statement, or - for a one-line
         definition [def f(): stmt], whose header's logical line ends at or after the last body statement -
         the header's indentation + 4);
       - the next code line after [stopL], if there is one, is indented less than the body;
       - a one-line definition is followed by at least one more physical line (the source ends with a newline).
     These hold for every source the tokenizer accepts except when a continuation line or the line after a
     one-liner is indented in an unusual way; the harness counts how many generated scopes satisfy them.
   [comp_end_ok]  the logical line containing the first line of the comprehension ends on its last line.
   [ends_ok]      the above for every scope of the two trees, walked in parallel.
   [lines_ok]     additionally, for the scope-for-a-line theorem: sub-scopes are listed in line order, a
                  function / class never shares lines with a sibling, and every non-blank line inside a function
                  / class is indented at least like its header. *)
From Coq Require Import List NArith Bool PeanoNat.
From RopeVerif.C15 Require Import Syntax Scoping RopeScopes.
Import ListNotations.

Section Layout.
  Variable lay : list lineinfo.
  Local Open Scope N_scope.

  Definition is_code (li : lineinfo) : bool := li_start li && negb (li_empty li).
  Definition code_start_b (l : N) : bool := is_code (line_at lay l).

  (* the lines a .. b *)
  Definition lines_between (a b : N) : list N :=
    map (fun i => a + N.of_nat i) (seq 0 (N.to_nat (b + 1 - a))).

  Definition one_liner (s : rscope) : bool := N.leb (rblast s) (snd (logical_line_in lay (rstart s))).
  Definition body_indent (s : rscope) : N :=
    if one_liner s then indents lay (rstart s) + 4 else indents lay (rbfirst s).

  (* first code line after l, or nlines + 1 *)
  Definition next_code (l : N) : N :=
    match fwd_to lay is_code (S (length lay)) (l + 1) with Some d => d | None => nlines lay + 1 end.

  Definition block_end_ok (s : rscope) (stop : N) : bool :=
    let stopL := back_to_start lay (S (length lay)) stop in
    let I := body_indent s in
    let d := next_code stopL in
    (negb (one_liner s) || N.ltb (rblast s) (nlines lay))
    && N.leb (rblast s) stopL && N.leb stopL stop && N.leb stop (nlines lay)
    && code_start_b stopL
    && forallb (fun l => negb (code_start_b l) || N.leb I (indents lay l))
               (lines_between (if one_liner s then rblast s + 1 else rblast s) stopL)
    && (N.ltb (nlines lay) d || N.ltb (indents lay d) I)
    && li_end (line_at lay stop)
    && forallb (fun l => negb (li_end (line_at lay l))) (lines_between stopL (N.pred stop)).

  Definition comp_end_ok (s : rscope) (stop : N) : bool :=
    N.eqb (snd (logical_line_in lay (rstart s))) stop.

  Definition scope_end_ok (r : rscope) (stop : N) : bool :=
    match rk r with
    | KModule => true
    | KComp => comp_end_ok r stop
    | _ => block_end_ok r stop
    end.

  Fixpoint ends_ok (r : rscope) (s : sscope) : bool :=
    scope_end_ok r (sstop s)
    && (fix go (rcs : list rscope) (scs : list sscope) : bool :=
          match rcs, scs with
          | [], [] => true
          | x :: a, y :: b => ends_ok x y && go a b
          | _, _ => false
          end) (rchildren r) (schildren s).

  Definition layout_regular (p : program) : bool := ends_ok (rope_tree p) (spec_tree (nlines lay) p).

  (* ---------------------------------------------------------------- for the scope holding a line *)
  Definition is_blockk (k : skind) : bool := match k with KFunction | KClass => true | _ => false end.

  (* the sub-scopes of one scope: starts in order; a block ends before the next sibling starts and starts after
     every earlier sibling ended *)
  Fixpoint siblings_ok (cs : list rscope) : bool :=
    match cs with
    | [] => true
    | c :: r =>
        forallb (fun c' => N.leb (rope_start c) (rope_start c')
                           && (negb (is_blockk (rk c) || is_blockk (rk c')) || N.ltb (rope_end lay c) (rope_start c'))) r
        && siblings_ok r
    end.

  (* every non-blank line of a function / class is indented at least like its header *)
  Definition indent_ok (s : rscope) : bool :=
    negb (is_blockk (rk s))
    || forallb (fun l => li_empty (line_at lay l) || N.leb (indents lay (rope_start s)) (indents lay l))
               (lines_between (rope_start s) (rope_end lay s)).

  (* a function / class nested in a function / class starts below its header line *)
  Definition header_ok (s : rscope) : bool :=
    negb (is_blockk (rk s))
    || forallb (fun c => negb (is_blockk (rk c)) || N.ltb (rope_start s) (rope_start c)) (rchildren s).

  (* path of the innermost function / class / module scope on a path that may continue into comprehensions *)
  Fixpoint strip_cs (cs : list rscope) (q : path) : path :=
    match q with
    | [] => []
    | i :: q' =>
        match nth_error cs i with
        | Some c => if is_blockk (rk c) then i :: strip_cs (rchildren c) q' else []
        | None => []
        end
    end.
  Definition strip_comps (r : rscope) (q : path) : path := strip_cs (rchildren r) q.

  Fixpoint lines_ok (r : rscope) : bool :=
    indent_ok r && header_ok r && siblings_ok (rchildren r)
    && (fix go (cs : list rscope) : bool := match cs with [] => true | c :: a => lines_ok c && go a end) (rchildren r).
End Layout.
