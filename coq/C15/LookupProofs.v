(* Part 2 of the proofs: rope's lookup chain (Scope.lookup / _propagated_lookup over the model's tree) finds
   the binding CPython's resolution rule gives, for trees related by [tree_agree] and queries allowed by
   [query_ok].  The argument is about the two abstract trees only. *)
From Coq Require Import List NArith Bool PeanoNat Lia.
From RopeVerif.C15 Require Import Syntax Scoping RopeScopes Fragment RopeScopesProofs.
Import ListNotations.

Lemma Forall2_nth_error {A B} (R : A -> B -> Prop) l m i :
  Forall2 R l m ->
  match nth_error l i, nth_error m i with
  | Some a, Some b => R a b
  | None, None => True
  | _, _ => False
  end.
Proof.
  intros H. revert i. induction H; intros [|i]; cbn; auto. apply IHForall2.
Qed.

Lemma tree_agree_inv mn r s :
  tree_agree mn r s ->
  rk r = sk s /\ snonlocals s = [] /\ names_agree (rk r) (revs r) (sbound s) (sglobals s)
  /\ incl (sglobals s) mn /\ rk r <> KLambda
  /\ Forall2 (tree_agree mn) (rchildren r) (schildren s)
  /\ Forall (fun c => rk c <> KModule) (rchildren r)
  /\ (rk r = KComp -> Forall (fun c => rk c = KComp) (rchildren r)).
Proof.
  intros H. inversion H; subst. cbn.
  refine (conj _ (conj _ (conj _ (conj _ (conj _ (conj _ (conj _ _))))))); auto.
Qed.

Section Lookup.
  Variable mn : list ident.
  Variable mg : list ident.
  Variable bi : list ident.
  Variable inh : path -> ident -> option binding.
  Hypothesis Hmn_mg : forall x, In x mn -> mem x mg = true.

  (* a rope chain and a spec chain (innermost first) that walk the same path of two agreeing trees *)
  Inductive chains : list (path * rscope) -> list (path * sscope) -> Prop :=
  | CH_root r s :
      tree_agree mn r s -> rk r = KModule -> sglobals s = [] ->
      (forall x, mem x mg = true <-> In x (sbound s)) ->
      chains [([], r)] [([], s)]
  | CH_cons p c cs q r rest srest :
      tree_agree mn c cs -> rk c <> KModule -> (rk r = KComp -> rk c = KComp) ->
      chains ((q, r) :: rest) srest ->
      chains ((p, c) :: (q, r) :: rest) ((p, cs) :: srest).

  Lemma chains_from p : forall rt st pre racc sacc,
    tree_agree mn rt st ->
    chains ((pre, rt) :: racc) ((pre, st) :: sacc) ->
    match rchain_from rt pre p racc, schain_from st pre p sacc with
    | Some rch, Some sch => chains rch sch
    | None, None => True
    | _, _ => False
    end.
  Proof.
    induction p as [|i p IH]; intros rt st pre racc sacc Ht Hc; cbn; [exact Hc|].
    destruct (tree_agree_inv _ _ _ Ht) as (_ & _ & _ & _ & _ & Hch & Hnm & Hcomp).
    pose proof (Forall2_nth_error _ _ _ i Hch) as Hi.
    destruct (nth_error (rchildren rt) i) as [c|] eqn:E1; destruct (nth_error (schildren st) i) as [cs|] eqn:E2;
      try contradiction; [|exact I].
    apply IH; [exact Hi|].
    apply nth_error_In in E1.
    constructor; auto.
    - rewrite Forall_forall in Hnm. now apply Hnm.
    - intros Hk. specialize (Hcomp Hk). rewrite Forall_forall in Hcomp. now apply Hcomp.
  Qed.

  (* ---------------------------------------------------------------- one scope *)
  Lemma own_binding_not_global p k : (forall b, k <> NGlobal b) -> own_binding p k = BScope p.
  Proof. intros H. destruct k; try reflexivity. exfalso. now apply (H in_module). Qed.

  Lemma scope_global k evs bound gl p x :
    names_agree k evs bound gl -> In x gl -> exists k', entry evs x = Some k' /\ own_binding p k' = BScope [].
  Proof. intros N H. exists (NGlobal true). split; [now apply (na_glob _ _ _ _ N) | reflexivity]. Qed.

  Lemma scope_bound k evs bound gl p x :
    names_agree k evs bound gl -> ~ In x gl -> In x bound ->
    exists k', entry evs x = Some k' /\ own_binding p k' = BScope p.
  Proof.
    intros N Hg Hb.
    assert (Hr : has_real evs x = true) by (apply (na_real _ _ _ _ N); now left).
    apply has_real_keys in Hr.
    destruct (entry evs x) as [k'|] eqn:E; [|apply entry_none in E; contradiction].
    exists k'. split; [reflexivity|]. apply own_binding_not_global. intros b ->.
    apply Hg. now apply (na_nglob _ _ _ _ N x b).
  Qed.

  Lemma scope_absent k evs bound gl x :
    names_agree k evs bound gl -> is_class k = false -> ~ In x gl -> ~ In x bound -> entry evs x = None.
  Proof.
    intros N Hk Hg Hb. apply entry_none. intros Hin.
    pose proof (na_noself _ _ _ _ N Hk x Hin) as Hr. apply (na_real _ _ _ _ N) in Hr. tauto.
  Qed.

  Lemma scope_absent_keys k evs bound gl x :
    names_agree k evs bound gl -> ~ In x (keys evs) -> ~ In x gl /\ ~ In x bound.
  Proof.
    intros N Hk. split; intros H.
    - pose proof (na_glob _ _ _ _ N x H) as E. apply entry_some_in in E. apply Hk. apply In_keys. eauto.
    - assert (Hr : has_real evs x = true) by (apply (na_real _ _ _ _ N); now left).
      apply Hk. now apply has_real_keys.
  Qed.

  Lemma mem_dec x l : mem x l = true \/ mem x l = false.
  Proof. destruct (mem x l); auto. Qed.

  (* ---------------------------------------------------------------- chains without comprehensions *)
  Definition noncomp (pr : path * rscope) : Prop := rk (snd pr) <> KComp.

  Lemma chains_noncomp rch sch :
    chains rch sch -> (match rch with pr :: _ => noncomp pr | [] => True end) -> Forall noncomp rch.
  Proof.
    induction 1 as [r s Ht Hk Hg Hm | p c cs q r rest srest Ht Hnm Hcomp Hc IH]; intros Hh.
    - constructor; [exact Hh | constructor].
    - constructor; [exact Hh|]. apply IH. unfold noncomp in *. cbn in *. intros Hr. apply Hh. now apply Hcomp.
  Qed.

  Lemma propagated_blocks x rch sch :
    chains rch sch -> Forall noncomp rch -> propagated bi inh rch x = free_lookup mg bi sch x.
  Proof.
    induction 1 as [r s Ht Hk Hg Hm | p c cs q r rest srest Ht Hnm Hcomp Hc IH]; intros Hnc.
    - (* the module *)
      destruct (tree_agree_inv _ _ _ Ht) as (Ek & _ & N & _).
      cbn [propagated free_lookup gnames]. rewrite <- Ek, Hk. cbn [is_class]. unfold module_level.
      rewrite Hk in N. rewrite Hg in N.
      destruct (mem_dec x mg) as [M|M]; rewrite M.
      + apply Hm in M. destruct (scope_bound _ _ _ _ [] x N (fun f => f) M) as [k' [E B]]. now rewrite E, B.
      + assert (Hb : ~ In x (sbound s)) by (intros Hb; apply Hm in Hb; congruence).
        rewrite (scope_absent _ _ _ _ x N eq_refl (fun f => f) Hb). now destruct (mem x bi).
    - (* an inner block scope *)
      inversion Hnc as [|? ? Hh Hrest]; subst.
      destruct (tree_agree_inv _ _ _ Ht) as (Ek & Enl & N & Hincl & Hlam & _).
      specialize (IH Hrest).
      unfold noncomp in Hh. cbn in Hh.
      cbn [propagated free_lookup]. rewrite <- Ek.
      destruct (rk c) eqn:K; try congruence.
      + (* function *)
        cbn [is_class gnames]. rewrite K. rewrite Enl. cbn [mem existsb].
        destruct (mem_dec x (sglobals cs)) as [G|G]; rewrite G.
        * apply mem_In in G. destruct (scope_global _ _ _ _ p x N G) as [k' [E B]]. rewrite E, B.
          unfold module_level. now rewrite (Hmn_mg x (Hincl x G)).
        * apply mem_false in G. destruct (mem_dec x (sbound cs)) as [B|B]; rewrite B.
          -- apply mem_In in B. destruct (scope_bound _ _ _ _ p x N G B) as [k' [E Bd]]. now rewrite E, Bd.
          -- apply mem_false in B. rewrite (scope_absent _ _ _ _ x N eq_refl G B). exact IH.
      + (* class: skipped by both *)
        cbn [is_class]. exact IH.
  Qed.

  (* ---------------------------------------------------------------- Scope.lookup as one function of the chain *)
  Definition R (ch : list (path * rscope)) (x : ident) : binding := lookup_chain bi inh ch x.

  Lemma propagated_nonclass p s outer x :
    is_class (rk s) = false -> propagated bi inh ((p, s) :: outer) x = R ((p, s) :: outer) x.
  Proof. intros H. unfold R. cbn [propagated lookup_chain]. now rewrite H. Qed.

  (* from a comprehension whose own table lacks x, the lookup continues as a lookup from the parent *)
  Lemma R_comp p s q r rest x :
    rk s = KComp -> entry (revs s) x = None ->
    R ((p, s) :: (q, r) :: rest) x = R ((q, r) :: rest) x.
  Proof.
    intros K E. unfold R. cbn [lookup_chain].
    assert (G1 : gnames bi inh ((p, s) :: (q, r) :: rest) x = gnames bi inh ((q, r) :: rest) x).
    { change (gnames bi inh ((p, s) :: (q, r) :: rest) x)
        with (match entry (revs s) x with
              | Some k => Some (own_binding p k)
              | None => match rk s with
                        | KComp => gnames bi inh ((q, r) :: rest) x
                        | KModule => if mem x bi then Some BBuiltin else None
                        | KClass => inh p x
                        | _ => None
                        end
              end).
      now rewrite E, K. }
    rewrite G1. destruct (gnames bi inh ((q, r) :: rest) x) as [b|] eqn:G; [reflexivity|].
    change (propagated bi inh ((q, r) :: rest) x)
      with (if is_class (rk r) then propagated bi inh rest x
            else match gnames bi inh ((q, r) :: rest) x with Some b => b | None => propagated bi inh rest x end).
    rewrite G. now destruct (is_class (rk r)).
  Qed.

  Lemma R_comps x rch sch :
    chains rch sch ->
    (match rch with (p, s) :: _ => rk s = KComp | [] => False end) ->
    comp_sees_class inh rch x = false ->
    R rch x = free_lookup mg bi sch x.
  Proof.
    induction 1 as [r s Ht Hk Hg Hm | p c cs q r rest srest Ht Hnm Hcomp Hc IH]; intros Hh Hq.
    - congruence.
    - destruct (tree_agree_inv _ _ _ Ht) as (Ek & Enl & N & Hincl & Hlam & _).
      cbn [free_lookup]. rewrite <- Ek, Hh. rewrite Enl. cbn [mem existsb].
      rewrite Hh in N.
      cbn [comp_sees_class] in Hq. rewrite Hh in Hq.
      destruct (entry (revs c) x) as [k'|] eqn:E.
      + (* bound by the comprehension itself *)
        assert (Hin : In x (keys (revs c))) by (apply In_keys; exists k'; now apply entry_some_in).
        pose proof (na_noself _ _ _ _ N eq_refl x Hin) as Hr. apply (na_real _ _ _ _ N) in Hr.
        unfold R. cbn [lookup_chain gnames]. rewrite E.
        destruct (mem_dec x (sglobals cs)) as [G|G]; rewrite G.
        * apply mem_In in G. destruct (scope_global _ _ _ _ p x N G) as [k2 [E2 B]].
          rewrite E in E2. inversion E2; subst k2. rewrite B. unfold module_level.
          now rewrite (Hmn_mg x (Hincl x G)).
        * apply mem_false in G. destruct Hr as [Hb|Hb]; [|contradiction].
          rewrite (proj2 (mem_In _ _) Hb).
          destruct (scope_bound _ _ _ _ p x N G Hb) as [k2 [E2 B]]. rewrite E in E2. inversion E2; subst k2.
          now rewrite B.
      + (* not bound here: continue from the parent *)
        assert (Hk : ~ In x (keys (revs c))) by (now apply entry_none).
        destruct (scope_absent_keys _ _ _ _ x N Hk) as [G B].
        rewrite (proj2 (mem_false _ _) G), (proj2 (mem_false _ _) B).
        rewrite (proj2 (mem_false _ _) Hk) in Hq.
        rewrite (R_comp p c q r rest x Hh E).
        destruct (rk r) eqn:Kr.
        * (* parent is the module *)
          rewrite <- (propagated_nonclass q r rest x) by (now rewrite Kr).
          apply propagated_blocks; [exact Hc|]. apply (chains_noncomp _ _ Hc). unfold noncomp. cbn. congruence.
        * rewrite <- (propagated_nonclass q r rest x) by (now rewrite Kr).
          apply propagated_blocks; [exact Hc|]. apply (chains_noncomp _ _ Hc). unfold noncomp. cbn. congruence.
        * (* parent is a class: the query excludes the class's attributes *)
          cbn [comp_sees_class] in Hq. unfold class_has in Hq.
          apply orb_false_iff in Hq as [Q1 Q2].
          assert (Eg : gnames bi inh ((q, r) :: rest) x = None).
          { cbn [gnames]. rewrite (proj2 (entry_none _ _) (proj1 (mem_false _ _) Q1)), Kr.
            destruct (inh q x); [discriminate | reflexivity]. }
          unfold R. cbn [lookup_chain]. rewrite Eg.
          assert (Ep : propagated bi inh rest x = propagated bi inh ((q, r) :: rest) x).
          { cbn [propagated]. now rewrite Kr. }
          rewrite Ep. apply propagated_blocks; [exact Hc|]. apply (chains_noncomp _ _ Hc). unfold noncomp. cbn. congruence.
        * (* parent is a comprehension *)
          apply IH; [reflexivity|]. cbn [comp_sees_class]. rewrite Kr. exact Hq.
        * exfalso. inversion Hc; subst.
          -- congruence.
          -- match goal with H : tree_agree mn r _ |- _ => destruct (tree_agree_inv _ _ _ H) as (_ & _ & _ & _ & L & _) end.
             congruence.
  Qed.

  (* ---------------------------------------------------------------- the lookup theorem on chains *)
  Theorem lookup_chain_agrees x rch sch :
    chains rch sch -> query_ok_chain inh rch x = true ->
    lookup_chain bi inh rch x = resolve_chain mg bi sch x.
  Proof.
    intros Hc Hq. pose proof Hc as Hc0.
    destruct Hc as [r s Ht Hk Hg Hm | p c cs q r rest srest Ht Hnm Hcomp Hc].
    - (* the module itself *)
      change (lookup_chain bi inh [([], r)] x) with (R [([], r)] x).
      rewrite <- (propagated_nonclass [] r [] x) by (now rewrite Hk).
      rewrite (propagated_blocks x _ _ Hc0).
      + destruct (tree_agree_inv _ _ _ Ht) as (Ek & _). cbn. now rewrite <- Ek, Hk.
      + constructor; [|constructor]. unfold noncomp. cbn. congruence.
    - destruct (tree_agree_inv _ _ _ Ht) as (Ek & Enl & N & Hincl & Hlam & _).
      destruct (rk c) eqn:K; try congruence.
      + (* function *)
        change (lookup_chain bi inh ((p, c) :: (q, r) :: rest) x) with (R ((p, c) :: (q, r) :: rest) x).
        rewrite <- (propagated_nonclass p c ((q, r) :: rest) x) by (now rewrite K).
        rewrite (propagated_blocks x _ _ Hc0).
        * cbn [resolve_chain free_lookup]. now rewrite <- Ek.
        * apply (chains_noncomp _ _ Hc0). unfold noncomp. cbn. congruence.
      + (* class *)
        cbn [query_ok_chain] in Hq. rewrite ?K in Hq.
        assert (Hrest : Forall noncomp ((q, r) :: rest)).
        { assert (F : Forall noncomp ((p, c) :: (q, r) :: rest)).
          { apply (chains_noncomp _ _ Hc0). unfold noncomp. cbn. congruence. }
          now inversion F. }
        cbn [lookup_chain resolve_chain gnames]. rewrite <- Ek, ?K, Enl. cbn [mem existsb].
        destruct (mem_dec x (sglobals cs)) as [G|G]; rewrite G.
        * apply mem_In in G. destruct (scope_global _ _ _ _ p x N G) as [k' [E B]]. rewrite E, B.
          unfold module_level. now rewrite (Hmn_mg x (Hincl x G)).
        * apply mem_false in G. destruct (mem_dec x (sbound cs)) as [B|B]; rewrite B.
          -- apply mem_In in B. destruct (scope_bound _ _ _ _ p x N G B) as [k' [E Bd]]. now rewrite E, Bd.
          -- apply mem_false in B.
             assert (Hr : has_real (revs c) x = false).
             { destruct (has_real (revs c) x) eqn:Hr; [|reflexivity]. apply (na_real _ _ _ _ N) in Hr. tauto. }
             rewrite Hr in Hq. cbn in Hq. apply negb_true_iff in Hq. unfold class_has in Hq.
             apply orb_false_iff in Hq as [Q1 Q2].
             rewrite (proj2 (entry_none _ _) (proj1 (mem_false _ _) Q1)).
             destruct (inh p x); [discriminate|].
             now apply propagated_blocks.
      + (* comprehension *)
        cbn [query_ok_chain] in Hq. rewrite ?K in Hq. apply negb_true_iff in Hq.
        change (lookup_chain bi inh ((p, c) :: (q, r) :: rest) x) with (R ((p, c) :: (q, r) :: rest) x).
        rewrite (R_comps x _ _ Hc0 K Hq).
        cbn [resolve_chain free_lookup]. now rewrite <- Ek.
  Qed.
End Lookup.

(* ------------------------------------------------------------------ every scope's globals are module names *)
Lemma tree_agree_globals mn r s :
  tree_agree mn r s -> forall s', In s' (s_all s) -> incl (sglobals s') mn.
Proof.
  intros H. induction H using tree_agree_ind'. intros s' Hs'. cbn in Hs'. destruct Hs' as [<-|Hs']; [assumption|].
  apply in_flat_map in Hs' as [c [Hc Hs']].
  clear - H0 Hc Hs'. induction H0 as [|x y l m Hxy Hl IH]; [contradiction|].
  destruct Hc as [<-|Hc]; [now apply Hxy | now apply IH].
Qed.

Lemma module_globals_spec mn r s :
  tree_agree mn r s -> (forall x, In x (sbound s) <-> In x mn) ->
  forall x, mem x (spec_module_globals s) = true <-> In x (sbound s).
Proof.
  intros H Hb x. rewrite mem_In. unfold spec_module_globals. rewrite in_app_iff. split; [|auto].
  intros [Hx|Hx]; [exact Hx|].
  apply in_flat_map in Hx as [s' [Hs' Hx]]. apply filter_In in Hx as [Hx _].
  apply Hb. now apply (tree_agree_globals mn r s H s' Hs').
Qed.

(* ------------------------------------------------------------------ the lookup theorem on trees *)
Theorem lookup_agrees_trees mn bi inh rt st :
  tree_agree mn rt st -> rk rt = KModule -> sglobals st = [] ->
  (forall x, In x (sbound st) <-> In x mn) ->
  forall p x, query_ok inh rt p x = true ->
  rope_lookup bi inh rt p x = spec_resolve bi st p x.
Proof.
  intros Ht Hk Hg Hb p x Hq.
  unfold rope_lookup, spec_resolve, query_ok, rchain, schain in *.
  assert (Hroot : chains mn (spec_module_globals st) [([], rt)] [([], st)]).
  { constructor; auto. now apply (module_globals_spec mn rt st). }
  pose proof (chains_from mn (spec_module_globals st) p rt st [] [] [] Ht Hroot) as Hc.
  destruct (rchain_from rt [] p []) as [rch|]; destruct (schain_from st [] p []) as [sch|]; try contradiction;
    [|reflexivity].
  apply (lookup_chain_agrees mn); auto.
  intros y Hy. apply (module_globals_spec mn rt st Ht Hb). now apply Hb.
Qed.
