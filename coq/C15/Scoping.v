(* CPython's scoping rules for PyF / PyF+, written declaratively (this is the SPEC; rope's algorithm is
   in RopeScopes.v).  Reference: Python/symtable.c (symtable_visit_stmt / symtable_visit_expr /
   analyze_block / analyze_name) and the language reference, section 4.2 "Naming and binding".

   * [s_binds s]    names bound by statement [s] directly in the scope that contains it (not through a nested
                    scope): assignment of every form (plain, augmented, annotated with or without value, walrus -
                    a walrus inside comprehensions binds in the enclosing non-comprehension scope), imports,
                    def / class names, for / with / except targets, del.
   * [s_globals s], [s_nonlocals s]   names declared global / nonlocal there.
   * [s_scopes s]   the scopes nested directly in the scope containing [s]: function, class, lambda and
                    the four comprehension forms (one scope each; for CPython >= 3.12 list/set/dict
                    comprehensions are inlined by the compiler but keep their isolated iteration
                    variables, which is what "scope" means here).  Decorators, default values,
                    annotations, base classes and the *first* iterable of a comprehension belong to the
                    enclosing scope.  Children are listed in source order (by start position).
   * [spec_tree]    the scope tree with line extents ([lineno .. end_lineno] of the ast node).
   * [spec_resolve] which binding a name looked up from a scope denotes: declared global -> module level;
                    declared nonlocal -> nearest enclosing function-like scope binding it; bound here -> here;
                    otherwise the nearest enclosing function-like scope in which it is local (class scopes are
                    skipped; an enclosing scope declaring it global sends it to module level), then the module,
                    then the builtins.
   Every function is validated against CPython's [symtable] on every generated case by the harness. *)
From Coq Require Import List NArith Bool.
From RopeVerif.C15 Require Import Syntax.
Import ListNotations.

Inductive skind := KModule | KFunction | KClass | KComp | KLambda.
Definition skind_eqb (a b : skind) : bool :=
  match a, b with
  | KModule, KModule | KFunction, KFunction | KClass, KClass | KComp, KComp | KLambda, KLambda => true
  | _, _ => false
  end.
Definition is_class (k : skind) : bool := match k with KClass => true | _ => false end.

Notation path := (list nat).
Inductive binding := BScope (p : path) | BBuiltin | BNone.

Inductive sscope :=
| SScope (k : skind) (start stop : N) (bound globals nonlocals : list ident) (children : list sscope).
Definition sk (s : sscope) := let 'SScope k _ _ _ _ _ _ := s in k.
Definition sstart (s : sscope) := let 'SScope _ a _ _ _ _ _ := s in a.
Definition sstop (s : sscope) := let 'SScope _ _ b _ _ _ _ := s in b.
Definition sbound (s : sscope) := let 'SScope _ _ _ b _ _ _ := s in b.
Definition sglobals (s : sscope) := let 'SScope _ _ _ _ g _ _ := s in g.
Definition snonlocals (s : sscope) := let 'SScope _ _ _ _ _ n _ := s in n.
Definition schildren (s : sscope) := let 'SScope _ _ _ _ _ _ c := s in c.

(* ------------------------------------------------------------------ expressions *)
(* names bound by walrus operators of [e] in the scope that contains [e]: comprehensions are entered
   (their walrus targets are hoisted), lambda bodies are not (a lambda is a function scope) *)
Fixpoint e_walrus (e : expr) : list ident :=
  match e with
  | EName _ | EConst => []
  | EAttr e _ => e_walrus e
  | ESub e i => e_walrus e ++ e_walrus i
  | ETuple es | EOp es => flat_map e_walrus es
  | ECall f args => e_walrus f ++ flat_map e_walrus args
  | EKw _ e => e_walrus e
  | ENamed o v => oname o :: e_walrus v
  | ELambda _ _ _ ae _ => flat_map e_walrus ae
  | EComp _ _ _ elts gens => flat_map e_walrus elts ++ flat_map c_walrus gens
  end
with c_walrus (c : comp) : list ident :=
  match c with Comp t i ifs => e_walrus t ++ e_walrus i ++ flat_map e_walrus ifs end.

Definition c_targets (c : comp) : list ident := match c with Comp t _ _ => target_names t end.

(* scopes nested directly in the scope containing [e], in source order *)
Fixpoint e_scopes (e : expr) : list sscope :=
  match e with
  | EName _ | EConst => []
  | EAttr e _ => e_scopes e
  | ESub e i => e_scopes e ++ e_scopes i
  | ETuple es | EOp es => flat_map e_scopes es
  | ECall f args => e_scopes f ++ flat_map e_scopes args
  | EKw _ e => e_scopes e
  | ENamed _ v => e_scopes v
  | ELambda l s ps ae body =>
      SScope KLambda l s (map pname ps ++ e_walrus body) [] [] (e_scopes body) :: flat_map e_scopes ae
  | EComp _ l s elts gens =>
      match gens with
      | [] => []
      | Comp t0 i0 ifs0 :: rest =>
          SScope KComp l s (target_names t0 ++ flat_map c_targets rest) [] []
                 (flat_map e_scopes elts ++ e_scopes t0 ++ flat_map e_scopes ifs0 ++ flat_map c_scopes rest)
          :: e_scopes i0
      end
  end
with c_scopes (c : comp) : list sscope :=
  match c with Comp t i ifs => e_scopes t ++ e_scopes i ++ flat_map e_scopes ifs end.

Definition oe_walrus (o : option expr) : list ident := match o with Some e => e_walrus e | None => [] end.
Definition oe_scopes (o : option expr) : list sscope := match o with Some e => e_scopes e | None => [] end.

(* ------------------------------------------------------------------ statements *)
Definition import_bound (n : list occ * option occ) : list ident :=
  match n with
  | (_, Some a) => [oname a]
  | (o :: _, None) => [oname o]
  | ([], None) => []
  end.
Definition from_bound (n : occ * option occ) : ident :=
  match n with (_, Some a) => oname a | (o, None) => oname o end.

Definition item_binds (it : expr * option expr) : list ident :=
  match it with
  | (c, Some v) => e_walrus c ++ target_names v ++ e_walrus v
  | (c, None) => e_walrus c
  end.
Definition item_scopes (it : expr * option expr) : list sscope :=
  match it with
  | (c, Some v) => e_scopes c ++ e_scopes v
  | (c, None) => e_scopes c
  end.

(* [aug = true] is the rule of the language; [aug = false] leaves out the names bound by an augmented
   assignment or a del statement (used only to state the domain of the theorems) *)
Fixpoint s_binds_gen (aug : bool) (s : stmt) : list ident :=
  match s with
  | SExpr _ es => flat_map e_walrus es
  | SReturn _ e => oe_walrus e
  | SAssign _ ts v => flat_map target_names ts ++ flat_map e_walrus ts ++ e_walrus v
  | SAug _ t v => (if aug then target_names t else []) ++ e_walrus t ++ e_walrus v
  | SAnn _ t a v => target_names t ++ e_walrus t ++ e_walrus a ++ oe_walrus v
  | SDel _ ts => (if aug then flat_map target_names ts else []) ++ flat_map e_walrus ts
  | SPass _ => []
  | SIf _ t b o | SWhile _ t b o =>
      e_walrus t ++ flat_map (s_binds_gen aug) b ++ flat_map (s_binds_gen aug) o
  | SFor _ t i b o =>
      target_names t ++ e_walrus t ++ e_walrus i ++ flat_map (s_binds_gen aug) b ++ flat_map (s_binds_gen aug) o
  | SWith _ items b => flat_map item_binds items ++ flat_map (s_binds_gen aug) b
  | STry _ b hs o f =>
      flat_map (s_binds_gen aug) b
      ++ flat_map (fun h => match h with
                            | Handler _ ty nm hb =>
                                oe_walrus ty ++ map oname (opt_list nm) ++ flat_map (s_binds_gen aug) hb
                            end) hs
      ++ flat_map (s_binds_gen aug) o ++ flat_map (s_binds_gen aug) f
  | SDef _ _ d n _ ae r _ => flat_map e_walrus d ++ oname n :: flat_map e_walrus ae ++ oe_walrus r
  | SClass _ _ d n bs _ => flat_map e_walrus d ++ oname n :: flat_map e_walrus bs
  | SImport _ ns => flat_map import_bound ns
  | SFrom _ _ _ (Some ns) => map from_bound ns
  | SFrom _ _ _ None => []
  | SGlobal _ _ | SNonlocal _ _ => []
  end.
Definition s_binds : stmt -> list ident := s_binds_gen true.

(* names bound in the block by def, class or import statements *)
Fixpoint s_defimp (s : stmt) : list ident :=
  match s with
  | SDef _ _ _ n _ _ _ _ | SClass _ _ _ n _ _ => [oname n]
  | SImport _ ns => flat_map import_bound ns
  | SFrom _ _ _ (Some ns) => map from_bound ns
  | SIf _ _ b o | SWhile _ _ b o | SFor _ _ _ b o => flat_map s_defimp b ++ flat_map s_defimp o
  | SWith _ _ b => flat_map s_defimp b
  | STry _ b hs o f =>
      flat_map s_defimp b ++ flat_map (fun h => match h with Handler _ _ _ hb => flat_map s_defimp hb end) hs
      ++ flat_map s_defimp o ++ flat_map s_defimp f
  | _ => []
  end.

Fixpoint s_globals (s : stmt) : list ident :=
  match s with
  | SGlobal _ ns => map oname ns
  | SIf _ _ b o | SWhile _ _ b o | SFor _ _ _ b o => flat_map s_globals b ++ flat_map s_globals o
  | SWith _ _ b => flat_map s_globals b
  | STry _ b hs o f =>
      flat_map s_globals b ++ flat_map (fun h => match h with Handler _ _ _ hb => flat_map s_globals hb end) hs
      ++ flat_map s_globals o ++ flat_map s_globals f
  | _ => []
  end.

Fixpoint s_nonlocals (s : stmt) : list ident :=
  match s with
  | SNonlocal _ ns => map oname ns
  | SIf _ _ b o | SWhile _ _ b o | SFor _ _ _ b o => flat_map s_nonlocals b ++ flat_map s_nonlocals o
  | SWith _ _ b => flat_map s_nonlocals b
  | STry _ b hs o f =>
      flat_map s_nonlocals b ++ flat_map (fun h => match h with Handler _ _ _ hb => flat_map s_nonlocals hb end) hs
      ++ flat_map s_nonlocals o ++ flat_map s_nonlocals f
  | _ => []
  end.

Fixpoint s_scopes (s : stmt) : list sscope :=
  match s with
  | SExpr _ es => flat_map e_scopes es
  | SReturn _ e => oe_scopes e
  | SAssign _ ts v => flat_map e_scopes ts ++ e_scopes v
  | SAug _ t v => e_scopes t ++ e_scopes v
  | SAnn _ t a v => e_scopes t ++ e_scopes a ++ oe_scopes v
  | SDel _ ts => flat_map e_scopes ts
  | SPass _ => []
  | SIf _ t b o | SWhile _ t b o => e_scopes t ++ flat_map s_scopes b ++ flat_map s_scopes o
  | SFor _ t i b o => e_scopes t ++ e_scopes i ++ flat_map s_scopes b ++ flat_map s_scopes o
  | SWith _ items b => flat_map item_scopes items ++ flat_map s_scopes b
  | STry _ b hs o f =>
      flat_map s_scopes b
      ++ flat_map (fun h => match h with Handler _ ty _ hb => oe_scopes ty ++ flat_map s_scopes hb end) hs
      ++ flat_map s_scopes o ++ flat_map s_scopes f
  | SDef l st d n ps ae r body =>
      flat_map e_scopes d
      ++ SScope KFunction l st (map pname ps ++ flat_map s_binds body)
                (flat_map s_globals body) (flat_map s_nonlocals body) (flat_map s_scopes body)
      :: flat_map e_scopes ae ++ oe_scopes r
  | SClass l st d n bs body =>
      flat_map e_scopes d
      ++ SScope KClass l st (flat_map s_binds body)
                (flat_map s_globals body) (flat_map s_nonlocals body) (flat_map s_scopes body)
      :: flat_map e_scopes bs
  | SImport _ _ | SFrom _ _ _ _ | SGlobal _ _ | SNonlocal _ _ => []
  end.

Definition spec_tree (nlines : N) (p : program) : sscope :=
  SScope KModule 1 nlines (flat_map s_binds p) (flat_map s_globals p) (flat_map s_nonlocals p)
         (flat_map s_scopes p).

(* the names the symbol table records for a scope: bound there, or declared global / nonlocal there *)
Definition spec_names (s : sscope) : list ident := sbound s ++ sglobals s ++ snonlocals s.

(* ------------------------------------------------------------------ paths *)
Fixpoint schain_from (t : sscope) (pre p : path) (acc : list (path * sscope)) : option (list (path * sscope)) :=
  match p with
  | [] => Some ((pre, t) :: acc)
  | i :: r =>
      match nth_error (schildren t) i with
      | Some c => schain_from c (pre ++ [i]) r ((pre, t) :: acc)
      | None => None
      end
  end.
(* the scopes from the one at [p] outwards to the module, innermost first, each with its path *)
Definition schain (t : sscope) (p : path) : option (list (path * sscope)) := schain_from t [] p [].

Fixpoint s_all (t : sscope) : list sscope :=
  t :: flat_map s_all (schildren t).

(* names that are module globals: bound at module level, or assigned somewhere under a global declaration *)
Definition spec_module_globals (t : sscope) : list ident :=
  sbound t ++ flat_map (fun s => filter (fun x => mem x (sbound s)) (sglobals s)) (s_all t).

(* ------------------------------------------------------------------ resolution *)
Section Resolve.
  Variable mg : list ident.      (* module globals *)
  Variable bi : list ident.      (* identifiers that are builtins *)

  Definition module_level (x : ident) : binding :=
    if mem x mg then BScope [] else if mem x bi then BBuiltin else BNone.

  (* [x] is not bound in the scope it is used in: search the enclosing scopes [ch] (innermost first) *)
  Fixpoint free_lookup (ch : list (path * sscope)) (x : ident) : binding :=
    match ch with
    | [] => module_level x
    | (p, s) :: outer =>
        match sk s with
        | KModule => module_level x
        | KClass => free_lookup outer x
        | _ =>
            if mem x (sglobals s) then module_level x
            else if mem x (snonlocals s) then free_lookup outer x
            else if mem x (sbound s) then BScope p
            else free_lookup outer x
        end
    end.

  Definition resolve_chain (ch : list (path * sscope)) (x : ident) : binding :=
    match ch with
    | [] => BNone
    | (p, s) :: outer =>
        match sk s with
        | KModule => module_level x
        | _ =>
            if mem x (sglobals s) then module_level x
            else if mem x (snonlocals s) then free_lookup outer x
            else if mem x (sbound s) then BScope p
            else free_lookup outer x
        end
    end.
End Resolve.

Definition spec_resolve (bi : list ident) (t : sscope) (p : path) (x : ident) : binding :=
  match schain t p with
  | Some ch => resolve_chain (spec_module_globals t) bi ch x
  | None => BNone
  end.

(* ------------------------------------------------------------------ which block scope holds a line *)
Definition is_block (k : skind) : bool :=
  match k with KModule | KFunction | KClass => true | _ => false end.

(* innermost function / class / module scope whose extent [start .. stop] contains line [l]
   (comprehension and lambda scopes share their line with the enclosing statement) *)
Fixpoint spec_scope_for_line (t : sscope) (pre : path) (l : N) : path :=
  let fix first (i : nat) (cs : list sscope) : option path :=
    match cs with
    | [] => None
    | c :: r =>
        if is_block (sk c) && N.leb (sstart c) l && N.leb l (sstop c)
        then Some (spec_scope_for_line c (pre ++ [i]) l)
        else first (S i) r
    end in
  match first 0%nat (schildren t) with
  | Some p => p
  | None => pre
  end.
