(* C03 — concrete located programs: the witnesses of the `_refuted` lemmas (each is also a replay file under
   findings/ that is run against the real library) and the non-vacuity examples.
   Names: print 0, range 1, self 2, a 3, b 4, x 5, y 6, z 7, w 8, i 9, j 10. *)
From Coq Require Import List NArith ZArith Bool.
From RopeVerif.C03 Require Import Flow Collector Dataflow.
Import ListNotations.

Definition va : var := 3%N.
Definition vb : var := 4%N.
Definition vx : var := 5%N.
Definition vy : var := 6%N.
Definition vz : var := 7%N.
Definition vi : var := 9%N.

(* def f(a, b):            1
       x = 0                2
       if a:                3   <- region 3..6
           if b:            4
               pass         5
           x = 1            6
       print(x)             7 *)
Definition w_nested : loc :=
  LHere [SAssign 2 vx (EConst 0)]
        [SIf 3 (EVar va) [SIf 4 (EVar vb) [SPass 5] []; SAssign 6 vx (EConst 1)] []]
        [SPrint 7 (EVar vx)].

(* def f(a):               1
       z = 0                2
       if a:                3
           z = 4            4   <- region 4..4
       else:
           z = 3            6
       return z             7 *)
Definition w_branch : loc :=
  LIfT [SAssign 2 vz (EConst 0)] 3 (EVar va)
       (LHere [] [SAssign 4 vz (EConst 4)] [])
       [SAssign 6 vz (EConst 3)]
       [SReturn 7 (EVar vz)].

(* def f(a, b):            1
       z = 0                2
       if a:                3   <- region 3..6
           z = 5            4
       if b:                5
           print(z)         6 *)
Definition w_readmaybe : loc :=
  LHere [SAssign 2 vz (EConst 0)]
        [SIf 3 (EVar va) [SAssign 4 vz (EConst 5)] []; SIf 5 (EVar vb) [SPrint 6 (EVar vz)] []]
        [].

(* def f(a):               1
       x = 0                2
       while x < a:         3
           for i in range(1):   4   <- region 4..6
               pass         5
           x = x + 1        6 *)
Definition w_loopdepth : loc :=
  LWhile [SAssign 2 vx (EConst 0)] 3 (EBin Lt (EVar vx) (EVar va))
         (LHere [] [SFor 4 vi (EConst 1) [SPass 5] []; SAssign 6 vx (EBin Add (EVar vx) (EConst 1))] [])
         [] [].

(* def f(a):               1
       x = 0                2
       y = 0                3
       while x < a:         4
           print(y)         5
           y = x + 5        6   <- region 6..6
           x = x + 1        7 *)
Definition w_loopcarried : loc :=
  LWhile [SAssign 2 vx (EConst 0); SAssign 3 vy (EConst 0)] 4 (EBin Lt (EVar vx) (EVar va))
         (LHere [SPrint 5 (EVar vy)] [SAssign 6 vy (EBin Add (EVar vx) (EConst 5))]
                [SAssign 7 vx (EBin Add (EVar vx) (EConst 1))])
         [] [].

(* def f(a):               1
       x = 0                2
       while x < a:         3
           if 0 < x:        4   <- region 4..5
               print(y)     5
           y = x            6
           x = x + 1        7 *)
Definition w_loopprew : loc :=
  LWhile [SAssign 2 vx (EConst 0)] 3 (EBin Lt (EVar vx) (EVar va))
         (LHere [] [SIf 4 (EBin Lt (EConst 0) (EVar vx)) [SPrint 5 (EVar vy)] []]
                [SAssign 6 vy (EVar vx); SAssign 7 vx (EBin Add (EVar vx) (EConst 1))])
         [] [].

(* def f(a):               1
       x = a                2
       print(sum([a + x for a in range(a)]))     3   <- region 3..3 *)
Definition w_compiter : loc :=
  LHere [SAssign 2 vx (EVar va)]
        [SPrint 3 (EComp va (EVar va) (EBin Add (EVar va) (EVar vx)))]
        [].

(* module level:
   x = 1                    1
   x = x + 1                2   <- region 2..2 *)
Definition w_module : loc :=
  LHere [SAssign 1 vx (EConst 1)] [SAssign 2 vx (EBin Add (EVar vx) (EConst 1))] [].

(* def f(a):               1
       if a:                2
           x = 1            3
       if a:                4   <- region 4..5
           print(x)         5 *)
Definition w_argunbound : loc :=
  LHere [SIf 2 (EVar va) [SAssign 3 vx (EConst 1)] []]
        [SIf 4 (EVar va) [SPrint 5 (EVar vx)] []]
        [].

(* def f(a):               1
       if a:                2   <- region 2..3
           x = 1            3
       if a:                4
           print(x)         5 *)
Definition w_retunbound : loc :=
  LHere []
        [SIf 2 (EVar va) [SAssign 3 vx (EConst 1)] []]
        [SIf 4 (EVar va) [SPrint 5 (EVar vx)] []].

(* a region that carries values round a loop and is extracted correctly:
   def f(a):               1
       x = 0                2
       y = 0                3
       while x < a:         4
           y += x           5   <- region 5..6
           x += 1           6
           print(y)         7
       return y             8 *)
Definition ex_loop : loc :=
  LWhile [SAssign 2 vx (EConst 0); SAssign 3 vy (EConst 0)] 4 (EBin Lt (EVar vx) (EVar va))
         (LHere [] [SAug 5 vy Add (EVar vx); SAug 6 vx Add (EConst 1)] [SPrint 7 (EVar vy)])
         [] [SReturn 8 (EVar vy)].

(* a region with a conditional write and a final return:
   def f(a, b):            1
       x = a                2
       if b < 2:            3   <- region 3..5
           x = x * 2        4
       return x + b         5 *)
Definition ex_tail : loc :=
  LHere [SAssign 2 vx (EVar va)]
        [SIf 3 (EBin Lt (EVar vb) (EConst 2)) [SAssign 4 vx (EBin Mul (EVar vx) (EConst 2))] [];
         SReturn 5 (EBin Add (EVar vx) (EVar vb))]
        [].

(* refused: a return that is not last / a break whose loop stays behind *)
Definition ex_refused_ret : loc :=
  LHere [] [SIf 2 (EVar va) [SReturn 3 (EVar va)] []; SPrint 4 (EVar va)] [].
Definition ex_refused_brk : loc :=
  LWhile [] 2 (EVar va) (LHere [] [SBreak 3] []) [] [].

(* refused: the inner loop together with its else-clause, whose `continue` belongs to the outer loop
   def f(a):                 1
       for i in range(a):    2
           for x in range(i):    3   <- region 3..7
               if x: break       4,5
           else:
               continue          7
           print(i)              8 *)
Definition ex_refused_else : loc :=
  LFor [] 2 vi (EVar va)
       (LHere [] [SFor 3 vx (EVar vi) [SIf 4 (EVar vx) [SBreak 5] []] [SContinue 7]] [SPrint 8 (EVar vi)])
       [] [].
(* accepted: the same inner loop with a harmless else-clause; the break in its body is matched *)
Definition ex_accepted_else : loc :=
  LFor [] 2 vi (EVar va)
       (LHere [] [SFor 3 vx (EVar vi) [SIf 4 (EVar vx) [SBreak 5] []] [SPrint 7 (EVar vi)]] [SPrint 8 (EVar vi)])
       [] [].
