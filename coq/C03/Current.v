(* C03 — the discipline the code currently follows. The five fixes committed in /repo
   (25782e7 restore the conditional flag, c0fa7ad balanced loop_depth, f6cf806 nested writes do not kill,
   99f0982 module-level parameters, 98267e1 a comprehension's first iterable is visited before the snapshot)
   are reflected by the five switches that are true here; as_is
   (Collector.v) remains the discipline of the code as it was found and is only used by the `_refuted`
   lemmas that document the fixed defects. If a further fix is applied, set its switch here. *)
From RopeVerif.C03 Require Import Flow Collector.

Definition current : switches :=
  {| sw_restore := true;       (* 25782e7 *)
     sw_balanced := true;      (* c0fa7ad *)
     sw_killnest := true;      (* f6cf806 *)
     sw_readmaybe := false;
     sw_loopall := false;
     sw_globalargs := true;    (* 99f0982 *)
     sw_loopprew := false;
     sw_compiter := true |}.      (* 98267e1 *)

(* the discipline before 98267e1 (history: C03_comprehension_iterable_refuted) *)
Definition before_98267e1 : switches :=
  {| sw_restore := true; sw_balanced := true; sw_killnest := true; sw_readmaybe := false; sw_loopall := false;
     sw_globalargs := true; sw_loopprew := false; sw_compiter := false |}.

Definition sw_or (a b : switches) : switches :=
  {| sw_restore := sw_restore a || sw_restore b; sw_balanced := sw_balanced a || sw_balanced b;
     sw_killnest := sw_killnest a || sw_killnest b; sw_readmaybe := sw_readmaybe a || sw_readmaybe b;
     sw_loopall := sw_loopall a || sw_loopall b; sw_globalargs := sw_globalargs a || sw_globalargs b;
     sw_loopprew := sw_loopprew a || sw_loopprew b; sw_compiter := sw_compiter a || sw_compiter b |}.
