(* C03 — the discipline the code currently follows. When one of the proposed fixes
   (proposed_fixes/C03-*.diff) is applied to rope, set the corresponding switch to true here: the
   correspondence then compares the code with the repaired model, and the finding's replay moves to corpus/. *)
From RopeVerif.C03 Require Import Flow Collector.

Definition current : switches :=
  {| sw_restore := false;      (* proposed_fixes/C03-conditional-flag-restore.diff *)
     sw_balanced := false;     (* proposed_fixes/C03-loop-depth-balanced.diff *)
     sw_killnest := false;     (* proposed_fixes/C03-postwritten-nesting.diff *)
     sw_readmaybe := false;
     sw_loopall := false;
     sw_globalargs := false;   (* proposed_fixes/C03-module-level-args.diff *)
     sw_loopprew := false |}.

Definition sw_or (a b : switches) : switches :=
  {| sw_restore := sw_restore a || sw_restore b; sw_balanced := sw_balanced a || sw_balanced b;
     sw_killnest := sw_killnest a || sw_killnest b; sw_readmaybe := sw_readmaybe a || sw_readmaybe b;
     sw_loopall := sw_loopall a || sw_loopall b; sw_globalargs := sw_globalargs a || sw_globalargs b;
     sw_loopprew := sw_loopprew a || sw_loopprew b |}.
