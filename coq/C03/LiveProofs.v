(* C03 — soundness of the liveness analysis: running the same statement list from two stores that agree
   on the live-in names gives the same signal and output, and final stores that agree on the names live
   at the exit taken. The relation carries an extra pointwise invariant Q (preserved by writing equal
   values), instantiated later with "equal or unbound on the left" for the callee's restricted store. *)
From Coq Require Import List NArith ZArith Bool Lia.
From RopeVerif.C03 Require Import Flow Dataflow FlowProofs.
Import ListNotations.

Definition mk (a b c : list var) : conts := {| kn := a; kb := b; kc := c |}.

Lemma live_b_cons : forall s r k, live_b (s :: r) k = live_s s (mk (live_b r k) (kb k) (kc k)).
Proof. reflexivity. Qed.

Lemma live_b_nil : forall k, live_b [] k = kn k.
Proof. reflexivity. Qed.

Lemma live_b_app : forall a b k, live_b (a ++ b) k = live_b a (mk (live_b b k) (kb k) (kc k)).
Proof.
  intros a. induction a as [|s a IH]; intros b k.
  - reflexivity.
  - simpl app. rewrite !live_b_cons. rewrite IH. reflexivity.
Qed.

Lemma conv_b_cons : forall s r k, conv_b (s :: r) k = conv_b r k && conv_s s (mk (live_b r k) (kb k) (kc k)).
Proof. reflexivity. Qed.

Lemma conv_b_app : forall a b k, conv_b (a ++ b) k = conv_b b k && conv_b a (mk (live_b b k) (kb k) (kc k)).
Proof.
  intros a. induction a as [|s a IH]; intros b k.
  - simpl. rewrite andb_true_r. reflexivity.
  - simpl app. rewrite !conv_b_cons. rewrite IH. rewrite live_b_app. simpl.
    rewrite andb_assoc. reflexivity.
Qed.

Lemma live_s_if : forall l c a b k, live_s (SIf l c a b) k = vars_e c ++ live_b a k ++ live_b b k.
Proof. reflexivity. Qed.

Lemma conv_s_if : forall l c a b k, conv_s (SIf l c a b) k = conv_b a k && conv_b b k.
Proof. reflexivity. Qed.

Definition conv_while (c : expr) (b els : list stmt) (k : conts) : bool :=
  let X := live_while c b els k in
  subset (while_step c (live_b b) (kn k) (live_b els k) X) X && conv_b b (mk X (kn k) X) && conv_b els k.
Definition conv_for (x : var) (b els : list stmt) (k : conts) : bool :=
  let Y := live_for x b els k in
  subset (for_step x (live_b b) (kn k) (live_b els k) Y) Y && conv_b b (mk Y (kn k) Y) && conv_b els k.

Lemma live_s_while : forall l c b e k, live_s (SWhile l c b e) k = live_while c b e k.
Proof. reflexivity. Qed.
Lemma conv_s_while : forall l c b e k, conv_s (SWhile l c b e) k = conv_while c b e k.
Proof. reflexivity. Qed.
Lemma live_s_for : forall l x e b els k, live_s (SFor l x e b els) k = vars_e e ++ live_for x b els k.
Proof. reflexivity. Qed.
Lemma conv_s_for : forall l x e b els k, conv_s (SFor l x e b els) k = conv_for x b els k.
Proof. reflexivity. Qed.

Lemma nocall_cons : forall s r, nocall (s :: r) = nocall_s s && nocall r.
Proof. reflexivity. Qed.
Lemma nocall_app : forall a b, nocall (a ++ b) = nocall a && nocall b.
Proof. intros. unfold nocall. apply forallb_app. Qed.

Section Rel.
  Variable Q : option Z -> option Z -> Prop.
  Hypothesis Qrefl : forall v, Q v v.

  Definition rel (L : list var) (s1 s2 : store) : Prop :=
    forall x, (In x L -> get s1 x = get s2 x) /\ Q (get s1 x) (get s2 x).

  Definition sig_rel (k : conts) (sg : sig) (s1 s2 : store) : Prop :=
    match sg with
    | Norm => rel (kn k) s1 s2
    | Brk => rel (kb k) s1 s2
    | Cont => rel (kc k) s1 s2
    | _ => True
    end.

  Definition res_rel (k : conts) (r1 r2 : res) : Prop :=
    fst (fst r1) = fst (fst r2) /\ snd r1 = snd r2
    /\ sig_rel k (fst (fst r1)) (snd (fst r1)) (snd (fst r2)).

  Lemma rel_sub : forall L L' s1 s2, rel L s1 s2 -> (forall x, In x L' -> In x L) -> rel L' s1 s2.
  Proof.
    intros L L' s1 s2 H S x. destruct (H x) as [H1 H2]. split; [|exact H2]. intros Hx. apply H1. apply S. exact Hx.
  Qed.

  Lemma rel_upd : forall L L' s1 s2 x v,
    rel L' s1 s2 -> (forall y, In y L -> y <> x -> In y L') -> rel L (upd s1 x v) (upd s2 x v).
  Proof.
    intros L L' s1 s2 x v H S y. rewrite !get_upd. destruct (N.eqb y x) eqn:E.
    - split; [reflexivity | apply Qrefl].
    - apply N.eqb_neq in E. destruct (H y) as [H1 H2]. split; [|exact H2]. intros Hy. apply H1. apply S; assumption.
  Qed.

  Lemma eval_rel_gen : forall e L s1 s2, rel L s1 s2 -> (forall x, In x (vars_e e) -> In x L) -> eval s1 e = eval s2 e.
  Proof.
    induction e as [x|z|o a IHa b IHb|v k IHk body IHbody]; intros L s1 s2 H S; simpl.
    - apply (H x). apply S. simpl. auto.
    - reflexivity.
    - rewrite (IHa L s1 s2 H), (IHb L s1 s2 H); [reflexivity | |]; intros x Hx; apply S; simpl; apply in_or_app; auto.
    - rewrite (IHk L s1 s2 H) by (intros x Hx; apply S; simpl; apply in_or_app; auto).
      destruct (eval s2 k) as [n|]; [|reflexivity].
      generalize 0%Z at 1 3. generalize 0%Z.
      induction (Z.to_nat n) as [|m IHm]; intros acc i; [reflexivity|].
      assert (E : eval (upd s1 v i) body = eval (upd s2 v i) body).
      { apply (IHbody (vars_e body)); [|auto].
        eapply rel_upd; [exact H|]. intros y Hy Hne. apply S. simpl. apply in_or_app. right. apply In_remove. auto. }
      rewrite E. destruct (eval (upd s2 v i) body); [apply IHm | reflexivity].
  Qed.

  Lemma eval_rel : forall L s1 s2 e, rel L s1 s2 -> (forall x, In x (vars_e e) -> In x L) -> eval s1 e = eval s2 e.
  Proof. intros. eapply eval_rel_gen; eauto. Qed.

  Definition loop_live (loop : loopk -> store -> list Z -> res) : Prop :=
    (forall c b e k s1 s2 o, nocall b = true -> nocall e = true -> conv_while c b e k = true ->
        rel (live_while c b e k) s1 s2 ->
        res_rel k (loop (KWhile c b e) s1 o) (loop (KWhile c b e) s2 o))
    /\ (forall x i hi b e k s1 s2 o, nocall b = true -> nocall e = true -> conv_for x b e k = true ->
        rel (live_for x b e k) s1 s2 ->
        res_rel k (loop (KFor x i hi b e) s1 o) (loop (KFor x i hi b e) s2 o)).

  Lemma res_rel_err : forall k sg s1 s2 o, (match sg with Norm | Brk | Cont => False | _ => True end) ->
    res_rel k (sg, s1, o) (sg, s2, o).
  Proof.
    intros. split; [reflexivity|]. split; [reflexivity|]. simpl. destruct sg; simpl; try exact I; contradiction.
  Qed.

  Lemma live_sound_struct : forall loop, loop_live loop ->
    (forall s k s1 s2 o, nocall_s s = true -> conv_s s k = true -> rel (live_s s k) s1 s2 ->
        res_rel k (exec_s loop s s1 o) (exec_s loop s s2 o))
    /\ (forall ss k s1 s2 o, nocall ss = true -> conv_b ss k = true -> rel (live_b ss k) s1 s2 ->
        res_rel k (exec_b loop ss s1 o) (exec_b loop ss s2 o)).
  Proof.
    intros loop [LW LFo].
    apply (stmt_blk_ind
             (fun s => forall k s1 s2 o, nocall_s s = true -> conv_s s k = true -> rel (live_s s k) s1 s2 ->
                                         res_rel k (exec_s loop s s1 o) (exec_s loop s s2 o))
             (fun ss => forall k s1 s2 o, nocall ss = true -> conv_b ss k = true -> rel (live_b ss k) s1 s2 ->
                                          res_rel k (exec_b loop ss s1 o) (exec_b loop ss s2 o))).
    - (* assign *)
      intros l x e k s1 s2 o _ _ H. simpl in H. simpl.
      rewrite (eval_rel _ s1 s2 e H) by (intros; apply in_or_app; auto).
      destruct (eval s2 e) as [v|].
      + split; [reflexivity|]. split; [reflexivity|]. simpl.
        eapply rel_upd; [exact H|]. intros y Hy Hne. apply in_or_app. right. apply In_remove. auto.
      + apply res_rel_err. exact I.
    - (* aug *)
      intros l x op e k s1 s2 o _ _ H. simpl in H. simpl.
      assert (Ex : get s1 x = get s2 x) by (apply (H x); left; reflexivity).
      rewrite Ex.
      rewrite (eval_rel _ s1 s2 e H) by (intros; right; apply in_or_app; auto).
      destruct (get s2 x) as [a|]; [destruct (eval s2 e) as [v|]|]; try (apply res_rel_err; exact I).
      split; [reflexivity|]. split; [reflexivity|]. simpl.
      eapply rel_upd; [exact H|]. intros y Hy Hne. right. apply in_or_app. auto.
    - (* print *)
      intros l e k s1 s2 o _ _ H. simpl in H. simpl.
      rewrite (eval_rel _ s1 s2 e H) by (intros; apply in_or_app; auto).
      destruct (eval s2 e) as [v|]; [|apply res_rel_err; exact I].
      split; [reflexivity|]. split; [reflexivity|]. simpl.
      eapply rel_sub; [exact H|]. intros; apply in_or_app; auto.
    - (* if *)
      intros l c a b Ha Hb k s1 s2 o NC CV H. rewrite live_s_if in H. rewrite conv_s_if in CV.
      apply andb_true_iff in CV. destruct CV as [CVa CVb].
      simpl in NC. apply andb_true_iff in NC. destruct NC as [NCa NCb].
      rewrite !exec_s_if.
      rewrite (eval_rel _ s1 s2 c H) by (intros; apply in_or_app; auto).
      destruct (eval s2 c) as [v|]; [|apply res_rel_err; exact I].
      destruct (Z.eqb v 0).
      + apply Hb; try assumption. eapply rel_sub; [exact H|]. intros; apply in_or_app; right; apply in_or_app; auto.
      + apply Ha; try assumption. eapply rel_sub; [exact H|]. intros; apply in_or_app; right; apply in_or_app; auto.
    - (* while *)
      intros l c b e Hb He k s1 s2 o NC CV H. rewrite live_s_while in H. rewrite conv_s_while in CV.
      simpl in NC. apply andb_true_iff in NC. destruct NC as [NCb NCe]. simpl exec_s.
      apply LW; assumption.
    - (* for *)
      intros l x e b els Hb He k s1 s2 o NC CV H. rewrite live_s_for in H. rewrite conv_s_for in CV.
      simpl in NC. apply andb_true_iff in NC. destruct NC as [NCb NCe]. simpl exec_s.
      rewrite (eval_rel _ s1 s2 e H) by (intros; apply in_or_app; auto).
      destruct (eval s2 e) as [hi|]; [|apply res_rel_err; exact I].
      apply LFo; try assumption.
      eapply rel_sub; [exact H|]. intros; apply in_or_app; auto.
    - (* return *)
      intros l e k s1 s2 o _ _ H. simpl in H. simpl.
      rewrite (eval_rel _ s1 s2 e H) by auto.
      destruct (eval s2 e) as [v|]; apply res_rel_err; exact I.
    - intros l k s1 s2 o _ _ H. simpl in *. split; [reflexivity|]. split; [reflexivity|]. exact H.
    - intros l k s1 s2 o _ _ H. simpl in *. split; [reflexivity|]. split; [reflexivity|]. exact H.
    - intros l k s1 s2 o _ _ H. simpl in *. split; [reflexivity|]. split; [reflexivity|]. exact H.
    - intros l rets args body tail shared _ k s1 s2 o NC. simpl in NC. discriminate.
    - intros k s1 s2 o _ _ H. simpl. split; [reflexivity|]. split; [reflexivity|]. exact H.
    - intros s r Hs Hr k s1 s2 o NC CV H.
      rewrite nocall_cons in NC. apply andb_true_iff in NC. destruct NC as [NCs NCr].
      rewrite conv_b_cons in CV. apply andb_true_iff in CV. destruct CV as [CVr CVs].
      rewrite live_b_cons in H. rewrite !exec_b_cons.
      specialize (Hs _ s1 s2 o NCs CVs H).
      destruct (exec_s loop s s1 o) as [[sg1 t1] o1]. destruct (exec_s loop s s2 o) as [[sg2 t2] o2].
      destruct Hs as [E1 [E2 E3]]. simpl in E1, E2, E3. subst sg2 o2.
      destruct sg1; simpl in E3;
        try (split; [reflexivity|]; split; [reflexivity|]; simpl; exact E3).
      apply Hr; assumption.
  Qed.

  Lemma exec_k_live : forall n, loop_live (exec_k n).
  Proof.
    induction n as [|m IH].
    - split; intros; simpl; (split; [reflexivity|]; split; [reflexivity|]; exact I).
    - destruct (live_sound_struct _ IH) as [_ HB]. destruct IH as [IW IF]. split.
      + intros c b e k s1 s2 o NCb NCe CV H. pose proof CV as CV0. unfold conv_while in CV.
        apply andb_true_iff in CV. destruct CV as [CV CE]. apply andb_true_iff in CV. destruct CV as [CS CB].
        pose proof (proj1 (subset_In _ _) CS) as CS'. clear CS. rename CS' into CS. unfold while_step in CS.
        set (X := live_while c b e k) in *.
        simpl.
        rewrite (eval_rel _ s1 s2 c H) by (intros; apply CS; apply in_or_app; auto).
        destruct (eval s2 c) as [v|]; [|apply res_rel_err; exact I].
        destruct (Z.eqb v 0).
        * apply HB; try assumption.
          eapply rel_sub; [exact H|]. intros; apply CS; apply in_or_app; right; apply in_or_app; auto.
        * assert (HB' : res_rel (mk X (kn k) X) (exec_b (exec_k m) b s1 o) (exec_b (exec_k m) b s2 o)).
          { apply HB; try assumption. eapply rel_sub; [exact H|].
            intros; apply CS; apply in_or_app; right; apply in_or_app; auto. }
          destruct (exec_b (exec_k m) b s1 o) as [[sg1 t1] o1]. destruct (exec_b (exec_k m) b s2 o) as [[sg2 t2] o2].
          destruct HB' as [E1 [E2 E3]]. simpl in E1, E2, E3. subst sg2 o2.
          destruct sg1; simpl in E3; try (apply res_rel_err; exact I).
          -- apply IW; assumption.
          -- split; [reflexivity|]. split; [reflexivity|]. exact E3.
          -- apply IW; assumption.
      + intros x i hi b e k s1 s2 o NCb NCe CV H. pose proof CV as CV0. unfold conv_for in CV.
        apply andb_true_iff in CV. destruct CV as [CV CE]. apply andb_true_iff in CV. destruct CV as [CS CB].
        pose proof (proj1 (subset_In _ _) CS) as CS'. clear CS. rename CS' into CS. unfold for_step in CS.
        set (Y := live_for x b e k) in *.
        simpl.
        destruct (Z.leb hi i).
        * apply HB; try assumption.
          eapply rel_sub; [exact H|]. intros; apply CS; apply in_or_app; auto.
        * assert (HB' : res_rel (mk Y (kn k) Y) (exec_b (exec_k m) b (upd s1 x i) o) (exec_b (exec_k m) b (upd s2 x i) o)).
          { apply HB; try assumption. eapply rel_upd; [exact H|].
            intros y Hy Hne. apply CS. apply in_or_app. right. apply In_remove. auto. }
          destruct (exec_b (exec_k m) b (upd s1 x i) o) as [[sg1 t1] o1].
          destruct (exec_b (exec_k m) b (upd s2 x i) o) as [[sg2 t2] o2].
          destruct HB' as [E1 [E2 E3]]. simpl in E1, E2, E3. subst sg2 o2.
          destruct sg1; simpl in E3; try (apply res_rel_err; exact I).
          -- apply IF; assumption.
          -- split; [reflexivity|]. split; [reflexivity|]. exact E3.
          -- apply IF; assumption.
  Qed.

  Theorem live_sound : forall n ss k s1 s2 o,
    nocall ss = true -> conv_b ss k = true -> rel (live_b ss k) s1 s2 ->
    res_rel k (exec n ss s1 o) (exec n ss s2 o).
  Proof.
    intros n. unfold exec. apply (live_sound_struct (exec_k n)). apply exec_k_live.
  Qed.
End Rel.
