(* C03 — the outlining lemma: if the hypotheses collected in Dataflow.outline_ok hold for a located
   program, a parameter list A and a result list Rt, then replacing the region by a call of a function with
   parameters A, the region as body and `return Rt` gives a program with the same observable behaviour for
   every argument vector and every fuel. *)
From Coq Require Import List NArith ZArith Bool Lia.
From RopeVerif.C03 Require Import Flow Dataflow FlowProofs LiveProofs.
Import ListNotations.

(* ------------------------------------------------------------------ signals a region can produce *)
Definition nobc (r : res) : Prop := fst (fst r) <> Brk /\ fst (fst r) <> Cont.

(* a loop only lets a break/continue out through its else-clause *)
Definition loop_nobc (loop : loopk -> store -> list Z -> res) : Prop :=
  (forall c b e st o, existsb unmatched_bc_s e = false -> nobc (loop (KWhile c b e) st o))
  /\ (forall x i hi b e st o, existsb unmatched_bc_s e = false -> nobc (loop (KFor x i hi b e) st o)).

Lemma exec_nobc : forall loop, loop_nobc loop ->
  (forall s st o, unmatched_bc_s s = false -> nobc (exec_s loop s st o))
  /\ (forall ss st o, existsb unmatched_bc_s ss = false -> nobc (exec_b loop ss st o)).
Proof.
  intros loop [LW LF]. unfold nobc.
  apply (stmt_blk_ind
           (fun s => forall st o, unmatched_bc_s s = false ->
                fst (fst (exec_s loop s st o)) <> Brk /\ fst (fst (exec_s loop s st o)) <> Cont)
           (fun ss => forall st o, existsb unmatched_bc_s ss = false ->
                fst (fst (exec_b loop ss st o)) <> Brk /\ fst (fst (exec_b loop ss st o)) <> Cont)).
  - intros l x e st o _. simpl. destruct (eval st e); simpl; split; discriminate.
  - intros l x op e st o _. simpl. destruct (get st x); [destruct (eval st e)|]; simpl; split; discriminate.
  - intros l e st o _. simpl. destruct (eval st e); simpl; split; discriminate.
  - intros l c a b Ha Hb st o H. simpl in H. apply orb_false_iff in H. destruct H as [H1 H2].
    rewrite exec_s_if. destruct (eval st c) as [v|]; [|simpl; split; discriminate].
    destruct (Z.eqb v 0); auto.
  - intros l c b e _ _ st o H. simpl in H. simpl. apply LW. exact H.
  - intros l x e b els _ _ st o H. simpl in H. simpl. destruct (eval st e); [apply LF; exact H | simpl; split; discriminate].
  - intros l e st o _. simpl. destruct (eval st e); simpl; split; discriminate.
  - intros l st o _. simpl. split; discriminate.
  - intros l st o H. simpl in H. discriminate.
  - intros l st o H. simpl in H. discriminate.
  - intros l rets args body tail shared _ st o _. rewrite exec_s_call.
    destruct (forallb (bound st) args); [|simpl; split; discriminate].
    destruct (exec_b loop body (callee_store st args (defs body) shared) o) as [[sg sc] o'].
    destruct sg; simpl; try (split; discriminate).
    + destruct tail; [simpl; split; discriminate|]. destruct (forallb (bound sc) rets); simpl; split; discriminate.
    + destruct tail; simpl; split; discriminate.
  - intros st o _. simpl. split; discriminate.
  - intros s r Hs Hr st o H. simpl in H. apply orb_false_iff in H. destruct H as [H1 H2].
    rewrite exec_b_cons. specialize (Hs st o H1).
    destruct (exec_s loop s st o) as [[sg st'] o']. simpl in Hs.
    destruct sg; try (simpl; split; discriminate); try (apply Hr; exact H2).
    + destruct Hs as [Hs _]. congruence.
    + destruct Hs as [_ Hs]. congruence.
Qed.

Lemma exec_k_nobc : forall n, loop_nobc (exec_k n).
Proof.
  induction n as [|m IH].
  - split; intros; simpl; split; discriminate.
  - destruct (exec_nobc _ IH) as [_ HB]. destruct IH as [IW IF]. split.
    + intros c b e st o H. unfold nobc. simpl. destruct (eval st c) as [v|]; [|simpl; split; discriminate].
      destruct (Z.eqb v 0); [apply HB; exact H|].
      destruct (exec_b (exec_k m) b st o) as [[sg st'] o']. destruct sg; simpl; try (split; discriminate); apply IW; exact H.
    + intros x i hi b e st o H. unfold nobc. simpl. destruct (Z.leb hi i); [apply HB; exact H|].
      destruct (exec_b (exec_k m) b (upd st x i) o) as [[sg st'] o']. destruct sg; simpl; try (split; discriminate); apply IF; exact H.
Qed.

Lemma count_ret_cons : forall s r, count_ret (s :: r) = count_ret_s s + count_ret r.
Proof. reflexivity. Qed.

Lemma count_ret_app : forall a b, count_ret (a ++ b) = count_ret a + count_ret b.
Proof.
  intros a b. unfold count_ret. rewrite map_app. induction (map count_ret_s a) as [|x xs IH]; simpl; [reflexivity | lia].
Qed.

Definition is_ret (sg : sig) : bool := match sg with Ret _ => true | _ => false end.

Definition loop_noret (loop : loopk -> store -> list Z -> res) : Prop :=
  (forall c b e st o, nocall b = true -> nocall e = true -> count_ret b = 0 -> count_ret e = 0 ->
      is_ret (fst (fst (loop (KWhile c b e) st o))) = false)
  /\ (forall x i hi b e st o, nocall b = true -> nocall e = true -> count_ret b = 0 -> count_ret e = 0 ->
      is_ret (fst (fst (loop (KFor x i hi b e) st o))) = false).

Lemma exec_noret : forall loop, loop_noret loop ->
  (forall s st o, nocall_s s = true -> count_ret_s s = 0 -> is_ret (fst (fst (exec_s loop s st o))) = false)
  /\ (forall ss st o, nocall ss = true -> count_ret ss = 0 -> is_ret (fst (fst (exec_b loop ss st o))) = false).
Proof.
  intros loop [LW LF].
  apply (stmt_blk_ind
           (fun s => forall st o, nocall_s s = true -> count_ret_s s = 0 -> is_ret (fst (fst (exec_s loop s st o))) = false)
           (fun ss => forall st o, nocall ss = true -> count_ret ss = 0 -> is_ret (fst (fst (exec_b loop ss st o))) = false)).
  - intros l x e st o _ _. simpl. destruct (eval st e); reflexivity.
  - intros l x op e st o _ _. simpl. destruct (get st x); [destruct (eval st e)|]; reflexivity.
  - intros l e st o _ _. simpl. destruct (eval st e); reflexivity.
  - intros l c a b Ha Hb st o NC H. simpl in NC. apply andb_true_iff in NC. destruct NC as [NCa NCb].
    change (count_ret a + count_ret b = 0) in H.
    rewrite exec_s_if. destruct (eval st c) as [v|]; [|reflexivity].
    destruct (Z.eqb v 0); [apply Hb | apply Ha]; auto; lia.
  - intros l c b e _ _ st o NC H. simpl in NC. apply andb_true_iff in NC. destruct NC as [NCb NCe].
    change (count_ret b + count_ret e = 0) in H. simpl. apply LW; try assumption; lia.
  - intros l x e b els _ _ st o NC H. simpl in NC. apply andb_true_iff in NC. destruct NC as [NCb NCe].
    change (count_ret b + count_ret els = 0) in H. simpl.
    destruct (eval st e); [apply LF; try assumption; lia | reflexivity].
  - intros l e st o _ H. simpl in H. discriminate.
  - reflexivity.
  - reflexivity.
  - reflexivity.
  - intros l rets args body tail shared _ st o NC. simpl in NC. discriminate.
  - reflexivity.
  - intros s r Hs Hr st o NC H. rewrite nocall_cons in NC. apply andb_true_iff in NC. destruct NC as [NCs NCr].
    rewrite count_ret_cons in H. rewrite exec_b_cons.
    assert (Hs' := Hs st o NCs ltac:(lia)).
    destruct (exec_s loop s st o) as [[sg st'] o']. simpl in Hs'.
    destruct sg; simpl; try reflexivity; try discriminate.
    apply Hr; [assumption | lia].
Qed.

Lemma exec_k_noret : forall n, loop_noret (exec_k n).
Proof.
  induction n as [|m IH].
  - split; intros; reflexivity.
  - destruct (exec_noret _ IH) as [_ HB]. destruct IH as [IW IF]. split.
    + intros c b e st o NCb NCe Hb He. simpl. destruct (eval st c) as [v|]; [|reflexivity].
      destruct (Z.eqb v 0); [apply HB; assumption|].
      pose proof (HB b st o NCb Hb) as HB'. destruct (exec_b (exec_k m) b st o) as [[sg st'] o']. simpl in HB'.
      destruct sg; simpl; try reflexivity; try discriminate; apply IW; assumption.
    + intros x i hi b e st o NCb NCe Hb He. simpl. destruct (Z.leb hi i); [apply HB; assumption|].
      pose proof (HB b (upd st x i) o NCb Hb) as HB'. destruct (exec_b (exec_k m) b (upd st x i) o) as [[sg st'] o']. simpl in HB'.
      destruct sg; simpl; try reflexivity; try discriminate; apply IF; assumption.
Qed.

Lemma returns_last_split : forall R, returns_last R = true -> exists R' l e, R = R' ++ [SReturn l e].
Proof.
  intros R H. unfold returns_last in H. destruct R as [|s r].
  - simpl in H. discriminate.
  - destruct (exists_last (l := s :: r)) as [R' [a E]]; [discriminate|].
    rewrite E in H. rewrite last_last in H. destruct a; try discriminate.
    exists R', l, e. exact E.
Qed.

Lemma exec_b_single : forall loop s st o, exec_b loop [s] st o = exec_s loop s st o.
Proof.
  intros. rewrite exec_b_cons. destruct (exec_s loop s st o) as [[sg st'] o']. destruct sg; reflexivity.
Qed.

(* a region that ends with its only return never completes normally *)
Lemma tail_not_norm : forall loop R st o,
  returns_last R = true -> fst (fst (exec_b loop R st o)) <> Norm.
Proof.
  intros loop R st o H. destruct (returns_last_split R H) as [R' [l [e E]]]. subst R.
  rewrite exec_b_app. destruct (exec_b loop R' st o) as [[sg st'] o']. destruct sg; try (simpl; discriminate).
  rewrite exec_b_single. simpl. destruct (eval st' e); simpl; discriminate.
Qed.

(* ------------------------------------------------------------------ the relations used *)
Definition Qtrue (a b : option Z) : Prop := True.
Definition Qsub (a b : option Z) : Prop := a = b \/ a = None.

Lemma Qtrue_refl : forall v, Qtrue v v.
Proof. intros; exact I. Qed.
Lemma Qsub_refl : forall v, Qsub v v.
Proof. intros; left; reflexivity. Qed.

Definition dom_le (s : store) (M : list var) : Prop := forall x, bound s x = true -> In x M.
Definition dom_ge (m : list var) (s : store) : Prop := forall x, In x m -> bound s x = true.

Lemma In_dec_mem : forall (x : var) (l : list var), In x l \/ ~ In x l.
Proof. intros. destruct (mem x l) eqn:E; [left; apply mem_In; exact E | right; apply mem_false; exact E]. Qed.

Lemma dom_le_frame : forall D M s s', frame_on D s s' -> dom_le s M -> dom_le s' (M ++ D).
Proof.
  intros D M s s' [F G] H x Hx. apply in_or_app. destruct (In_dec_mem x D) as [Hi|Hi]; [right; exact Hi|].
  left. apply H. unfold bound in *. rewrite <- (F x Hi). exact Hx.
Qed.

Lemma dom_ge_frame : forall D m s s', frame_on D s s' -> dom_ge m s -> dom_ge m s'.
Proof. intros D m s s' [F G] H x Hx. apply G. apply H. exact Hx. Qed.

Lemma rel_true_intro : forall L s1 s2, (forall x, In x L -> get s1 x = get s2 x) -> rel Qtrue L s1 s2.
Proof. intros L s1 s2 H x. split; [apply H | exact I]. Qed.

Lemma rel_true_trans : forall L s1 s2 s3, rel Qtrue L s1 s2 -> (forall x, In x L -> get s2 x = get s3 x) -> rel Qtrue L s1 s3.
Proof.
  intros L s1 s2 s3 H1 H2 x. split; [|exact I]. intros Hx. rewrite (proj1 (H1 x) Hx). apply H2. exact Hx.
Qed.

Lemma nocall_plug : forall lc h, nocall (plug lc h) = true -> nocall h = true.
Proof.
  induction lc; intros h H; simpl in H; rewrite !nocall_app in H;
    apply andb_true_iff in H; destruct H as [_ H].
  - apply andb_true_iff in H. tauto.
  - rewrite nocall_cons in H. apply andb_true_iff in H. destruct H as [H _]. simpl in H.
    apply andb_true_iff in H. destruct H as [H _]. apply IHlc. exact H.
  - rewrite nocall_cons in H. apply andb_true_iff in H. destruct H as [H _]. simpl in H.
    apply andb_true_iff in H. destruct H as [_ H]. apply IHlc. exact H.
  - rewrite nocall_cons in H. apply andb_true_iff in H. destruct H as [H _]. simpl in H.
    apply andb_true_iff in H. destruct H as [H _]. apply IHlc. exact H.
  - rewrite nocall_cons in H. apply andb_true_iff in H. destruct H as [H _]. simpl in H.
    apply andb_true_iff in H. destruct H as [H _]. apply IHlc. exact H.
  - rewrite nocall_cons in H. apply andb_true_iff in H. destruct H as [H _]. simpl in H.
    apply andb_true_iff in H. destruct H as [_ H]. apply IHlc. exact H.
  - rewrite nocall_cons in H. apply andb_true_iff in H. destruct H as [H _]. simpl in H.
    apply andb_true_iff in H. destruct H as [_ H]. apply IHlc. exact H.
Qed.

Lemma nocall_region : forall lc, nocall (orig lc) = true -> nocall (region lc) = true.
Proof. intros lc H. unfold orig in H. eapply nocall_plug. exact H. Qed.

Lemma no_escape_inv : forall R, no_escape R = true ->
  existsb unmatched_bc_s R = false /\ (if returns_last R then count_ret R = 1 else count_ret R = 0).
Proof.
  intros R H. unfold no_escape in H. destruct R as [|s r]; [discriminate|].
  apply andb_true_iff in H. destruct H as [H1 H2]. apply negb_true_iff in H1. split; [exact H1|].
  destruct (returns_last (s :: r)); apply Nat.eqb_eq in H2; exact H2.
Qed.

Section Outline.
  Variables (R : list stmt) (A Rt : list var) (shared : bool) (l0 : N) (tail : bool).
  Hypothesis HT : tail = returns_last R.
  Let call := SCall l0 Rt A R tail shared.

  Hypothesis NE : no_escape R = true.
  Hypothesis NCR : nocall R = true.
  Hypothesis CVR : conv_b R k0 = true.

  Lemma R_nobc : existsb unmatched_bc_s R = false.
  Proof. exact (proj1 (no_escape_inv R NE)). Qed.

  Lemma R_rets : if tail then count_ret R = 1 else count_ret R = 0.
  Proof. rewrite HT. exact (proj2 (no_escape_inv R NE)). Qed.

  (* the hypotheses about the hole, for may/must/live sets computed along the way *)
  Definition hole_conds (hi : holeinfo) : Prop :=
    (forall x, In x (need R shared) -> In x (h_may hi) -> In x A)
    /\ (forall x, In x A -> In x (h_must hi))
    /\ (tail = true \/ forall x, In x (defs R) -> In x (h_live hi) -> In x Rt)
    /\ (tail = true \/ forall x, In x Rt -> In x (mustd R) \/ In x A).

  (* the call against the region itself, from the same store *)
  Lemma region_call : forall n s o M' m',
    dom_le s M' -> dom_ge m' s ->
    (forall x, In x (need R shared) -> In x M' -> In x A) ->
    (forall x, In x A -> In x m') ->
    (tail = true \/ forall x, In x Rt -> In x (mustd R) \/ In x A) ->
    exists s', exec_s (exec_k n) call s o = (fst (fst (exec n R s o)), s', snd (exec n R s o))
               /\ (fst (fst (exec n R s o)) = Norm ->
                   forall x, get s' x = if mem x Rt then get (snd (fst (exec n R s o))) x else get s x).
  Proof.
    intros n s o M' m' DL DG C1 C2 C4.
    unfold call. rewrite exec_s_call.
    assert (HA : forallb (bound s) A = true).
    { apply forallb_forall. intros x Hx. apply DG. apply C2. exact Hx. }
    rewrite HA.
    set (sc := callee_store s A (defs R) shared).
    assert (RS : rel Qsub (live_b R k0) sc s).
    { intros x. unfold sc. rewrite get_callee_store.
      destruct (mem x A || shared && negb (mem x (defs R))) eqn:E.
      - split; [reflexivity | left; reflexivity].
      - split; [|right; reflexivity]. intros Hx.
        apply orb_false_iff in E. destruct E as [E1 E2].
        assert (Hn : In x (need R shared)).
        { unfold need. destruct shared; simpl in E2.
          - apply In_inter. split; [exact Hx|]. apply negb_false_iff in E2. apply mem_In. exact E2.
          - exact Hx. }
        destruct (get s x) eqn:G; [|reflexivity].
        exfalso. apply mem_false in E1. apply E1. apply C1; [exact Hn|]. apply DL. unfold bound. rewrite G. reflexivity. }
    pose proof (live_sound Qsub Qsub_refl n R k0 sc s o NCR CVR RS) as LS.
    unfold exec in *.
    pose proof (proj2 (exec_nobc (exec_k n) (exec_k_nobc n)) R s o R_nobc) as NB.
    pose proof (proj2 (exec_frame (exec_k n) (exec_k_frame n)) R sc o) as FR.
    pose proof (proj2 (exec_must (exec_k n) (exec_k_frame n)) R sc o) as MU.
    pose proof (tail_not_norm (exec_k n) R s o) as TN. rewrite <- HT in TN.
    pose proof (proj2 (exec_noret (exec_k n) (exec_k_noret n)) R s o NCR) as NR.
    pose proof R_rets as RR.
    destruct (exec_b (exec_k n) R sc o) as [[sgc scR] oc].
    destruct (exec_b (exec_k n) R s o) as [[sg sR] oR].
    destruct LS as [E1 [E2 E3]]. simpl in E1, E2, E3, NB, FR, TN, NR. subst sgc oc. simpl.
    destruct sg.
    - (* Norm *)
      destruct tail eqn:ET; [exfalso; apply TN; reflexivity|].
      destruct C4 as [C4|C4]; [discriminate|].
      assert (HB : forallb (bound scR) Rt = true).
      { apply forallb_forall. intros x Hx. destruct (C4 x Hx) as [Hm|Ha].
        - eapply MU; [reflexivity | exact Hm].
        - apply (proj2 FR). unfold bound, sc. rewrite get_callee_store.
          apply mem_In in Ha. rewrite Ha. simpl. apply mem_In in Ha. apply DG. apply C2. exact Ha. }
      rewrite HB. eexists. split; [reflexivity|]. intros _ x.
      rewrite get_copy_back by exact HB.
      destruct (mem x Rt) eqn:Ex; [|reflexivity].
      simpl in E3. destruct (proj2 (E3 x)) as [Q|Q]; [exact Q|].
      rewrite forallb_forall in HB. apply mem_In in Ex. apply HB in Ex. unfold bound in Ex. rewrite Q in Ex. discriminate.
    - exfalso. destruct NB as [NB _]. apply NB. reflexivity.
    - exfalso. destruct NB as [_ NB]. apply NB. reflexivity.
    - (* Ret *)
      destruct tail eqn:ET.
      + eexists. split; [reflexivity|]. intros H. discriminate.
      + exfalso. specialize (NR RR). discriminate.
    - eexists. split; [reflexivity|]. intros H. discriminate.
    - eexists. split; [reflexivity|]. intros H. discriminate.
    - eexists. split; [reflexivity|]. intros H. discriminate.
  Qed.

  (* prefix / middle / suffix decomposition of a block on both sides *)
  Lemma seq_sim : forall n pre mid mid' post k s1 s2 o M m,
    nocall pre = true -> nocall post = true ->
    conv_b (pre ++ mid ++ post) k = true ->
    rel Qtrue (live_b (pre ++ mid ++ post) k) s1 s2 ->
    dom_le s2 M -> dom_ge m s2 ->
    (forall t1 t2 o', rel Qtrue (live_b mid (mk (live_b post k) (kb k) (kc k))) t1 t2 ->
        dom_le t2 (M ++ defs pre) -> dom_ge (m ++ mustd pre) t2 ->
        res_rel Qtrue (mk (live_b post k) (kb k) (kc k)) (exec n mid t1 o') (exec n mid' t2 o')) ->
    res_rel Qtrue k (exec n (pre ++ mid ++ post) s1 o) (exec n (pre ++ mid' ++ post) s2 o).
  Proof.
    intros n pre mid mid' post k s1 s2 o M m NCp NCq CV RL DL DG HM.
    rewrite conv_b_app in CV. apply andb_true_iff in CV. destruct CV as [CV1 CVp].
    rewrite conv_b_app in CV1. apply andb_true_iff in CV1. destruct CV1 as [CVq CVm].
    rewrite live_b_app in RL. rewrite live_b_app in RL. rewrite live_b_app in CVp. simpl in RL, CVp.
    unfold exec in *. rewrite !exec_b_app.
    pose proof (live_sound Qtrue Qtrue_refl n pre _ s1 s2 o NCp CVp RL) as LP. unfold exec in LP.
    pose proof (proj2 (exec_frame (exec_k n) (exec_k_frame n)) pre s2 o) as FR.
    pose proof (proj2 (exec_must (exec_k n) (exec_k_frame n)) pre s2 o) as MU.
    destruct (exec_b (exec_k n) pre s1 o) as [[sg1 t1] o1].
    destruct (exec_b (exec_k n) pre s2 o) as [[sg2 t2] o2].
    destruct LP as [E1 [E2 E3]]. simpl in E1, E2, E3, FR. subst sg2 o2.
    destruct sg1; try (split; [reflexivity|]; split; [reflexivity|]; simpl; simpl in E3; exact E3).
    simpl in E3.
    assert (DL' : dom_le t2 (M ++ defs pre)) by (eapply dom_le_frame; eauto).
    assert (DG' : dom_ge (m ++ mustd pre) t2).
    { intros x Hx. apply in_app_or in Hx. destruct Hx as [Hx|Hx].
      - apply (proj2 FR). apply DG. exact Hx.
      - eapply MU; [reflexivity | exact Hx]. }
    specialize (HM t1 t2 o1 E3 DL' DG').
    rewrite !exec_b_app.
    destruct (exec_b (exec_k n) mid t1 o1) as [[sg1 u1] p1].
    destruct (exec_b (exec_k n) mid' t2 o1) as [[sg2 u2] p2].
    destruct HM as [F1 [F2 F3]]. simpl in F1, F2, F3. subst sg2 p2.
    destruct sg1; try (split; [reflexivity|]; split; [reflexivity|]; simpl; simpl in F3; exact F3).
    simpl in F3.
    apply (live_sound Qtrue Qtrue_refl n post k u1 u2 p1 NCq CVq F3).
  Qed.

  (* the selected region against the call *)
  Lemma hole_sim : forall n post k t1 t2 o M' m',
    conv_b R (mk (live_b post k) (kb k) (kc k)) = true ->
    rel Qtrue (live_b R (mk (live_b post k) (kb k) (kc k))) t1 t2 ->
    dom_le t2 M' -> dom_ge m' t2 ->
    hole_conds {| h_may := M'; h_must := m'; h_live := live_b post k |} ->
    res_rel Qtrue (mk (live_b post k) (kb k) (kc k)) (exec n R t1 o) (exec n [call] t2 o).
  Proof.
    intros n post k t1 t2 o M' m' CV RL DL DG [C1 [C2 [C3 C4]]]. simpl in C1, C2, C3.
    pose proof (live_sound Qtrue Qtrue_refl n R _ t1 t2 o NCR CV RL) as LS.
    destruct (region_call n t2 o M' m' DL DG C1 C2 C4) as [s' [EC EN]].
    pose proof (exec_frame_b n R t2 o) as FR.
    pose proof (proj2 (exec_nobc (exec_k n) (exec_k_nobc n)) R t1 o R_nobc) as NB.
    pose proof (tail_not_norm (exec_k n) R t1 o) as TN. rewrite <- HT in TN.
    unfold exec in *. rewrite exec_b_single. rewrite EC. clear EC.
    destruct (exec_b (exec_k n) R t1 o) as [[sg1 u1] p1]. destruct (exec_b (exec_k n) R t2 o) as [[sg2 u2] p2].
    destruct LS as [E1 [E2 E3]]. simpl in E1, E2, E3, EN, FR, NB, TN. subst sg2 p2.
    split; [reflexivity|]. split; [reflexivity|]. simpl.
    destruct sg1; simpl; try exact I.
    - simpl in E3. specialize (EN eq_refl).
      eapply rel_true_trans; [exact E3|]. intros x Hx. rewrite EN.
      destruct (mem x Rt) eqn:Ex; [reflexivity|].
      apply (proj1 FR). intros Hd.
      destruct C3 as [C3|C3].
      + exfalso. apply (TN C3). reflexivity.
      + apply mem_false in Ex. apply Ex. apply C3; assumption.
    - exfalso. apply (proj1 NB). reflexivity.
    - exfalso. apply (proj2 NB). reflexivity.
  Qed.

  (* ---------------------------------------------------------------- the located program *)
  Definition zip_P (lc : loc) : Prop :=
    region lc = R ->
    forall n M m k s1 s2 o,
      nocall (orig lc) = true -> conv_b (orig lc) k = true ->
      hole_conds (hole_info call lc M m k) ->
      rel Qtrue (live_b (orig lc) k) s1 s2 ->
      dom_le s2 M -> dom_ge m s2 ->
      res_rel Qtrue k (exec n (orig lc) s1 o) (exec n (plug lc [call]) s2 o).

  Lemma live_b_single : forall s a b c, live_b [s] (mk a b c) = live_s s (mk a b c).
  Proof. reflexivity. Qed.

  Lemma conv_b_single : forall s a b c, conv_b [s] (mk a b c) = conv_s s (mk a b c).
  Proof. reflexivity. Qed.
  Lemma nocall_single : forall s, nocall [s] = nocall_s s.
  Proof. intros. unfold nocall. simpl. apply andb_true_r. Qed.

  Lemma dom_le_sub : forall s M M', dom_le s M -> (forall x, In x M -> In x M') -> dom_le s M'.
  Proof. intros s M M' H S x Hx. apply S. apply H. exact Hx. Qed.

  (* the region is in the body of a loop *)
  Lemma while_sim : forall i, zip_P i -> region i = R -> forall c els kk Mloop mloop,
    nocall (orig i) = true -> nocall els = true -> conv_while c (orig i) els kk = true ->
    hole_conds (hole_info call i Mloop mloop (mk (live_while c (orig i) els kk) (kn kk) (live_while c (orig i) els kk))) ->
    (forall x, In x (defs (plug i [call])) -> In x Mloop) ->
    forall n s1 s2 o, rel Qtrue (live_while c (orig i) els kk) s1 s2 -> dom_le s2 Mloop -> dom_ge mloop s2 ->
    res_rel Qtrue kk (exec_k n (KWhile c (orig i) els) s1 o) (exec_k n (KWhile c (plug i [call]) els) s2 o).
  Proof.
    intros i ZP RG c els kk Mloop mloop NC NCe CV HC DS.
    unfold conv_while in CV. apply andb_true_iff in CV. destruct CV as [CV CE]. apply andb_true_iff in CV. destruct CV as [CS CB].
    pose proof (proj1 (subset_In _ _) CS) as CS'. clear CS. rename CS' into CS. unfold while_step in CS.
    set (X := live_while c (orig i) els kk) in *.
    induction n as [|m IH]; intros s1 s2 o RL DL DG.
    - simpl. split; [reflexivity|]. split; [reflexivity|]. exact I.
    - simpl.
      rewrite (eval_rel Qtrue Qtrue_refl _ s1 s2 c RL) by (intros; apply CS; apply in_or_app; auto).
      destruct (eval s2 c) as [v|]; [|apply res_rel_err; exact I].
      destruct (Z.eqb v 0).
      + apply (live_sound Qtrue Qtrue_refl m els kk s1 s2 o NCe CE).
        eapply rel_sub; [exact RL|]. intros; apply CS; apply in_or_app; right; apply in_or_app; auto.
      + assert (RB : rel Qtrue (live_b (orig i) (mk X (kn kk) X)) s1 s2).
        { eapply rel_sub; [exact RL|]. intros; apply CS; apply in_or_app; right; apply in_or_app; auto. }
        pose proof (ZP RG m Mloop mloop (mk X (kn kk) X) s1 s2 o NC CB HC RB DL DG) as HB.
        pose proof (exec_frame_b m (plug i [call]) s2 o) as FR.
        unfold exec in HB, FR.
        destruct (exec_b (exec_k m) (orig i) s1 o) as [[sg1 t1] o1].
        destruct (exec_b (exec_k m) (plug i [call]) s2 o) as [[sg2 t2] o2].
        destruct HB as [E1 [E2 E3]]. simpl in E1, E2, E3, FR. subst sg2 o2.
        assert (DL' : dom_le t2 Mloop).
        { eapply dom_le_sub; [eapply dom_le_frame; eauto|]. intros x Hx. apply in_app_or in Hx. destruct Hx; auto. }
        assert (DG' : dom_ge mloop t2) by (eapply dom_ge_frame; eauto).
        destruct sg1; simpl in E3; try (apply res_rel_err; exact I).
        * apply IH; assumption.
        * split; [reflexivity|]. split; [reflexivity|]. exact E3.
        * apply IH; assumption.
  Qed.

  Lemma for_sim : forall i, zip_P i -> region i = R -> forall x els kk Mloop mloop,
    nocall (orig i) = true -> nocall els = true -> conv_for x (orig i) els kk = true ->
    hole_conds (hole_info call i Mloop (mloop ++ [x]) (mk (live_for x (orig i) els kk) (kn kk) (live_for x (orig i) els kk))) ->
    (forall y, In y (x :: defs (plug i [call])) -> In y Mloop) ->
    forall n j hi s1 s2 o, rel Qtrue (live_for x (orig i) els kk) s1 s2 -> dom_le s2 Mloop -> dom_ge mloop s2 ->
    res_rel Qtrue kk (exec_k n (KFor x j hi (orig i) els) s1 o) (exec_k n (KFor x j hi (plug i [call]) els) s2 o).
  Proof.
    intros i ZP RG x els kk Mloop mloop NC NCe CV HC DS.
    unfold conv_for in CV. apply andb_true_iff in CV. destruct CV as [CV CE]. apply andb_true_iff in CV. destruct CV as [CS CB].
    pose proof (proj1 (subset_In _ _) CS) as CS'. clear CS. rename CS' into CS. unfold for_step in CS.
    set (Y := live_for x (orig i) els kk) in *.
    induction n as [|m IH]; intros j hi s1 s2 o RL DL DG.
    - simpl. split; [reflexivity|]. split; [reflexivity|]. exact I.
    - simpl. destruct (Z.leb hi j).
      + apply (live_sound Qtrue Qtrue_refl m els kk s1 s2 o NCe CE).
        eapply rel_sub; [exact RL|]. intros; apply CS; apply in_or_app; auto.
      + assert (RB : rel Qtrue (live_b (orig i) (mk Y (kn kk) Y)) (upd s1 x j) (upd s2 x j)).
        { eapply rel_upd; [exact Qtrue_refl | exact RL|]. intros y Hy Hne. apply CS. apply in_or_app. right.
          apply In_remove. auto. }
        assert (DLu : dom_le (upd s2 x j) Mloop).
        { intros y Hy. rewrite bound_upd in Hy. apply orb_true_iff in Hy. destruct Hy as [Hy|Hy].
          - apply N.eqb_eq in Hy. subst y. apply DS. left. reflexivity.
          - apply DL. exact Hy. }
        assert (DGu : dom_ge (mloop ++ [x]) (upd s2 x j)).
        { intros y Hy. rewrite bound_upd. apply in_app_or in Hy. destruct Hy as [Hy|[Hy|[]]].
          - rewrite (DG y Hy). apply orb_true_r.
          - subst y. rewrite N.eqb_refl. reflexivity. }
        pose proof (ZP RG m Mloop (mloop ++ [x]) (mk Y (kn kk) Y) (upd s1 x j) (upd s2 x j) o NC CB HC RB DLu DGu) as HB.
        pose proof (exec_frame_b m (plug i [call]) (upd s2 x j) o) as FR.
        unfold exec in HB, FR.
        destruct (exec_b (exec_k m) (orig i) (upd s1 x j) o) as [[sg1 t1] o1].
        destruct (exec_b (exec_k m) (plug i [call]) (upd s2 x j) o) as [[sg2 t2] o2].
        destruct HB as [E1 [E2 E3]]. simpl in E1, E2, E3, FR. subst sg2 o2.
        assert (DL' : dom_le t2 Mloop).
        { eapply dom_le_sub; [eapply dom_le_frame; eauto|]. intros y Hy. apply in_app_or in Hy.
          destruct Hy as [Hy|Hy]; [exact Hy|]. apply DS. right. exact Hy. }
        assert (DG' : dom_ge mloop t2).
        { intros y Hy. apply (proj2 FR). rewrite bound_upd. rewrite (DG y Hy). apply orb_true_r. }
        destruct sg1; simpl in E3; try (apply res_rel_err; exact I).
        * apply IH; assumption.
        * split; [reflexivity|]. split; [reflexivity|]. exact E3.
        * apply IH; assumption.
  Qed.

  (* the region is in the else-clause of a loop: the loop itself is the same on both sides *)
  Lemma whileE_sim : forall i, zip_P i -> region i = R -> forall c b kk Mloop mloop,
    nocall b = true -> nocall (orig i) = true -> conv_while c b (orig i) kk = true ->
    hole_conds (hole_info call i Mloop mloop kk) ->
    (forall x, In x (defs b) -> In x Mloop) ->
    forall n s1 s2 o, rel Qtrue (live_while c b (orig i) kk) s1 s2 -> dom_le s2 Mloop -> dom_ge mloop s2 ->
    res_rel Qtrue kk (exec_k n (KWhile c b (orig i)) s1 o) (exec_k n (KWhile c b (plug i [call])) s2 o).
  Proof.
    intros i ZP RG c b kk Mloop mloop NCb NC CV HC DS.
    unfold conv_while in CV. apply andb_true_iff in CV. destruct CV as [CV CE]. apply andb_true_iff in CV. destruct CV as [CS CB].
    pose proof (proj1 (subset_In _ _) CS) as CS'. clear CS. rename CS' into CS. unfold while_step in CS.
    set (X := live_while c b (orig i) kk) in *.
    induction n as [|m IH]; intros s1 s2 o RL DL DG.
    - simpl. split; [reflexivity|]. split; [reflexivity|]. exact I.
    - simpl.
      rewrite (eval_rel Qtrue Qtrue_refl _ s1 s2 c RL) by (intros; apply CS; apply in_or_app; auto).
      destruct (eval s2 c) as [v|]; [|apply res_rel_err; exact I].
      destruct (Z.eqb v 0).
      + apply (ZP RG m Mloop mloop kk); try assumption.
        eapply rel_sub; [exact RL|]. intros; apply CS; apply in_or_app; right; apply in_or_app; auto.
      + assert (RB : rel Qtrue (live_b b (mk X (kn kk) X)) s1 s2).
        { eapply rel_sub; [exact RL|]. intros; apply CS; apply in_or_app; right; apply in_or_app; auto. }
        pose proof (live_sound Qtrue Qtrue_refl m b _ s1 s2 o NCb CB RB) as HB.
        pose proof (exec_frame_b m b s2 o) as FR.
        unfold exec in HB, FR.
        destruct (exec_b (exec_k m) b s1 o) as [[sg1 t1] o1].
        destruct (exec_b (exec_k m) b s2 o) as [[sg2 t2] o2].
        destruct HB as [E1 [E2 E3]]. simpl in E1, E2, E3, FR. subst sg2 o2.
        assert (DL' : dom_le t2 Mloop).
        { eapply dom_le_sub; [eapply dom_le_frame; eauto|]. intros x Hx. apply in_app_or in Hx. destruct Hx; auto. }
        assert (DG' : dom_ge mloop t2) by (eapply dom_ge_frame; eauto).
        destruct sg1; simpl in E3; try (apply res_rel_err; exact I).
        * apply IH; assumption.
        * split; [reflexivity|]. split; [reflexivity|]. exact E3.
        * apply IH; assumption.
  Qed.

  Lemma forE_sim : forall i, zip_P i -> region i = R -> forall x b kk Mloop mloop,
    nocall b = true -> nocall (orig i) = true -> conv_for x b (orig i) kk = true ->
    hole_conds (hole_info call i Mloop mloop kk) ->
    (forall y, In y (x :: defs b) -> In y Mloop) ->
    forall n j hi s1 s2 o, rel Qtrue (live_for x b (orig i) kk) s1 s2 -> dom_le s2 Mloop -> dom_ge mloop s2 ->
    res_rel Qtrue kk (exec_k n (KFor x j hi b (orig i)) s1 o) (exec_k n (KFor x j hi b (plug i [call])) s2 o).
  Proof.
    intros i ZP RG x b kk Mloop mloop NCb NC CV HC DS.
    unfold conv_for in CV. apply andb_true_iff in CV. destruct CV as [CV CE]. apply andb_true_iff in CV. destruct CV as [CS CB].
    pose proof (proj1 (subset_In _ _) CS) as CS'. clear CS. rename CS' into CS. unfold for_step in CS.
    set (Y := live_for x b (orig i) kk) in *.
    induction n as [|m IH]; intros j hi s1 s2 o RL DL DG.
    - simpl. split; [reflexivity|]. split; [reflexivity|]. exact I.
    - simpl. destruct (Z.leb hi j).
      + apply (ZP RG m Mloop mloop kk); try assumption.
        eapply rel_sub; [exact RL|]. intros; apply CS; apply in_or_app; auto.
      + assert (RB : rel Qtrue (live_b b (mk Y (kn kk) Y)) (upd s1 x j) (upd s2 x j)).
        { eapply rel_upd; [exact Qtrue_refl | exact RL|]. intros y Hy Hne. apply CS. apply in_or_app. right.
          apply In_remove. auto. }
        pose proof (live_sound Qtrue Qtrue_refl m b _ (upd s1 x j) (upd s2 x j) o NCb CB RB) as HB.
        pose proof (exec_frame_b m b (upd s2 x j) o) as FR.
        unfold exec in HB, FR.
        destruct (exec_b (exec_k m) b (upd s1 x j) o) as [[sg1 t1] o1].
        destruct (exec_b (exec_k m) b (upd s2 x j) o) as [[sg2 t2] o2].
        destruct HB as [E1 [E2 E3]]. simpl in E1, E2, E3, FR. subst sg2 o2.
        assert (DL' : dom_le t2 Mloop).
        { intros y Hy. destruct (In_dec_mem y (defs b)) as [Hd|Hd]; [apply DS; right; exact Hd|].
          unfold bound in Hy. rewrite (proj1 FR y Hd) in Hy. rewrite get_upd in Hy.
          destruct (N.eqb y x) eqn:E; [apply N.eqb_eq in E; subst y; apply DS; left; reflexivity|].
          apply DL. exact Hy. }
        assert (DG' : dom_ge mloop t2).
        { intros y Hy. apply (proj2 FR). rewrite bound_upd. rewrite (DG y Hy). apply orb_true_r. }
        destruct sg1; simpl in E3; try (apply res_rel_err; exact I).
        * apply IH; assumption.
        * split; [reflexivity|]. split; [reflexivity|]. exact E3.
        * apply IH; assumption.
  Qed.

  Lemma nocall3 : forall pre mid post, nocall (pre ++ mid ++ post) = true ->
    nocall pre = true /\ nocall mid = true /\ nocall post = true.
  Proof.
    intros pre mid post H. rewrite !nocall_app in H. apply andb_true_iff in H. destruct H as [H1 H2].
    apply andb_true_iff in H2. tauto.
  Qed.

  Lemma conv3 : forall pre mid post k, conv_b (pre ++ mid ++ post) k = true ->
    conv_b mid (mk (live_b post k) (kb k) (kc k)) = true.
  Proof.
    intros pre mid post k H. rewrite conv_b_app in H. apply andb_true_iff in H. destruct H as [H _].
    rewrite conv_b_app in H. apply andb_true_iff in H. tauto.
  Qed.

  Lemma zip_sim : forall lc, zip_P lc.
  Proof.
    induction lc as [pre R' post | pre l c i IH b post | pre l c a i IH post | pre l c lc IHlc els post | pre l x e lc IHlc els post
                     | pre l c b lc IHlc post | pre l x e b lc IHlc post];
      intros RG n M m k s1 s2 o NC CV HC RL DL DG.
    - (* the region is here *)
      simpl in RG. subst R'.
      change (orig (LHere pre R post)) with (pre ++ R ++ post) in *.
      change (plug (LHere pre R post) [call]) with (pre ++ [call] ++ post).
      destruct (nocall3 _ _ _ NC) as [NCp [_ NCq]].
      pose proof (conv3 _ _ _ _ CV) as CVm.
      eapply seq_sim; eauto.
      intros t1 t2 o' RT DT GT. eapply hole_sim; eauto.
    - (* inside the body of an if *)
      simpl in RG.
      change (orig (LIfT pre l c i b post)) with (pre ++ [SIf l c (orig i) b] ++ post) in *.
      change (plug (LIfT pre l c i b post) [call]) with (pre ++ [SIf l c (plug i [call]) b] ++ post).
      destruct (nocall3 _ _ _ NC) as [NCp [NCm NCq]].
      pose proof (conv3 _ _ _ _ CV) as CVm.
      eapply seq_sim; eauto.
      intros t1 t2 o' RT DT GT. unfold exec. rewrite !exec_b_single, !exec_s_if.
      rewrite live_b_single, live_s_if in RT.
      rewrite conv_b_single, conv_s_if in CVm.
      apply andb_true_iff in CVm. destruct CVm as [CVa CVb].
      rewrite nocall_single in NCm. simpl in NCm. apply andb_true_iff in NCm.
      destruct NCm as [NCa NCb]. fold (nocall (orig i)) in *. fold (nocall b) in *.
      rewrite (eval_rel Qtrue Qtrue_refl _ t1 t2 c RT) by (intros; apply in_or_app; auto).
      destruct (eval t2 c) as [v|]; [|apply res_rel_err; exact I].
      destruct (Z.eqb v 0).
      + apply (live_sound Qtrue Qtrue_refl n b _ t1 t2 o' NCb CVb).
        eapply rel_sub; [exact RT|]. intros; apply in_or_app; right; apply in_or_app; auto.
      + apply (IH RG n (M ++ defs pre) (m ++ mustd pre)); try assumption.
        eapply rel_sub; [exact RT|]. intros; apply in_or_app; right; apply in_or_app; auto.
    - (* inside the else branch of an if *)
      simpl in RG.
      change (orig (LIfF pre l c a i post)) with (pre ++ [SIf l c a (orig i)] ++ post) in *.
      change (plug (LIfF pre l c a i post) [call]) with (pre ++ [SIf l c a (plug i [call])] ++ post).
      destruct (nocall3 _ _ _ NC) as [NCp [NCm NCq]].
      pose proof (conv3 _ _ _ _ CV) as CVm.
      eapply seq_sim; eauto.
      intros t1 t2 o' RT DT GT. unfold exec. rewrite !exec_b_single, !exec_s_if.
      rewrite live_b_single, live_s_if in RT.
      rewrite conv_b_single, conv_s_if in CVm.
      apply andb_true_iff in CVm. destruct CVm as [CVa CVb].
      rewrite nocall_single in NCm. simpl in NCm. apply andb_true_iff in NCm.
      destruct NCm as [NCa NCb]. fold (nocall (orig i)) in *. fold (nocall a) in *.
      rewrite (eval_rel Qtrue Qtrue_refl _ t1 t2 c RT) by (intros; apply in_or_app; auto).
      destruct (eval t2 c) as [v|]; [|apply res_rel_err; exact I].
      destruct (Z.eqb v 0).
      + apply (IH RG n (M ++ defs pre) (m ++ mustd pre)); try assumption.
        eapply rel_sub; [exact RT|]. intros; apply in_or_app; right; apply in_or_app; auto.
      + apply (live_sound Qtrue Qtrue_refl n a _ t1 t2 o' NCa CVa).
        eapply rel_sub; [exact RT|]. intros; apply in_or_app; right; apply in_or_app; auto.
    - (* inside a while loop *)
      simpl in RG.
      change (orig (LWhile pre l c lc els post)) with (pre ++ [SWhile l c (orig lc) els] ++ post) in *.
      change (plug (LWhile pre l c lc els post) [call]) with (pre ++ [SWhile l c (plug lc [call]) els] ++ post).
      destruct (nocall3 _ _ _ NC) as [NCp [NCm NCq]].
      pose proof (conv3 _ _ _ _ CV) as CVm.
      eapply seq_sim; eauto.
      intros t1 t2 o' RT DT GT. unfold exec. rewrite !exec_b_single. simpl exec_s.
      rewrite live_b_single, live_s_while in RT.
      rewrite conv_b_single, conv_s_while in CVm.
      rewrite nocall_single in NCm. simpl in NCm. apply andb_true_iff in NCm. destruct NCm as [NCb NCe].
      fold (nocall (orig lc)) in NCb. fold (nocall els) in NCe.
      eapply (while_sim lc IHlc RG c els _ (M ++ defs pre ++ defs (plug lc [call])) (m ++ mustd pre)); try eassumption.
      + intros y Hy. apply in_or_app. right. apply in_or_app. right. exact Hy.
      + eapply dom_le_sub; [exact DT|]. intros y Hy. apply in_app_or in Hy. apply in_or_app.
        destruct Hy; [left; assumption | right; apply in_or_app; left; assumption].
    - (* inside a for loop *)
      simpl in RG.
      change (orig (LFor pre l x e lc els post)) with (pre ++ [SFor l x e (orig lc) els] ++ post) in *.
      change (plug (LFor pre l x e lc els post) [call]) with (pre ++ [SFor l x e (plug lc [call]) els] ++ post).
      destruct (nocall3 _ _ _ NC) as [NCp [NCm NCq]].
      pose proof (conv3 _ _ _ _ CV) as CVm.
      eapply seq_sim; eauto.
      intros t1 t2 o' RT DT GT. unfold exec. rewrite !exec_b_single. simpl exec_s.
      rewrite live_b_single, live_s_for in RT.
      rewrite conv_b_single, conv_s_for in CVm.
      rewrite nocall_single in NCm. simpl in NCm. apply andb_true_iff in NCm. destruct NCm as [NCb NCe].
      fold (nocall (orig lc)) in NCb. fold (nocall els) in NCe.
      rewrite (eval_rel Qtrue Qtrue_refl _ t1 t2 e RT) by (intros; apply in_or_app; auto).
      destruct (eval t2 e) as [hi|]; [|apply res_rel_err; exact I].
      eapply (for_sim lc IHlc RG x els _ (M ++ defs pre ++ x :: defs (plug lc [call])) (m ++ mustd pre)); try eassumption.
      + simpl in HC. rewrite <- app_assoc. exact HC.
      + intros y Hy. apply in_or_app. right. apply in_or_app. right. exact Hy.
      + eapply rel_sub; [exact RT|]. intros; apply in_or_app; auto.
      + eapply dom_le_sub; [exact DT|]. intros y Hy. apply in_app_or in Hy. apply in_or_app.
        destruct Hy; [left; assumption | right; apply in_or_app; left; assumption].
    - (* inside the else-clause of a while loop *)
      simpl in RG.
      change (orig (LWhileE pre l c b lc post)) with (pre ++ [SWhile l c b (orig lc)] ++ post) in *.
      change (plug (LWhileE pre l c b lc post) [call]) with (pre ++ [SWhile l c b (plug lc [call])] ++ post).
      destruct (nocall3 _ _ _ NC) as [NCp [NCm NCq]].
      pose proof (conv3 _ _ _ _ CV) as CVm.
      eapply seq_sim; eauto.
      intros t1 t2 o' RT DT GT. unfold exec. rewrite !exec_b_single. simpl exec_s.
      rewrite live_b_single, live_s_while in RT.
      rewrite conv_b_single, conv_s_while in CVm.
      rewrite nocall_single in NCm. simpl in NCm. apply andb_true_iff in NCm. destruct NCm as [NCb NCe].
      fold (nocall b) in NCb. fold (nocall (orig lc)) in NCe.
      eapply (whileE_sim lc IHlc RG c b _ (M ++ defs pre ++ defs b) (m ++ mustd pre)); try eassumption.
      + intros y Hy. apply in_or_app. right. apply in_or_app. right. exact Hy.
      + eapply dom_le_sub; [exact DT|]. intros y Hy. apply in_app_or in Hy. apply in_or_app.
        destruct Hy; [left; assumption | right; apply in_or_app; left; assumption].
    - (* inside the else-clause of a for loop *)
      simpl in RG.
      change (orig (LForE pre l x e b lc post)) with (pre ++ [SFor l x e b (orig lc)] ++ post) in *.
      change (plug (LForE pre l x e b lc post) [call]) with (pre ++ [SFor l x e b (plug lc [call])] ++ post).
      destruct (nocall3 _ _ _ NC) as [NCp [NCm NCq]].
      pose proof (conv3 _ _ _ _ CV) as CVm.
      eapply seq_sim; eauto.
      intros t1 t2 o' RT DT GT. unfold exec. rewrite !exec_b_single. simpl exec_s.
      rewrite live_b_single, live_s_for in RT.
      rewrite conv_b_single, conv_s_for in CVm.
      rewrite nocall_single in NCm. simpl in NCm. apply andb_true_iff in NCm. destruct NCm as [NCb NCe].
      fold (nocall b) in NCb. fold (nocall (orig lc)) in NCe.
      rewrite (eval_rel Qtrue Qtrue_refl _ t1 t2 e RT) by (intros; apply in_or_app; auto).
      destruct (eval t2 e) as [hi|]; [|apply res_rel_err; exact I].
      eapply (forE_sim lc IHlc RG x b _ (M ++ defs pre ++ x :: defs b) (m ++ mustd pre)); try eassumption.
      + intros y Hy. apply in_or_app. right. apply in_or_app. right. exact Hy.
      + eapply rel_sub; [exact RT|]. intros; apply in_or_app; auto.
      + eapply dom_le_sub; [exact DT|]. intros y Hy. apply in_app_or in Hy. apply in_or_app.
        destruct Hy; [left; assumption | right; apply in_or_app; left; assumption].
  Qed.
End Outline.

(* ------------------------------------------------------------------ the outlining lemma *)
Theorem outline_sound : forall lc params A Rt shared,
  outline_ok lc params A Rt shared = true ->
  forall n vec,
    run n params vec (plug lc [SCall 0%N Rt A (region lc) (returns_last (region lc)) shared])
    = run n params vec (orig lc).
Proof.
  intros lc params A Rt shared H n vec.
  unfold outline_ok, c_shape, c_args_cover, c_args_bound, c_rets_cover, c_rets_bound in H.
  repeat (apply andb_true_iff in H; let H' := fresh "H" in destruct H as [H H']).
  rename H into NE. rename H6 into NC. rename H5 into CV. rename H4 into CVR.
  pose proof (zip_sim (region lc) A Rt shared 0%N (returns_last (region lc)) eq_refl NE
                      (nocall_region lc NC) CVR lc eq_refl n params params k0
                      (bind params vec) (bind params vec) []) as Z.
  unfold run, observe.
  assert (G : res_rel Qtrue k0 (exec n (orig lc) (bind params vec) [])
                      (exec n (plug lc [SCall 0%N Rt A (region lc) (returns_last (region lc)) shared]) (bind params vec) [])).
  { apply Z; try assumption.
    - unfold hole_conds. split; [|split; [|split]].
      + intros x Hn Hm. apply (proj1 (subset_In _ _) H3). apply In_inter. split; assumption.
      + exact (proj1 (subset_In _ _) H2).
      + apply orb_true_iff in H1. destruct H1 as [Hs|Hs]; [left; exact Hs | right].
        intros x Hd Hl. apply (proj1 (subset_In _ _) Hs). apply In_inter. split; assumption.
      + apply orb_true_iff in H0. destruct H0 as [Hs|Hs]; [left; exact Hs | right].
        intros x Hx. apply in_app_or. apply (proj1 (subset_In _ _) Hs). exact Hx.
    - apply rel_true_intro. reflexivity.
    - intros x Hx. rewrite get_bind in Hx. apply mem_In. exact Hx.
    - intros x Hx. rewrite get_bind. apply mem_In. exact Hx. }
  destruct G as [G1 [G2 _]]. rewrite G1, G2. reflexivity.
Qed.
