(* C03 — the Flow fragment: syntax, fuel-indexed big-step semantics, programs with a selected region.

   Statements carry the line number the collector of rope/refactor/extract.py sees (ast lineno relative
   to the holding scope). The semantics ignores line numbers.

   A loop's else-clause runs when the loop ends without `break`; a `break`/`continue` inside the else-clause
   belongs to the ENCLOSING loop.

   Fuel is consumed by loop iterations only; everything else is structural. An outlined call
   ([SCall]) carries the callee's body, so the original and the outlined program perform exactly the
   same loop iterations and can be compared at equal fuel. *)
From Coq Require Import List NArith ZArith Bool.
Import ListNotations.

Definition var := N.

Inductive binop := Add | Sub | Mul | Lt | Eq | Ne.

Inductive expr :=
| EVar (x : var)
| EConst (z : Z)
| EBin (o : binop) (a b : expr)
| EComp (v : var) (k : expr) (body : expr).        (* sum([body for v in range(k)]) / sum(body for v in range(k)) *)

Inductive stmt :=
| SAssign (l : N) (x : var) (e : expr)
| SAug (l : N) (x : var) (o : binop) (e : expr)
| SPrint (l : N) (e : expr)
| SIf (l : N) (c : expr) (a b : list stmt)
| SWhile (l : N) (c : expr) (b els : list stmt)               (* while c: b  else: els *)
| SFor (l : N) (x : var) (e : expr) (b els : list stmt)      (* for x in range(e): b  else: els *)
| SReturn (l : N) (e : expr)
| SPass (l : N)
| SBreak (l : N)
| SContinue (l : N)
(* rets = g(args) / g(args) / return g(args) where g's body is [body] (+ return rets).
   shared = true: g is defined at module level next to module-level host code, so the names it does not
   assign are read from the (global) store of the caller. *)
| SCall (l : N) (rets args : list var) (body : list stmt) (tail shared : bool).

(* ------------------------------------------------------------------ sets of variables as lists *)
Definition mem (x : var) (l : list var) : bool := existsb (N.eqb x) l.
Definition add (x : var) (l : list var) : list var := if mem x l then l else l ++ [x].
Definition union (a b : list var) : list var := a ++ b.
Definition remove (x : var) (l : list var) : list var := filter (fun y => negb (N.eqb y x)) l.
Definition inter (a b : list var) : list var := filter (fun y => mem y b) a.
Definition diff (a b : list var) : list var := filter (fun y => negb (mem y b)) a.
Definition subset (a b : list var) : bool := forallb (fun y => mem y b) a.

(* ------------------------------------------------------------------ semantics *)
(* stores are association lists with at most one entry per name; they are only ever inspected with [get] *)
Definition store := list (var * Z).
Definition empty : store := [].
Fixpoint get (s : store) (x : var) : option Z :=
  match s with
  | [] => None
  | (y, v) :: r => if N.eqb x y then Some v else get r x
  end.
Fixpoint upd (s : store) (x : var) (v : Z) : store :=
  match s with
  | [] => [(x, v)]
  | (y, w) :: r => if N.eqb x y then (y, v) :: r else (y, w) :: upd r x v
  end.
Definition bound (s : store) (x : var) : bool := match get s x with Some _ => true | None => false end.

Definition b2z (b : bool) : Z := if b then 1%Z else 0%Z.
Definition bop (o : binop) (a b : Z) : Z :=
  match o with
  | Add => (a + b)%Z | Sub => (a - b)%Z | Mul => (a * b)%Z
  | Lt => b2z (Z.ltb a b) | Eq => b2z (Z.eqb a b) | Ne => b2z (negb (Z.eqb a b))
  end.

Fixpoint eval (s : store) (e : expr) : option Z :=
  match e with
  | EVar x => get s x
  | EConst z => Some z
  | EBin o a b =>
      match eval s a with
      | None => None
      | Some va => match eval s b with None => None | Some vb => Some (bop o va vb) end
      end
  | EComp v k body =>
      (* range(k) is evaluated in the enclosing scope, the body once per element with v bound; v does not leak *)
      match eval s k with
      | None => None
      | Some n =>
          (fix go (m : nat) (i acc : Z) {struct m} : option Z :=
             match m with
             | O => Some acc
             | S m' => match eval (upd s v i) body with
                       | None => None
                       | Some b => go m' (i + 1)%Z (acc + b)%Z
                       end
             end) (Z.to_nat n) 0%Z 0%Z
      end
  end.

(* how a statement (list) ends. ErrUnbound: a name was read while unbound (NameError /
   UnboundLocalError). ErrOther: shapes the refusal conditions exclude (kept total). *)
Inductive sig := Norm | Brk | Cont | Ret (v : Z) | ErrUnbound | ErrOther | OOF.
Definition res := (sig * store * list Z)%type.      (* signal, store, printed values (latest first) *)

Inductive loopk :=
| KWhile (c : expr) (b els : list stmt)
| KFor (x : var) (i hi : Z) (b els : list stmt).      (* remaining iterations i .. hi-1 *)

(* callee store: only the arguments (and, when shared, the names the body never assigns) *)
Definition callee_store (st : store) (args : list var) (locals : list var) (shared : bool) : store :=
  filter (fun yv => mem (fst yv) args || (shared && negb (mem (fst yv) locals))) st.
Definition copy_back (rets : list var) (sc st : store) : store :=
  fold_left (fun acc r => match get sc r with Some v => upd acc r v | None => acc end) rets st.

(* names a statement may assign *)
Fixpoint defs_s (s : stmt) : list var :=
  match s with
  | SAssign _ x _ | SAug _ x _ _ => [x]
  | SIf _ _ a b => flat_map defs_s a ++ flat_map defs_s b
  | SWhile _ _ b e => flat_map defs_s b ++ flat_map defs_s e
  | SFor _ x _ b e => x :: flat_map defs_s b ++ flat_map defs_s e
  | SCall _ rets _ _ _ _ => rets
  | _ => []
  end.
Definition defs (ss : list stmt) : list var := flat_map defs_s ss.

Section ExecS.
  Variable loop : loopk -> store -> list Z -> res.

  Fixpoint exec_s (s : stmt) (st : store) (o : list Z) {struct s} : res :=
    let exec_b :=
      fix exec_b (ss : list stmt) (st : store) (o : list Z) {struct ss} : res :=
        match ss with
        | [] => (Norm, st, o)
        | s :: r =>
            match exec_s s st o with
            | (Norm, st', o') => exec_b r st' o'
            | x => x
            end
        end in
    match s with
    | SAssign _ x e =>
        match eval st e with
        | Some v => (Norm, upd st x v, o)
        | None => (ErrUnbound, st, o)
        end
    | SAug _ x op e =>
        match get st x, eval st e with
        | Some a, Some b => (Norm, upd st x (bop op a b), o)
        | _, _ => (ErrUnbound, st, o)
        end
    | SPrint _ e =>
        match eval st e with
        | Some v => (Norm, st, v :: o)
        | None => (ErrUnbound, st, o)
        end
    | SIf _ c a b =>
        match eval st c with
        | None => (ErrUnbound, st, o)
        | Some v => if Z.eqb v 0 then exec_b b st o else exec_b a st o
        end
    | SWhile _ c b els => loop (KWhile c b els) st o
    | SFor _ x e b els =>
        match eval st e with
        | None => (ErrUnbound, st, o)
        | Some hi => loop (KFor x 0%Z hi b els) st o
        end
    | SReturn _ e =>
        match eval st e with
        | Some v => (Ret v, st, o)
        | None => (ErrUnbound, st, o)
        end
    | SPass _ => (Norm, st, o)
    | SBreak _ => (Brk, st, o)
    | SContinue _ => (Cont, st, o)
    | SCall _ rets args body tail shared =>
        if forallb (bound st) args then
          match exec_b body (callee_store st args (defs body) shared) o with
          | (Norm, sc, o') =>
              if tail then (ErrOther, st, o')
              else if forallb (bound sc) rets then (Norm, copy_back rets sc st, o')
                   else (ErrUnbound, st, o')
          | (Ret v, _, o') => if tail then (Ret v, st, o') else (ErrOther, st, o')
          | (Brk, _, o') | (Cont, _, o') => (ErrOther, st, o')
          | (e, _, o') => (e, st, o')
          end
        else (ErrUnbound, st, o)
    end.

  Definition exec_b : list stmt -> store -> list Z -> res :=
    fix exec_b (ss : list stmt) (st : store) (o : list Z) {struct ss} : res :=
      match ss with
      | [] => (Norm, st, o)
      | s :: r =>
          match exec_s s st o with
          | (Norm, st', o') => exec_b r st' o'
          | x => x
          end
      end.
End ExecS.

Fixpoint exec_k (n : nat) (k : loopk) (st : store) (o : list Z) {struct n} : res :=
  match n with
  | O => (OOF, st, o)
  | S m =>
      match k with
      | KWhile c b els =>
          match eval st c with
          | None => (ErrUnbound, st, o)
          | Some v =>
              if Z.eqb v 0 then exec_b (exec_k m) els st o     (* the else-clause; its break/continue go outwards *)
              else match exec_b (exec_k m) b st o with
                   | (Norm, st', o') | (Cont, st', o') => exec_k m (KWhile c b els) st' o'
                   | (Brk, st', o') => (Norm, st', o')
                   | x => x
                   end
          end
      | KFor x i hi b els =>
          if Z.leb hi i then exec_b (exec_k m) els st o
          else match exec_b (exec_k m) b (upd st x i) o with
               | (Norm, st', o') | (Cont, st', o') => exec_k m (KFor x (i + 1)%Z hi b els) st' o'
               | (Brk, st', o') => (Norm, st', o')
               | x => x
               end
      end
  end.

Definition exec (n : nat) : list stmt -> store -> list Z -> res := exec_b (exec_k n).

(* binding of parameters; a missing value is 0 so that every parameter is bound *)
Fixpoint bind (params : list var) (vec : list Z) : store :=
  match params with
  | [] => empty
  | p :: ps => match vec with
               | [] => upd (bind ps []) p 0%Z
               | v :: vs => upd (bind ps vs) p v
               end
  end.

(* what a caller of the host observes: how it ended and what it printed *)
Definition observe (r : res) : sig * list Z := (fst (fst r), snd r).
Definition run (n : nat) (params : list var) (vec : list Z) (body : list stmt) : sig * list Z :=
  observe (exec n body (bind params vec) []).

(* ------------------------------------------------------------------ a program with a selected region *)
Inductive loc :=
| LHere (pre R post : list stmt)
| LIfT (pre : list stmt) (l : N) (c : expr) (inner : loc) (b : list stmt) (post : list stmt)
| LIfF (pre : list stmt) (l : N) (c : expr) (a : list stmt) (inner : loc) (post : list stmt)
| LWhile (pre : list stmt) (l : N) (c : expr) (inner : loc) (els : list stmt) (post : list stmt)
| LFor (pre : list stmt) (l : N) (x : var) (e : expr) (inner : loc) (els : list stmt) (post : list stmt)
(* the region lies in the else-clause of a loop *)
| LWhileE (pre : list stmt) (l : N) (c : expr) (b : list stmt) (inner : loc) (post : list stmt)
| LForE (pre : list stmt) (l : N) (x : var) (e : expr) (b : list stmt) (inner : loc) (post : list stmt).

Fixpoint plug (lc : loc) (h : list stmt) : list stmt :=
  match lc with
  | LHere pre _ post => pre ++ h ++ post
  | LIfT pre l c i b post => pre ++ SIf l c (plug i h) b :: post
  | LIfF pre l c a i post => pre ++ SIf l c a (plug i h) :: post
  | LWhile pre l c i els post => pre ++ SWhile l c (plug i h) els :: post
  | LFor pre l x e i els post => pre ++ SFor l x e (plug i h) els :: post
  | LWhileE pre l c b i post => pre ++ SWhile l c b (plug i h) :: post
  | LForE pre l x e b i post => pre ++ SFor l x e b (plug i h) :: post
  end.

Fixpoint region (lc : loc) : list stmt :=
  match lc with
  | LHere _ R _ => R
  | LIfT _ _ _ i _ _ | LIfF _ _ _ _ i _ | LWhile _ _ _ i _ _ | LFor _ _ _ _ i _ _
  | LWhileE _ _ _ _ i _ | LForE _ _ _ _ _ i _ => region i
  end.

Definition orig (lc : loc) : list stmt := plug lc (region lc).

(* number of loops that enclose the region *)
Fixpoint loops_around (lc : loc) : nat :=
  match lc with
  | LHere _ _ _ => O
  | LIfT _ _ _ i _ _ | LIfF _ _ _ _ i _ | LWhileE _ _ _ _ i _ | LForE _ _ _ _ _ i _ => loops_around i
  | LWhile _ _ _ i _ _ | LFor _ _ _ _ i _ _ => S (loops_around i)
  end.

(* ------------------------------------------------------------------ syntactic facts about a statement list *)
Fixpoint count_ret_s (s : stmt) : nat :=
  match s with
  | SReturn _ _ => 1
  | SIf _ _ a b => list_sum (map count_ret_s a) + list_sum (map count_ret_s b)
  | SWhile _ _ b e | SFor _ _ _ b e => list_sum (map count_ret_s b) + list_sum (map count_ret_s e)
  | _ => 0
  end.
Definition count_ret (ss : list stmt) : nat := list_sum (map count_ret_s ss).

(* _UnmatchedBreakOrContinueFinder: a break/continue not inside a loop of the extracted piece; the body of a
   loop is inside it, its else-clause is not (loop_count is decremented before the else-clause is visited) *)
Fixpoint unmatched_bc_s (s : stmt) : bool :=
  match s with
  | SBreak _ | SContinue _ => true
  | SIf _ _ a b => existsb unmatched_bc_s a || existsb unmatched_bc_s b
  | SWhile _ _ _ e | SFor _ _ _ _ e => existsb unmatched_bc_s e
  | _ => false
  end.

Definition returns_last (R : list stmt) : bool :=
  match last R (SPass 0%N) with SReturn _ _ => true | _ => false end.

