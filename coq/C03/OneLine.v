(* C03 — the refusal condition of one-line (sub-expression) selections that is about TEXT:
   _ExceptionalConditionChecker._is_region_on_a_word / _is_on_a_word of rope/refactor/extract.py.
   A selection [start, stop) of the source is "on a word" when its first character continues a word that starts
   before it, or its last character is continued by a word character after it; such a selection cuts an
   identifier, keyword or number and is refused. Text is a list of code points; which code points are
   alphanumeric (str.isalnum) is an input table, `_` (95) is a word character as well. *)
From Coq Require Import List NArith Bool Arith.
Import ListNotations.

Definition is_word (alnum : N -> bool) (c : N) : bool := alnum c || N.eqb c 95.

(* _is_on_a_word(info, offset): the character at offset and the one after it both belong to a word *)
Definition on_a_word (alnum : N -> bool) (src : list N) (off : nat) : bool :=
  match nth_error src off, nth_error src (S off) with
  | Some p, Some n => is_word alnum p && is_word alnum n
  | _, _ => false
  end.

(* _is_region_on_a_word: region[0] > 0 and on_a_word(region[0] - 1) or on_a_word(region[1] - 1) *)
Definition region_on_a_word (alnum : N -> bool) (src : list N) (start stop : nat) : bool :=
  (Nat.ltb 0 start && on_a_word alnum src (start - 1)) || on_a_word alnum src (stop - 1).

(* the same, said with the characters around the two borders *)
Definition word_at (alnum : N -> bool) (src : list N) (i : nat) : bool :=
  match nth_error src i with Some c => is_word alnum c | None => false end.
Definition cuts_border (alnum : N -> bool) (src : list N) (i : nat) : bool :=
  Nat.ltb 0 i && word_at alnum src (i - 1) && word_at alnum src i.

(* correspondence: what the real ExtractVariable / ExtractMethod did on a one-line selection *)
Record wcase := {
  w_src : list N;
  w_alnum : list N;                 (* the code points of w_src for which str.isalnum holds *)
  w_start : nat; w_stop : nat;      (* the selection after rope's whitespace trimming *)
  w_refused : bool;                 (* RefactoringError *)
  w_word_message : bool             (* ... with the message of the on-a-word check *)
}.

(* 0 agree; 1 the model says "on a word" but the code accepted; 2 the code refused as "on a word" but the model
   does not *)
Definition run_wcase (c : wcase) : N :=
  let alnum := fun x => existsb (N.eqb x) (w_alnum c) in
  let m := region_on_a_word alnum (w_src c) (w_start c) (w_stop c) in
  if m && negb (w_refused c) then 1%N
  else if w_word_message c && negb m then 2%N
  else 0%N.

Fixpoint wmismatches_from (i : N) (cs : list wcase) : list (N * N) :=
  match cs with
  | [] => []
  | c :: r =>
      let code := run_wcase c in
      if N.eqb code 0 then wmismatches_from (N.succ i) r else (i, code) :: wmismatches_from (N.succ i) r
  end.
Definition wmismatches (cs : list wcase) : list (N * N) := wmismatches_from 0 cs.
Definition count_on_word (cs : list wcase) : N :=
  N.of_nat (length (filter (fun c => region_on_a_word (fun x => existsb (N.eqb x) (w_alnum c)) (w_src c) (w_start c) (w_stop c)) cs)).
