(* C03 — the specification side: data-flow facts of Flow programs, independent of rope.

   live_b ss k      names whose value at the entry of ss may be read before being rewritten, given the
                    live sets k at the normal exit, at the enclosing loop's break target and at its
                    continue target (backward analysis; loops by iteration to a checked fixed point)
   ue R             upward-exposed uses of R = live_b R with nothing live afterwards
   defs / mustd     names a statement list may / must assign when it completes normally
   hole_info        at the selected region of a located program: names possibly bound on entry (all
                    earlier assignments plus, inside loops, those of earlier iterations), names
                    definitely bound on entry, names live at the region's normal exit
   outline_ok       the hypotheses of the outlining lemma as one boolean *)
From Coq Require Import List NArith ZArith Bool.
From RopeVerif.C03 Require Import Flow.
Import ListNotations.

Record conts := { kn : list var; kb : list var; kc : list var }.
Definition k0 : conts := {| kn := []; kb := []; kc := [] |}.

Fixpoint vars_e (e : expr) : list var :=
  match e with
  | EVar x => [x]
  | EConst _ => []
  | EBin _ a b => vars_e a ++ vars_e b
  | EComp v k b => vars_e k ++ remove v (vars_e b)
  end.

(* least X ⊇ f X by iteration from X, at most n rounds (n is generous; convergence is checked, not assumed) *)
Fixpoint iter (n : nat) (f : list var -> list var) (X : list var) : list var :=
  match n with
  | O => X
  | S m => let Y := f X in
           if subset Y X then X else iter m f (fold_left (fun acc y => add y acc) Y X)
  end.
Definition rounds : nat := 12.

(* at the head of a loop: le = live set of the else-clause (taken when the loop ends without break), knn = live
   set after the whole statement (the break target) *)
Definition while_step (c : expr) (lb : conts -> list var) (knn le : list var) (X : list var) : list var :=
  vars_e c ++ le ++ lb {| kn := X; kb := knn; kc := X |}.
Definition for_step (x : var) (lb : conts -> list var) (knn le : list var) (Y : list var) : list var :=
  le ++ remove x (lb {| kn := Y; kb := knn; kc := Y |}).

Definition live_while_gen (c : expr) (lb : conts -> list var) (knn le : list var) : list var :=
  iter rounds (while_step c lb knn le) (vars_e c ++ le).
Definition live_for_gen (x : var) (lb : conts -> list var) (knn le : list var) : list var :=
  iter rounds (for_step x lb knn le) le.

Fixpoint live_s (s : stmt) (k : conts) : list var :=
  match s with
  | SAssign _ x e => vars_e e ++ remove x (kn k)
  | SAug _ x _ e => x :: vars_e e ++ kn k
  | SPrint _ e => vars_e e ++ kn k
  | SReturn _ e => vars_e e
  | SPass _ => kn k
  | SBreak _ => kb k
  | SContinue _ => kc k
  | SIf _ c a b =>
      vars_e c
      ++ fold_right (fun s acc => live_s s {| kn := acc; kb := kb k; kc := kc k |}) (kn k) a
      ++ fold_right (fun s acc => live_s s {| kn := acc; kb := kb k; kc := kc k |}) (kn k) b
  | SWhile _ c b els =>
      let lb := fun k' => fold_right (fun s acc => live_s s {| kn := acc; kb := kb k'; kc := kc k' |}) (kn k') b in
      let le := fold_right (fun s acc => live_s s {| kn := acc; kb := kb k; kc := kc k |}) (kn k) els in
      live_while_gen c lb (kn k) le
  | SFor _ x e b els =>
      let lb := fun k' => fold_right (fun s acc => live_s s {| kn := acc; kb := kb k'; kc := kc k' |}) (kn k') b in
      let le := fold_right (fun s acc => live_s s {| kn := acc; kb := kb k; kc := kc k |}) (kn k) els in
      vars_e e ++ live_for_gen x lb (kn k) le
  | SCall _ rets args _ _ _ => args ++ kn k        (* not used on programs with calls, see nocall *)
  end.

Definition live_b (ss : list stmt) (k : conts) : list var :=
  fold_right (fun s acc => live_s s {| kn := acc; kb := kb k; kc := kc k |}) (kn k) ss.

Definition live_while (c : expr) (b els : list stmt) (k : conts) : list var :=
  live_while_gen c (live_b b) (kn k) (live_b els k).
Definition live_for (x : var) (b els : list stmt) (k : conts) : list var :=
  live_for_gen x (live_b b) (kn k) (live_b els k).
Global Opaque rounds.

(* the iteration reached a fixed point at every loop (with the live sets actually used there) *)
Fixpoint conv_s (s : stmt) (k : conts) : bool :=
  match s with
  | SIf _ _ a b =>
      (fix go (ss : list stmt) : bool :=
         match ss with
         | [] => true
         | s :: r => go r && conv_s s {| kn := live_b r k; kb := kb k; kc := kc k |}
         end) a
      && (fix go (ss : list stmt) : bool :=
            match ss with
            | [] => true
            | s :: r => go r && conv_s s {| kn := live_b r k; kb := kb k; kc := kc k |}
            end) b
  | SWhile _ c b els =>
      let X := live_while c b els k in
      let k' := {| kn := X; kb := kn k; kc := X |} in
      subset (while_step c (live_b b) (kn k) (live_b els k) X) X
      && (fix go (ss : list stmt) : bool :=
            match ss with
            | [] => true
            | s :: r => go r && conv_s s {| kn := live_b r k'; kb := kb k'; kc := kc k' |}
            end) b
      && (fix go (ss : list stmt) : bool :=
            match ss with
            | [] => true
            | s :: r => go r && conv_s s {| kn := live_b r k; kb := kb k; kc := kc k |}
            end) els
  | SFor _ x _ b els =>
      let Y := live_for x b els k in
      let k' := {| kn := Y; kb := kn k; kc := Y |} in
      subset (for_step x (live_b b) (kn k) (live_b els k) Y) Y
      && (fix go (ss : list stmt) : bool :=
            match ss with
            | [] => true
            | s :: r => go r && conv_s s {| kn := live_b r k'; kb := kb k'; kc := kc k' |}
            end) b
      && (fix go (ss : list stmt) : bool :=
            match ss with
            | [] => true
            | s :: r => go r && conv_s s {| kn := live_b r k; kb := kb k; kc := kc k |}
            end) els
  | _ => true
  end.
Definition conv_b (ss : list stmt) (k : conts) : bool :=
  (fix go (ss : list stmt) : bool :=
     match ss with
     | [] => true
     | s :: r => go r && conv_s s {| kn := live_b r k; kb := kb k; kc := kc k |}
     end) ss.

(* no outlined call inside *)
Fixpoint nocall_s (s : stmt) : bool :=
  match s with
  | SCall _ _ _ _ _ _ => false
  | SIf _ _ a b => forallb nocall_s a && forallb nocall_s b
  | SWhile _ _ b e | SFor _ _ _ b e => forallb nocall_s b && forallb nocall_s e
  | _ => true
  end.
Definition nocall (ss : list stmt) : bool := forallb nocall_s ss.

(* names definitely assigned when the statement list completes normally *)
Fixpoint mustd_s (s : stmt) : list var :=
  match s with
  | SAssign _ x _ | SAug _ x _ _ => [x]
  | SIf _ _ a b => inter (flat_map mustd_s a) (flat_map mustd_s b)
  | SCall _ rets _ _ _ _ => rets
  | _ => []
  end.
Definition mustd (ss : list stmt) : list var := flat_map mustd_s ss.

Definition ue (R : list stmt) : list var := live_b R k0.

Record holeinfo := { h_may : list var; h_must : list var; h_live : list var }.

Fixpoint hole_info (call : stmt) (lc : loc) (M m : list var) (k : conts) : holeinfo :=
  match lc with
  | LHere pre _ post =>
      {| h_may := M ++ defs pre; h_must := m ++ mustd pre; h_live := live_b post k |}
  | LIfT pre _ _ i _ post | LIfF pre _ _ _ i post =>
      hole_info call i (M ++ defs pre) (m ++ mustd pre) {| kn := live_b post k; kb := kb k; kc := kc k |}
  | LWhile pre _ c i els post =>
      let kk := {| kn := live_b post k; kb := kb k; kc := kc k |} in
      let X := live_while c (orig i) els kk in
      hole_info call i (M ++ defs pre ++ defs (plug i [call])) (m ++ mustd pre)
                {| kn := X; kb := kn kk; kc := X |}
  | LFor pre _ x _ i els post =>
      let kk := {| kn := live_b post k; kb := kb k; kc := kc k |} in
      let Y := live_for x (orig i) els kk in
      hole_info call i (M ++ defs pre ++ x :: defs (plug i [call])) (m ++ mustd pre ++ [x])
                {| kn := Y; kb := kn kk; kc := Y |}
  (* in an else-clause: the loop body may have run any number of times before; break/continue of the
     else-clause go to the enclosing loop *)
  | LWhileE pre _ _ b i post =>
      hole_info call i (M ++ defs pre ++ defs b) (m ++ mustd pre) {| kn := live_b post k; kb := kb k; kc := kc k |}
  | LForE pre _ x _ b i post =>
      hole_info call i (M ++ defs pre ++ x :: defs b) (m ++ mustd pre) {| kn := live_b post k; kb := kb k; kc := kc k |}
  end.

(* the region neither breaks/continues out of itself nor returns, except by a final top-level return *)
Definition no_escape (R : list stmt) : bool :=
  match R with
  | [] => false
  | _ => negb (existsb unmatched_bc_s R)
         && (if returns_last R then Nat.eqb (count_ret R) 1 else Nat.eqb (count_ret R) 0)
  end.

(* names the outlined function needs from its caller: what R may read before assigning; when the function
   shares the caller's globals only those it also assigns (they become its locals) *)
Definition need (R : list stmt) (shared : bool) : list var :=
  if shared then inter (ue R) (defs R) else ue R.

Section Cond.
  Variables (lc : loc) (params A Rt : list var) (shared : bool).
  Let R := region lc.
  Let tail := returns_last R.
  Let hi := hole_info (SCall 0%N Rt A R tail shared) lc params params k0.

  Definition c_args_cover : bool := subset (inter (need R shared) (h_may hi)) A.       (* C1 *)
  Definition c_args_bound : bool := subset A (h_must hi).                              (* C2 *)
  Definition c_rets_cover : bool := tail || subset (inter (defs R) (h_live hi)) Rt.    (* C3 *)
  Definition c_rets_bound : bool := tail || subset Rt (mustd R ++ A).                  (* C4 *)
  Definition c_shape : bool := no_escape R && nocall (orig lc) && conv_b (orig lc) k0 && conv_b R k0.

  Definition outline_ok : bool :=
    c_shape && c_args_cover && c_args_bound && c_rets_cover && c_rets_bound.

  (* which hypotheses fail: 1 C1 (needed argument missing), 2 C2 (argument possibly unbound at the call),
     4 C3 (live result not returned), 8 C4 (returned name possibly unbound), 16 shape *)
  Definition diagnose : N :=
    ((if c_args_cover then 0 else 1) + (if c_args_bound then 0 else 2) + (if c_rets_cover then 0 else 4)
     + (if c_rets_bound then 0 else 8) + (if c_shape then 0 else 16))%N.
  (* the four data-flow hypotheses only (the shape hypothesis does not depend on A, Rt) *)
  Definition diagnose4 : N :=
    ((if c_args_cover then 0 else 1) + (if c_args_bound then 0 else 2) + (if c_rets_cover then 0 else 4)
     + (if c_rets_bound then 0 else 8))%N.
End Cond.
