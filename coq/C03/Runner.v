(* Correspondence runner for C03: the harness writes, for every (host, region), what the real
   ExtractMethod did (refused?, the collector's lines and six sets, args, returns, the resulting host with
   the call site abstracted to SCall) and what CPython printed/returned before and after on every argument
   vector; the comparison with the model happens here. *)
From Coq Require Import List NArith ZArith Bool.
From RopeVerif.C03 Require Import Flow Collector Dataflow Current Sufficient.
From RopeVerif.C03 Require OneLine.
From RopeVerif.C03 Require Import ExtractVar.
Import ListNotations.

Definition binop_eqb (a b : binop) : bool :=
  match a, b with
  | Add, Add | Sub, Sub | Mul, Mul | Lt, Lt | Eq, Eq | Ne, Ne => true
  | _, _ => false
  end.

Fixpoint expr_eqb (a b : expr) : bool :=
  match a, b with
  | EVar x, EVar y => N.eqb x y
  | EConst x, EConst y => Z.eqb x y
  | EBin o a1 a2, EBin p b1 b2 => binop_eqb o p && expr_eqb a1 b1 && expr_eqb a2 b2
  | EComp v k a1, EComp w j b1 => N.eqb v w && expr_eqb k j && expr_eqb a1 b1
  | _, _ => false
  end.

Fixpoint list_eqb {A} (eqb : A -> A -> bool) (l m : list A) : bool :=
  match l, m with
  | [], [] => true
  | x :: l', y :: m' => eqb x y && list_eqb eqb l' m'
  | _, _ => false
  end.
Definition vars_eqb := list_eqb N.eqb.

(* equality of statements up to line numbers *)
Fixpoint stmt_eqb (a b : stmt) {struct a} : bool :=
  let blk_eqb := fix go (l m : list stmt) {struct l} : bool :=
    match l, m with
    | [], [] => true
    | x :: l', y :: m' => stmt_eqb x y && go l' m'
    | _, _ => false
    end in
  match a, b with
  | SAssign _ x e, SAssign _ y f => N.eqb x y && expr_eqb e f
  | SAug _ x o e, SAug _ y p f => N.eqb x y && binop_eqb o p && expr_eqb e f
  | SPrint _ e, SPrint _ f => expr_eqb e f
  | SReturn _ e, SReturn _ f => expr_eqb e f
  | SPass _, SPass _ | SBreak _, SBreak _ | SContinue _, SContinue _ => true
  | SIf _ c a1 a2, SIf _ d b1 b2 => expr_eqb c d && blk_eqb a1 b1 && blk_eqb a2 b2
  | SWhile _ c a1 a2, SWhile _ d b1 b2 => expr_eqb c d && blk_eqb a1 b1 && blk_eqb a2 b2
  | SFor _ x e a1 a2, SFor _ y f b1 b2 => N.eqb x y && expr_eqb e f && blk_eqb a1 b1 && blk_eqb a2 b2
  | SCall _ r1 g1 a1 t1 s1, SCall _ r2 g2 b1 t2 s2 =>
      vars_eqb r1 r2 && vars_eqb g1 g2 && blk_eqb a1 b1 && Bool.eqb t1 t2 && Bool.eqb s1 s2
  | _, _ => false
  end.
Definition blk_eqb : list stmt -> list stmt -> bool := list_eqb stmt_eqb.

(* lines of a statement list in pre-order *)
Fixpoint lines_s (s : stmt) : list N :=
  match s with
  | SIf l _ a b => l :: flat_map lines_s a ++ flat_map lines_s b
  | SWhile l _ b e | SFor l _ _ b e => l :: flat_map lines_s b ++ flat_map lines_s e
  | s => [line_of s]
  end.
(* strict equality of located programs (statements, lines, position of the region) *)
Definition loc_same (a b : loc) : bool :=
  blk_eqb (orig a) (orig b) && list_eqb N.eqb (flat_map lines_s (orig a)) (flat_map lines_s (orig b))
  && blk_eqb (region a) (region b)
  && N.eqb (first_line (region a)) (first_line (region b)) && N.eqb (last_line (region a)) (last_line (region b))
  && blk_eqb (plug a []) (plug b []).

(* CPython observation of one run: kind 0 fell off the end (None), 1 returned o_val, 2 NameError /
   UnboundLocalError, 3 any other exception, 4 step limit *)
Record obs := { o_kind : N; o_val : Z; o_out : list Z }.

Definition fuel : nat := 1501.

Definition obs_of (r : sig * list Z) : obs :=
  let out := rev (snd r) in
  match fst r with
  | Norm => {| o_kind := 0; o_val := 0; o_out := out |}
  | Ret v => {| o_kind := 1; o_val := v; o_out := out |}
  | ErrUnbound => {| o_kind := 2; o_val := 0; o_out := out |}
  | OOF => {| o_kind := 4; o_val := 0; o_out := out |}
  | _ => {| o_kind := 3; o_val := 0; o_out := out |}
  end.

Definition obs_agree (a b : obs) : bool :=
  N.eqb (o_kind a) 4 || N.eqb (o_kind b) 4
  || (N.eqb (o_kind a) (o_kind b) && Z.eqb (o_val a) (o_val b) && list_eqb Z.eqb (o_out a) (o_out b)).

Record case := {
  c_glob : bool;                       (* module-level host *)
  c_params : list var;
  c_loc : loc;
  c_refused : bool;
  c_want : bool;                       (* the oracle failed: compute the full classification *)
  c_lines : N * N;                     (* collector.start, collector.end *)
  c_sets : list (list var);            (* prewritten read written maybe_written postread postwritten *)
  c_args : list var;
  c_rets : list var;
  c_result : option (list stmt);       (* rope's resulting host, call site abstracted *)
  c_vecs : list (list Z);
  c_before : list obs;
  c_after : list obs
}.

Definition model_sets (s : cst) : list (list var) := [prew s; rd s; wr s; mayw s; postrd s; postwr s].

Fixpoint all2 {A B} (f : A -> B -> bool) (l : list A) (m : list B) : bool :=
  match l, m with
  | [], _ | _, [] => true
  | x :: l', y :: m' => f x y && all2 f l' m'
  end.

Definition bit (b : bool) (w : N) : N := if b then 0%N else w.

(* 0 = the model and the code agree on everything observed.
   1 refusal  2 region lines  4 collector sets  8 args  16 returns  32 resulting program
   64 Flow semantics vs CPython on the original  128 Flow semantics of the model's result vs CPython on
   rope's result  256 outline_ok holds but the model's result behaves differently (would contradict
   C03_outline_sound) *)
Definition run_case (c : case) : N :=
  let lc := c_loc c in
  let R := region lc in
  let g := c_glob c in
  let ps := c_params c in
  let acc := accepted R in
  let before := map (fun v => obs_of (run fuel ps v (orig lc))) (c_vecs c) in
  let sem0 := bit (all2 obs_agree before (c_before c)) 64 in
  if c_refused c then (bit (negb acc) 1 + sem0)%N
  else if negb acc then (1 + sem0)%N
  else
    let s := collect_loc current g ps lc in
    let args := args_of current g s in
    let rets := rets_of (returns_last R) s in
    let prog := plug lc [call_of current g ps lc] in
    let after := map (fun v => obs_of (run fuel ps v prog)) (c_vecs c) in
    (bit (N.eqb (fst (c_lines c)) (first_line R) && N.eqb (snd (c_lines c)) (last_line R)) 2
     + bit (list_eqb vars_eqb (model_sets s) (c_sets c)) 4
     + bit (vars_eqb args (c_args c)) 8
     + bit (vars_eqb rets (c_rets c)) 16
     + bit (match c_result c with Some p => blk_eqb p prog | None => true end) 32
     + sem0
     + bit (all2 obs_agree after (c_after c)) 128
     + bit (negb (outline_ok lc ps args rets g) || all2 obs_agree before after) 256)%N.

Fixpoint mismatches_from (i : N) (cs : list case) : list (N * N) :=
  match cs with
  | [] => []
  | c :: r =>
      let code := run_case c in
      if N.eqb code 0 then mismatches_from (N.succ i) r else (i, code) :: mismatches_from (N.succ i) r
  end.
Definition mismatches (cs : list case) : list (N * N) := mismatches_from 0 cs.

(* classification of a case by the model alone: which hypotheses of the outlining lemma the code's
   args/returns violate (diagnose, 0..31), and the smallest set of repaired disciplines under which they all
   hold (bits 1 restore, 2 balanced, 4 killnest, 8 readmaybe, 16 loopall, 32 globalargs, 64 loopprew, 128 compiter; 0 = none needed;
   64 = no combination helps). 9999 = refused. *)
Definition diag_with (sw : switches) (c : case) : N :=
  let lc := c_loc c in
  let g := c_glob c in
  let ps := c_params c in
  diagnose lc ps (args_rope sw g ps lc) (rets_rope sw g ps lc) g.

Definition sw_of (n : N) : switches :=
  {| sw_restore := N.testbit n 0; sw_balanced := N.testbit n 1; sw_killnest := N.testbit n 2;
     sw_readmaybe := N.testbit n 3; sw_loopall := N.testbit n 4; sw_globalargs := N.testbit n 5;
     sw_loopprew := N.testbit n 6; sw_compiter := N.testbit n 7 |}.

(* non-empty switch sets of at most four switches, smallest sets first *)
Definition popcount (n : N) : nat := length (filter (fun i => N.testbit n i) [0; 1; 2; 3; 4; 5; 6; 7]%N).
Definition combos : list N :=
  flat_map (fun k => filter (fun n => Nat.eqb (popcount n) k) (map N.of_nat (seq 1 255))) [1; 2; 3; 4]%nat.

Definition diag4_with (sw : switches) (c : case) : N :=
  let lc := c_loc c in
  let g := c_glob c in
  let ps := c_params c in
  diagnose4 lc ps (args_rope sw g ps lc) (rets_rope sw g ps lc) g.

(* only the "possibly unbound" hypotheses (C2, C4) fail *)
Definition only_unbound (d : N) : bool := N.eqb (N.land d 5) 0.

(* d0 + 32 * S + 8192 * kind.  kind 0: the switch set S (smallest first, at most four switches) makes every
   data-flow hypothesis hold; kind 1: no such set does, S is the smallest set (possibly empty) after which
   only C2/C4 fail; kind 2: neither exists, or the shape hypothesis fails. 0 = sound as is. 99999 = refused.
   kind 4 (d0 + 32768): the search was not requested. *)
Definition classify (c : case) : N :=
  if negb (accepted (region (c_loc c))) then 99999%N
  else
    let d0 := diag_with current c in
    if N.eqb d0 0 then 0%N
    else if N.leb 16 d0 then (d0 + 16384)%N
    else if negb (c_want c) then (d0 + 32768)%N
    else
      match find (fun n => N.eqb (diag4_with (sw_or current (sw_of n)) c) 0) combos with
      | Some n => (d0 + 32 * n)%N
      | None =>
          match find (fun n => only_unbound (diag4_with (sw_or current (sw_of n)) c)) (0%N :: combos) with
          | Some n => (d0 + 32 * n + 8192)%N
          | None => (d0 + 16384)%N
          end
      end.
Definition classes (cs : list case) : list N := map classify cs.

(* the case lies in the syntactic class of C03_collector_sufficient_partial *)
Definition in_static_domain (c : case) : bool :=
  negb (c_glob c)
  && match c_loc c with
     | LHere pre R post => side_C03 (c_params c) pre R post
     | _ => false
     end.
(* the wider, conjectured class side_C03_if (regions with `if` statements): counted, and checked against
   outline_ok on every case *)
Definition in_if_domain (c : case) : bool :=
  negb (c_glob c)
  && match c_loc c with
     | LHere pre R post => side_C03_if (c_params c) pre R post && negb (side_C03 (c_params c) pre R post)
     | _ => false
     end.
Definition count_if_domain (cs : list case) : N := N.of_nat (length (filter in_if_domain cs)).
Definition if_domain_counterexamples (cs : list case) : list N :=
  map fst (filter (fun ic => in_if_domain (snd ic) && negb (N.eqb (diag_with current (snd ic)) 0))
                  (combine (map N.of_nat (seq 0 (length cs))) cs)).

Definition count_static (cs : list case) : N := N.of_nat (length (filter in_static_domain cs)).
(* sanity channel: a case in the static class whose args/returns do not satisfy the outlining hypotheses
   would contradict the theorem *)
Definition static_contradictions (cs : list case) : N :=
  N.of_nat (length (filter (fun c => in_static_domain c && negb (N.eqb (diag_with current c) 0)) cs)).

(* extract variable: rope's resulting host against the model (the statement is the region of v_loc, which is a
   single statement; the selection is v_path inside its expression). 0 agree, 1 differ. *)
Record vcase := { v_loc : loc; v_path : list bool; v_name : var; v_result : list stmt }.
Definition run_vcase (c : vcase) : N :=
  match region (v_loc c) with
  | [s] => match extract_variable (v_name c) 0%N s (v_path c) with
           | Some ss => if blk_eqb (plug (v_loc c) ss) (v_result c) then 0%N else 1%N
           | None => 1%N
           end
  | _ => 1%N
  end.
Fixpoint vmismatches_from (i : N) (cs : list vcase) : list (N * N) :=
  match cs with
  | [] => []
  | c :: r =>
      let code := run_vcase c in
      if N.eqb code 0 then vmismatches_from (N.succ i) r else (i, code) :: vmismatches_from (N.succ i) r
  end.
Definition vmismatches (cs : list vcase) : list (N * N) := vmismatches_from 0 cs.
