(* C03 — a syntactic class of (host, region) pairs for which the collector of the current code (the four
   committed fixes included, see Current.v) computes args/returns that satisfy the outlining hypotheses
   (proved in SufficientProofs.v):

     the region is a run of simple statements (assignment, augmented assignment, print, pass, and possibly a
     final return) at the top level of the function body;
     what precedes it is arbitrary but every name it may assign it definitely assigns (or is a parameter);
     what follows it is arbitrary (since f6cf806 a later write only kills when it is at the top level of the
     function body, where it is certainly executed; before that fix the class had to demand that the rest of
     the function assigns none of the region's names);
     line numbers are what a parser produces (everything before the region on earlier lines, after it on later
     lines, the def line is line 1). *)
From Coq Require Import List NArith ZArith Bool.
From RopeVerif.C03 Require Import Flow Collector Dataflow.
Import ListNotations.

Definition simple_s (s : stmt) : bool :=
  match s with
  | SAssign _ _ _ | SAug _ _ _ _ | SPrint _ _ | SPass _ | SReturn _ _ => true
  | _ => false
  end.
Definition straight (ss : list stmt) : bool := forallb simple_s ss.

(* all line numbers of a statement, pre-order *)
Fixpoint slines (s : stmt) : list N :=
  match s with
  | SIf l _ a b => l :: flat_map slines a ++ flat_map slines b
  | SWhile l _ b e | SFor l _ _ b e => l :: flat_map slines b ++ flat_map slines e
  | s => [line_of s]
  end.
Definition blines (ss : list stmt) : list N := flat_map slines ss.

(* names a statement reads (expressions, augmented targets, the callable names print and range) *)
Fixpoint reads_s (s : stmt) : list var :=
  match s with
  | SAssign _ _ e | SReturn _ e => vars_e e
  | SAug _ x _ e => x :: vars_e e
  | SPrint _ e => name_print :: vars_e e
  | SIf _ c a b => vars_e c ++ flat_map reads_s a ++ flat_map reads_s b
  | SWhile _ c b els => vars_e c ++ flat_map reads_s b ++ flat_map reads_s els
  | SFor _ _ e b els => name_range :: vars_e e ++ flat_map reads_s b ++ flat_map reads_s els
  | SCall _ _ args _ _ _ => args
  | _ => []
  end.
Definition reads (ss : list stmt) : list var := flat_map reads_s ss.

Definition compound (s : stmt) : bool :=
  match s with SIf _ _ _ _ | SWhile _ _ _ _ | SFor _ _ _ _ _ => true | _ => false end.

Definition side_C03 (params : list var) (pre R post : list stmt) : bool :=
  straight R && accepted R && nocall pre && nocall post
  && N.ltb 1 (first_line R)
  && forallb (fun l => N.ltb l (first_line R)) (blines pre)
  && forallb (fun s => N.leb (first_line R) (line_of s) && N.leb (line_of s) (last_line R)) R
  && forallb (fun l => N.ltb (last_line R) l) (blines post)
  && subset (defs pre) (params ++ mustd pre)
  && conv_b (pre ++ R ++ post) k0.
