(* C03 — a syntactic class of (host, region) pairs for which the collector of the current code (the four
   committed fixes included, see Current.v) computes args/returns that satisfy the outlining hypotheses
   (proved in SufficientProofs.v):

     the region is a run of simple statements (assignment, augmented assignment, print, pass, and possibly a
     final return) at the top level of the function body;
     what precedes it is arbitrary but every name it may assign it definitely assigns (or is a parameter);
     what follows it is arbitrary (since f6cf806 a later write only kills when it is at the top level of the
     function body, where it is certainly executed; before that fix the class had to demand that the rest of
     the function assigns none of the region's names);
     no comprehension occurs in the function;
     line numbers are what a parser produces (everything before the region on earlier lines, after it on later
     lines, the def line is line 1). *)
From Coq Require Import List NArith ZArith Bool.
From RopeVerif.C03 Require Import Flow Collector Dataflow.
Import ListNotations.

Definition simple_s (s : stmt) : bool :=
  match s with
  | SAssign _ _ _ | SAug _ _ _ _ | SPrint _ _ | SPass _ | SReturn _ _ => true
  | _ => false
  end.
Definition straight (ss : list stmt) : bool := forallb simple_s ss.

(* all line numbers of a statement, pre-order *)
Fixpoint slines (s : stmt) : list N :=
  match s with
  | SIf l _ a b => l :: flat_map slines a ++ flat_map slines b
  | SWhile l _ b e | SFor l _ _ b e => l :: flat_map slines b ++ flat_map slines e
  | s => [line_of s]
  end.
Definition blines (ss : list stmt) : list N := flat_map slines ss.

(* names a statement reads (expressions, augmented targets, the callable names print and range) *)
Fixpoint reads_s (s : stmt) : list var :=
  match s with
  | SAssign _ _ e | SReturn _ e => vars_e e
  | SAug _ x _ e => x :: vars_e e
  | SPrint _ e => name_print :: vars_e e
  | SIf _ c a b => vars_e c ++ flat_map reads_s a ++ flat_map reads_s b
  | SWhile _ c b els => vars_e c ++ flat_map reads_s b ++ flat_map reads_s els
  | SFor _ _ e b els => name_range :: vars_e e ++ flat_map reads_s b ++ flat_map reads_s els
  | SCall _ _ args _ _ _ => args
  | _ => []
  end.
Definition reads (ss : list stmt) : list var := flat_map reads_s ss.

(* no comprehension anywhere (their loop variables are written/unwritten by the collector in a way the class
   below does not account for) *)
Fixpoint nocomp_e (e : expr) : bool :=
  match e with
  | EComp _ _ _ => false
  | EBin _ a b => nocomp_e a && nocomp_e b
  | _ => true
  end.
Fixpoint nocomp_s (s : stmt) : bool :=
  match s with
  | SAssign _ _ e | SAug _ _ _ e | SPrint _ e | SReturn _ e => nocomp_e e
  | SIf _ c a b => nocomp_e c && forallb nocomp_s a && forallb nocomp_s b
  | SWhile _ c b e => nocomp_e c && forallb nocomp_s b && forallb nocomp_s e
  | SFor _ _ e b els => nocomp_e e && forallb nocomp_s b && forallb nocomp_s els
  | SCall _ _ _ body _ _ => forallb nocomp_s body
  | _ => true
  end.
Definition nocomp (ss : list stmt) : bool := forallb nocomp_s ss.

Definition compound (s : stmt) : bool :=
  match s with SIf _ _ _ _ | SWhile _ _ _ _ | SFor _ _ _ _ _ => true | _ => false end.

Definition side_C03 (params : list var) (pre R post : list stmt) : bool :=
  straight R && accepted R && nocall pre && nocall post && nocomp pre && nocomp R && nocomp post
  && N.ltb 1 (first_line R)
  && forallb (fun l => N.ltb l (first_line R)) (blines pre)
  && forallb (fun s => N.leb (first_line R) (line_of s) && N.leb (line_of s) (last_line R)) R
  && forallb (fun l => N.ltb (last_line R) l) (blines post)
  && subset (defs pre) (params ++ mustd pre)
  && conv_b (pre ++ R ++ post) k0.

(* ------------------------------------------------------------------ a wider class, NOT proved
   Regions that also contain `if` statements (with straight-line branches) at the top level of the function
   body. The three open defects of the collector that concern regions are excluded exactly as follows:
     C03-loop-carried / C03-loop-prewritten  cannot apply: the region is not inside a loop and contains none;
     C03-maybe-written-read                  a read that the collector performs while `conditional` is set (the
                                             test or a branch of an `if` of the region) must not be of a name that
                                             an EARLIER `if` of the region, or the then-branch of the same `if`,
                                             may have assigned, unless the branch itself assigned it before
                                             reading it ([masked] below);
     C03-arg-maybe-unbound (result side)     every name assigned inside an `if` of the region is a parameter or
                                             is assigned before the region ([cond_defs] below).
   The harness evaluates side_C03_if for every generated case and checks (inside Coq) that outline_ok holds
   for the collector's args/returns whenever it does: a counterexample would be reported. It is a checked
   conjecture, not a theorem. *)
Definition if_or_simple (s : stmt) : bool :=
  match s with
  | SIf _ _ a b => straight a && straight b
  | s => simple_s s
  end.

Fixpoint masked (R : list stmt) (MW : list var) : bool :=
  match R with
  | [] => false
  | SIf _ c a b :: r =>
      existsb (fun x => mem x MW) (vars_e c ++ ue a ++ ue b)
      || existsb (fun x => mem x (defs a)) (ue b)
      || masked r (MW ++ defs a ++ defs b)
  | _ :: r => masked r MW
  end.

Fixpoint cond_defs (R : list stmt) : list var :=
  match R with
  | [] => []
  | SIf _ _ a b :: r => defs a ++ defs b ++ cond_defs r
  | _ :: r => cond_defs r
  end.

Definition side_C03_if (params : list var) (pre R post : list stmt) : bool :=
  forallb if_or_simple R && accepted R && nocall pre && nocall post && nocomp pre && nocomp R && nocomp post
  && negb (masked R []) && subset (cond_defs R) (params ++ defs pre)
  && N.ltb 1 (first_line R)
  && forallb (fun l => N.ltb l (first_line R)) (blines pre)
  && forallb (fun l => N.leb (first_line R) l && N.leb l (last_line R)) (blines R)
  && forallb (fun l => N.ltb (last_line R) l) (blines post)
  && subset (defs pre) (params ++ mustd pre)
  && conv_b (pre ++ R ++ post) k0.
