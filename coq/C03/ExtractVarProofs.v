(* C03 — extract variable preserves behaviour for a simple statement at the top level of the function body when the
   new name is fresh (read nowhere in the function) and the selection is reached through binary operators only. *)
From Coq Require Import List NArith ZArith Bool Lia.
From RopeVerif.C03 Require Import Flow Collector Dataflow FlowProofs LiveProofs OutlineProofs Sufficient SufficientProofs ExtractVar.
Import ListNotations.

Lemma eval_irrelevant : forall e st v w, ~ In v (vars_e e) -> eval (upd st v w) e = eval st e.
Proof.
  intros e st v w H. apply (eval_rel Qtrue Qtrue_refl (vars_e e)); [|auto].
  intros x. split; [|exact I]. intros Hx. rewrite get_upd.
  destruct (N.eqb x v) eqn:E; [apply N.eqb_eq in E; subst; contradiction | reflexivity].
Qed.

Lemma subexpr_vars : forall e p sub x, subexpr e p = Some sub -> In x (vars_e sub) -> In x (vars_e e).
Proof.
  induction e as [y|z|o a IHa b IHb|v k IHk body IHb]; intros p sub x H Hx; destruct p as [|d p]; simpl in H;
    try (inversion H; subst; exact Hx); try discriminate.
  simpl. apply in_or_app. destruct d; [right; eapply IHb; eauto | left; eapply IHa; eauto].
Qed.

(* an unbound name in the selected sub-expression makes the whole expression fail *)
Lemma eval_sub_none : forall e p sub st, subexpr e p = Some sub -> eval st sub = None -> eval st e = None.
Proof.
  induction e as [y|z|o a IHa b IHb|v k IHk body IHb]; intros p sub st H Hn; destruct p as [|d p]; simpl in H;
    try (inversion H; subst; exact Hn); try discriminate.
  simpl. destruct d.
  - rewrite (IHb p sub st H Hn). destruct (eval st a); reflexivity.
  - rewrite (IHa p sub st H Hn). reflexivity.
Qed.

Lemma eval_replace : forall e p sub st v w,
  subexpr e p = Some sub -> eval st sub = Some w -> ~ In v (vars_e e) ->
  eval (upd st v w) (replace_at e p (EVar v)) = eval st e.
Proof.
  induction e as [y|z|o a IHa b IHb|u k IHk body IHb]; intros p sub st v w H Hs Hv; destruct p as [|d p]; simpl in H;
    try discriminate;
    try (inversion H; subst; simpl; rewrite get_upd, N.eqb_refl; symmetry; exact Hs).
  simpl in Hv. destruct d; simpl.
  - rewrite (IHb p sub st v w H Hs) by (intro; apply Hv; apply in_or_app; auto).
    rewrite eval_irrelevant by (intro; apply Hv; apply in_or_app; auto). reflexivity.
  - rewrite (IHa p sub st v w H Hs) by (intro; apply Hv; apply in_or_app; auto).
    rewrite (eval_irrelevant b) by (intro; apply Hv; apply in_or_app; auto). reflexivity.
Qed.

Lemma exec_assign_then : forall loop l v sub s2 st o,
  exec_b loop [SAssign l v sub; s2] st o =
  match eval st sub with
  | Some w => exec_s loop s2 (upd st v w) o
  | None => (ErrUnbound, st, o)
  end.
Proof.
  intros. rewrite exec_b_cons. simpl exec_s. destruct (eval st sub); [apply exec_b_single | reflexivity].
Qed.

Definition agree_but (v : var) (s1 s2 : store) : Prop := forall x, x <> v -> get s1 x = get s2 x.

(* the statement against `v = sub; statement'` from the same store *)
Lemma variable_local : forall loop s p v l ss st o,
  simple_s s = true -> extract_variable v l s p = Some ss -> ~ In v (reads_s s) ->
  fst (fst (exec_b loop ss st o)) = fst (fst (exec_s loop s st o))
  /\ snd (exec_b loop ss st o) = snd (exec_s loop s st o)
  /\ agree_but v (snd (fst (exec_s loop s st o))) (snd (fst (exec_b loop ss st o))).
Proof.
  intros loop s p v l ss st o SS EX NV. unfold extract_variable in EX.
  destruct (stmt_expr s) as [e|] eqn:SE; [|discriminate].
  destruct (subexpr e p) as [sub|] eqn:SU; [|discriminate]. inversion EX; subst ss; clear EX.
  rewrite exec_assign_then.
  assert (REFL : forall t, agree_but v t t) by (intros t x _; reflexivity).
  destruct (eval st sub) as [w|] eqn:ES.
  - (* the new assignment succeeds *)
    assert (AG : agree_but v st (upd st v w)).
    { intros x Hx. rewrite get_upd. destruct (N.eqb x v) eqn:E; [apply N.eqb_eq in E; contradiction | reflexivity]. }
    destruct s; try discriminate; simpl in SE; inversion SE; subst e0; simpl in NV; simpl with_expr; simpl exec_s.
    + rewrite (eval_replace e p sub st v w SU ES NV). destruct (eval st e) as [val|]; simpl; repeat split; auto.
      intros y Hy. rewrite !get_upd. destruct (N.eqb y x); [reflexivity|].
      destruct (N.eqb y v) eqn:E; [apply N.eqb_eq in E; contradiction | reflexivity].
    + assert (NX : x <> v) by (intro; subst; apply NV; left; reflexivity).
      rewrite (eval_replace e p sub st v w SU ES) by (intro; apply NV; right; assumption).
      rewrite get_upd. assert (N.eqb x v = false) by (apply N.eqb_neq; exact NX). rewrite H.
      destruct (get st x) as [a|]; [destruct (eval st e) as [val|]|]; simpl; repeat split; auto.
      intros y Hy. rewrite !get_upd. destruct (N.eqb y x); [reflexivity|].
      destruct (N.eqb y v) eqn:E; [apply N.eqb_eq in E; contradiction | reflexivity].
    + rewrite (eval_replace e p sub st v w SU ES) by (intro; apply NV; right; assumption).
      destruct (eval st e) as [val|]; simpl; repeat split; auto.
    + rewrite (eval_replace e p sub st v w SU ES NV). destruct (eval st e) as [val|]; simpl; repeat split; auto.
  - (* a name of the selection is unbound: both fail before anything is printed or assigned *)
    pose proof (eval_sub_none e p sub st SU ES) as EN.
    destruct s; try discriminate; simpl in SE; inversion SE; subst e0; simpl exec_s; rewrite EN;
      try (destruct (get st x)); simpl; repeat split; auto.
Qed.

Theorem variable_sound : forall params pre s post v l p ss,
  simple_s s = true -> extract_variable v l s p = Some ss ->
  ~ In v (reads (pre ++ s :: post)) ->
  nocall post = true -> conv_b post k0 = true ->
  forall n vec, run n params vec (pre ++ ss ++ post) = run n params vec (pre ++ s :: post).
Proof.
  intros params pre s post v l p ss SS EX NV NC CV n vec.
  assert (NVs : ~ In v (reads_s s)).
  { intro H. apply NV. unfold reads. rewrite flat_map_app. apply in_or_app. right. simpl. apply in_or_app. auto. }
  assert (NVp : ~ In v (reads post)).
  { intro H. apply NV. unfold reads. rewrite flat_map_app. apply in_or_app. right. simpl. apply in_or_app. auto. }
  unfold run, observe, exec. rewrite !exec_b_app.
  destruct (exec_b (exec_k n) pre (bind params vec) []) as [[sg st] o]. destruct sg; try reflexivity.
  rewrite exec_b_cons. rewrite exec_b_app.
  destruct (variable_local (exec_k n) s p v l ss st o SS EX NVs) as [E1 [E2 E3]].
  destruct (exec_b (exec_k n) ss st o) as [[sg2 t2] o2]. destruct (exec_s (exec_k n) s st o) as [[sg1 t1] o1].
  simpl in E1, E2, E3. subst sg2 o2.
  destruct sg1; try reflexivity.
  assert (RL : rel Qtrue (live_b post k0) t1 t2).
  { apply rel_true_intro. intros x Hx. apply E3. intro; subst x.
    destruct (proj2 live_reads post k0 v Hx) as [G|[G|[G|G]]]; [apply NVp; exact G | | |]; simpl in G; contradiction. }
  pose proof (live_sound Qtrue Qtrue_refl n post k0 t1 t2 o1 NC CV RL) as LS. unfold exec in LS.
  destruct (exec_b (exec_k n) post t1 o1) as [[sa ta] oa]. destruct (exec_b (exec_k n) post t2 o1) as [[sb tb] ob].
  destruct LS as [F1 [F2 _]]. simpl in F1, F2. subst. reflexivity.
Qed.
