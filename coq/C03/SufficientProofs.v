(* C03 — proof that the collector of the current code (Current.current) satisfies the outlining hypotheses on the class
   Sufficient.side_C03: the visitor is followed through the three phases (before / inside / after the region). *)
From Coq Require Import List NArith ZArith Bool Lia.
From RopeVerif.C03 Require Import Flow Collector Dataflow Current FlowProofs LiveProofs OutlineProofs CollectorProofs Sufficient.
Import ListNotations.

Lemma visit_b_app : forall sw lo hi a b s, visit_b sw lo hi (a ++ b) s = visit_b sw lo hi b (visit_b sw lo hi a s).
Proof. intros. unfold visit_b. apply fold_left_app. Qed.

Lemma visit_b_cons : forall sw lo hi x r s, visit_b sw lo hi (x :: r) s = visit_b sw lo hi r (visit_s sw lo hi x s).
Proof. reflexivity. Qed.

Lemma line_in_slines : forall s, In (line_of s) (slines s).
Proof. destruct s; simpl; auto. Qed.

Section Phases.
  Variables lo hi : N.
  Hypothesis LH : (lo <= hi)%N.

  Notation rv := (read_var current lo hi).
  Notation wv := (written_var current lo hi).
  Notation ve := (visit_e current lo hi).
  Notation vs := (visit_s current lo hi).
  Notation vb := (visit_b current lo hi).

  (* ---------------------------------------------------------------- before the region *)
  Lemma before_flags : forall l, (l < lo)%N -> in_reg lo hi l = false /\ N.ltb l lo = true /\ N.ltb hi l = false.
  Proof.
    intros l H. unfold in_reg. repeat split.
    - apply andb_false_iff. left. apply N.leb_gt. exact H.
    - apply N.ltb_lt. exact H.
    - apply N.ltb_ge. lia.
  Qed.

  Lemma rv_before : forall x l s, (l < lo)%N -> rv x l s = s.
  Proof.
    intros x l s H. destruct (before_flags l H) as [E1 [E2 E3]].
    unfold read_var. rewrite E1, E3. reflexivity.
  Qed.

  Lemma ve_before : forall l e s, nocomp_e e = true -> (l < lo)%N -> ve l e s = s.
  Proof.
    intros l e. induction e as [x|z|o a IHa b IHb|v k IHk body IHbody]; intros s NE H; simpl; [| | | simpl in NE; discriminate];
      try (simpl in NE; apply andb_true_iff in NE; destruct NE as [NE1 NE2]).
    - apply rv_before. exact H.
    - reflexivity.
    - rewrite IHa by assumption. apply IHb; assumption.
  Qed.

  Lemma wv_before : forall x l s, (l < lo)%N ->
    wv x l s = {| prew := add x (prew s); mayw := mayw s; wr := wr s; rd := rd s; postrd := postrd s;
                  postwr := postwr s; cond := cond s; depth := depth s; pnest := pnest s |}.
  Proof.
    intros x l s H. destruct (before_flags l H) as [E1 [E2 E3]].
    unfold written_var. rewrite E1, E2, E3. reflexivity.
  Qed.

  (* st' differs from st by more prewritten names only, and has cond = false *)
  Definition pre_rel (D : list var) (st st' : cst) : Prop :=
    cond st' = false /\ depth st' = depth st /\ pnest st' = pnest st
    /\ rd st' = rd st /\ wr st' = wr st /\ mayw st' = mayw st /\ postrd st' = postrd st /\ postwr st' = postwr st
    /\ (forall x, In x (prew st') <-> In x (prew st) \/ In x D).

  Lemma pre_rel_refl : forall st, cond st = false -> pre_rel [] st st.
  Proof. intros st H. unfold pre_rel. repeat split; auto. intros [?|[]]; assumption. Qed.

  Lemma pre_rel_trans : forall D1 D2 a b c, pre_rel D1 a b -> pre_rel D2 b c -> pre_rel (D1 ++ D2) a c.
  Proof.
    intros D1 D2 a b c (A1 & A2 & A3 & A4 & A5 & A6 & A7 & A8 & A9) (B1 & B2 & B3 & B4 & B5 & B6 & B7 & B8 & B9).
    unfold pre_rel. repeat split; try congruence.
    - intros H. apply B9 in H. destruct H as [H|H]; [apply A9 in H; destruct H; [left; assumption | right; apply in_or_app; auto] | right; apply in_or_app; auto].
    - intros H. apply B9. destruct H as [H|H]; [left; apply A9; auto|].
      apply in_app_or in H. destruct H; [left; apply A9; auto | right; assumption].
  Qed.

  Lemma pre_rel_weaken : forall D D' a b, pre_rel D a b -> (forall x, In x D <-> In x D') -> pre_rel D' a b.
  Proof.
    intros D D' a b (A1 & A2 & A3 & A4 & A5 & A6 & A7 & A8 & A9) E. unfold pre_rel. repeat split; auto.
    - intros H. apply A9 in H. destruct H; [left; assumption | right; apply E; assumption].
    - intros H. apply A9. destruct H; [left; assumption | right; apply E; assumption].
  Qed.

  Definition all_lt (ls : list N) : Prop := forall l, In l ls -> (l < lo)%N.

  Lemma pre_phase :
    (forall s st, nocall_s s = true -> nocomp_s s = true -> all_lt (slines s) -> cond st = false -> pre_rel (defs_s s) st (vs s st))
    /\ (forall ss st, nocall ss = true -> nocomp ss = true -> all_lt (blines ss) -> cond st = false -> pre_rel (defs ss) st (vb ss st)).
  Proof.
    apply (stmt_blk_ind
             (fun s => forall st, nocall_s s = true -> nocomp_s s = true -> all_lt (slines s) -> cond st = false -> pre_rel (defs_s s) st (vs s st))
             (fun ss => forall st, nocall ss = true -> nocomp ss = true -> all_lt (blines ss) -> cond st = false -> pre_rel (defs ss) st (vb ss st))).
    - (* assign *)
      intros l x e st _ NE AL C. assert (L : (l < lo)%N) by (apply AL; simpl; auto).
      simpl. rewrite ve_before by (first [exact L | assumption]). rewrite wv_before by exact L.
      unfold pre_rel; simpl. repeat split; auto.
      + intros H. apply In_add in H. destruct H; [right; left; auto | left; assumption].
      + intros H. apply In_add. destruct H as [H|[H|[]]]; auto.
    - (* aug *)
      intros l x o e st _ NE AL C. assert (L : (l < lo)%N) by (apply AL; simpl; auto).
      simpl. rewrite ve_before by (first [exact L | assumption]). rewrite rv_before by exact L. rewrite wv_before by exact L.
      unfold pre_rel; simpl. repeat split; auto.
      + intros H. apply In_add in H. destruct H; [right; left; auto | left; assumption].
      + intros H. apply In_add. destruct H as [H|[H|[]]]; auto.
    - (* print *)
      intros l e st _ NE AL C. assert (L : (l < lo)%N) by (apply AL; simpl; auto).
      simpl. rewrite rv_before by exact L. rewrite ve_before by (first [exact L | assumption]). apply pre_rel_refl. exact C.
    - (* if *)
      intros l c a b Ha Hb st NC NE AL C. simpl in NE; repeat (let N := fresh "NE" in apply andb_true_iff in NE; destruct NE as [NE N]). assert (L : (l < lo)%N) by (apply AL; simpl; auto).
      destruct (before_flags l L) as [E1 [E2 E3]].
      simpl in NC. apply andb_true_iff in NC. destruct NC as [NCa NCb].
      assert (ALa : all_lt (blines a)).
      { intros y Hy. apply AL. simpl. right. apply in_or_app. left. exact Hy. }
      assert (ALb : all_lt (blines b)).
      { intros y Hy. apply AL. simpl. right. apply in_or_app. right. exact Hy. }
      assert (SB : match b with [] => false | f :: _ => N.ltb l lo && N.ltb hi (line_of f) end = false).
      { destruct b as [|f b']; [reflexivity|]. apply andb_false_iff. right. apply N.ltb_ge.
        assert (line_of f < lo)%N by (apply ALb; simpl; apply in_or_app; left; apply line_in_slines). lia. }
      simpl vs. rewrite E3. unfold cond_enter. rewrite E1. unfold nest_enter, nest_exit. rewrite SB.
      rewrite ve_before by (first [exact L | assumption]).
      fold (vb a st). specialize (Ha st NCa ltac:(assumption) ALa C).
      assert (Ca : cond (vb a st) = false) by (apply Ha).
      fold (vb b (vb a st)). specialize (Hb (vb a st) NCb ltac:(assumption) ALb Ca).
      pose proof (pre_rel_trans _ _ _ _ _ Ha Hb) as T.
      destruct T as (A1 & A2 & A3 & A4 & A5 & A6 & A7 & A8 & A9).
      unfold cond_exit, set_cond, pre_rel; simpl. repeat split; auto.
      + apply A9.
      + apply A9.
    - (* while *)
      intros l c b e Hb He st NC NE AL C. simpl in NE; repeat (let N := fresh "NE" in apply andb_true_iff in NE; destruct NE as [NE N]). assert (L : (l < lo)%N) by (apply AL; simpl; auto).
      destruct (before_flags l L) as [E1 [E2 E3]].
      simpl in NC. apply andb_true_iff in NC. destruct NC as [NCb NCe].
      assert (ALb : all_lt (blines b)).
      { intros y Hy. apply AL. simpl. right. apply in_or_app. left. exact Hy. }
      assert (ALe : all_lt (blines e)).
      { intros y Hy. apply AL. simpl. right. apply in_or_app. right. exact Hy. }
      assert (SB : match e with [] => false | f :: _ => N.ltb l lo && N.ltb hi (line_of f) end = false).
      { destruct e as [|f e']; [reflexivity|]. apply andb_false_iff. right. apply N.ltb_ge.
        assert (line_of f < lo)%N by (apply ALe; simpl; apply in_or_app; left; apply line_in_slines). lia. }
      simpl vs. rewrite SB. rewrite E3. unfold loop_enter, loop_exit, cond_enter. rewrite E1, E2. unfold nest_enter, nest_exit.
      rewrite ve_before by (first [exact L | assumption]).
      set (st1 := set_depth (depth st + 1)%Z st).
      fold (vb b st1).
      assert (C1 : cond st1 = false) by exact C.
      specialize (Hb st1 NCb ltac:(assumption) ALb C1).
      assert (Cb : cond (vb b st1) = false) by (apply Hb).
      fold (vb e (vb b st1)). specialize (He (vb b st1) NCe ltac:(assumption) ALe Cb).
      pose proof (pre_rel_trans _ _ _ _ _ Hb He) as T.
      destruct T as (A1 & A2 & A3 & A4 & A5 & A6 & A7 & A8 & A9).
      unfold cond_exit, set_cond, set_depth, pre_rel; simpl. repeat split; auto.
      + rewrite A2. unfold st1. simpl. lia.
      + apply A9.
      + apply A9.
    - (* for *)
      intros l x e b els Hb He st NC NE AL C. simpl in NE; repeat (let N := fresh "NE" in apply andb_true_iff in NE; destruct NE as [NE N]). assert (L : (l < lo)%N) by (apply AL; simpl; auto).
      destruct (before_flags l L) as [E1 [E2 E3]].
      simpl in NC. apply andb_true_iff in NC. destruct NC as [NCb NCe].
      assert (ALb : all_lt (blines b)).
      { intros y Hy. apply AL. simpl. right. apply in_or_app. left. exact Hy. }
      assert (ALe : all_lt (blines els)).
      { intros y Hy. apply AL. simpl. right. apply in_or_app. right. exact Hy. }
      simpl vs. rewrite E3. unfold loop_enter, loop_exit, cond_enter. rewrite E1, E2. unfold nest_enter, nest_exit.
      rewrite rv_before by exact L. rewrite ve_before by (first [exact L | assumption]). rewrite wv_before by exact L.
      set (st1 := {| prew := add x (prew (set_depth (depth st + 1)%Z st)); mayw := _; wr := _; rd := _;
                     postrd := _; postwr := _; cond := _; depth := _; pnest := _ |}).
      fold (vb b st1).
      assert (C1 : cond st1 = false) by exact C.
      specialize (Hb st1 NCb ltac:(assumption) ALb C1).
      assert (Cb : cond (vb b st1) = false) by (apply Hb).
      fold (vb els (vb b st1)). specialize (He (vb b st1) NCe ltac:(assumption) ALe Cb).
      pose proof (pre_rel_trans _ _ _ _ _ Hb He) as T.
      destruct T as (A1 & A2 & A3 & A4 & A5 & A6 & A7 & A8 & A9).
      unfold cond_exit, set_cond, set_depth, pre_rel; simpl. repeat split; auto.
      + rewrite A2. unfold st1. simpl. lia.
      + intros H. apply A9 in H. unfold st1 in H. simpl in H. destruct H as [H|H].
        * apply In_add in H. destruct H; [right; left; auto | left; assumption].
        * right. right. exact H.
      + intros H. apply A9. unfold st1. simpl. destruct H as [H|[H|H]].
        * left. apply In_add. auto.
        * left. apply In_add. auto.
        * right. exact H.
    - (* return *)
      intros l e st _ NE AL C. assert (L : (l < lo)%N) by (apply AL; simpl; auto).
      simpl. rewrite ve_before by (first [exact L | assumption]). apply pre_rel_refl. exact C.
    - intros l st _ _ _ C. simpl. apply pre_rel_refl. exact C.
    - intros l st _ _ _ C. simpl. apply pre_rel_refl. exact C.
    - intros l st _ _ _ C. simpl. apply pre_rel_refl. exact C.
    - intros l rets args body tail shared _ st NC. simpl in NC. discriminate.
    - intros st _ _ _ C. apply pre_rel_refl. exact C.
    - intros s r Hs Hr st NC NE AL C. simpl in NE; repeat (let N := fresh "NE" in apply andb_true_iff in NE; destruct NE as [NE N]). rewrite nocall_cons in NC. apply andb_true_iff in NC. destruct NC as [NCs NCr].
      rewrite visit_b_cons.
      assert (ALs : all_lt (slines s)) by (intros y Hy; apply AL; unfold blines; simpl; apply in_or_app; auto).
      assert (ALr : all_lt (blines r)) by (intros y Hy; apply AL; unfold blines; simpl; apply in_or_app; auto).
      specialize (Hs st NCs ltac:(assumption) ALs C).
      assert (Cs : cond (vs s st) = false) by apply Hs.
      specialize (Hr (vs s st) NCr ltac:(assumption) ALr Cs).
      exact (pre_rel_trans _ _ _ _ _ Hs Hr).
  Qed.

  (* ---------------------------------------------------------------- inside the region *)
  Lemma inside_flags : forall l, (lo <= l)%N -> (l <= hi)%N ->
    in_reg lo hi l = true /\ N.ltb l lo = false /\ N.ltb hi l = false.
  Proof.
    intros l H1 H2. unfold in_reg. repeat split.
    - apply andb_true_iff. split; apply N.leb_le; assumption.
    - apply N.ltb_ge. exact H1.
    - apply N.ltb_ge. exact H2.
  Qed.

  (* state inside a straight-line region at function top level: no conditional, no enclosing loop *)
  Definition flat (st : cst) : Prop := cond st = false /\ (depth st <= 0)%Z.

  Lemma rv_inside : forall x l s, (lo <= l)%N -> (l <= hi)%N -> flat s ->
    rv x l s = if mem x (wr s) then s
               else {| prew := prew s; mayw := mayw s; wr := wr s; rd := add x (rd s); postrd := postrd s;
                       postwr := postwr s; cond := cond s; depth := depth s; pnest := pnest s |}.
  Proof.
    intros x l s H1 H2 [C D]. destruct (inside_flags l H1 H2) as [E1 [E2 E3]].
    unfold read_var. rewrite E1, E3, C. simpl. destruct (mem x (wr s)); reflexivity.
  Qed.

  Lemma wv_inside : forall x l s, (lo <= l)%N -> (l <= hi)%N -> flat s ->
    wv x l s = {| prew := prew s; mayw := mayw s; wr := add x (wr s); rd := rd s; postrd := postrd s;
                  postwr := postwr s; cond := cond s; depth := depth s; pnest := pnest s |}.
  Proof.
    intros x l s H1 H2 [C D]. destruct (inside_flags l H1 H2) as [E1 [E2 E3]].
    unfold written_var. rewrite E1, E2, E3, C. simpl.
    assert (Z.ltb 0 (depth s) = false) by (apply Z.ltb_ge; exact D). rewrite H. reflexivity.
  Qed.

  (* st' differs from st by more read / written names only *)
  Definition in_rel (st st' : cst) : Prop :=
    flat st' /\ prew st' = prew st /\ mayw st' = mayw st /\ postrd st' = postrd st /\ postwr st' = postwr st
    /\ pnest st' = pnest st /\ depth st' = depth st
    /\ (forall x, In x (rd st) -> In x (rd st')) /\ (forall x, In x (wr st) -> In x (wr st')).

  Lemma in_rel_refl : forall st, flat st -> in_rel st st.
  Proof. intros st F. unfold in_rel. repeat split; auto; apply F. Qed.

  Lemma in_rel_trans : forall a b c, in_rel a b -> in_rel b c -> in_rel a c.
  Proof.
    intros a b c (A0 & A1 & A2 & A3 & A4 & A5 & A6 & A7 & A8) (B0 & B1 & B2 & B3 & B4 & B5 & B6 & B7 & B8).
    unfold in_rel. repeat split; try congruence; try apply B0; auto.
  Qed.

  Lemma rv_inside_rel : forall x l s, (lo <= l)%N -> (l <= hi)%N -> flat s ->
    in_rel s (rv x l s) /\ wr (rv x l s) = wr s /\ (mem x (wr s) = false -> In x (rd (rv x l s))).
  Proof.
    intros x l s H1 H2 F. rewrite rv_inside by assumption. destruct (mem x (wr s)) eqn:E.
    - split; [apply in_rel_refl; exact F|]. split; [reflexivity | discriminate].
    - split; [|split; [reflexivity|]].
      + unfold in_rel, flat; simpl. repeat split; auto; try apply F. intros y Hy. apply In_add. auto.
      + intros _. simpl. apply In_add. auto.
  Qed.

  Lemma ve_inside : forall l e s, nocomp_e e = true -> (lo <= l)%N -> (l <= hi)%N -> flat s ->
    in_rel s (ve l e s) /\ wr (ve l e s) = wr s
    /\ (forall x, In x (vars_e e) -> mem x (wr s) = false -> In x (rd (ve l e s))).
  Proof.
    intros l e. induction e as [x|z|o a IHa b IHb|v k IHk body IHbody]; intros s NE H1 H2 F; simpl;
      [| | | simpl in NE; discriminate]; try (simpl in NE; apply andb_true_iff in NE; destruct NE as [NE1 NE2]).
    - destruct (rv_inside_rel x l s H1 H2 F) as [R1 [R2 R3]]. split; [exact R1|]. split; [exact R2|].
      intros y [Hy|[]] Hm. subst y. apply R3. exact Hm.
    - split; [apply in_rel_refl; exact F|]. split; [reflexivity|]. intros x [].
    - destruct (IHa s NE1 H1 H2 F) as [A1 [A2 A3]].
      assert (Fa : flat (ve l a s)) by apply A1.
      destruct (IHb (ve l a s) NE2 H1 H2 Fa) as [B1 [B2 B3]].
      split; [eapply in_rel_trans; eauto|]. split; [congruence|].
      intros x Hx Hm. apply in_app_or in Hx. destruct Hx as [Hx|Hx].
      + destruct B1 as (_ & _ & _ & _ & _ & _ & _ & B7 & _). apply B7. apply A3; assumption.
      + apply B3; [exact Hx | rewrite A2; exact Hm].
  Qed.

  Definition all_in (R : list stmt) : Prop := forall s, In s R -> (lo <= line_of s)%N /\ (line_of s <= hi)%N.

  (* what the collector knows after the region: written = defs, read covers the upward-exposed uses *)
  Lemma region_phase : forall R st k,
    straight R = true -> nocomp R = true -> all_in R -> flat st ->
    in_rel st (vb R st)
    /\ (forall x, In x (wr (vb R st)) <-> In x (wr st) \/ In x (defs R))
    /\ (forall x, In x (live_b R k) -> mem x (wr st) = false -> In x (rd (vb R st)) \/ In x (kn k)).
  Proof.
    induction R as [|s R IH]; intros st k SR NCM AI F.
    - simpl. split; [apply in_rel_refl; exact F|]. split; [intros x; simpl; tauto|]. intros x Hx _. right. exact Hx.
    - simpl in SR. apply andb_true_iff in SR. destruct SR as [Ss SR].
      simpl in NCM. apply andb_true_iff in NCM. destruct NCM as [NEs NCM].
      destruct (AI s (or_introl eq_refl)) as [L1 L2].
      assert (AIR : all_in R) by (intros y Hy; apply AI; right; exact Hy).
      rewrite visit_b_cons. rewrite live_b_cons. rewrite defs_cons.
      destruct s; try discriminate; simpl line_of in L1, L2.
      + (* assign *)
        simpl vs. destruct (ve_inside l e st ltac:(assumption) L1 L2 F) as [E1 [E2 E3]].
        assert (Fe : flat (ve l e st)) by apply E1.
        set (st1 := wv x l (ve l e st)).
        assert (W : st1 = _) by (unfold st1; apply wv_inside; assumption).
        assert (F1 : flat st1) by (rewrite W; exact Fe).
        assert (R1 : in_rel (ve l e st) st1).
        { rewrite W. unfold in_rel; simpl. repeat split; auto; try apply Fe. intros y Hy. apply In_add. auto. }
        destruct (IH st1 k SR NCM AIR F1) as [I1 [I2 I3]].
        split; [eapply in_rel_trans; [exact E1|]; eapply in_rel_trans; eauto|]. split.
        * intros y. rewrite I2. rewrite W. simpl. rewrite In_add. rewrite E2. simpl. intuition (subst; auto).
        * intros y Hy Hm. simpl in Hy. apply in_app_or in Hy. destruct Hy as [Hy|Hy].
          -- left. destruct I1 as (_ & _ & _ & _ & _ & _ & _ & I7 & _). apply I7.
             destruct R1 as (_ & _ & _ & _ & _ & _ & _ & R7 & _). apply R7. apply E3; assumption.
          -- apply In_remove in Hy. destruct Hy as [Hy Hne]. apply I3; [exact Hy|].
             rewrite W. simpl. apply mem_false. intros Hin. apply In_add in Hin. destruct Hin as [Hin|Hin]; [contradiction|].
             rewrite E2 in Hin. apply mem_false in Hm. contradiction.
      + (* aug *)
        simpl vs. destruct (ve_inside l e st ltac:(assumption) L1 L2 F) as [E1 [E2 E3]].
        assert (Fe : flat (ve l e st)) by apply E1.
        destruct (rv_inside_rel x l (ve l e st) L1 L2 Fe) as [V1 [V2 V3]].
        assert (Fv : flat (rv x l (ve l e st))) by apply V1.
        set (st1 := wv x l (rv x l (ve l e st))).
        assert (W : st1 = _) by (unfold st1; apply wv_inside; assumption).
        assert (F1 : flat st1) by (rewrite W; exact Fv).
        assert (R1 : in_rel (rv x l (ve l e st)) st1).
        { rewrite W. unfold in_rel; simpl. repeat split; auto; try apply Fv. intros y Hy. apply In_add. auto. }
        destruct (IH st1 k SR NCM AIR F1) as [I1 [I2 I3]].
        split; [eapply in_rel_trans; [exact E1|]; eapply in_rel_trans; [exact V1|]; eapply in_rel_trans; eauto|]. split.
        * intros y. rewrite I2. rewrite W. simpl. rewrite In_add. rewrite V2, E2. simpl. intuition (subst; auto).
        * intros y Hy Hm. simpl in Hy.
          assert (K : forall z, In z (rd (rv x l (ve l e st))) -> In z (rd (vb R st1))).
          { intros z Hz. destruct I1 as (_ & _ & _ & _ & _ & _ & _ & I7 & _). apply I7.
            destruct R1 as (_ & _ & _ & _ & _ & _ & _ & R7 & _). apply R7. exact Hz. }
          destruct Hy as [Hy|Hy].
          -- subst y. left. apply K. apply V3. rewrite E2. exact Hm.
          -- apply in_app_or in Hy. destruct Hy as [Hy|Hy].
             ++ left. apply K. destruct V1 as (_ & _ & _ & _ & _ & _ & _ & V7 & _). apply V7. apply E3; assumption.
             ++ destruct (N.eq_dec y x) as [Eq|Ne].
                ** subst y. left. apply K. apply V3. rewrite E2. exact Hm.
                ** apply I3; [exact Hy|]. rewrite W. simpl. apply mem_false. intros Hin. apply In_add in Hin.
                   destruct Hin as [Hin|Hin]; [contradiction|]. rewrite V2, E2 in Hin. apply mem_false in Hm. contradiction.
      + (* print *)
        simpl vs.
        destruct (rv_inside_rel name_print l st L1 L2 F) as [V1 [V2 V3]].
        assert (Fv : flat (rv name_print l st)) by apply V1.
        destruct (ve_inside l e (rv name_print l st) ltac:(assumption) L1 L2 Fv) as [E1 [E2 E3]].
        assert (Fe : flat (ve l e (rv name_print l st))) by apply E1.
        destruct (IH (ve l e (rv name_print l st)) k SR NCM AIR Fe) as [I1 [I2 I3]].
        split; [eapply in_rel_trans; [exact V1|]; eapply in_rel_trans; eauto|]. split.
        * intros y. rewrite I2. rewrite E2, V2. simpl. tauto.
        * intros y Hy Hm. simpl in Hy. apply in_app_or in Hy. destruct Hy as [Hy|Hy].
          -- left. destruct I1 as (_ & _ & _ & _ & _ & _ & _ & I7 & _). apply I7. apply E3; [exact Hy | rewrite V2; exact Hm].
          -- apply I3; [exact Hy | rewrite E2, V2; exact Hm].
      + (* return *)
        simpl vs. destruct (ve_inside l e st ltac:(assumption) L1 L2 F) as [E1 [E2 E3]].
        assert (Fe : flat (ve l e st)) by apply E1.
        destruct (IH (ve l e st) k SR NCM AIR Fe) as [I1 [I2 I3]].
        split; [eapply in_rel_trans; eauto|]. split.
        * intros y. rewrite I2. rewrite E2. simpl. tauto.
        * intros y Hy Hm. simpl in Hy. left.
          destruct I1 as (_ & _ & _ & _ & _ & _ & _ & I7 & _). apply I7. apply E3; assumption.
      + (* pass *)
        simpl vs. destruct (IH st k SR NCM AIR F) as [I1 [I2 I3]].
        split; [exact I1|]. split.
        * intros y. rewrite I2. simpl. tauto.
        * intros y Hy Hm. simpl in Hy. apply I3; assumption.
  Qed.

  (* ---------------------------------------------------------------- after the region *)
  Lemma after_flags : forall l, (hi < l)%N -> in_reg lo hi l = false /\ N.ltb l lo = false /\ N.ltb hi l = true.
  Proof.
    intros l H. unfold in_reg. repeat split.
    - apply andb_false_iff. right. apply N.leb_gt. exact H.
    - apply N.ltb_ge. lia.
    - apply N.ltb_lt. exact H.
  Qed.

  Definition same6 (a b : cst) : Prop :=
    prew b = prew a /\ rd b = rd a /\ wr b = wr a /\ mayw b = mayw a /\ postrd b = postrd a /\ postwr b = postwr a.

  (* from st to st': only postread / postwritten grow; D bounds the new postwritten names, every name of Rd
     that is neither postwritten before nor in D has become postread *)
  Definition step (D Rd : list var) (st st' : cst) : Prop :=
    prew st' = prew st /\ rd st' = rd st /\ wr st' = wr st /\ mayw st' = mayw st
    /\ (forall x, In x (postrd st) -> In x (postrd st'))
    /\ (forall x, In x (postwr st') -> In x (postwr st) \/ In x D)
    /\ (forall x, In x Rd -> ~ In x (postwr st) -> ~ In x D -> In x (postrd st')).

  Lemma step_same6 : forall a b, same6 a b -> step [] [] a b.
  Proof.
    intros a b (H1 & H2 & H3 & H4 & H5 & H6). unfold step. repeat split; auto.
    - intros x Hx. rewrite H5. exact Hx.
    - intros x Hx. left. rewrite <- H6. exact Hx.
    - intros x [].
  Qed.

  Lemma step_trans : forall D1 R1 D2 R2 a b c, step D1 R1 a b -> step D2 R2 b c -> step (D1 ++ D2) (R1 ++ R2) a c.
  Proof.
    intros D1 R1 D2 R2 a b c (A1 & A2 & A3 & A4 & A5 & A6 & A7) (B1 & B2 & B3 & B4 & B5 & B6 & B7).
    unfold step. repeat split; try congruence.
    - intros x Hx. apply B5. apply A5. exact Hx.
    - intros x Hx. apply B6 in Hx. destruct Hx as [Hx|Hx].
      + apply A6 in Hx. destruct Hx; [left; assumption | right; apply in_or_app; auto].
      + right. apply in_or_app. auto.
    - intros x Hx N1 N2. apply in_app_or in Hx. destruct Hx as [Hx|Hx].
      + apply B5. apply A7; [exact Hx | exact N1 | intro; apply N2; apply in_or_app; auto].
      + apply B7; [exact Hx | | intro; apply N2; apply in_or_app; auto].
        intros Hp. apply A6 in Hp. destruct Hp as [Hp|Hp]; [contradiction | apply N2; apply in_or_app; auto].
  Qed.

  Lemma step_weaken : forall D R D' R' a b, step D R a b ->
    (forall x, In x D -> In x D') -> (forall x, In x R' -> In x R) -> step D' R' a b.
  Proof.
    intros D R D' R' a b (A1 & A2 & A3 & A4 & A5 & A6 & A7) SD SR. unfold step. repeat split; auto.
    intros x Hx. apply A6 in Hx. destruct Hx; [left; assumption | right; apply SD; assumption].
  Qed.

  Lemma rv_after : forall x l s, (hi < l)%N -> step [] [x] s (rv x l s).
  Proof.
    intros x l s H. destruct (after_flags l H) as [E1 [E2 E3]].
    unfold read_var. rewrite E1, E3. destruct (mem x (postwr s)) eqn:E; simpl.
    - unfold step. repeat split; auto. intros y [Hy|[]] N1 _. subst y. apply mem_In in E. contradiction.
    - unfold step; simpl. repeat split; auto.
      + intros y Hy. apply In_add. auto.
      + intros y [Hy|[]] _ _. subst y. apply In_add. auto.
  Qed.

  Lemma wv_after_eq : forall x l s, (hi < l)%N ->
    wv x l s = if Z.ltb 0 (pnest s) then s
               else {| prew := prew s; mayw := mayw s; wr := wr s; rd := rd s; postrd := postrd s;
                       postwr := add x (postwr s); cond := cond s; depth := depth s; pnest := pnest s |}.
  Proof.
    intros x l s H. destruct (after_flags l H) as [E1 [E2 E3]].
    unfold written_var. rewrite E1, E2, E3. simpl. destruct (Z.ltb 0 (pnest s)); reflexivity.
  Qed.

  Lemma wv_after : forall x l s, (hi < l)%N -> step [x] [] s (wv x l s).
  Proof.
    intros x l s H. rewrite wv_after_eq by exact H. destruct (Z.ltb 0 (pnest s)).
    - unfold step. repeat split; auto. intros y [].
    - unfold step; simpl. repeat split; auto.
      + intros y Hy. apply In_add in Hy. destruct Hy; [right; left; auto | left; assumption].
      + intros y [].
  Qed.

  Lemma ve_after : forall l e s, nocomp_e e = true -> (hi < l)%N -> step [] (vars_e e) s (ve l e s).
  Proof.
    intros l e. induction e as [x|z|o a IHa b IHb|v k IHk body IHbody]; intros s NE H; simpl;
      [| | | simpl in NE; discriminate]; try (simpl in NE; apply andb_true_iff in NE; destruct NE as [NE1 NE2]).
    - apply rv_after. exact H.
    - apply step_same6. unfold same6. repeat split.
    - exact (step_trans _ _ _ _ _ _ _ (IHa s NE1 H) (IHb _ NE2 H)).
  Qed.

  Lemma same6_cond_enter : forall l s, same6 s (cond_enter lo hi l s).
  Proof. intros. unfold cond_enter. destruct (in_reg lo hi l); unfold same6; simpl; repeat split. Qed.
  Lemma same6_cond_exit : forall p s, same6 s (cond_exit current p s).
  Proof. intros. unfold same6; simpl; repeat split. Qed.
  Lemma same6_loop_enter : forall l s, same6 s (loop_enter lo l s).
  Proof. intros. unfold loop_enter. destruct (N.ltb l lo); unfold same6; simpl; repeat split. Qed.
  Lemma same6_loop_exit : forall l s, same6 s (loop_exit current lo l s).
  Proof. intros. unfold loop_exit. destruct (sw_balanced current && negb (N.ltb l lo)); unfold same6; simpl; repeat split. Qed.
  Lemma same6_nest_enter : forall b s, same6 s (nest_enter b s).
  Proof. intros. unfold nest_enter. destruct b; unfold same6; simpl; repeat split. Qed.
  Lemma same6_nest_exit : forall b s, same6 s (nest_exit b s).
  Proof. intros. unfold nest_exit. destruct b; unfold same6; simpl; repeat split. Qed.

  Definition all_gt (ls : list N) : Prop := forall l, In l ls -> (hi < l)%N.

  Lemma post_phase :
    (forall s st, nocall_s s = true -> nocomp_s s = true -> all_gt (slines s) -> step (defs_s s) (reads_s s) st (vs s st))
    /\ (forall ss st, nocall ss = true -> nocomp ss = true -> all_gt (blines ss) -> step (defs ss) (reads ss) st (vb ss st)).
  Proof.
    apply (stmt_blk_ind
             (fun s => forall st, nocall_s s = true -> nocomp_s s = true -> all_gt (slines s) -> step (defs_s s) (reads_s s) st (vs s st))
             (fun ss => forall st, nocall ss = true -> nocomp ss = true -> all_gt (blines ss) -> step (defs ss) (reads ss) st (vb ss st))).
    - intros l x e st _ NE AG. assert (L : (hi < l)%N) by (apply AG; simpl; auto). simpl.
      eapply step_weaken; [exact (step_trans _ _ _ _ _ _ _ (ve_after l e st ltac:(assumption) L) (wv_after x l _ L)) | |]; simpl; auto.
      intros y Hy. apply in_or_app. left. exact Hy.
    - intros l x o e st _ NE AG. assert (L : (hi < l)%N) by (apply AG; simpl; auto). simpl.
      eapply step_weaken;
        [exact (step_trans _ _ _ _ _ _ _ (step_trans _ _ _ _ _ _ _ (ve_after l e st ltac:(assumption) L) (rv_after x l _ L)) (wv_after x l _ L)) | |];
        simpl; auto.
      intros y Hy. apply in_or_app. left. apply in_or_app. destruct Hy as [Hy|Hy]; [right; left; exact Hy | left; exact Hy].
    - intros l e st _ NE AG. assert (L : (hi < l)%N) by (apply AG; simpl; auto). simpl.
      eapply step_weaken; [exact (step_trans _ _ _ _ _ _ _ (rv_after name_print l st L) (ve_after l e _ ltac:(assumption) L)) | |]; simpl; auto.
    - (* if *)
      intros l c a b Ha Hb st NC NE AG. simpl in NE; repeat (let N := fresh "NE" in apply andb_true_iff in NE; destruct NE as [NE N]). assert (L : (hi < l)%N) by (apply AG; simpl; auto).
      simpl in NC. apply andb_true_iff in NC. destruct NC as [NCa NCb].
      assert (AGa : all_gt (blines a)) by (intros y Hy; apply AG; simpl; right; apply in_or_app; left; exact Hy).
      assert (AGb : all_gt (blines b)) by (intros y Hy; apply AG; simpl; right; apply in_or_app; right; exact Hy).
      simpl vs.
      set (after := N.ltb hi l). set (prev := cond st).
      set (sib := match b with [] => false | f :: _ => N.ltb l lo && N.ltb hi (line_of f) end).
      set (s1 := nest_enter after (cond_enter lo hi l st)).
      fold (vb a (ve l c s1)). set (s2 := vb a (ve l c s1)).
      fold (vb b (nest_enter sib s2)). set (s3 := nest_exit sib (vb b (nest_enter sib s2))).
      assert (T1 : step [] [] st s1).
      { eapply step_weaken; [exact (step_trans _ _ _ _ _ _ _ (step_same6 _ _ (same6_cond_enter l st)) (step_same6 _ _ (same6_nest_enter after _))) | |]; simpl; auto. }
      assert (T2 : step (defs a) (vars_e c ++ reads a) s1 s2).
      { eapply step_weaken; [exact (step_trans _ _ _ _ _ _ _ (ve_after l c s1 ltac:(assumption) L) (Ha _ NCa ltac:(assumption) AGa)) | |]; simpl; auto. }
      assert (T3 : step (defs b) (reads b) s2 s3).
      { eapply step_weaken;
          [exact (step_trans _ _ _ _ _ _ _ (step_trans _ _ _ _ _ _ _ (step_same6 _ _ (same6_nest_enter sib s2)) (Hb _ NCb ltac:(assumption) AGb))
                             (step_same6 _ _ (same6_nest_exit sib _))) | |]; simpl; auto.
        - intros y Hy. rewrite app_nil_r in Hy. exact Hy.
        - intros y Hy. rewrite app_nil_r. exact Hy. }
      assert (T4 : step [] [] s3 (cond_exit current prev (nest_exit after s3))).
      { eapply step_weaken; [exact (step_trans _ _ _ _ _ _ _ (step_same6 _ _ (same6_nest_exit after s3)) (step_same6 _ _ (same6_cond_exit prev _))) | |]; simpl; auto. }
      eapply step_weaken;
        [exact (step_trans _ _ _ _ _ _ _ (step_trans _ _ _ _ _ _ _ (step_trans _ _ _ _ _ _ _ T1 T2) T3) T4) | |].
      + intros y Hy. simpl in Hy. rewrite app_nil_r in Hy. exact Hy.
      + intros y Hy. simpl. rewrite app_nil_r. rewrite <- app_assoc. exact Hy.
    - (* while *)
      intros l c b e Hb He st NC NE AG. simpl in NE; repeat (let N := fresh "NE" in apply andb_true_iff in NE; destruct NE as [NE N]). assert (L : (hi < l)%N) by (apply AG; simpl; auto).
      simpl in NC. apply andb_true_iff in NC. destruct NC as [NCb NCe].
      assert (AGb : all_gt (blines b)) by (intros y Hy; apply AG; simpl; right; apply in_or_app; left; exact Hy).
      assert (AGe : all_gt (blines e)) by (intros y Hy; apply AG; simpl; right; apply in_or_app; right; exact Hy).
      simpl vs.
      set (after := N.ltb hi l). set (prev := cond st).
      set (sib := match e with [] => false | f :: _ => N.ltb l lo && N.ltb hi (line_of f) end).
      set (s1 := nest_enter after (cond_enter lo hi l (loop_enter lo l st))).
      fold (vb b (ve l c s1)). set (s2 := vb b (ve l c s1)).
      fold (vb e (nest_enter sib s2)). set (s3 := nest_exit sib (vb e (nest_enter sib s2))).
      assert (T1 : step [] [] st s1).
      { eapply step_weaken;
          [exact (step_trans _ _ _ _ _ _ _ (step_trans _ _ _ _ _ _ _ (step_same6 _ _ (same6_loop_enter l st))
                                              (step_same6 _ _ (same6_cond_enter l _))) (step_same6 _ _ (same6_nest_enter after _))) | |];
          simpl; auto. }
      assert (T2 : step (defs b) (vars_e c ++ reads b) s1 s2).
      { eapply step_weaken; [exact (step_trans _ _ _ _ _ _ _ (ve_after l c s1 ltac:(assumption) L) (Hb _ NCb ltac:(assumption) AGb)) | |]; simpl; auto. }
      assert (T3 : step (defs e) (reads e) s2 s3).
      { eapply step_weaken;
          [exact (step_trans _ _ _ _ _ _ _ (step_trans _ _ _ _ _ _ _ (step_same6 _ _ (same6_nest_enter sib s2)) (He _ NCe ltac:(assumption) AGe))
                             (step_same6 _ _ (same6_nest_exit sib _))) | |]; simpl; auto.
        - intros y Hy. rewrite app_nil_r in Hy. exact Hy.
        - intros y Hy. rewrite app_nil_r. exact Hy. }
      assert (T4 : step [] [] s3 (loop_exit current lo l (cond_exit current prev (nest_exit after s3)))).
      { eapply step_weaken;
          [exact (step_trans _ _ _ _ _ _ _ (step_trans _ _ _ _ _ _ _ (step_same6 _ _ (same6_nest_exit after s3))
                                              (step_same6 _ _ (same6_cond_exit prev _))) (step_same6 _ _ (same6_loop_exit l _))) | |];
          simpl; auto. }
      eapply step_weaken;
        [exact (step_trans _ _ _ _ _ _ _ (step_trans _ _ _ _ _ _ _ (step_trans _ _ _ _ _ _ _ T1 T2) T3) T4) | |].
      + intros y Hy. simpl in Hy. rewrite app_nil_r in Hy. exact Hy.
      + intros y Hy. simpl. rewrite app_nil_r. rewrite <- app_assoc. exact Hy.
    - (* for *)
      intros l x e b els Hb He st NC NE AG. simpl in NE; repeat (let N := fresh "NE" in apply andb_true_iff in NE; destruct NE as [NE N]). assert (L : (hi < l)%N) by (apply AG; simpl; auto).
      simpl in NC. apply andb_true_iff in NC. destruct NC as [NCb NCe].
      assert (AGb : all_gt (blines b)) by (intros y Hy; apply AG; simpl; right; apply in_or_app; left; exact Hy).
      assert (AGe : all_gt (blines els)) by (intros y Hy; apply AG; simpl; right; apply in_or_app; right; exact Hy).
      simpl vs.
      set (after := N.ltb hi l). set (prev := cond st).
      set (s1 := nest_enter after (cond_enter lo hi l (loop_enter lo l st))).
      set (s2 := wv x l (ve l e (rv name_range l s1))).
      fold (vb b s2). fold (vb els (vb b s2)). set (s3 := vb els (vb b s2)).
      assert (T1 : step [] [] st s1).
      { eapply step_weaken;
          [exact (step_trans _ _ _ _ _ _ _ (step_trans _ _ _ _ _ _ _ (step_same6 _ _ (same6_loop_enter l st))
                                              (step_same6 _ _ (same6_cond_enter l _))) (step_same6 _ _ (same6_nest_enter after _))) | |];
          simpl; auto. }
      assert (T2 : step [x] (name_range :: vars_e e) s1 s2).
      { eapply step_weaken;
          [exact (step_trans _ _ _ _ _ _ _ (step_trans _ _ _ _ _ _ _ (rv_after name_range l s1 L) (ve_after l e _ ltac:(assumption) L)) (wv_after x l _ L)) | |];
          simpl; auto.
        intros y Hy. rewrite app_nil_r. exact Hy. }
      assert (T3 : step (defs b ++ defs els) (reads b ++ reads els) s2 s3).
      { exact (step_trans _ _ _ _ _ _ _ (Hb _ NCb ltac:(assumption) AGb) (He _ NCe ltac:(assumption) AGe)). }
      assert (T4 : step [] [] s3 (loop_exit current lo l (cond_exit current prev (nest_exit after s3)))).
      { eapply step_weaken;
          [exact (step_trans _ _ _ _ _ _ _ (step_trans _ _ _ _ _ _ _ (step_same6 _ _ (same6_nest_exit after s3))
                                              (step_same6 _ _ (same6_cond_exit prev _))) (step_same6 _ _ (same6_loop_exit l _))) | |];
          simpl; auto. }
      eapply step_weaken;
        [exact (step_trans _ _ _ _ _ _ _ (step_trans _ _ _ _ _ _ _ (step_trans _ _ _ _ _ _ _ T1 T2) T3) T4) | |].
      + intros y Hy. simpl in Hy. rewrite app_nil_r in Hy. exact Hy.
      + intros y Hy. simpl. rewrite app_nil_r. simpl in Hy. destruct Hy as [Hy|Hy]; [left; exact Hy|].
        right. exact Hy.
    - intros l e st _ NE AG. assert (L : (hi < l)%N) by (apply AG; simpl; auto). simpl. apply ve_after; assumption.
    - intros l st _ _ _. simpl. apply step_same6. unfold same6. repeat split.
    - intros l st _ _ _. simpl. apply step_same6. unfold same6. repeat split.
    - intros l st _ _ _. simpl. apply step_same6. unfold same6. repeat split.
    - intros l rets args body tail shared _ st NC. simpl in NC. discriminate.
    - intros st _ _ _. apply step_same6. unfold same6. repeat split.
    - intros s r Hs Hr st NC NE AG. simpl in NE; repeat (let N := fresh "NE" in apply andb_true_iff in NE; destruct NE as [NE N]). rewrite nocall_cons in NC. apply andb_true_iff in NC. destruct NC as [NCs NCr].
      rewrite visit_b_cons.
      assert (AGs : all_gt (slines s)) by (intros y Hy; apply AG; unfold blines; simpl; apply in_or_app; auto).
      assert (AGr : all_gt (blines r)) by (intros y Hy; apply AG; unfold blines; simpl; apply in_or_app; auto).
      exact (step_trans _ _ _ _ _ _ _ (Hs st NCs ltac:(assumption) AGs) (Hr _ NCr ltac:(assumption) AGr)).
  Qed.
End Phases.

(* ------------------------------------------------------------------ live names are read somewhere *)
Lemma iter_inv : forall (S : var -> Prop) f n X,
  (forall x, In x X -> S x) ->
  (forall Y, (forall x, In x Y -> S x) -> forall x, In x (f Y) -> S x) ->
  forall x, In x (iter n f X) -> S x.
Proof.
  intros S f n. induction n as [|m IH]; intros X HX HF x Hx; simpl in Hx.
  - apply HX. exact Hx.
  - destruct (subset (f X) X).
    + apply HX. exact Hx.
    + eapply IH; [| exact HF | exact Hx].
      intros y Hy. apply In_fold_add in Hy. destruct Hy as [Hy|Hy]; [apply HX; exact Hy | eapply HF; eauto].
Qed.

Lemma reads_cons : forall s r, reads (s :: r) = reads_s s ++ reads r.
Proof. reflexivity. Qed.

Lemma live_reads :
  (forall s k x, In x (live_s s k) -> In x (reads_s s) \/ In x (kn k) \/ In x (kb k) \/ In x (kc k))
  /\ (forall ss k x, In x (live_b ss k) -> In x (reads ss) \/ In x (kn k) \/ In x (kb k) \/ In x (kc k)).
Proof.
  apply (stmt_blk_ind
           (fun s => forall k x, In x (live_s s k) -> In x (reads_s s) \/ In x (kn k) \/ In x (kb k) \/ In x (kc k))
           (fun ss => forall k x, In x (live_b ss k) -> In x (reads ss) \/ In x (kn k) \/ In x (kb k) \/ In x (kc k))).
  - intros l y e k x H. simpl in H. apply in_app_or in H. destruct H as [H|H]; [left; exact H|].
    apply In_remove in H. right. left. apply H.
  - intros l y o e k x H. simpl in H. destruct H as [H|H]; [left; left; exact H|].
    apply in_app_or in H. destruct H as [H|H]; [left; right; exact H | right; left; exact H].
  - intros l e k x H. simpl in H. apply in_app_or in H. destruct H as [H|H]; [left; right; exact H | right; left; exact H].
  - intros l c a b Ha Hb k x H. rewrite live_s_if in H. apply in_app_or in H. destruct H as [H|H].
    + left. simpl. apply in_or_app. left. exact H.
    + apply in_app_or in H. destruct H as [H|H].
      * destruct (Ha k x H) as [G|G]; [left; simpl; apply in_or_app; right; apply in_or_app; left; exact G | right; exact G].
      * destruct (Hb k x H) as [G|G]; [left; simpl; apply in_or_app; right; apply in_or_app; right; exact G | right; exact G].
  - intros l c b e Hb He k x H. rewrite live_s_while in H. unfold live_while, live_while_gen in H.
    assert (G : In x (vars_e c) \/ In x (reads b) \/ In x (reads e) \/ In x (kn k) \/ In x (kb k) \/ In x (kc k)).
    { eapply (iter_inv (fun x => In x (vars_e c) \/ In x (reads b) \/ In x (reads e) \/ In x (kn k) \/ In x (kb k) \/ In x (kc k)));
        [| | exact H].
      - intros y Hy. apply in_app_or in Hy. destruct Hy as [Hy|Hy]; [auto|].
        apply He in Hy. destruct Hy as [Hy|[Hy|[Hy|Hy]]]; auto 7.
      - intros Y HY y Hy. unfold while_step in Hy. apply in_app_or in Hy. destruct Hy as [Hy|Hy]; [auto|].
        apply in_app_or in Hy. destruct Hy as [Hy|Hy].
        + apply He in Hy. destruct Hy as [Hy|[Hy|[Hy|Hy]]]; auto 7.
        + apply Hb in Hy. simpl in Hy. destruct Hy as [Hy|[Hy|[Hy|Hy]]]; auto 7. }
    destruct G as [G|[G|[G|G]]].
    + left. simpl. apply in_or_app. auto.
    + left. simpl. apply in_or_app. right. apply in_or_app. auto.
    + left. simpl. apply in_or_app. right. apply in_or_app. auto.
    + right. exact G.
  - intros l y e b els Hb He k x H. rewrite live_s_for in H. apply in_app_or in H. destruct H as [H|H].
    + left. simpl. right. apply in_or_app. auto.
    + unfold live_for, live_for_gen in H.
      assert (G : In x (reads b) \/ In x (reads els) \/ In x (kn k) \/ In x (kb k) \/ In x (kc k)).
      { eapply (iter_inv (fun x => In x (reads b) \/ In x (reads els) \/ In x (kn k) \/ In x (kb k) \/ In x (kc k))); [| | exact H].
        - intros z Hz. apply He in Hz. destruct Hz as [Hz|[Hz|[Hz|Hz]]]; auto 6.
        - intros Y HY z Hz. unfold for_step in Hz. apply in_app_or in Hz. destruct Hz as [Hz|Hz].
          + apply He in Hz. destruct Hz as [Hz|[Hz|[Hz|Hz]]]; auto 6.
          + apply In_remove in Hz. destruct Hz as [Hz _].
            apply Hb in Hz. simpl in Hz. destruct Hz as [Hz|[Hz|[Hz|Hz]]]; auto 6. }
      destruct G as [G|[G|G]].
      * left. simpl. right. apply in_or_app. right. apply in_or_app. auto.
      * left. simpl. right. apply in_or_app. right. apply in_or_app. auto.
      * right. exact G.
  - intros l e k x H. simpl in H. left. exact H.
  - intros l k x H. simpl in H. right. left. exact H.
  - intros l k x H. simpl in H. right. right. left. exact H.
  - intros l k x H. simpl in H. right. right. right. exact H.
  - intros l rets args body tail shared _ k x H. simpl in H. apply in_app_or in H.
    destruct H as [H|H]; [left; exact H | right; left; exact H].
  - intros k x H. simpl in H. right. left. exact H.
  - intros s r Hs Hr k x H. rewrite live_b_cons in H. apply Hs in H. rewrite reads_cons. simpl in H.
    destruct H as [H|[H|H]].
    + left. apply in_or_app. auto.
    + apply Hr in H. destruct H as [H|H]; [left; apply in_or_app; auto | right; exact H].
    + right. right. exact H.
Qed.

(* ------------------------------------------------------------------ after the region, kill discipline of f6cf806 *)
Lemma pnest_rv : forall sw lo hi x l s, pnest (read_var sw lo hi x l s) = pnest s.
Proof.
  intros. unfold read_var.
  destruct (in_reg lo hi l); [destruct (negb (mem x (wr s)) && _)|]; simpl;
    (destruct (N.ltb hi l); [match goal with |- context [if ?c then _ else _] => destruct c end|]; reflexivity).
Qed.

Lemma pnest_wv : forall sw lo hi x l s, pnest (written_var sw lo hi x l s) = pnest s.
Proof.
  intros. unfold written_var.
  repeat match goal with |- context [if ?c then _ else _] => destruct c end; reflexivity.
Qed.

Lemma pnest_ve : forall sw lo hi l e s, pnest (visit_e sw lo hi l e s) = pnest s.
Proof.
  intros sw lo hi l e. induction e as [x|z|o a IHa b IHb|v k IHk body IHbody]; intros s; simpl.
  - apply pnest_rv.
  - reflexivity.
  - rewrite IHb. apply IHa.
  - rewrite IHk, pnest_rv, pnest_wv, IHbody. destruct (sw_compiter sw); [rewrite IHk, pnest_rv|]; apply pnest_rv.
Qed.

Section After.
  Variables lo hi : N.
  Hypothesis LH : (lo <= hi)%N.

  Notation rv := (read_var current lo hi).
  Notation wv := (written_var current lo hi).
  Notation ve := (visit_e current lo hi).
  Notation vs := (visit_s current lo hi).
  Notation vb := (visit_b current lo hi).

  Lemma pnest_wv_after : forall x l s, (hi < l)%N -> pnest (wv x l s) = pnest s.
  Proof. intros x l s H. rewrite (wv_after_eq lo hi LH x l s H). destruct (Z.ltb 0 (pnest s)); reflexivity. Qed.

  Lemma sibling_after : forall l (b : list stmt), (hi < l)%N ->
    match b with [] => false | f :: _ => N.ltb l lo && N.ltb hi (line_of f) end = false.
  Proof.
    intros l b H. destruct b; [reflexivity|]. destruct (after_flags lo hi LH l H) as [_ [E _]]. rewrite E. reflexivity.
  Qed.

  (* the nesting counter is restored by every statement after the region *)
  Lemma pnest_post :
    (forall s st, all_gt hi (slines s) -> pnest (vs s st) = pnest st)
    /\ (forall ss st, all_gt hi (blines ss) -> pnest (vb ss st) = pnest st).
  Proof.
    apply (stmt_blk_ind
             (fun s => forall st, all_gt hi (slines s) -> pnest (vs s st) = pnest st)
             (fun ss => forall st, all_gt hi (blines ss) -> pnest (vb ss st) = pnest st)).
    - intros l x e st AG. assert (L : (hi < l)%N) by (apply AG; simpl; auto). simpl.
      rewrite pnest_wv_after by exact L. apply pnest_ve.
    - intros l x o e st AG. assert (L : (hi < l)%N) by (apply AG; simpl; auto). simpl.
      rewrite pnest_wv_after by exact L. rewrite pnest_rv. apply pnest_ve.
    - intros l e st AG. simpl. rewrite pnest_ve. apply pnest_rv.
    - intros l c a b Ha Hb st AG. assert (L : (hi < l)%N) by (apply AG; simpl; auto).
      assert (AGa : all_gt hi (blines a)) by (intros y Hy; apply AG; simpl; right; apply in_or_app; left; exact Hy).
      assert (AGb : all_gt hi (blines b)) by (intros y Hy; apply AG; simpl; right; apply in_or_app; right; exact Hy).
      simpl vs. rewrite (sibling_after l b L). destruct (after_flags lo hi LH l L) as [E1 [E2 E3]]. rewrite E3.
      unfold cond_exit, set_cond, nest_exit, nest_enter, cond_enter. rewrite E1. simpl.
      fold (vb a (ve l c (set_pnest (pnest st + 1)%Z st))).
      fold (vb b (vb a (ve l c (set_pnest (pnest st + 1)%Z st)))).
      rewrite Hb by exact AGb. rewrite Ha by exact AGa. rewrite pnest_ve. simpl. lia.
    - intros l c b e Hb He st AG. assert (L : (hi < l)%N) by (apply AG; simpl; auto).
      assert (AGb : all_gt hi (blines b)) by (intros y Hy; apply AG; simpl; right; apply in_or_app; left; exact Hy).
      assert (AGe : all_gt hi (blines e)) by (intros y Hy; apply AG; simpl; right; apply in_or_app; right; exact Hy).
      simpl vs. rewrite (sibling_after l e L). destruct (after_flags lo hi LH l L) as [E1 [E2 E3]]. rewrite E3.
      unfold loop_exit, cond_exit, set_cond, nest_exit, nest_enter, cond_enter, loop_enter. rewrite E1, E2. simpl.
      fold (vb b (ve l c (set_pnest (pnest st + 1)%Z st))).
      fold (vb e (vb b (ve l c (set_pnest (pnest st + 1)%Z st)))).
      rewrite He by exact AGe. rewrite Hb by exact AGb. rewrite pnest_ve. simpl. lia.
    - intros l x e b els Hb He st AG. assert (L : (hi < l)%N) by (apply AG; simpl; auto).
      assert (AGb : all_gt hi (blines b)) by (intros y Hy; apply AG; simpl; right; apply in_or_app; left; exact Hy).
      assert (AGe : all_gt hi (blines els)) by (intros y Hy; apply AG; simpl; right; apply in_or_app; right; exact Hy).
      simpl vs. destruct (after_flags lo hi LH l L) as [E1 [E2 E3]]. rewrite E3.
      unfold loop_exit, cond_exit, set_cond, nest_exit, nest_enter, cond_enter, loop_enter. rewrite E1, E2. simpl.
      match goal with |- context [fold_left _ b ?s0] => fold (vb b s0); fold (vb els (vb b s0)) end.
      rewrite He by exact AGe. rewrite Hb by exact AGb. rewrite pnest_wv_after by exact L. rewrite pnest_ve, pnest_rv. simpl. lia.
    - intros l e st AG. simpl. apply pnest_ve.
    - reflexivity.
    - reflexivity.
    - reflexivity.
    - intros l rets args body tail shared _ st AG. assert (L : (hi < l)%N) by (apply AG; simpl; auto). simpl.
      assert (G1 : forall xs s, pnest (fold_left (fun acc x => rv x l acc) xs s) = pnest s).
      { induction xs as [|y ys IH]; intros s; simpl; [reflexivity|]. rewrite IH. apply pnest_rv. }
      assert (G2 : forall xs s, pnest (fold_left (fun acc x => wv x l acc) xs s) = pnest s).
      { induction xs as [|y ys IH]; intros s; simpl; [reflexivity|]. rewrite IH. apply pnest_wv_after. exact L. }
      rewrite G2. apply G1.
    - reflexivity.
    - intros s r Hs Hr st AG. rewrite visit_b_cons.
      assert (AGs : all_gt hi (slines s)) by (intros y Hy; apply AG; unfold blines; simpl; apply in_or_app; auto).
      assert (AGr : all_gt hi (blines r)) by (intros y Hy; apply AG; unfold blines; simpl; apply in_or_app; auto).
      rewrite Hr by exact AGr. apply Hs. exact AGs.
  Qed.

  (* inside a compound statement after the region nothing is added to postwritten, so every name that is read
     there and is not yet postwritten becomes postread *)
  Definition nstep (Rd : list var) (st st' : cst) : Prop :=
    postwr st' = postwr st
    /\ (forall x, In x (postrd st) -> In x (postrd st'))
    /\ (forall x, In x Rd -> ~ In x (postwr st) -> In x (postrd st')).

  Lemma nstep_trans : forall R1 R2 a b c, nstep R1 a b -> nstep R2 b c -> nstep (R1 ++ R2) a c.
  Proof.
    intros R1 R2 a b c (A1 & A2 & A3) (B1 & B2 & B3). unfold nstep. repeat split; try congruence; auto.
    intros x Hx N1. apply in_app_or in Hx. destruct Hx as [Hx|Hx]; [apply B2; apply A3; assumption|].
    apply B3; [exact Hx | rewrite A1; exact N1].
  Qed.

  Lemma nstep_same6 : forall a b, same6 a b -> nstep [] a b.
  Proof.
    intros a b (H1 & H2 & H3 & H4 & H5 & H6). unfold nstep. repeat split; auto.
    - intros x Hx. rewrite H5. exact Hx.
    - intros x [].
  Qed.

  Lemma nstep_weaken : forall R R' a b, nstep R a b -> (forall x, In x R' -> In x R) -> nstep R' a b.
  Proof. intros R R' a b (A1 & A2 & A3) S. unfold nstep. repeat split; auto. Qed.

  Lemma nstep_rv : forall x l s, (hi < l)%N -> nstep [x] s (rv x l s).
  Proof.
    intros x l s H. destruct (after_flags lo hi LH l H) as [E1 [E2 E3]].
    unfold read_var. rewrite E1, E3. destruct (mem x (postwr s)) eqn:E; simpl; unfold nstep; simpl; repeat split; auto.
    - intros y [Hy|[]] N1. subst y. apply mem_In in E. contradiction.
    - intros y Hy. apply In_add. auto.
    - intros y [Hy|[]] _. subst y. apply In_add. auto.
  Qed.

  Lemma nstep_ve : forall l e s, nocomp_e e = true -> (hi < l)%N -> nstep (vars_e e) s (ve l e s).
  Proof.
    intros l e. induction e as [x|z|o a IHa b IHb|v k IHk body IHbody]; intros s NE H; simpl;
      [| | | simpl in NE; discriminate]; try (simpl in NE; apply andb_true_iff in NE; destruct NE as [NE1 NE2]).
    - apply nstep_rv. exact H.
    - apply nstep_same6. unfold same6. repeat split.
    - exact (nstep_trans _ _ _ _ _ (IHa s NE1 H) (IHb _ NE2 H)).
  Qed.

  Lemma nstep_wv_nested : forall x l s, (hi < l)%N -> (0 < pnest s)%Z -> nstep [] s (wv x l s).
  Proof.
    intros x l s H P. rewrite (wv_after_eq lo hi LH x l s H). apply Z.ltb_lt in P. rewrite P.
    apply nstep_same6. unfold same6. repeat split.
  Qed.

  Lemma nested_phase :
    (forall s st, nocall_s s = true -> nocomp_s s = true -> all_gt hi (slines s) -> (0 <= pnest st)%Z ->
        (0 < pnest st)%Z \/ compound s = true -> nstep (reads_s s) st (vs s st))
    /\ (forall ss st, nocall ss = true -> nocomp ss = true -> all_gt hi (blines ss) -> (0 < pnest st)%Z -> nstep (reads ss) st (vb ss st)).
  Proof.
    apply (stmt_blk_ind
             (fun s => forall st, nocall_s s = true -> nocomp_s s = true -> all_gt hi (slines s) -> (0 <= pnest st)%Z ->
                  (0 < pnest st)%Z \/ compound s = true -> nstep (reads_s s) st (vs s st))
             (fun ss => forall st, nocall ss = true -> nocomp ss = true -> all_gt hi (blines ss) -> (0 < pnest st)%Z -> nstep (reads ss) st (vb ss st))).
    - intros l x e st _ NE AG P0 [P|C]; [|discriminate]. assert (L : (hi < l)%N) by (apply AG; simpl; auto). simpl.
      eapply nstep_weaken; [exact (nstep_trans _ _ _ _ _ (nstep_ve l e st ltac:(assumption) L) (nstep_wv_nested x l _ L ltac:(rewrite pnest_ve; exact P))) |].
      intros y Hy. apply in_or_app. left. exact Hy.
    - intros l x o e st _ NE AG P0 [P|C]; [|discriminate]. assert (L : (hi < l)%N) by (apply AG; simpl; auto). simpl.
      eapply nstep_weaken;
        [exact (nstep_trans _ _ _ _ _ (nstep_trans _ _ _ _ _ (nstep_ve l e st ltac:(assumption) L) (nstep_rv x l _ L))
                            (nstep_wv_nested x l _ L ltac:(rewrite pnest_rv, pnest_ve; exact P))) |].
      intros y Hy. apply in_or_app. left. apply in_or_app. destruct Hy as [Hy|Hy]; [right; left; exact Hy | left; exact Hy].
    - intros l e st _ NE AG _ _. assert (L : (hi < l)%N) by (apply AG; simpl; auto). simpl.
      exact (nstep_trans _ _ _ _ _ (nstep_rv name_print l st L) (nstep_ve l e _ ltac:(assumption) L)).
    - (* if *)
      intros l c a b Ha Hb st NC NE AG P0 _. simpl in NE; repeat (let N := fresh "NE" in apply andb_true_iff in NE; destruct NE as [NE N]). assert (L : (hi < l)%N) by (apply AG; simpl; auto).
      simpl in NC. apply andb_true_iff in NC. destruct NC as [NCa NCb].
      assert (AGa : all_gt hi (blines a)) by (intros y Hy; apply AG; simpl; right; apply in_or_app; left; exact Hy).
      assert (AGb : all_gt hi (blines b)) by (intros y Hy; apply AG; simpl; right; apply in_or_app; right; exact Hy).
      simpl vs. rewrite (sibling_after l b L). destruct (after_flags lo hi LH l L) as [E1 [E2 E3]]. rewrite E3.
      set (prev := cond st).
      set (s1 := nest_enter true (cond_enter lo hi l st)).
      assert (P1 : pnest s1 = (pnest st + 1)%Z) by (unfold s1, cond_enter; rewrite E1; reflexivity).
      fold (vb a (ve l c s1)). set (s2 := vb a (ve l c s1)).
      unfold nest_enter at 1. unfold nest_exit at 2.
      fold (vb b s2). set (s3 := vb b s2).
      assert (T1 : nstep [] st s1).
      { eapply nstep_weaken; [exact (nstep_trans _ _ _ _ _ (nstep_same6 _ _ (same6_cond_enter lo hi l st)) (nstep_same6 _ _ (same6_nest_enter true _))) |]; simpl; auto. }
      assert (T2 : nstep (vars_e c ++ reads a) s1 s2).
      { refine (nstep_trans _ _ _ _ _ (nstep_ve l c s1 ltac:(assumption) L) (Ha _ NCa ltac:(assumption) AGa _)). rewrite pnest_ve, P1. lia. }
      assert (P2 : pnest s2 = (pnest st + 1)%Z).
      { unfold s2. rewrite (proj2 pnest_post a _ AGa). rewrite pnest_ve. exact P1. }
      assert (T3 : nstep (reads b) s2 s3) by (apply Hb; [exact NCb | assumption | exact AGb | rewrite P2; lia]).
      assert (T4 : nstep [] s3 (cond_exit current prev (nest_exit true s3))).
      { eapply nstep_weaken; [exact (nstep_trans _ _ _ _ _ (nstep_same6 _ _ (same6_nest_exit true s3)) (nstep_same6 _ _ (same6_cond_exit prev _))) |]; simpl; auto. }
      eapply nstep_weaken; [exact (nstep_trans _ _ _ _ _ (nstep_trans _ _ _ _ _ (nstep_trans _ _ _ _ _ T1 T2) T3) T4) |].
      intros y Hy. simpl. rewrite app_nil_r. rewrite <- app_assoc. exact Hy.
    - (* while *)
      intros l c b e Hb He st NC NE AG P0 _. simpl in NE; repeat (let N := fresh "NE" in apply andb_true_iff in NE; destruct NE as [NE N]). assert (L : (hi < l)%N) by (apply AG; simpl; auto).
      simpl in NC. apply andb_true_iff in NC. destruct NC as [NCb NCe].
      assert (AGb : all_gt hi (blines b)) by (intros y Hy; apply AG; simpl; right; apply in_or_app; left; exact Hy).
      assert (AGe : all_gt hi (blines e)) by (intros y Hy; apply AG; simpl; right; apply in_or_app; right; exact Hy).
      simpl vs. rewrite (sibling_after l e L). destruct (after_flags lo hi LH l L) as [E1 [E2 E3]]. rewrite E3.
      set (prev := cond st).
      set (s1 := nest_enter true (cond_enter lo hi l (loop_enter lo l st))).
      assert (P1 : pnest s1 = (pnest st + 1)%Z) by (unfold s1, cond_enter, loop_enter; rewrite E1, E2; reflexivity).
      fold (vb b (ve l c s1)). set (s2 := vb b (ve l c s1)).
      unfold nest_enter at 1. unfold nest_exit at 2.
      fold (vb e s2). set (s3 := vb e s2).
      assert (T1 : nstep [] st s1).
      { eapply nstep_weaken;
          [exact (nstep_trans _ _ _ _ _ (nstep_trans _ _ _ _ _ (nstep_same6 _ _ (same6_loop_enter lo l st))
                                          (nstep_same6 _ _ (same6_cond_enter lo hi l _))) (nstep_same6 _ _ (same6_nest_enter true _))) |];
          simpl; auto. }
      assert (T2 : nstep (vars_e c ++ reads b) s1 s2).
      { refine (nstep_trans _ _ _ _ _ (nstep_ve l c s1 ltac:(assumption) L) (Hb _ NCb ltac:(assumption) AGb _)). rewrite pnest_ve, P1. lia. }
      assert (P2 : pnest s2 = (pnest st + 1)%Z).
      { unfold s2. rewrite (proj2 pnest_post b _ AGb). rewrite pnest_ve. exact P1. }
      assert (T3 : nstep (reads e) s2 s3) by (apply He; [exact NCe | assumption | exact AGe | rewrite P2; lia]).
      assert (T4 : nstep [] s3 (loop_exit current lo l (cond_exit current prev (nest_exit true s3)))).
      { eapply nstep_weaken;
          [exact (nstep_trans _ _ _ _ _ (nstep_trans _ _ _ _ _ (nstep_same6 _ _ (same6_nest_exit true s3))
                                          (nstep_same6 _ _ (same6_cond_exit prev _))) (nstep_same6 _ _ (same6_loop_exit lo l _))) |];
          simpl; auto. }
      eapply nstep_weaken; [exact (nstep_trans _ _ _ _ _ (nstep_trans _ _ _ _ _ (nstep_trans _ _ _ _ _ T1 T2) T3) T4) |].
      intros y Hy. simpl. rewrite app_nil_r. rewrite <- app_assoc. exact Hy.
    - (* for *)
      intros l x e b els Hb He st NC NE AG P0 _. simpl in NE; repeat (let N := fresh "NE" in apply andb_true_iff in NE; destruct NE as [NE N]). assert (L : (hi < l)%N) by (apply AG; simpl; auto).
      simpl in NC. apply andb_true_iff in NC. destruct NC as [NCb NCe].
      assert (AGb : all_gt hi (blines b)) by (intros y Hy; apply AG; simpl; right; apply in_or_app; left; exact Hy).
      assert (AGe : all_gt hi (blines els)) by (intros y Hy; apply AG; simpl; right; apply in_or_app; right; exact Hy).
      simpl vs. destruct (after_flags lo hi LH l L) as [E1 [E2 E3]]. rewrite E3.
      set (prev := cond st).
      set (s1 := nest_enter true (cond_enter lo hi l (loop_enter lo l st))).
      assert (P1 : pnest s1 = (pnest st + 1)%Z) by (unfold s1, cond_enter, loop_enter; rewrite E1, E2; reflexivity).
      set (s2 := wv x l (ve l e (rv name_range l s1))).
      fold (vb b s2). fold (vb els (vb b s2)). set (s3 := vb els (vb b s2)).
      assert (Pe : pnest (ve l e (rv name_range l s1)) = (pnest st + 1)%Z) by (rewrite pnest_ve, pnest_rv; exact P1).
      assert (T1 : nstep [] st s1).
      { eapply nstep_weaken;
          [exact (nstep_trans _ _ _ _ _ (nstep_trans _ _ _ _ _ (nstep_same6 _ _ (same6_loop_enter lo l st))
                                          (nstep_same6 _ _ (same6_cond_enter lo hi l _))) (nstep_same6 _ _ (same6_nest_enter true _))) |];
          simpl; auto. }
      assert (T2 : nstep (name_range :: vars_e e) s1 s2).
      { eapply nstep_weaken;
          [exact (nstep_trans _ _ _ _ _ (nstep_trans _ _ _ _ _ (nstep_rv name_range l s1 L) (nstep_ve l e _ ltac:(assumption) L))
                              (nstep_wv_nested x l _ L ltac:(rewrite Pe; lia))) |].
        intros y Hy. rewrite app_nil_r. exact Hy. }
      assert (P2 : pnest s2 = (pnest st + 1)%Z) by (unfold s2; rewrite pnest_wv_after by exact L; exact Pe).
      assert (P3 : pnest (vb b s2) = (pnest st + 1)%Z) by (rewrite (proj2 pnest_post b _ AGb); exact P2).
      assert (T3 : nstep (reads b ++ reads els) s2 s3).
      { refine (nstep_trans _ _ _ _ _ (Hb _ NCb ltac:(assumption) AGb _) (He _ NCe ltac:(assumption) AGe _)); [rewrite P2; lia | rewrite P3; lia]. }
      assert (T4 : nstep [] s3 (loop_exit current lo l (cond_exit current prev (nest_exit true s3)))).
      { eapply nstep_weaken;
          [exact (nstep_trans _ _ _ _ _ (nstep_trans _ _ _ _ _ (nstep_same6 _ _ (same6_nest_exit true s3))
                                          (nstep_same6 _ _ (same6_cond_exit prev _))) (nstep_same6 _ _ (same6_loop_exit lo l _))) |];
          simpl; auto. }
      eapply nstep_weaken; [exact (nstep_trans _ _ _ _ _ (nstep_trans _ _ _ _ _ (nstep_trans _ _ _ _ _ T1 T2) T3) T4) |].
      intros y Hy. simpl. rewrite app_nil_r. simpl in Hy. destruct Hy as [Hy|Hy]; [left; exact Hy | right; exact Hy].
    - intros l e st _ NE AG _ _. assert (L : (hi < l)%N) by (apply AG; simpl; auto). simpl. apply nstep_ve; assumption.
    - intros l st _ _ _ _ _. simpl. apply nstep_same6. unfold same6. repeat split.
    - intros l st _ _ _ _ _. simpl. apply nstep_same6. unfold same6. repeat split.
    - intros l st _ _ _ _ _. simpl. apply nstep_same6. unfold same6. repeat split.
    - intros l rets args body tail shared _ st NC. simpl in NC. discriminate.
    - intros st _ _ _ _. apply nstep_same6. unfold same6. repeat split.
    - intros s r Hs Hr st NC NE AG P. simpl in NE; repeat (let N := fresh "NE" in apply andb_true_iff in NE; destruct NE as [NE N]). rewrite nocall_cons in NC. apply andb_true_iff in NC. destruct NC as [NCs NCr].
      rewrite visit_b_cons.
      assert (AGs : all_gt hi (slines s)) by (intros y Hy; apply AG; unfold blines; simpl; apply in_or_app; auto).
      assert (AGr : all_gt hi (blines r)) by (intros y Hy; apply AG; unfold blines; simpl; apply in_or_app; auto).
      refine (nstep_trans _ _ _ _ _ (Hs st NCs ltac:(assumption) AGs ltac:(lia) (or_introl P)) (Hr _ NCr ltac:(assumption) AGr _)).
      rewrite (proj1 pnest_post s st AGs). exact P.
  Qed.

  (* the statements that follow the region at the top level of the function body: every name live at their
     entry that is not yet postwritten becomes postread *)
  Lemma post_top : forall ss st x,
    nocall ss = true -> nocomp ss = true -> all_gt hi (blines ss) -> pnest st = 0%Z ->
    In x (live_b ss k0) -> ~ In x (postwr st) -> In x (postrd (vb ss st)).
  Proof.
    induction ss as [|s r IH]; intros st x NC NCM AG P Hl Hn.
    - simpl in Hl. contradiction.
    - rewrite nocall_cons in NC. apply andb_true_iff in NC. destruct NC as [NCs NCr].
      simpl in NCM. apply andb_true_iff in NCM. destruct NCM as [NEs NEr]. fold (nocomp r) in NEr.
      assert (AGs : all_gt hi (slines s)) by (intros y Hy; apply AG; unfold blines; simpl; apply in_or_app; auto).
      assert (AGr : all_gt hi (blines r)) by (intros y Hy; apply AG; unfold blines; simpl; apply in_or_app; auto).
      rewrite visit_b_cons. rewrite live_b_cons in Hl. simpl kb in Hl. simpl kc in Hl.
      assert (Pr : pnest (vs s st) = 0%Z) by (rewrite (proj1 pnest_post s st AGs); exact P).
      assert (MONO : forall y, In y (postrd (vs s st)) -> In y (postrd (vb r (vs s st)))).
      { intros y Hy. destruct (proj2 (post_phase lo hi LH) r (vs s st) NCr NEr AGr) as (_ & _ & _ & _ & M & _). apply M. exact Hy. }
      (* either the statement itself reads x first, or x is live after it and still not postwritten *)
      assert (G : In x (postrd (vs s st)) \/ (In x (live_b r k0) /\ ~ In x (postwr (vs s st)))).
      { destruct (compound s) eqn:CS.
        - destruct (proj1 nested_phase s st NCs NEs AGs ltac:(lia) (or_intror CS)) as (N1 & N2 & N3).
          destruct (proj1 live_reads s _ x Hl) as [R|[R|[R|R]]]; simpl in R; try contradiction.
          + left. apply N3; assumption.
          + right. split; [exact R | rewrite N1; exact Hn].
        - assert (L : (hi < line_of s)%N) by (apply AGs; apply line_in_slines).
          destruct s; try discriminate; simpl line_of in L; simpl in Hl; simpl vs.
          + (* assign *)
            apply in_app_or in Hl. destruct Hl as [Hl|Hl].
            * left. destruct (wv_after lo hi LH x0 l (ve l e st) L) as (_ & _ & _ & _ & M & _). apply M.
              destruct (nstep_ve l e st ltac:(assumption) L) as (_ & _ & N3). apply N3; assumption.
            * apply In_remove in Hl. destruct Hl as [Hl Hne]. right. split; [exact Hl|].
              destruct (wv_after lo hi LH x0 l (ve l e st) L) as (_ & _ & _ & _ & _ & W & _).
              intros Hp. apply W in Hp. destruct Hp as [Hp|[Hp|[]]]; [|congruence].
              destruct (nstep_ve l e st ltac:(assumption) L) as (N1 & _). rewrite N1 in Hp. contradiction.
          + (* aug *)
            assert (RD : In x (x0 :: vars_e e) -> In x (postrd (wv x0 l (rv x0 l (ve l e st))))).
            { intros Hx. destruct (wv_after lo hi LH x0 l (rv x0 l (ve l e st)) L) as (_ & _ & _ & _ & M & _). apply M.
              destruct (nstep_trans _ _ _ _ _ (nstep_ve l e st ltac:(assumption) L) (nstep_rv x0 l _ L)) as (_ & _ & N3).
              apply N3; [|exact Hn]. apply in_or_app. destruct Hx as [Hx|Hx]; [right; left; exact Hx | left; exact Hx]. }
            destruct Hl as [Hl|Hl]; [left; apply RD; left; exact Hl|].
            apply in_app_or in Hl. destruct Hl as [Hl|Hl]; [left; apply RD; right; exact Hl|].
            destruct (N.eq_dec x x0) as [Eq|Ne]; [left; apply RD; left; auto|].
            right. split; [exact Hl|].
            destruct (wv_after lo hi LH x0 l (rv x0 l (ve l e st)) L) as (_ & _ & _ & _ & _ & W & _).
            intros Hp. apply W in Hp. destruct Hp as [Hp|[Hp|[]]]; [|congruence].
            destruct (nstep_trans _ _ _ _ _ (nstep_ve l e st ltac:(assumption) L) (nstep_rv x0 l _ L)) as (N1 & _). rewrite N1 in Hp. contradiction.
          + (* print *)
            destruct (nstep_trans _ _ _ _ _ (nstep_rv name_print l st L) (nstep_ve l e _ ltac:(assumption) L)) as (N1 & _ & N3).
            apply in_app_or in Hl. destruct Hl as [Hl|Hl].
            * left. apply N3; [right; exact Hl | exact Hn].
            * right. split; [exact Hl | rewrite N1; exact Hn].
          + (* return *)
            left. destruct (nstep_ve l e st ltac:(assumption) L) as (_ & _ & N3). apply N3; assumption.
          + (* pass *) right. split; [exact Hl | exact Hn].
          + contradiction.
          + contradiction. }
      destruct G as [G|[G1 G2]]; [apply MONO; exact G|].
      apply IH; assumption.
  Qed.
End After.

(* ------------------------------------------------------------------ straight-line regions *)
Lemma straight_facts : forall R, straight R = true ->
  mustd R = defs R /\ nocall R = true /\ (forall k, conv_b R k = true).
Proof.
  induction R as [|s R IH]; intros H.
  - repeat split.
  - simpl in H. apply andb_true_iff in H. destruct H as [Hs HR]. destruct (IH HR) as [I1 [I2 I3]].
    split; [|split].
    + change (mustd (s :: R)) with (mustd_s s ++ mustd R). change (defs (s :: R)) with (defs_s s ++ defs R).
      rewrite I1. destruct s; try discriminate; reflexivity.
    + rewrite nocall_cons, I2. destruct s; try discriminate; reflexivity.
    + intros k. rewrite conv_b_cons. rewrite I3. destruct s; try discriminate; reflexivity.
Qed.

Lemma In_args_of : forall s x,
  In x (args_of current false s) <->
  (In x (prew s) /\ In x (rd s))
  \/ (In x (prew s) /\ In x (postrd s) /\ In x (mayw s) /\ ~ In x (wr s)).
Proof.
  intros s x. unfold args_of. simpl. rewrite In_fold_add. rewrite !filter_In.
  unfold diff. rewrite filter_In. rewrite andb_true_iff. rewrite !mem_In. rewrite negb_true_iff. rewrite mem_false.
  tauto.
Qed.

Lemma In_rets_of : forall s x,
  In x (rets_of false s) <-> In x (postrd s) /\ (In x (wr s) \/ In x (mayw s)).
Proof.
  intros s x. unfold rets_of. rewrite filter_In. rewrite orb_true_iff. rewrite !mem_In. tauto.
Qed.

Lemma init_phase : forall lo hi params, (1 < lo)%N -> (lo <= hi)%N ->
  let s0 := fold_left (fun acc p => written_var current lo hi p 1%N acc) params cst0 in
  cond s0 = false /\ depth s0 = 0%Z /\ rd s0 = [] /\ wr s0 = [] /\ mayw s0 = [] /\ postrd s0 = [] /\ postwr s0 = []
  /\ (forall x, In x (prew s0) <-> In x params) /\ pnest s0 = 0%Z.
Proof.
  intros lo hi params L1 LH.
  assert (PN : forall ps st, pnest (fold_left (fun acc p => written_var current lo hi p 1%N acc) ps st) = pnest st).
  { induction ps as [|p ps IH]; intros st; simpl; [reflexivity|]. rewrite IH. rewrite (wv_before lo hi LH p 1%N st L1). reflexivity. }
  assert (G : forall ps st, cond st = false -> depth st = 0%Z -> rd st = [] -> wr st = [] -> mayw st = [] ->
                            postrd st = [] -> postwr st = [] ->
              let s0 := fold_left (fun acc p => written_var current lo hi p 1%N acc) ps st in
              cond s0 = false /\ depth s0 = 0%Z /\ rd s0 = [] /\ wr s0 = [] /\ mayw s0 = [] /\ postrd s0 = [] /\ postwr s0 = []
              /\ (forall x, In x (prew s0) <-> In x (prew st) \/ In x ps)).
  { induction ps as [|p ps IH]; intros st H1 H2 H3 H4 H5 H6 H7; simpl.
    - repeat split; auto. intros [?|[]]; assumption.
    - rewrite (wv_before lo hi LH p 1%N st L1).
      set (st1 := {| prew := add p (prew st); mayw := mayw st; wr := wr st; rd := rd st; postrd := postrd st;
                     postwr := postwr st; cond := cond st; depth := depth st; pnest := pnest st |}).
      destruct (IH st1 H1 H2 H3 H4 H5 H6 H7) as (A1 & A2 & A3 & A4 & A5 & A6 & A7 & A8).
      repeat split; auto.
      + intros H. apply A8 in H. unfold st1 in H. simpl in H. rewrite In_add in H. intuition.
      + intros H. apply A8. unfold st1. simpl. rewrite In_add. intuition. }
  destruct (G params cst0 eq_refl eq_refl eq_refl eq_refl eq_refl eq_refl eq_refl) as (A1 & A2 & A3 & A4 & A5 & A6 & A7 & A8).
  repeat split; auto.
  - intros H. apply A8 in H. simpl in H. tauto.
  - intros H. apply A8. auto.
  - rewrite PN. reflexivity.
Qed.

Lemma forallb_In : forall {A} (f : A -> bool) l, forallb f l = true -> forall x, In x l -> f x = true.
Proof. intros A f l H. apply forallb_forall. exact H. Qed.

(* ------------------------------------------------------------------ the collector is sufficient on side_C03 *)
Theorem collector_sufficient : forall params pre R post,
  side_C03 params pre R post = true ->
  let lc := LHere pre R post in
  accepted (region lc) = true
  /\ outline_ok lc params (args_rope current false params lc) (rets_rope current false params lc) false = true.
Proof.
  intros params pre R post H lc.
  unfold side_C03 in H.
  repeat (apply andb_true_iff in H; let H' := fresh "S" in destruct H as [H H']).
  rename H into SR. rename S10 into ACC. rename S9 into NCpre. rename S8 into NCpost.
  rename S7 into NMpre. rename S6 into NMR. rename S5 into NMpost. rename S4 into L1.
  rename S3 into LPRE. rename S2 into LR. rename S1 into LPOST. rename S0 into DEFPRE. rename S into CV.
  split; [exact ACC|].
  set (lo := first_line R) in *. set (hi := last_line R) in *.
  apply N.ltb_lt in L1.
  assert (RNE : R <> []) by (intro E; subst R; simpl in ACC; discriminate).
  assert (LH : (lo <= hi)%N).
  { destruct R as [|s0 R0]; [contradiction|].
    pose proof (forallb_In _ _ LR s0 (or_introl eq_refl)) as Q. apply andb_true_iff in Q. destruct Q as [Q1 Q2].
    apply N.leb_le in Q1. apply N.leb_le in Q2. lia. }
  assert (AL : all_lt lo (blines pre)).
  { intros l Hl. apply N.ltb_lt. exact (forallb_In _ _ LPRE l Hl). }
  assert (AI : all_in lo hi R).
  { intros s Hs. pose proof (forallb_In _ _ LR s Hs) as Q. apply andb_true_iff in Q. destruct Q as [Q1 Q2].
    apply N.leb_le in Q1. apply N.leb_le in Q2. auto. }
  assert (AG : all_gt hi (blines post)).
  { intros l Hl. apply N.ltb_lt. exact (forallb_In _ _ LPOST l Hl). }
  destruct (straight_facts R SR) as [MD [NCR CVR]].
  (* the collector's run, phase by phase *)
  set (s0 := fold_left (fun acc p => written_var current lo hi p 1%N acc) params cst0).
  destruct (init_phase lo hi params L1 LH) as (I1 & I2 & I3 & I4 & I5 & I6 & I7 & I8 & I9). fold s0 in I1, I2, I3, I4, I5, I6, I7, I8, I9.
  set (s1 := visit_b current lo hi pre s0).
  pose proof (proj2 (pre_phase lo hi LH) pre s0 NCpre NMpre AL I1) as P1. fold s1 in P1.
  destruct P1 as (P1 & P2 & P3 & P4 & P5 & P6 & P7 & P8 & P9).
  assert (F1 : flat s1) by (split; [exact P1 | rewrite P2, I2; lia]).
  set (s2 := visit_b current lo hi R s1).
  destruct (region_phase lo hi R s1 k0 SR NMR AI F1) as [Q1 [Q2 Q3]]. fold s2 in Q1, Q2, Q3.
  destruct Q1 as (Q10 & Q11 & Q12 & Q13 & Q14 & Q15 & Q16 & Q17 & Q18).
  set (s3 := visit_b current lo hi post s2).
  pose proof (proj2 (post_phase lo hi LH) post s2 NCpost NMpost AG) as T. fold s3 in T.
  destruct T as (T1 & T2 & T3 & T4 & T5 & T6 & T7).
  assert (CL : collect_loc current false params lc = s3).
  { unfold collect_loc, collect, lc. simpl region. fold lo hi. unfold orig. simpl plug.
    rewrite !visit_b_app. reflexivity. }
  (* membership facts about the final state *)
  assert (PREW : forall x, In x (prew s3) <-> In x params \/ In x (defs pre)).
  { intros x. rewrite T1, Q11. rewrite P9. rewrite I8. tauto. }
  assert (MAYW : mayw s3 = []) by (rewrite T4, Q12, P6; exact I5).
  assert (WR : forall x, In x (wr s3) <-> In x (defs R)).
  { intros x. rewrite T3. rewrite Q2. rewrite P5, I4. simpl. tauto. }
  assert (RD : forall x, In x (live_b R k0) -> In x (rd s3)).
  { intros x Hx. rewrite T2. destruct (Q3 x Hx) as [G|G]; [rewrite P5, I4; reflexivity | exact G | simpl in G; contradiction]. }
  assert (PRD : forall x, In x (defs R) -> In x (live_b post k0) -> In x (postrd s3)).
  { intros x Hd Hl. apply (post_top lo hi LH post s2 x NCpost NMpost AG); [| exact Hl |].
    - rewrite Q15, P3. exact I9.
    - rewrite Q14, P8, I7. simpl. tauto. }
  (* the hypotheses of the outlining lemma *)
  unfold outline_ok, c_shape, c_args_cover, c_args_bound, c_rets_cover, c_rets_bound.
  unfold args_rope, rets_rope. rewrite CL. simpl region. simpl hole_info.
  assert (NCall : nocall (orig lc) = true).
  { unfold lc, orig. simpl. rewrite !nocall_app. rewrite NCpre, NCR, NCpost. reflexivity. }
  assert (CVo : conv_b (orig lc) k0 = true) by exact CV.
  rewrite (accepted_no_escape R ACC), NCall, CVo, (CVR k0). simpl andb.
  apply andb_true_iff. split; [apply andb_true_iff; split; [apply andb_true_iff; split|]|].
  - (* C1 *)
    apply subset_In. intros x Hx. apply In_inter in Hx. destruct Hx as [Hn Hm]. unfold need in Hn.
    apply In_args_of. left. split.
    + apply PREW. apply in_app_or in Hm. exact Hm.
    + apply RD. exact Hn.
  - (* C2 *)
    apply subset_In. intros x Hx. apply In_args_of in Hx. destruct Hx as [[Hp _]|[Hp _]];
      apply PREW in Hp; (destruct Hp as [Hp|Hp]; [apply in_or_app; left; exact Hp | exact (proj1 (subset_In _ _) DEFPRE x Hp)]).
  - (* C3 *)
    destruct (returns_last R) eqn:TL; [reflexivity|]. simpl. apply subset_In. intros x Hx. apply In_inter in Hx.
    destruct Hx as [Hd Hl]. apply In_rets_of. split; [apply PRD; assumption | left; apply WR; exact Hd].
  - (* C4 *)
    destruct (returns_last R) eqn:TL; [reflexivity|]. simpl. apply subset_In. intros x Hx. apply In_rets_of in Hx.
    destruct Hx as [_ [Hw|Hm]].
    + apply in_or_app. left. rewrite MD. apply WR. exact Hw.
    + rewrite MAYW in Hm. contradiction.
Qed.
