(* C03 — the on-a-word refusal condition said with the characters around the two borders of the selection. *)
From Coq Require Import List NArith Bool Arith.
From RopeVerif.C03 Require Import OneLine.
Import ListNotations.

Lemma on_a_word_spec : forall alnum src off,
  on_a_word alnum src off = word_at alnum src off && word_at alnum src (S off).
Proof.
  intros. unfold on_a_word, word_at.
  destruct (nth_error src off); destruct (nth_error src (S off)); simpl; try reflexivity.
  - rewrite andb_false_r. reflexivity.
Qed.

(* a selection is refused as "on a word" exactly when one of its two borders lies strictly inside a maximal
   run of word characters *)
Lemma region_on_a_word_spec : forall alnum src start stop,
  0 < stop ->
  region_on_a_word alnum src start stop = cuts_border alnum src start || cuts_border alnum src stop.
Proof.
  intros alnum src start stop H. unfold region_on_a_word, cuts_border. rewrite !on_a_word_spec.
  destruct start as [|s].
  - simpl. destruct stop as [|t]; [inversion H|]. simpl. rewrite Nat.sub_0_r. reflexivity.
  - destruct stop as [|t]; [inversion H|]. simpl. rewrite !Nat.sub_0_r. reflexivity.
Qed.

