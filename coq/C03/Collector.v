(* C03 — model of rope/refactor/extract.py on the Flow fragment:
   _FunctionInformationCollector (visitor for visitor, with the exact set/reset discipline of the
   `conditional` flag and of `loop_depth`), the args/returns formulas of _ExtractMethodParts, the refusal
   conditions of _ExceptionalConditionChecker that can fire on complete statement ranges, and the
   resulting program.

   The three places where the discipline of the code is suspect are switchable, so that the code as it
   is (all switches false) and a repaired discipline can both be evaluated:
     sw_restore   leaving an if/while/for restores the previous value of `conditional` (the code sets False)
     sw_balanced  leaving a loop decrements loop_depth only if entering it incremented it (the code always does)
     sw_killnest  a write after the region kills later reads only if it is not nested in a compound
                  statement that starts after the region nor in the else-branch of an `if` whose body
                  holds the region (the code: every textually later write kills)
     sw_readmaybe a read inside a conditional counts even if the name is already in maybe_written (the code
                  drops it, also when the conditional write happened in an earlier, finished statement)
     sw_loopall   inside a loop that starts before the region every name written in the region is treated
                  as read afterwards (the code: only names the region read before writing them)
     sw_globalargs module level: pass read & (written | maybe_written) (the code: read & postread & written)
     sw_loopprew  a write in or after the region but inside a loop that encloses the region also counts as
                  prewritten: it reaches the region in the next iteration (the code: only textually earlier
                  writes)
     sw_compiter  the iterable of a comprehension is visited (in the enclosing scope) before the snapshot of
                  read / written / maybe_written is taken, so that a read of an outer name that is spelled like
                  the comprehension's loop variable survives `read - comp_names | read` (the code: it is lost) *)
From Coq Require Import List NArith ZArith Bool.
From RopeVerif.C03 Require Import Flow.
Import ListNotations.

Record switches := { sw_restore : bool; sw_balanced : bool; sw_killnest : bool;
                      sw_readmaybe : bool; sw_loopall : bool; sw_globalargs : bool; sw_loopprew : bool;
                      sw_compiter : bool }.
Definition as_is : switches :=
  {| sw_restore := false; sw_balanced := false; sw_killnest := false;
     sw_readmaybe := false; sw_loopall := false; sw_globalargs := false; sw_loopprew := false;
     sw_compiter := false |}.

(* OrderedSets are lists in insertion order *)
Record cst := {
  prew : list var; mayw : list var; wr : list var; rd : list var; postrd : list var; postwr : list var;
  cond : bool; depth : Z; pnest : Z
}.
Definition cst0 : cst :=
  {| prew := []; mayw := []; wr := []; rd := []; postrd := []; postwr := []; cond := false; depth := 0%Z; pnest := 0%Z |}.

Definition name_print : var := 0%N.
Definition name_range : var := 1%N.
Definition name_sum : var := 11%N.

Definition line_of (s : stmt) : N :=
  match s with
  | SAssign l _ _ | SAug l _ _ _ | SPrint l _ | SIf l _ _ _ | SWhile l _ _ _ | SFor l _ _ _ _
  | SReturn l _ | SPass l | SBreak l | SContinue l | SCall l _ _ _ _ _ => l
  end.

Section Collect.
  Variable sw : switches.
  Variables lo hi : N.                                     (* self.start, self.end *)

  Definition in_reg (l : N) : bool := N.leb lo l && N.leb l hi.

  (* _read_variable *)
  Definition read_var (x : var) (l : N) (s : cst) : cst :=
    let s1 :=
      if in_reg l then
        if negb (mem x (wr s)) && (sw_readmaybe sw || negb (cond s) || negb (mem x (mayw s))) then
          {| prew := prew s; mayw := mayw s; wr := wr s; rd := add x (rd s); postrd := postrd s;
             postwr := postwr s; cond := cond s; depth := depth s; pnest := pnest s |}
        else s
      else s in
    if N.ltb hi l then
      if negb (mem x (postwr s1)) then
        {| prew := prew s1; mayw := mayw s1; wr := wr s1; rd := rd s1; postrd := add x (postrd s1);
           postwr := postwr s1; cond := cond s1; depth := depth s1; pnest := pnest s1 |}
      else s1
    else s1.

  (* _written_variable *)
  Definition written_var (x : var) (l : N) (s : cst) : cst :=
    let s1 :=
      if in_reg l then
        let s' :=
          if cond s then
            {| prew := prew s; mayw := add x (mayw s); wr := wr s; rd := rd s; postrd := postrd s;
               postwr := postwr s; cond := cond s; depth := depth s; pnest := pnest s |}
          else
            {| prew := prew s; mayw := mayw s; wr := add x (wr s); rd := rd s; postrd := postrd s;
               postwr := postwr s; cond := cond s; depth := depth s; pnest := pnest s |} in
        let s'' :=
          if Z.ltb 0 (depth s') && (sw_loopall sw || mem x (rd s')) then
            {| prew := prew s'; mayw := mayw s'; wr := wr s'; rd := rd s'; postrd := add x (postrd s');
               postwr := postwr s'; cond := cond s'; depth := depth s'; pnest := pnest s' |}
          else s' in
        if sw_loopprew sw && Z.ltb 0 (depth s'') then
          {| prew := add x (prew s''); mayw := mayw s''; wr := wr s''; rd := rd s''; postrd := postrd s'';
             postwr := postwr s''; cond := cond s''; depth := depth s''; pnest := pnest s'' |}
        else s''
      else s in
    let s2 :=
      if N.ltb l lo then
        {| prew := add x (prew s1); mayw := mayw s1; wr := wr s1; rd := rd s1; postrd := postrd s1;
           postwr := postwr s1; cond := cond s1; depth := depth s1; pnest := pnest s1 |}
      else s1 in
    if N.ltb hi l then
      let s3 :=
        if sw_loopprew sw && Z.ltb 0 (depth s2) then
          {| prew := add x (prew s2); mayw := mayw s2; wr := wr s2; rd := rd s2; postrd := postrd s2;
             postwr := postwr s2; cond := cond s2; depth := depth s2; pnest := pnest s2 |}
        else s2 in
      if sw_killnest sw && Z.ltb 0 (pnest s3) then s3
      else
        {| prew := prew s3; mayw := mayw s3; wr := wr s3; rd := rd s3; postrd := postrd s3;
           postwr := add x (postwr s3); cond := cond s3; depth := depth s3; pnest := pnest s3 |}
    else s2.

  Definition set_cond (b : bool) (s : cst) : cst :=
    {| prew := prew s; mayw := mayw s; wr := wr s; rd := rd s; postrd := postrd s; postwr := postwr s;
       cond := b; depth := depth s; pnest := pnest s |}.
  Definition set_depth (d : Z) (s : cst) : cst :=
    {| prew := prew s; mayw := mayw s; wr := wr s; rd := rd s; postrd := postrd s; postwr := postwr s;
       cond := cond s; depth := d; pnest := pnest s |}.
  Definition set_pnest (d : Z) (s : cst) : cst :=
    {| prew := prew s; mayw := mayw s; wr := wr s; rd := rd s; postrd := postrd s; postwr := postwr s;
       cond := cond s; depth := depth s; pnest := d |}.

  (* generic_visit over an expression: names left to right *)
  Fixpoint visit_e (l : N) (e : expr) (s : cst) : cst :=
    match e with
    | EVar x => read_var x l s
    | EConst _ => s
    | EBin _ a b => visit_e l b (visit_e l a s)
    | EComp v k b =>
        (* Call(Name sum, [ListComp | GeneratorExp]): func, then _comp_exp: snapshot read / written / maybe_written,
           visit elt, then the generator (target as a write, then range and its argument), then
           set = (set - [v]) | snapshot for the three sets (prewritten / postread / postwritten are NOT restored) *)
        let s00 := read_var name_sum l s in
        let s0 := if sw_compiter sw then visit_e l k (read_var name_range l s00) else s00 in
        let s3 := visit_e l k (read_var name_range l (written_var v l (visit_e l b s0))) in
        {| prew := prew s3;
           mayw := fold_left (fun acc x => add x acc) (mayw s0) (remove v (mayw s3));
           wr := fold_left (fun acc x => add x acc) (wr s0) (remove v (wr s3));
           rd := fold_left (fun acc x => add x acc) (rd s0) (remove v (rd s3));
           postrd := postrd s3; postwr := postwr s3; cond := cond s3; depth := depth s3; pnest := pnest s3 |}
    end.

  (* _handle_conditional_context *)
  Definition cond_enter (l : N) (s : cst) : cst := if in_reg l then set_cond true s else s.
  Definition cond_exit (prev : bool) (s : cst) : cst :=
    set_cond (if sw_restore sw then prev else false) s.
  (* _handle_loop_context *)
  Definition loop_enter (l : N) (s : cst) : cst :=
    if N.ltb l lo then set_depth (depth s + 1)%Z s else s.
  Definition loop_exit (l : N) (s : cst) : cst :=
    if sw_balanced sw && negb (N.ltb l lo) then s else set_depth (depth s - 1)%Z s.
  (* repaired kill discipline only (no counterpart in the code) *)
  Definition nest_enter (b : bool) (s : cst) : cst := if b then set_pnest (pnest s + 1)%Z s else s.
  Definition nest_exit (b : bool) (s : cst) : cst := if b then set_pnest (pnest s - 1)%Z s else s.

  Fixpoint visit_s (st : stmt) (s : cst) : cst :=
    match st with
    | SAssign l x e => written_var x l (visit_e l e s)                       (* _Assign: value, targets *)
    | SAug l x _ e => written_var x l (read_var x l (visit_e l e s))         (* _AugAssign *)
    | SPrint l e => visit_e l e (read_var name_print l s)                    (* Expr(Call(Name print, args)) *)
    | SReturn l e => visit_e l e s
    | SPass _ | SBreak _ | SContinue _ => s
    | SIf l c a b =>                                                         (* _If: test, body, orelse *)
        let prev := cond s in
        let after := N.ltb hi l in
        let s1 := nest_enter after (cond_enter l s) in
        let s2 := fold_left (fun acc x => visit_s x acc) a (visit_e l c s1) in
        let sibling := match b with
                       | [] => false
                       | f :: _ => N.ltb l lo && N.ltb hi (line_of f)
                       end in
        let s3 := nest_exit sibling (fold_left (fun acc x => visit_s x acc) b (nest_enter sibling s2)) in
        cond_exit prev (nest_exit after s3)
    | SWhile l c b e =>                       (* _While: loop context, then _handle_conditional_node: test, body, orelse *)
        let prev := cond s in
        let after := N.ltb hi l in
        let s1 := nest_enter after (cond_enter l (loop_enter l s)) in
        let s2 := fold_left (fun acc x => visit_s x acc) b (visit_e l c s1) in
        let sibling := match e with
                       | [] => false
                       | f :: _ => N.ltb l lo && N.ltb hi (line_of f)
                       end in
        let s3 := nest_exit sibling (fold_left (fun acc x => visit_s x acc) e (nest_enter sibling s2)) in
        loop_exit l (cond_exit prev (nest_exit after s3))
    | SFor l x e b els =>                                                    (* _For: iter, target, body, orelse *)
        let prev := cond s in
        let after := N.ltb hi l in
        let s1 := nest_enter after (cond_enter l (loop_enter l s)) in
        let s2 := written_var x l (visit_e l e (read_var name_range l s1)) in
        let s3 := fold_left (fun acc x => visit_s x acc) els (fold_left (fun acc x => visit_s x acc) b s2) in
        loop_exit l (cond_exit prev (nest_exit after s3))
    | SCall l rets args _ _ _ =>                                             (* not in hosts *)
        fold_left (fun acc x => written_var x l acc) rets (fold_left (fun acc x => read_var x l acc) args s)
    end.

  Definition visit_b (ss : list stmt) (s : cst) : cst := fold_left (fun acc x => visit_s x acc) ss s.

  (* _FunctionDef of the host: parameters are written on the def line (line 1 of the scope text), then the
     body; at module level (is_global) there is no host function *)
  Definition collect (is_global : bool) (params : list var) (body : list stmt) : cst :=
    let s0 := if is_global then cst0
              else fold_left (fun acc p => written_var p 1%N acc) params cst0 in
    visit_b body s0.
End Collect.

(* ------------------------------------------------------------------ the region's lines *)
Fixpoint last_line_s (s : stmt) : N :=
  let last_line_b := fix go (ss : list stmt) (d : N) : N :=
    match ss with
    | [] => d
    | x :: r => go r (last_line_s x)
    end in
  match s with
  | SIf l _ a b => last_line_b b (last_line_b a l)
  | SWhile l _ b e | SFor l _ _ b e => last_line_b e (last_line_b b l)
  | s => line_of s
  end.
Definition first_line (R : list stmt) : N := match R with [] => 0%N | s :: _ => line_of s end.
Definition last_line (R : list stmt) : N := last_line_s (last R (SPass 0%N)).

(* ------------------------------------------------------------------ refusal conditions *)
Definition accepted (R : list stmt) : bool :=
  match R with [] => false | _ =>
    negb (existsb unmatched_bc_s R)
    && (Nat.leb (count_ret R) 1)
    && (Nat.eqb (count_ret R) 0 || returns_last R)
  end.

(* ------------------------------------------------------------------ args / returns *)
Definition args_of (sw : switches) (is_global : bool) (s : cst) : list var :=
  if is_global then
    if sw_globalargs sw then filter (fun x => mem x (rd s)) (fold_left (fun acc x => add x acc) (mayw s) (wr s))
    else
    (* read & postread & written *)
    filter (fun x => mem x (rd s) && mem x (postrd s)) (wr s)
  else
    (* prewritten & read  |=  prewritten & postread & (maybe_written - written) *)
    let a1 := filter (fun x => mem x (prew s)) (rd s) in
    let a2 := filter (fun x => mem x (prew s) && mem x (postrd s)) (diff (mayw s) (wr s)) in
    fold_left (fun acc x => add x acc) a2 a1.

Definition rets_of (tail : bool) (s : cst) : list var :=
  if tail then []
  else filter (fun x => mem x (wr s) || mem x (mayw s)) (postrd s).     (* (written | maybe_written) & postread *)

Definition collect_loc (sw : switches) (is_global : bool) (params : list var) (lc : loc) : cst :=
  collect sw (first_line (region lc)) (last_line (region lc)) is_global params (orig lc).

Definition args_rope sw is_global params lc : list var := args_of sw is_global (collect_loc sw is_global params lc).
Definition rets_rope sw is_global params lc : list var :=
  rets_of (returns_last (region lc)) (collect_loc sw is_global params lc).

Definition call_of sw is_global params lc : stmt :=
  SCall 0%N (rets_rope sw is_global params lc) (args_rope sw is_global params lc) (region lc)
        (returns_last (region lc)) is_global.

(* the refactoring: None = refused, nothing changes *)
Definition extract (sw : switches) (is_global : bool) (params : list var) (lc : loc) : option (list stmt) :=
  if accepted (region lc) then Some (plug lc [call_of sw is_global params lc]) else None.
