(* C03 — extract variable (one-line selections): the selected sub-expression is addressed by a path through
   binary operators (a path cannot enter a comprehension), the new assignment is put in front of the statement
   and the occurrence is replaced by the new name. *)
From Coq Require Import List NArith ZArith Bool.
From RopeVerif.C03 Require Import Flow.
Import ListNotations.

(* false = left operand, true = right operand *)
Fixpoint subexpr (e : expr) (p : list bool) : option expr :=
  match p with
  | [] => Some e
  | d :: p' => match e with
               | EBin _ a b => subexpr (if d then b else a) p'
               | _ => None
               end
  end.

Fixpoint replace_at (e : expr) (p : list bool) (r : expr) : expr :=
  match p with
  | [] => r
  | d :: p' => match e with
               | EBin o a b => if d then EBin o a (replace_at b p' r) else EBin o (replace_at a p' r) b
               | _ => e
               end
  end.

(* the expression of a simple statement, and the statement with another expression *)
Definition stmt_expr (s : stmt) : option expr :=
  match s with
  | SAssign _ _ e | SAug _ _ _ e | SPrint _ e | SReturn _ e => Some e
  | SIf _ c _ _ => Some c
  | SFor _ _ e _ _ => Some e
  | SWhile _ c _ _ => Some c
  | _ => None
  end.
Definition with_expr (s : stmt) (e : expr) : stmt :=
  match s with
  | SAssign l x _ => SAssign l x e
  | SAug l x o _ => SAug l x o e
  | SPrint l _ => SPrint l e
  | SReturn l _ => SReturn l e
  | SIf l _ a b => SIf l e a b
  | SFor l x _ b els => SFor l x e b els
  | SWhile l _ b els => SWhile l e b els
  | s => s
  end.

(* `v = sub` in front of the statement, the occurrence replaced by v *)
Definition extract_variable (v : var) (l : N) (s : stmt) (p : list bool) : option (list stmt) :=
  match stmt_expr s with
  | None => None
  | Some e => match subexpr e p with
              | None => None
              | Some sub => Some [SAssign l v sub; with_expr s (replace_at e p (EVar v))]
              end
  end.
