(* C03 — facts about the model of rope's extract: the corollary of the outlining lemma, refusal, the
   computed counterexamples (the faithful model does NOT always satisfy the outlining hypotheses) and the
   non-vacuity examples. *)
From Coq Require Import List NArith ZArith Bool Lia.
From RopeVerif.C03 Require Import Flow Collector Dataflow Current FlowProofs LiveProofs OutlineProofs Witnesses.
Import ListNotations.

(* whatever discipline the collector follows: when its args/returns satisfy the outlining hypotheses for this
   located program, the extracted program behaves like the original one *)
Lemma extract_preserves : forall sw glob params lc p',
  extract sw glob params lc = Some p' ->
  outline_ok lc params (args_rope sw glob params lc) (rets_rope sw glob params lc) glob = true ->
  forall n vec, run n params vec p' = run n params vec (orig lc).
Proof.
  intros sw glob params lc p' E OK n vec. unfold extract in E.
  destruct (accepted (region lc)); [|discriminate]. inversion E; subst p'. clear E.
  unfold call_of. apply outline_sound. exact OK.
Qed.

Lemma refusal_no_change : forall sw glob params lc,
  accepted (region lc) = false <-> extract sw glob params lc = None.
Proof.
  intros. unfold extract. destruct (accepted (region lc)); split; intros H; try reflexivity; discriminate.
Qed.

(* a region the model accepts satisfies the shape hypothesis of the outlining lemma: what rope refuses
   (unmatched break/continue, a return that is not the only and last statement) is exactly what would
   let control escape *)
Lemma accepted_no_escape : forall R, accepted R = true -> no_escape R = true.
Proof.
  intros R H. unfold accepted in H. unfold no_escape. destruct R as [|s r]; [discriminate|].
  apply andb_true_iff in H. destruct H as [H H3]. apply andb_true_iff in H. destruct H as [H1 H2].
  rewrite H1. simpl andb. apply Nat.leb_le in H2. apply orb_true_iff in H3.
  destruct (returns_last (s :: r)) eqn:E.
  - apply Nat.eqb_eq.
    destruct (returns_last_split _ E) as [R' [l [e ER]]]. rewrite ER in *. rewrite count_ret_app in *.
    simpl in *. unfold count_ret in *. simpl in *. lia.
  - destruct H3 as [H3|H3]; [exact H3 | discriminate].
Qed.

Lemma no_escape_accepted : forall R, no_escape R = true -> accepted R = true.
Proof.
  intros R H. unfold no_escape in H. unfold accepted. destruct R as [|s r]; [discriminate|].
  apply andb_true_iff in H. destruct H as [H1 H2]. rewrite H1. simpl andb.
  destruct (returns_last (s :: r)); apply Nat.eqb_eq in H2; rewrite H2; reflexivity.
Qed.

(* ------------------------------------------------------------------ computed counterexamples *)
Definition breaks_with (sw : switches) (glob : bool) (params : list var) (lc : loc) (n : nat) (vec : list Z) : Prop :=
  exists p', extract sw glob params lc = Some p' /\ run n params vec p' <> run n params vec (orig lc).
Definition breaks := breaks_with as_is.

Ltac by_computation := eexists; split; [vm_compute; reflexivity | vm_compute; discriminate].

(* defects of the code as it was found (discipline as_is), fixed since by 25782e7, f6cf806, c0fa7ad, 99f0982:
   kept as documentation, their replays live under corpus/C03 *)
Lemma nested_conditional_refuted : breaks false [va; vb] w_nested 5 [0; 0]%Z.
Proof. by_computation. Qed.
Lemma postwritten_branch_refuted : breaks false [va] w_branch 5 [1]%Z.
Proof. by_computation. Qed.
Lemma loop_depth_refuted : breaks false [va] w_loopdepth 20 [2]%Z.
Proof. by_computation. Qed.
Lemma module_args_refuted : breaks true [] w_module 5 [].
Proof. by_computation. Qed.

(* defects of the current code (discipline Current.current) *)
Lemma maybe_written_read_refuted : breaks_with current false [va; vb] w_readmaybe 5 [0; 1]%Z.
Proof. by_computation. Qed.
Lemma loop_carried_refuted : breaks_with current false [va] w_loopcarried 20 [2]%Z.
Proof. by_computation. Qed.
Lemma loop_prewritten_refuted : breaks_with current false [va] w_loopprew 20 [2]%Z.
Proof. by_computation. Qed.
(* fixed by 98267e1: statement about the discipline just before that commit *)
Lemma comprehension_iterable_refuted : breaks_with before_98267e1 false [va] w_compiter 5 [2]%Z.
Proof. by_computation. Qed.
Lemma arg_maybe_unbound_refuted : breaks_with current false [va] w_argunbound 5 [0]%Z.
Proof. by_computation. Qed.
Lemma result_maybe_unbound_refuted : breaks_with current false [va] w_retunbound 5 [0]%Z.
Proof. by_computation. Qed.

Definition repaired (sw : switches) (glob : bool) (params : list var) (lc : loc) : bool :=
  outline_ok lc params (args_rope sw glob params lc) (rets_rope sw glob params lc) glob.

Definition only (r b k m a g : bool) : switches :=
  {| sw_restore := r; sw_balanced := b; sw_killnest := k; sw_readmaybe := m; sw_loopall := a; sw_globalargs := g;
     sw_loopprew := false; sw_compiter := false |}.

(* each single repaired discipline satisfies the outlining hypotheses on the witness of its defect *)
Lemma repairs_compute :
  repaired (only true false false false false false) false [va; vb] w_nested = true
  /\ repaired (only false false true false false false) false [va] w_branch = true
  /\ repaired (only false false false true false false) false [va; vb] w_readmaybe = true
  /\ repaired (only false true false false false false) false [va] w_loopdepth = true
  /\ repaired (only false false false false true false) false [va] w_loopcarried = true
  /\ repaired (only false false false false false true) true [] w_module = true.
Proof. vm_compute. repeat split; reflexivity. Qed.

(* the current code satisfies the hypotheses on the four witnesses of the fixed defects; one more switch each
   would do the same for the two repairable open defects *)
Lemma current_compute :
  repaired current false [va; vb] w_nested = true
  /\ repaired current false [va] w_branch = true
  /\ repaired current false [va] w_loopdepth = true
  /\ repaired current true [] w_module = true
  /\ repaired (sw_or current (only false false false true false false)) false [va; vb] w_readmaybe = true
  /\ repaired (sw_or current (only false false false false true false)) false [va] w_loopcarried = true
  /\ repaired current false [va] w_compiter = true.
Proof. vm_compute. repeat split; reflexivity. Qed.

(* ------------------------------------------------------------------ non-vacuity *)
Lemma ex_loop_ok :
  repaired current false [va] ex_loop = true
  /\ args_rope current false [va] ex_loop = [vx; vy] /\ rets_rope current false [va] ex_loop = [vy; vx]
  /\ run 20 [va] [3]%Z (orig ex_loop) = (Ret 3%Z, [3; 1; 0]%Z).
Proof. vm_compute. repeat split; reflexivity. Qed.

Lemma ex_tail_ok :
  repaired current false [va; vb] ex_tail = true
  /\ args_rope current false [va; vb] ex_tail = [vb; vx] /\ rets_rope current false [va; vb] ex_tail = []
  /\ returns_last (region ex_tail) = true.
Proof. vm_compute. repeat split; reflexivity. Qed.

Lemma ex_refused :
  accepted (region ex_refused_ret) = false /\ accepted (region ex_refused_brk) = false
  /\ no_escape (region ex_refused_ret) = false /\ no_escape (region ex_refused_brk) = false.
Proof. vm_compute. repeat split; reflexivity. Qed.
