(* C03 — basic facts about the Flow semantics: stores, unfolding, sequencing, the frame property (a
   statement list only changes the names in [defs]), stores only grow, [mustd] names are bound after a
   normal completion, and the signals a region can produce. *)
From Coq Require Import List NArith ZArith Bool Lia.
From RopeVerif.C03 Require Import Flow Dataflow.
Import ListNotations.

(* ------------------------------------------------------------------ sets *)
Lemma mem_In : forall x l, mem x l = true <-> In x l.
Proof.
  intros x l. unfold mem. rewrite existsb_exists. split.
  - intros [y [Hy He]]. apply N.eqb_eq in He. subst. exact Hy.
  - intros H. exists x. split; [exact H | apply N.eqb_refl].
Qed.

Lemma mem_false : forall x l, mem x l = false <-> ~ In x l.
Proof.
  intros x l. split.
  - intros H Hin. apply mem_In in Hin. congruence.
  - intros H. destruct (mem x l) eqn:E; [apply mem_In in E; contradiction | reflexivity].
Qed.

Lemma subset_In : forall a b, subset a b = true <-> (forall x, In x a -> In x b).
Proof.
  intros a b. unfold subset. rewrite forallb_forall. split.
  - intros H x Hx. apply mem_In. apply H. exact Hx.
  - intros H x Hx. apply mem_In. apply H. exact Hx.
Qed.

Lemma In_remove : forall x y l, In y (remove x l) <-> In y l /\ y <> x.
Proof.
  intros x y l. unfold remove. rewrite filter_In. split.
  - intros [H1 H2]. split; [exact H1|]. apply negb_true_iff in H2. apply N.eqb_neq in H2. exact H2.
  - intros [H1 H2]. split; [exact H1|]. apply negb_true_iff. apply N.eqb_neq. exact H2.
Qed.

Lemma In_inter : forall y a b, In y (inter a b) <-> In y a /\ In y b.
Proof.
  intros y a b. unfold inter. rewrite filter_In. rewrite mem_In. tauto.
Qed.

Lemma In_add : forall y x l, In y (add x l) <-> y = x \/ In y l.
Proof.
  intros y x l. unfold add. destruct (mem x l) eqn:E.
  - apply mem_In in E. split; [tauto|]. intros [H|H]; [subst; exact E | exact H].
  - rewrite in_app_iff. simpl. split; intros H; [destruct H as [H|[H|[]]]; auto | destruct H; auto].
Qed.

Lemma In_fold_add : forall Y X y, In y (fold_left (fun acc z => add z acc) Y X) <-> In y X \/ In y Y.
Proof.
  induction Y as [|z Y IH]; intros X y; simpl.
  - tauto.
  - rewrite IH. rewrite In_add. split; intros H.
    + destruct H as [[H|H]|H]; auto.
    + destruct H as [H|[H|H]]; auto.
Qed.

(* ------------------------------------------------------------------ stores *)
Lemma get_upd : forall s x v y, get (upd s x v) y = if N.eqb y x then Some v else get s y.
Proof.
  induction s as [|[z w] r IH]; intros x v y; simpl.
  - destruct (N.eqb y x); reflexivity.
  - destruct (N.eqb x z) eqn:Exz; simpl.
    + apply N.eqb_eq in Exz. subst z. destruct (N.eqb y x); reflexivity.
    + destruct (N.eqb y z) eqn:Eyz.
      * apply N.eqb_eq in Eyz. subst z.
        assert (N.eqb y x = false) by (apply N.eqb_neq; intro; subst; rewrite N.eqb_refl in Exz; discriminate).
        rewrite H. reflexivity.
      * apply IH.
Qed.

Lemma get_callee_store : forall st args locals shared y,
  get (callee_store st args locals shared) y =
  if mem y args || (shared && negb (mem y locals)) then get st y else None.
Proof.
  intros st args locals shared y. unfold callee_store.
  induction st as [|[z w] r IH]; simpl.
  - destruct (mem y args || _); reflexivity.
  - destruct (mem z args || shared && negb (mem z locals)) eqn:Ez; simpl.
    + destruct (N.eqb y z) eqn:Eyz.
      * apply N.eqb_eq in Eyz. subst z. rewrite Ez. reflexivity.
      * exact IH.
    + destruct (N.eqb y z) eqn:Eyz.
      * apply N.eqb_eq in Eyz. subst z. rewrite Ez. rewrite IH. rewrite Ez. reflexivity.
      * exact IH.
Qed.

Lemma get_copy_back : forall rets sc st y,
  forallb (bound sc) rets = true ->
  get (copy_back rets sc st) y = if mem y rets then get sc y else get st y.
Proof.
  unfold copy_back. induction rets as [|r rets IH]; intros sc st y Hb; simpl.
  - reflexivity.
  - simpl in Hb. apply andb_true_iff in Hb. destruct Hb as [Hr Hb].
    unfold bound in Hr. destruct (get sc r) as [v|] eqn:Er; [|discriminate].
    rewrite (IH sc (upd st r v) y Hb).
    destruct (mem y rets) eqn:Em.
    + rewrite orb_true_r. reflexivity.
    + rewrite orb_false_r. rewrite get_upd. destruct (N.eqb y r) eqn:Eyr.
      * apply N.eqb_eq in Eyr. subst. symmetry. exact Er.
      * reflexivity.
Qed.

Lemma bound_upd : forall s x v y, bound (upd s x v) y = N.eqb y x || bound s y.
Proof.
  intros. unfold bound. rewrite get_upd. destruct (N.eqb y x); reflexivity.
Qed.

Lemma get_bind : forall params vec y, bound (bind params vec) y = mem y params.
Proof.
  induction params as [|p ps IH]; intros vec y; simpl.
  - reflexivity.
  - destruct vec as [|v vs]; rewrite bound_upd; rewrite IH; reflexivity.
Qed.

(* ------------------------------------------------------------------ an induction principle for statements *)
Section StmtInd.
  Variables (Ps : stmt -> Prop) (Pb : list stmt -> Prop).
  Hypotheses
    (HAssign : forall l x e, Ps (SAssign l x e))
    (HAug : forall l x o e, Ps (SAug l x o e))
    (HPrint : forall l e, Ps (SPrint l e))
    (HIf : forall l c a b, Pb a -> Pb b -> Ps (SIf l c a b))
    (HWhile : forall l c b e, Pb b -> Pb e -> Ps (SWhile l c b e))
    (HFor : forall l x e b els, Pb b -> Pb els -> Ps (SFor l x e b els))
    (HReturn : forall l e, Ps (SReturn l e))
    (HPass : forall l, Ps (SPass l))
    (HBreak : forall l, Ps (SBreak l))
    (HContinue : forall l, Ps (SContinue l))
    (HCall : forall l rets args body tail shared, Pb body -> Ps (SCall l rets args body tail shared))
    (HNil : Pb [])
    (HCons : forall s r, Ps s -> Pb r -> Pb (s :: r)).

  Fixpoint stmt_ind2 (s : stmt) : Ps s :=
    let blk := fix blk (ss : list stmt) : Pb ss :=
      match ss with
      | [] => HNil
      | x :: r => HCons x r (stmt_ind2 x) (blk r)
      end in
    match s with
    | SAssign l x e => HAssign l x e
    | SAug l x o e => HAug l x o e
    | SPrint l e => HPrint l e
    | SIf l c a b => HIf l c a b (blk a) (blk b)
    | SWhile l c b e => HWhile l c b e (blk b) (blk e)
    | SFor l x e b els => HFor l x e b els (blk b) (blk els)
    | SReturn l e => HReturn l e
    | SPass l => HPass l
    | SBreak l => HBreak l
    | SContinue l => HContinue l
    | SCall l rets args body tail shared => HCall l rets args body tail shared (blk body)
    end.

  Fixpoint blk_ind2 (ss : list stmt) : Pb ss :=
    match ss with
    | [] => HNil
    | x :: r => HCons x r (stmt_ind2 x) (blk_ind2 r)
    end.
End StmtInd.

Lemma stmt_blk_ind : forall (Ps : stmt -> Prop) (Pb : list stmt -> Prop),
  (forall l x e, Ps (SAssign l x e)) ->
  (forall l x o e, Ps (SAug l x o e)) ->
  (forall l e, Ps (SPrint l e)) ->
  (forall l c a b, Pb a -> Pb b -> Ps (SIf l c a b)) ->
  (forall l c b e, Pb b -> Pb e -> Ps (SWhile l c b e)) ->
  (forall l x e b els, Pb b -> Pb els -> Ps (SFor l x e b els)) ->
  (forall l e, Ps (SReturn l e)) ->
  (forall l, Ps (SPass l)) ->
  (forall l, Ps (SBreak l)) ->
  (forall l, Ps (SContinue l)) ->
  (forall l rets args body tail shared, Pb body -> Ps (SCall l rets args body tail shared)) ->
  Pb [] ->
  (forall s r, Ps s -> Pb r -> Pb (s :: r)) ->
  (forall s, Ps s) /\ (forall ss, Pb ss).
Proof.
  intros. split; [apply (stmt_ind2 Ps Pb) | apply (blk_ind2 Ps Pb)]; assumption.
Qed.

(* ------------------------------------------------------------------ unfolding *)
Lemma exec_b_cons : forall loop s r st o,
  exec_b loop (s :: r) st o =
  match exec_s loop s st o with
  | (Norm, st', o') => exec_b loop r st' o'
  | x => x
  end.
Proof. reflexivity. Qed.

Lemma exec_b_app : forall loop a b st o,
  exec_b loop (a ++ b) st o =
  match exec_b loop a st o with
  | (Norm, st', o') => exec_b loop b st' o'
  | x => x
  end.
Proof.
  intros loop a. induction a as [|s a IH]; intros b st o.
  - reflexivity.
  - simpl app. rewrite !exec_b_cons.
    destruct (exec_s loop s st o) as [[sg st'] o']. destruct sg; try reflexivity. apply IH.
Qed.

Lemma exec_s_if : forall loop l c a b st o,
  exec_s loop (SIf l c a b) st o =
  match eval st c with
  | None => (ErrUnbound, st, o)
  | Some v => if Z.eqb v 0 then exec_b loop b st o else exec_b loop a st o
  end.
Proof. reflexivity. Qed.

Lemma exec_s_call : forall loop l rets args body tail shared st o,
  exec_s loop (SCall l rets args body tail shared) st o =
  if forallb (bound st) args then
    match exec_b loop body (callee_store st args (defs body) shared) o with
    | (Norm, sc, o') =>
        if tail then (ErrOther, st, o')
        else if forallb (bound sc) rets then (Norm, copy_back rets sc st, o')
             else (ErrUnbound, st, o')
    | (Ret v, _, o') => if tail then (Ret v, st, o') else (ErrOther, st, o')
    | (Brk, _, o') | (Cont, _, o') => (ErrOther, st, o')
    | (e, _, o') => (e, st, o')
    end
  else (ErrUnbound, st, o).
Proof. reflexivity. Qed.

Lemma defs_app : forall a b, defs (a ++ b) = defs a ++ defs b.
Proof. intros. unfold defs. apply flat_map_app. Qed.

Lemma defs_cons : forall s r, defs (s :: r) = defs_s s ++ defs r.
Proof. reflexivity. Qed.

Lemma mustd_app : forall a b, mustd (a ++ b) = mustd a ++ mustd b.
Proof. intros. unfold mustd. apply flat_map_app. Qed.

(* ------------------------------------------------------------------ frame, growth, must-definitions *)
(* what a run may do to the store *)
Definition frame_on (D : list var) (st st' : store) : Prop :=
  (forall x, ~ In x D -> get st' x = get st x) /\ (forall x, bound st x = true -> bound st' x = true).

Lemma frame_refl : forall D st, frame_on D st st.
Proof. intros. split; auto. Qed.

Lemma frame_trans : forall D1 D2 D a b c,
  frame_on D1 a b -> frame_on D2 b c ->
  (forall x, In x D1 -> In x D) -> (forall x, In x D2 -> In x D) -> frame_on D a c.
Proof.
  intros D1 D2 D a b c [H1 G1] [H2 G2] S1 S2. split.
  - intros x Hx. rewrite H2 by (intro; apply Hx; auto). apply H1. intro; apply Hx; auto.
  - intros x Hx. apply G2. apply G1. exact Hx.
Qed.

Lemma frame_upd : forall st x v, frame_on [x] st (upd st x v).
Proof.
  intros. split.
  - intros y Hy. rewrite get_upd. destruct (N.eqb y x) eqn:E; [|reflexivity].
    apply N.eqb_eq in E. subst. exfalso. apply Hy. left. reflexivity.
  - intros y Hy. rewrite bound_upd. rewrite Hy. apply orb_true_r.
Qed.

Definition loop_frame (loop : loopk -> store -> list Z -> res) : Prop :=
  (forall c b e st o, frame_on (defs b ++ defs e) st (snd (fst (loop (KWhile c b e) st o))))
  /\ (forall x i hi b e st o, frame_on (x :: defs b ++ defs e) st (snd (fst (loop (KFor x i hi b e) st o)))).

Lemma frame_weaken : forall D D' a b, frame_on D a b -> (forall x, In x D -> In x D') -> frame_on D' a b.
Proof.
  intros D D' a b [H G] S. split; [|exact G]. intros x Hx. apply H. intro. apply Hx. auto.
Qed.

Lemma frame_copy_back : forall rets sc st,
  forallb (bound sc) rets = true -> frame_on rets st (copy_back rets sc st).
Proof.
  intros rets sc st Hb. split.
  - intros x Hx. rewrite get_copy_back by exact Hb. apply mem_false in Hx. rewrite Hx. reflexivity.
  - intros x Hx. unfold bound. rewrite get_copy_back by exact Hb. destruct (mem x rets) eqn:E.
    + rewrite forallb_forall in Hb. apply mem_In in E. apply Hb in E. exact E.
    + exact Hx.
Qed.

Lemma exec_frame : forall loop, loop_frame loop ->
  (forall s st o, frame_on (defs_s s) st (snd (fst (exec_s loop s st o))))
  /\ (forall ss st o, frame_on (defs ss) st (snd (fst (exec_b loop ss st o)))).
Proof.
  intros loop [HW HF].
  apply (stmt_blk_ind
           (fun s => forall st o, frame_on (defs_s s) st (snd (fst (exec_s loop s st o))))
           (fun ss => forall st o, frame_on (defs ss) st (snd (fst (exec_b loop ss st o))))).
  - intros l x e st o. simpl. destruct (eval st e); simpl; [apply frame_upd | apply frame_refl].
  - intros l x op e st o. simpl. destruct (get st x); [destruct (eval st e)|]; simpl;
      try apply frame_upd; apply frame_refl.
  - intros l e st o. simpl. destruct (eval st e); simpl; apply frame_refl.
  - intros l c a b Ha Hb st o. rewrite exec_s_if. destruct (eval st c) as [v|]; [|apply frame_refl].
    simpl defs_s. destruct (Z.eqb v 0).
    + eapply frame_weaken; [apply Hb|]. intros; apply in_or_app; right; assumption.
    + eapply frame_weaken; [apply Ha|]. intros; apply in_or_app; left; assumption.
  - intros l c b e Hb He st o. simpl. apply HW.
  - intros l x e b els Hb He st o. simpl. destruct (eval st e); [apply HF | apply frame_refl].
  - intros l e st o. simpl. destruct (eval st e); apply frame_refl.
  - intros; apply frame_refl.
  - intros; apply frame_refl.
  - intros; apply frame_refl.
  - intros l rets args body tail shared Hb st o. rewrite exec_s_call.
    destruct (forallb (bound st) args); [|apply frame_refl].
    destruct (exec_b loop body (callee_store st args (defs body) shared) o) as [[sg sc] o'].
    destruct sg; try apply frame_refl.
    + destruct tail; [apply frame_refl|]. destruct (forallb (bound sc) rets) eqn:E; [|apply frame_refl].
      simpl. apply frame_copy_back. exact E.
    + destruct tail; apply frame_refl.
  - intros st o. apply frame_refl.
  - intros s r Hs Hr st o. rewrite exec_b_cons. rewrite defs_cons.
    specialize (Hs st o). destruct (exec_s loop s st o) as [[sg st'] o'].
    simpl in Hs.
    assert (W : frame_on (defs_s s ++ defs r) st st').
    { eapply frame_weaken; [exact Hs|]. intros; apply in_or_app; left; assumption. }
    destruct sg; try exact W.
    eapply frame_trans; [exact Hs | apply Hr | |]; intros; apply in_or_app; auto.
Qed.

Lemma exec_k_frame : forall n, loop_frame (exec_k n).
Proof.
  induction n as [|m IH].
  - split; intros; simpl; apply frame_refl.
  - destruct (exec_frame _ IH) as [_ Hb]. destruct IH as [IW IF]. split.
    + intros c b e st o. simpl. destruct (eval st c) as [v|]; [|apply frame_refl].
      destruct (Z.eqb v 0).
      { eapply frame_weaken; [apply Hb|]. intros; apply in_or_app; auto. }
      pose proof (Hb b st o) as Hb'. destruct (exec_b (exec_k m) b st o) as [[sg st'] o']. simpl in Hb'.
      assert (W : frame_on (defs b ++ defs e) st st').
      { eapply frame_weaken; [exact Hb'|]. intros; apply in_or_app; auto. }
      destruct sg; try exact W;
        (eapply frame_trans; [exact W | apply IW | |]; auto).
    + intros x i hi b e st o. simpl. destruct (Z.leb hi i).
      { eapply frame_weaken; [apply Hb|]. intros; right; apply in_or_app; auto. }
      pose proof (Hb b (upd st x i) o) as Hb'. destruct (exec_b (exec_k m) b (upd st x i) o) as [[sg st'] o']. simpl in Hb'.
      assert (W : frame_on (x :: defs b ++ defs e) st st').
      { eapply frame_trans; [apply frame_upd | exact Hb' | |]; intros y Hy; simpl in *; [tauto | right; apply in_or_app; auto]. }
      destruct sg; try exact W;
        (eapply frame_trans; [exact W | apply IF | |]; auto).
Qed.

Lemma exec_frame_b : forall n ss st o, frame_on (defs ss) st (snd (fst (exec n ss st o))).
Proof. intros. unfold exec. apply exec_frame. apply exec_k_frame. Qed.

(* names in [mustd] are bound after a normal completion *)
Lemma In_mustd_cons : forall x s r, In x (mustd (s :: r)) <-> In x (mustd_s s) \/ In x (mustd r).
Proof. intros. unfold mustd. simpl. rewrite in_app_iff. tauto. Qed.

Lemma exec_must : forall loop, loop_frame loop ->
  (forall s st o st' o', exec_s loop s st o = (Norm, st', o') -> forall x, In x (mustd_s s) -> bound st' x = true)
  /\ (forall ss st o st' o', exec_b loop ss st o = (Norm, st', o') -> forall x, In x (mustd ss) -> bound st' x = true).
Proof.
  intros loop LF.
  apply (stmt_blk_ind
           (fun s => forall st o st' o', exec_s loop s st o = (Norm, st', o') ->
                                         forall x, In x (mustd_s s) -> bound st' x = true)
           (fun ss => forall st o st' o', exec_b loop ss st o = (Norm, st', o') ->
                                          forall x, In x (mustd ss) -> bound st' x = true)).
  - intros l x e st o st' o' H y Hy. simpl in H. destruct (eval st e); inversion H; subst.
    simpl in Hy. destruct Hy as [<-|[]]. rewrite bound_upd. rewrite N.eqb_refl. reflexivity.
  - intros l x op e st o st' o' H y Hy. simpl in H. destruct (get st x); [destruct (eval st e)|]; inversion H; subst.
    simpl in Hy. destruct Hy as [<-|[]]. rewrite bound_upd. rewrite N.eqb_refl. reflexivity.
  - intros l e st o st' o' H y Hy. simpl in Hy. contradiction.
  - intros l c a b Ha Hb st o st' o' H y Hy. rewrite exec_s_if in H. simpl in Hy.
    apply In_inter in Hy. destruct Hy as [Hya Hyb].
    destruct (eval st c) as [v|]; [|discriminate]. destruct (Z.eqb v 0).
    + eapply Hb; eauto.
    + eapply Ha; eauto.
  - intros l c b e Hb He st o st' o' H y Hy. simpl in Hy. contradiction.
  - intros l x e b els Hb He st o st' o' H y Hy. simpl in Hy. contradiction.
  - intros l e st o st' o' H y Hy. simpl in Hy. contradiction.
  - intros l st o st' o' H y Hy. simpl in Hy. contradiction.
  - intros l st o st' o' H y Hy. simpl in Hy. contradiction.
  - intros l st o st' o' H y Hy. simpl in Hy. contradiction.
  - intros l rets args body tail shared Hb st o st' o' H y Hy. rewrite exec_s_call in H. simpl in Hy.
    destruct (forallb (bound st) args); [|discriminate].
    destruct (exec_b loop body (callee_store st args (defs body) shared) o) as [[sg sc] o''].
    destruct sg; try discriminate.
    + destruct tail; [discriminate|]. destruct (forallb (bound sc) rets) eqn:E; [|discriminate].
      inversion H; subst. unfold bound. rewrite get_copy_back by exact E.
      apply mem_In in Hy. rewrite Hy. rewrite forallb_forall in E. apply mem_In in Hy. apply E in Hy. exact Hy.
    + destruct tail; discriminate.
  - intros st o st' o' H y Hy. simpl in Hy. contradiction.
  - intros s r Hs Hr st o st' o' H y Hy. rewrite exec_b_cons in H.
    destruct (exec_s loop s st o) as [[sg st1] o1] eqn:E1.
    destruct sg; try discriminate.
    apply In_mustd_cons in Hy. destruct Hy as [Hy|Hy].
    + pose proof (proj2 (exec_frame loop LF) r st1 o1) as F. rewrite H in F. simpl in F.
      apply (proj2 F). eapply Hs; eauto.
    + eapply Hr; eauto.
Qed.

