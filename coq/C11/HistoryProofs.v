(* History-level statements of C11: refusals, redo clearing, the limit, exact inverses, the Consistent
   invariant, soundness of the dependency closure and the selective undo / redo theorems. *)
From stdpp Require Import gmap list.
From Coq Require Import NArith Lia.
From RopeVerif.Lib Require Import Text.
From RopeVerif.C10 Require Import FsModel FsProofs Change ChangeProofs.
From RopeVerif.C11 Require Import History ExecProofs CommuteProofs.

(* ------------------------------------------------------------------------------------ chains *)
(* the changes of l, processed in list order in direction d, lead from a to b; every step succeeds,
   is exactly reversible and returns the change itself *)
Fixpoint chain (f : nat) (d : dir) (l : list change) (a b : fs) : Prop :=
  match l with
  | [] => a = b
  | c :: r => exists a', link f d c a a' /\ chain f d r a' b
  end.

Lemma chain_app f d l1 l2 a b :
  chain f d (l1 ++ l2) a b <-> exists mid, chain f d l1 a mid /\ chain f d l2 mid b.
Proof.
  revert a. induction l1 as [|c l1 IH]; intros a; cbn [chain app].
  - split; [intros H; exists a; auto|intros (mid & -> & H); exact H].
  - split.
    + intros (a' & Hl & H). apply IH in H. destruct H as (mid & H1 & H2). exists mid. eauto.
    + intros (mid & (a' & Hl & H1) & H2). exists a'. split; [exact Hl|]. apply IH. eauto.
Qed.

Lemma link_wf f d c a b : wf_fs a -> link f d c a b -> wf_fs b.
Proof. intros Hwf H. destruct (exec_inverse f _ _ _ _ _ Hwf H); assumption. Qed.

Lemma link_back f d c a b : wf_fs a -> link f d c a b -> link f (opp d) c b a.
Proof. intros Hwf H. destruct (exec_inverse f _ _ _ _ _ Hwf H); assumption. Qed.

Lemma chain_wf f d l : forall a b, wf_fs a -> chain f d l a b -> wf_fs b.
Proof.
  induction l as [|c l IH]; intros a b Hwf H; cbn [chain] in H; [subst; exact Hwf|].
  destruct H as (a' & Hl & H). eapply IH; [|exact H]. eapply link_wf; eauto.
Qed.

(* undoing in LIFO order what was done in order (and the other way round) *)
Lemma chain_rev f d l : forall a b, wf_fs a -> chain f d l a b -> chain f (opp d) (rev l) b a.
Proof.
  induction l as [|c l IH]; intros a b Hwf H; cbn [chain rev] in *; [subst; reflexivity|].
  destruct H as (a' & Hl & H). apply chain_app. exists a'. split.
  - apply IH; [eapply link_wf; eauto|exact H].
  - cbn [chain]. exists a. split; [eapply link_back; eauto|reflexivity].
Qed.

Lemma opp_opp d : opp (opp d) = d.
Proof. destruct d; reflexivity. Qed.

Lemma chain_rev' f d l a b : wf_fs a -> chain f d (rev l) a b -> chain f (opp d) l b a.
Proof. intros Hwf H. apply chain_rev in H; [|exact Hwf]. rewrite rev_involutive in H. exact H. Qed.

Lemma chain_fun f d l : forall a b b', chain f d l a b -> chain f d l a b' -> b = b'.
Proof.
  induction l as [|c l IH]; intros a b b' H H'; cbn [chain] in *; [congruence|].
  destruct H as (a1 & Hl & H), H' as (a2 & Hl' & H'). unfold link in *.
  assert (a1 = a2) by congruence. subst. eapply IH; eauto.
Qed.

(* ---------------------------------------------------------------- moving an independent change *)
Lemma chain_bubble f d c Y E : forall a b,
  wf_fs a -> (forall e, In e E -> apart (roots e) (roots c)) ->
  chain f d (E ++ c :: Y) a b -> chain f d (c :: E ++ Y) a b.
Proof.
  revert Y. induction E as [|e E0 IH] using rev_ind; intros Y a b Hwf Hap H; [exact H|].
  rewrite <- app_assoc in H. cbn [app] in H.
  apply chain_app in H. destruct H as (mid & H0 & H). cbn [chain] in H.
  destruct H as (m1 & Le & m2 & Lc & HY).
  pose proof (chain_wf _ _ _ _ _ Hwf H0) as Hwfm.
  destruct (swap_any f d e c mid m1 m2 Hwfm Le Lc) as (m1' & Lc' & Le').
  { apply Hap. apply in_or_app. right. left. reflexivity. }
  rewrite <- app_assoc. cbn [app].
  apply (IH (e :: Y) a b Hwf).
  - intros e' He'. apply Hap. apply in_or_app. left. exact He'.
  - apply chain_app. exists mid. split; [exact H0|]. cbn [chain]. eauto 8.
Qed.

(* what the dependency scan must guarantee: each non-member is apart from every path accumulated from
   the members before it *)
Fixpoint okmarks (accp : list (list N)) (ms : list bool) (X : list change) : Prop :=
  match ms, X with
  | [], [] => True
  | true :: ms', c :: X' => okmarks (accp ++ roots c) ms' X'
  | false :: ms', c :: X' => apart (roots c) accp /\ okmarks accp ms' X'
  | _, _ => False
  end.

Lemma reorder f d X : forall ms E accp a b,
  wf_fs a -> okmarks accp ms X ->
  (forall e, In e E -> forall r, In r (roots e) -> In r accp) ->
  chain f d (E ++ X) a b -> chain f d (part false ms X ++ E ++ part true ms X) a b.
Proof.
  induction X as [|c X IH]; intros ms E accp a b Hwf Hok Hsub H.
  - destruct ms as [|[|] ms]; cbn [okmarks] in Hok; try destruct Hok. cbn [part app]. exact H.
  - destruct ms as [|[|] ms]; cbn [okmarks] in Hok; try destruct Hok as [Hap Hok].
    + destruct Hok.
    + cbn [part Bool.eqb]. replace (E ++ c :: part true ms X) with ((E ++ [c]) ++ part true ms X)
        by (rewrite <- app_assoc; reflexivity).
      apply (IH ms (E ++ [c]) (accp ++ roots c) a b Hwf Hok).
      * intros e He r Hr. apply in_or_app. apply in_app_or in He. destruct He as [He|[<-|[]]].
        -- left. eapply Hsub; eauto.
        -- right. exact Hr.
      * rewrite <- app_assoc. exact H.
    + cbn [part Bool.eqb app].
      apply chain_bubble in H; [|exact Hwf|].
      * cbn [chain] in *. destruct H as (a' & Lc & H). exists a'. split; [exact Lc|].
        apply (IH ms E accp a' b (link_wf _ _ _ _ _ Hwf Lc) Hok Hsub H).
      * intros e He p q Hp Hq. rewrite nested_sym. apply Hap; [exact Hq|]. eapply Hsub; eauto.
Qed.

(* ------------------------------------------------------------ soundness of the dependency scan *)
Section dep.
(* which dependency test: false = the code as found (class and path), true = paths only *)
Variable bp : bool.

Definition cok (L : list (bool * list N)) : Prop := forall r s, In r L -> In s L -> class_ok1 r s = true.

Lemma class_ok_cok L : class_ok L = true -> cok L.
Proof.
  unfold class_ok, cok. rewrite forallb_forall. intros H r s Hr Hs.
  specialize (H r Hr). rewrite forallb_forall in H. apply H. exact Hs.
Qed.

Lemma cok_sub L L' : (forall r, In r L' -> In r L) -> cok L -> cok L'.
Proof. intros Hs H r s Hr Hsn. apply H; apply Hs; assumption. Qed.

Lemma dep1_apart (r s : bool * list N) :
  bp = true \/ class_ok1 r s = true -> dep1 bp r s = false -> nested (snd r) (snd s) = false.
Proof.
  intros [->|Hc]; [cbn [dep1]; auto|]. destruct bp; [cbn [dep1]; auto|]. revert Hc.
  destruct r as [fr pr], s as [fs0 ps]. unfold class_ok1, dep1, contains, rsrc_eqb, proper_prefix, nested.
  cbn [fst snd]. intros Hc Hd.
  destruct (text_eqb_spec pr ps) as [->|Hne].
  - (* the same path: same class, hence equal resources *)
    rewrite text_eqb_refl in Hd. cbn in Hc. rewrite !andb_true_iff in Hc. destruct Hc as [[Hc _] _].
    rewrite Hc in Hd. discriminate.
  - assert (Hne' : text_eqb ps pr = false) by (apply text_eqb_false; congruence).
    rewrite Hne' in *. rewrite !andb_false_r in Hd. cbn [negb andb orb] in Hd.
    rewrite !andb_true_r in Hc, Hd.
    destruct (is_prefix pr ps) eqn:E1; destruct (is_prefix ps pr) eqn:E2; cbn [andb orb negb] in *; try reflexivity.
    + exfalso. apply Hne. apply is_prefix_antisym; assumption.
    + destruct fr; [|discriminate]. cbn in Hd. destruct pr; discriminate.
    + destruct fr; cbn in Hc, Hd; (destruct fs0; [|discriminate]); cbn in Hd; destruct ps; try discriminate;
        destruct pr; discriminate.
Qed.

Lemma depends_on_apart rs acc :
  bp = true \/ cok (acc ++ rs) -> depends_on bp rs acc = false -> apart (map snd rs) (map snd acc).
Proof.
  intros Hc Hd p q Hp Hq. apply in_map_iff in Hp, Hq. destruct Hp as (r & <- & Hr), Hq as (s & <- & Hs).
  apply dep1_apart.
  - destruct Hc as [Hc|Hc]; [left; exact Hc|right]. apply Hc; apply in_or_app; auto.
  - unfold depends_on in Hd. destruct (dep1 bp r s) eqn:E; [|reflexivity].
    assert (existsb (fun r0 => existsb (dep1 bp r0) acc) rs = true); [|congruence].
    apply existsb_exists. exists r. split; [exact Hr|]. apply existsb_exists. exists s. auto.
Qed.

Theorem mark_scan_ok X : forall acc,
  bp = true \/ cok (acc ++ resources_list X) -> okmarks (map snd acc) (mark_scan bp acc X) X.
Proof.
  induction X as [|c X IH]; intros acc Hc; cbn [mark_scan okmarks resources_list] in *; [exact I|].
  destruct (depends_on bp (resources c) acc) eqn:Ed; cbn [okmarks].
  - unfold roots. rewrite <- List.map_app. apply IH. rewrite <- app_assoc. exact Hc.
  - split.
    + apply depends_on_apart; [|exact Ed]. destruct Hc as [Hc|Hc]; [left; exact Hc|right].
      eapply cok_sub; [|exact Hc].
      intros r Hr. apply in_or_app. apply in_app_or in Hr. destruct Hr; [left; assumption|].
      right. apply in_or_app. left. assumption.
    + apply IH. destruct Hc as [Hc|Hc]; [left; exact Hc|right]. eapply cok_sub; [|exact Hc].
      intros r Hr. apply in_or_app. apply in_app_or in Hr. destruct Hr; [left; assumption|].
      right. apply in_or_app. right. assumption.
Qed.

(* the chosen change c, the later changes T: members and non-members can be separated *)
Lemma split_core (f : nat) (d : dir) (P : list change) (c : change) (T : list change) (far near : fs) :
  wf_fs far -> chain f d (P ++ c :: T) far near -> bp = true \/ cok (resources_list (c :: T)) ->
  exists mid, wf_fs mid /\ chain f d (P ++ part false (mark_scan bp (resources c) T) T) far mid
              /\ chain f d (c :: part true (mark_scan bp (resources c) T) T) mid near.
Proof.
  intros Hwf H Hc. apply chain_app in H. destruct H as (m0 & HP & H).
  pose proof (chain_wf _ _ _ _ _ Hwf HP) as Hwf0.
  change (c :: T) with ([c] ++ T) in H.
  apply (reorder f d T (mark_scan bp (resources c) T) [c] (roots c) m0 near Hwf0) in H.
  - apply chain_app in H. destruct H as (mid & H1 & H2). exists mid.
    split; [eapply chain_wf; eauto|]. split; [|exact H2]. apply chain_app. eauto.
  - apply (mark_scan_ok T (resources c)). exact Hc.
  - intros e [<-|[]] r Hr. exact Hr.
Qed.

(* ----------------------------------------------------------------------- list bookkeeping *)
Lemma last_default (l : list change) a b : l <> [] -> List.last l a = List.last l b.
Proof.
  induction l as [|x l IH]; [congruence|]. intros _. destruct l as [|y l]; [reflexivity|].
  change (List.last (y :: l) a = List.last (y :: l) b). apply IH. discriminate.
Qed.

Lemma last_cons (c0 : change) rest d : List.last rest c0 = List.last (c0 :: rest) d.
Proof.
  destruct rest as [|x rest]; [reflexivity|].
  change (List.last (x :: rest) c0 = List.last (x :: rest) d). apply last_default. discriminate.
Qed.

Lemma history_undo_snoc (v : variant) (f : nat) (m : fs) (Z : list change) (y : change) (R : list change) (lim : nat) (k : sched) :
  history_undo v f (Hist m (Z ++ [y]) R lim) k =
  match run v f true (notify k) Undo y m with
  | Ok m' k' _ => HOk (Hist m' Z (R ++ [y]) lim) k'
  | Err m' k' x => HErr (Hist m' (Z ++ [y]) R lim) k' x
  end.
Proof.
  unfold history_undo, set_fs. cbn [h_undo h_fs h_redo h_limit].
  destruct (Z ++ [y]) as [|c0 rest] eqn:E; [destruct Z; discriminate|].
  rewrite (last_cons c0 rest y), <- E, last_last, removelast_last. reflexivity.
Qed.

Lemma history_redo_snoc (v : variant) (f : nat) (m : fs) (U Z : list change) (y : change) (lim : nat) (k : sched) :
  history_redo v f (Hist m U (Z ++ [y]) lim) k =
  match run v f true (notify k) Do y m with
  | Ok m' k' c' => HOk (Hist m' (U ++ [c']) Z lim) k'
  | Err m' k' x => HErr (Hist m' U (Z ++ [y]) lim) k' x
  end.
Proof.
  unfold history_redo, set_fs. cbn [h_undo h_fs h_redo h_limit].
  destruct (Z ++ [y]) as [|c0 rest] eqn:E; [destruct Z; discriminate|].
  rewrite (last_cons c0 rest y), <- E, last_last, removelast_last. reflexivity.
Qed.

Lemma run_link (v : variant) (f : nat) (d : dir) (c : change) (a b : fs) : link f d c a b -> run v f true (notify quiet) d c a = Ok b quiet c.
Proof.
  intros H. unfold link in H. pose proof (run_exec v f true quiet d c a calm_quiet) as Hr.
  rewrite H in Hr. exact Hr.
Qed.

Lemma perform_undo_chain (f lim : nat) (Y : list change) : forall (X R : list change) (m m' : fs),
  chain f Undo (rev Y) m m' ->
  perform repaired f Undo (length Y) (Hist m (X ++ Y) R lim) quiet = HOk (Hist m' X (R ++ rev Y) lim) quiet.
Proof.
  induction Y as [|y Y IH] using rev_ind; intros X R m m' H.
  - cbn in H. subst. cbn [length perform rev]. rewrite !app_nil_r. reflexivity.
  - rewrite rev_unit in H. cbn [chain] in H. destruct H as (m1 & Hl & H).
    rewrite app_length. cbn [length]. rewrite Nat.add_1_r. cbn [perform].
    rewrite app_assoc, history_undo_snoc, (run_link repaired f Undo y m m1 Hl).
    rewrite (IH X (R ++ [y]) m1 m' H), rev_unit, <- app_assoc. reflexivity.
Qed.

Lemma perform_redo_chain (f lim : nat) (Y : list change) : forall (X U : list change) (m m' : fs),
  chain f Do (rev Y) m m' ->
  perform repaired f Do (length Y) (Hist m U (X ++ Y) lim) quiet = HOk (Hist m' (U ++ rev Y) X lim) quiet.
Proof.
  induction Y as [|y Y IH] using rev_ind; intros X U m m' H.
  - cbn in H. subst. cbn [length perform rev]. rewrite !app_nil_r. reflexivity.
  - rewrite rev_unit in H. cbn [chain] in H. destruct H as (m1 & Hl & H).
    rewrite app_length. cbn [length]. rewrite Nat.add_1_r. cbn [perform].
    rewrite app_assoc, history_redo_snoc, (run_link repaired f Do y m m1 Hl).
    rewrite (IH X (U ++ [y]) m1 m' H), rev_unit, <- app_assoc. reflexivity.
Qed.

Lemma mark_scan_length T : forall acc, length (mark_scan bp acc T) = length T.
Proof.
  induction T as [|c T IH]; intros acc; cbn [mark_scan]; [reflexivity|].
  destruct (depends_on bp (resources c) acc); cbn [length]; rewrite IH; reflexivity.
Qed.

Lemma positions_length ms : forall j (T : list change),
  length ms = length T -> length (positions j ms) = length (part true ms T).
Proof.
  induction ms as [|b ms IH]; intros j T Hl; destruct T as [|c T]; try discriminate; [reflexivity|].
  cbn [positions part]. destruct b; cbn [Bool.eqb length]; [f_equal|]; apply IH; cbn in Hl; lia.
Qed.

Lemma positions_repeat n ms : forall j, positions j (repeat false n ++ ms) = positions (n + j) ms.
Proof.
  induction n as [|n IH]; intros j; [reflexivity|]. cbn [repeat app positions]. rewrite IH.
  f_equal. lia.
Qed.

Lemma part_repeat b (P : list change) ms T :
  part b (repeat false (length P) ++ ms) (P ++ T) = (if b then [] else P) ++ part b ms T.
Proof.
  induction P as [|c P IH]; [destruct b; reflexivity|]. cbn [length repeat app part]. rewrite IH.
  destruct b; reflexivity.
Qed.

Lemma marks_split P c T :
  marks bp (P ++ c :: T) (length P) = repeat false (length P) ++ true :: mark_scan bp (resources c) T.
Proof. unfold marks. rewrite drop_app. reflexivity. Qed.

Lemma drop_last_app (R Y : list change) : drop_last (length Y) (R ++ Y) = R.
Proof.
  unfold drop_last. rewrite app_length, Nat.add_sub. rewrite take_app. reflexivity.
Qed.

(* what History.undo(change) computes when the chosen change is at position |P| *)
Lemma hundo_unfold (v : variant) (f : nat) (P : list change) (c : change) (T R : list change) (lim : nat) (m : fs) (k : sched) (drp : bool) :
  let ms := mark_scan bp (resources c) T in
  hundo bp v f (Some (length P)) drp (Hist m (P ++ c :: T) R lim) k =
  match perform v f Undo (S (length (part true ms T)))
          (Hist m ((P ++ part false ms T) ++ c :: part true ms T) R lim) k with
  | HOk s2 k2 =>
      SOk (if drp then Hist (h_fs s2) (h_undo s2) (drop_last (S (length (part true ms T))) (h_redo s2)) (h_limit s2)
           else s2) k2 (length P :: positions (S (length P)) ms)
  | HErr s2 k2 x => SErr s2 k2 x
  end.
Proof.
  intros ms. unfold hundo. cbn [h_undo h_fs h_redo h_limit pick].
  destruct (P ++ c :: T) as [|c0 rest] eqn:E; [destruct P; discriminate|]. rewrite <- E. clear E.
  assert (Hlt : Nat.ltb (length P) (length (P ++ c :: T)) = true).
  { apply Nat.ltb_lt. rewrite app_length. cbn. lia. }
  rewrite Hlt. unfold find_deps, move_front. rewrite marks_split.
  rewrite positions_repeat, !part_repeat. cbn [positions part Bool.eqb length app]. fold ms.
  rewrite !Nat.add_0_r.
  rewrite (positions_length ms (S (length P)) T) by (subst ms; apply mark_scan_length).
  reflexivity.
Qed.

Lemma hredo_unfold (v : variant) (f : nat) (P : list change) (c : change) (T U : list change) (lim : nat) (m : fs) (k : sched) :
  let ms := mark_scan bp (resources c) T in
  hredo bp v f (Some (length P)) (Hist m U (P ++ c :: T) lim) k =
  match perform v f Do (S (length (part true ms T)))
          (Hist m U ((P ++ part false ms T) ++ c :: part true ms T) lim) k with
  | HOk s2 k2 => SOk s2 k2 (length P :: positions (S (length P)) ms)
  | HErr s2 k2 x => SErr s2 k2 x
  end.
Proof.
  intros ms. unfold hredo. cbn [h_undo h_fs h_redo h_limit pick].
  destruct (P ++ c :: T) as [|c0 rest] eqn:E; [destruct P; discriminate|]. rewrite <- E. clear E.
  assert (Hlt : Nat.ltb (length P) (length (P ++ c :: T)) = true).
  { apply Nat.ltb_lt. rewrite app_length. cbn. lia. }
  rewrite Hlt. unfold find_deps, move_front. rewrite marks_split.
  rewrite positions_repeat, !part_repeat. cbn [positions part Bool.eqb length app]. fold ms.
  rewrite !Nat.add_0_r.
  rewrite (positions_length ms (S (length P)) T) by (subst ms; apply mark_scan_length).
  reflexivity.
Qed.

Lemma pick_none_snoc (P : list change) c : pick None (P ++ [c]) = length P.
Proof. unfold pick. rewrite app_length. cbn. lia. Qed.

(* ------------------------------------------------------------------------------ Consistent *)
(* the undo list can be undone LIFO from the current tree and the redo list redone LIFO from it, every
   step succeeding, exactly reversible and returning the change itself; the tree is a tree *)
Definition Consistent (f : nat) (s : hist) : Prop :=
  wf_fs (h_fs s)
  /\ (exists base, chain f Undo (rev (h_undo s)) (h_fs s) base)
  /\ (exists top, chain f Do (rev (h_redo s)) (h_fs s) top).

(* [replay f base l m]: performing the changes of l in order from the tree base gives the tree m *)
Definition replay (f : nat) (base : fs) (l : list change) (m : fs) : Prop := chain f Do l base m.

Lemma consistent_replay f s : Consistent f s -> exists base, wf_fs base /\ replay f base (h_undo s) (h_fs s).
Proof.
  intros (Hwf & (base & Hu) & _). exists base. split; [eapply chain_wf; eauto|].
  unfold replay. apply (chain_rev' f Undo (h_undo s) (h_fs s) base Hwf Hu).
Qed.

(* ------------------------------------------------------------------- refusals and bookkeeping *)
Theorem empty_undo_refused v f ign sel drp s k :
  h_undo s = [] -> hstep bp v f ign (OUndo sel drp) s k = SErr s k (E HistEmpty).
Proof. intros H. cbn [hstep]. unfold hundo. rewrite H. reflexivity. Qed.

Theorem empty_redo_refused v f ign sel s k :
  h_redo s = [] -> hstep bp v f ign (ORedo sel) s k = SErr s k (E HistEmpty).
Proof. intros H. cbn [hstep]. unfold hredo. rewrite H. reflexivity. Qed.

Theorem new_change_clears_redo v f ign c s k s' k' deps :
  hstep bp v f ign (ODo c) s k = SOk s' k' deps -> h_redo s' = [] /\ deps = [].
Proof.
  cbn [hstep]. unfold hdo. destruct (run v f true (notify k) Do c (h_fs s)); [|discriminate].
  intros H; inversion H; subst. auto.
Qed.

(* the limit: |undo| + |redo| <= limit is preserved by every operation, successful or not *)
Definition within (s : hist) : Prop := length (h_undo s) + length (h_redo s) <= h_limit s.

Lemma removelast_length' (l : list change) : l <> [] -> S (length (removelast l)) = length l.
Proof.
  intros H. rewrite (app_removelast_last (CS 0 []) H) at 2. rewrite app_length. cbn. lia.
Qed.

Lemma perform_sizes v f d n : forall s k,
  let s' := match perform v f d n s k with HOk s' _ => s' | HErr s' _ _ => s' end in
  length (h_undo s') + length (h_redo s') = length (h_undo s) + length (h_redo s)
  /\ h_limit s' = h_limit s
  /\ (forall k', perform v f d n s k = HOk s' k' ->
        match d with Undo => length (h_redo s') = length (h_redo s) + n
                   | Do => length (h_undo s') = length (h_undo s) + n end).
Proof.
  induction n as [|n IH]; intros s k; cbn [perform]; [split; [reflexivity|split; [reflexivity|]]; intros; destruct d; lia|].
  destruct d.
  - unfold history_redo. destruct (h_redo s) as [|c0 rest] eqn:Er.
    + cbn. rewrite Er. split; [reflexivity|]. split; [reflexivity|]. discriminate.
    + destruct (run v f true (notify k) Do (List.last rest c0) (h_fs s)) as [m' k1 c'|m' k1 x].
      * specialize (IH (Hist m' (h_undo s ++ [c']) (removelast (c0 :: rest)) (h_limit s)) k1).
        cbn zeta in *. cbn [h_undo h_redo h_limit] in IH.
        assert (Hl := removelast_length' (c0 :: rest) ltac:(discriminate)).
        rewrite app_length in IH. cbn [length] in IH, Hl |- *.
        destruct IH as (I1 & I2 & I3). split; [lia|]. split; [exact I2|].
        intros k' Hk. specialize (I3 k' Hk). lia.
      * cbn. rewrite Er. split; [reflexivity|]. split; [reflexivity|]. discriminate.
  - unfold history_undo. destruct (h_undo s) as [|c0 rest] eqn:Eu.
    + cbn. rewrite Eu. split; [reflexivity|]. split; [reflexivity|]. discriminate.
    + destruct (run v f true (notify k) Undo (List.last rest c0) (h_fs s)) as [m' k1 c'|m' k1 x].
      * specialize (IH (Hist m' (removelast (c0 :: rest)) (h_redo s ++ [List.last rest c0]) (h_limit s)) k1).
        cbn zeta in *. cbn [h_undo h_redo h_limit] in IH.
        assert (Hl := removelast_length' (c0 :: rest) ltac:(discriminate)).
        rewrite app_length in IH. cbn [length] in IH, Hl |- *.
        destruct IH as (I1 & I2 & I3). split; [lia|]. split; [exact I2|].
        intros k' Hk. specialize (I3 k' Hk). lia.
      * cbn. rewrite Eu. split; [reflexivity|]. split; [reflexivity|]. discriminate.
Qed.

Lemma part_lengths ms : forall (l : list change),
  length ms = length l -> length (part false ms l) + length (part true ms l) = length l.
Proof.
  induction ms as [|b ms IH]; intros l Hl; destruct l as [|c l]; try discriminate; [reflexivity|].
  cbn [part]. cbn in Hl. destruct b; cbn [Bool.eqb length]; rewrite <- (IH l) by lia; lia.
Qed.

Lemma marks_length (l : list change) i : i < length l -> length (marks bp l i) = length l.
Proof.
  intros H. unfold marks. rewrite app_length, repeat_length.
  destruct (drop i l) as [|c rest] eqn:E.
  - apply (f_equal length) in E. rewrite drop_length in E. cbn in E. lia.
  - cbn [length]. rewrite mark_scan_length.
    apply (f_equal length) in E. rewrite drop_length in E. cbn in E. lia.
Qed.

Lemma trim_length lim (l : list change) : length (trim lim l) <= lim.
Proof. unfold trim. rewrite skipn_length. lia. Qed.

Theorem limit_step v f ign o s k :
  within s ->
  let s' := sres_state (hstep bp v f ign o s k) in within s' /\ h_limit s' = h_limit s.
Proof.
  unfold within. intros Hw. destruct o as [c|sel drp|sel]; cbn [hstep].
  - unfold hdo. destruct (run v f true (notify k) Do c (h_fs s)) as [m' k' c'|m' k' x]; cbn.
    + split; [|reflexivity]. destruct (interesting_in ign c'); [|lia].
      pose proof (trim_length (h_limit s) (h_undo s ++ [c'])). lia.
    + split; [exact Hw|reflexivity].
  - unfold hundo. destruct (h_undo s) as [|c0 rest] eqn:Eu; [cbn; rewrite Eu; auto|]. rewrite <- Eu in Hw |- *.
    destruct (Nat.ltb (pick sel (h_undo s)) (length (h_undo s))) eqn:Elt; [|cbn; auto].
    apply Nat.ltb_lt in Elt.
    set (s1 := Hist (h_fs s) (move_front (h_undo s) (marks bp (h_undo s) (pick sel (h_undo s)))) (h_redo s) (h_limit s)).
    pose proof (perform_sizes v f Undo (length (find_deps bp (h_undo s) (pick sel (h_undo s)))) s1 k) as Hp.
    cbn zeta in Hp.
    assert (Hs1 : length (h_undo s1) = length (h_undo s)).
    { subst s1. cbn [h_undo]. unfold move_front. rewrite app_length.
      apply part_lengths. apply marks_length. exact Elt. }
    destruct (perform v f Undo _ s1 k) as [s2 k2|s2 k2 x]; destruct Hp as (P1 & P2 & P3).
    + cbn [sres_state]. destruct drp.
      * cbn [h_undo h_redo h_limit]. unfold drop_last. rewrite take_length.
        subst s1. cbn [h_undo h_redo h_limit] in *. split; [lia|exact P2].
      * subst s1. cbn [h_undo h_redo h_limit] in *. split; [lia|exact P2].
    + cbn [sres_state]. subst s1. cbn [h_undo h_redo h_limit] in *. split; [lia|exact P2].
  - unfold hredo. destruct (h_redo s) as [|c0 rest] eqn:Er; [cbn; rewrite Er; auto|]. rewrite <- Er in Hw |- *.
    destruct (Nat.ltb (pick sel (h_redo s)) (length (h_redo s))) eqn:Elt; [|cbn; auto].
    apply Nat.ltb_lt in Elt.
    set (s1 := Hist (h_fs s) (h_undo s) (move_front (h_redo s) (marks bp (h_redo s) (pick sel (h_redo s)))) (h_limit s)).
    pose proof (perform_sizes v f Do (length (find_deps bp (h_redo s) (pick sel (h_redo s)))) s1 k) as Hp.
    cbn zeta in Hp.
    assert (Hs1 : length (h_redo s1) = length (h_redo s)).
    { subst s1. cbn [h_redo]. unfold move_front. rewrite app_length.
      apply part_lengths. apply marks_length. exact Elt. }
    destruct (perform v f Do _ s1 k) as [s2 k2|s2 k2 x]; destruct Hp as (P1 & P2 & P3);
      cbn [sres_state]; subst s1; cbn [h_undo h_redo h_limit] in *; split; try lia; exact P2.
Qed.

Theorem limit_session v f ign os : forall s,
  within s -> within (hsteps bp v f ign os s) /\ h_limit (hsteps bp v f ign os s) = h_limit s.
Proof.
  induction os as [|o os IH]; intros s Hw; cbn [hsteps]; [auto|].
  destruct (limit_step v f ign o s quiet Hw) as [Hw' Hl].
  destruct (IH _ Hw') as [Hw'' Hl']. split; [exact Hw''|congruence].
Qed.

(* ------------------------------------------------------------------ undo / redo of the last *)
Lemma hundo_last (f : nat) (P : list change) (c : change) (R : list change) (lim : nat) (m m' : fs) (drp : bool) :
  link f Undo c m m' ->
  hundo bp repaired f None drp (Hist m (P ++ [c]) R lim) quiet =
  SOk (Hist m' P (if drp then R else R ++ [c]) lim) quiet [length P].
Proof.
  intros Hl. assert (E : hundo bp repaired f None drp (Hist m (P ++ [c]) R lim) quiet
                        = hundo bp repaired f (Some (length P)) drp (Hist m (P ++ [c]) R lim) quiet).
  { unfold hundo. cbn [h_undo]. rewrite pick_none_snoc. reflexivity. }
  rewrite E, (hundo_unfold repaired f P c [] R lim m quiet drp). cbn [mark_scan part length positions].
  rewrite app_nil_r.
  pose proof (perform_undo_chain f lim [c] P R m m') as Hp. cbn [length rev app] in Hp.
  rewrite Hp; [|cbn; eauto].
  cbn [h_fs h_undo h_redo h_limit]. destruct drp; [|reflexivity].
  change 1 with (length [c]). rewrite (drop_last_app R [c]). reflexivity.
Qed.

Lemma hredo_last (f : nat) (P : list change) (c : change) (U : list change) (lim : nat) (m m' : fs) :
  link f Do c m m' ->
  hredo bp repaired f None (Hist m U (P ++ [c]) lim) quiet = SOk (Hist m' (U ++ [c]) P lim) quiet [length P].
Proof.
  intros Hl. assert (E : hredo bp repaired f None (Hist m U (P ++ [c]) lim) quiet
                        = hredo bp repaired f (Some (length P)) (Hist m U (P ++ [c]) lim) quiet).
  { unfold hredo. cbn [h_redo]. rewrite pick_none_snoc. reflexivity. }
  rewrite E, (hredo_unfold repaired f P c [] U lim m quiet). cbn [mark_scan part length positions].
  rewrite app_nil_r.
  pose proof (perform_redo_chain f lim [c] P U m m') as Hp. cbn [length rev app] in Hp.
  rewrite Hp; [|cbn; eauto]. reflexivity.
Qed.

Lemma run_ok_exec (v : variant) (f : nat) (js : bool) (k : sched) (d : dir) (c : change) (m m1 : fs) (k1 : sched) (c1 : change) :
  calm k -> run v f js k d c m = Ok m1 k1 c1 ->
  exists ir, exec f d c m = Some (m1, c1, ir) /\ k1 = after js ir k.
Proof.
  intros Hc H. pose proof (run_exec v f js k d c m Hc) as Hr.
  destruct (exec f d c m) as [[[m' c'] ir]|].
  - rewrite H in Hr. inversion Hr; subst. eauto.
  - destruct Hr as (m' & k' & x & Hr). congruence.
Qed.

(* what a successful, exactly reversible History.do leaves behind *)
Lemma hdo_ok f ign c s s' k' deps :
  wf_fs (h_fs s) -> hdo repaired f ign c s quiet = SOk s' k' deps -> irrev k' = false ->
  exists c', link f Undo c' (h_fs s') (h_fs s) /\ wf_fs (h_fs s') /\ k' = quiet /\ deps = []
             /\ h_redo s' = [] /\ h_limit s' = h_limit s
             /\ h_undo s' = (if interesting_in ign c' then trim (h_limit s) (h_undo s ++ [c']) else h_undo s).
Proof.
  intros Hwf H Hirr. unfold hdo in H.
  destruct (run repaired f true (notify quiet) Do c (h_fs s)) as [m' k1 c'|m' k1 x] eqn:Er; [|discriminate].
  inversion H; subst s' k1 deps; clear H. cbn [h_fs h_undo h_redo h_limit].
  destruct (run_ok_exec _ _ _ _ _ _ _ _ _ _ calm_quiet Er) as (ir & He & Hk).
  assert (ir = false).
  { subst k'. rewrite irrev_after in Hirr. cbn in Hirr. exact Hirr. }
  subst ir. destruct (exec_inverse f _ _ _ _ _ Hwf He) as (Hwf' & Hinv).
  exists c'. split; [exact Hinv|]. split; [exact Hwf'|]. split; [subst k'; reflexivity|]. auto.
Qed.

Lemma trim_snoc lim (l : list change) c : 0 < lim -> trim lim (l ++ [c]) = trim (lim - 1) l ++ [c].
Proof.
  intros H. unfold trim. rewrite app_length. cbn [length].
  replace (length l + 1 - lim) with (length l - (lim - 1)) by lia.
  rewrite skipn_app. replace (length l - (lim - 1) - length l) with 0 by lia. reflexivity.
Qed.

(* undo after do: the tree and the undo list are back (the oldest entry is gone if the limit was hit),
   the redo list holds exactly the change *)
Theorem undo_after_do f ign c s s1 k1 deps :
  wf_fs (h_fs s) -> 0 < h_limit s ->
  hstep bp repaired f ign (ODo c) s quiet = SOk s1 k1 deps -> irrev k1 = false ->
  h_undo s1 <> h_undo s ->
  exists c' s2,
    hstep bp repaired f ign (OUndo None false) s1 quiet = SOk s2 quiet [length (h_undo s1) - 1]
    /\ h_fs s2 = h_fs s /\ h_undo s2 = trim (h_limit s - 1) (h_undo s) /\ h_redo s2 = [c']
    /\ h_limit s2 = h_limit s.
Proof.
  intros Hwf Hlim H Hirr Hrec. cbn [hstep] in *.
  destruct (hdo_ok _ _ _ _ _ _ _ Hwf H Hirr) as (c' & Hl & Hwf1 & -> & -> & Hr & Hlm & Hu).
  destruct (interesting_in ign c'); [|congruence].
  rewrite (trim_snoc _ _ _ Hlim) in Hu.
  destruct s1 as [m1 U1 R1 lim1]. cbn [h_fs h_undo h_redo h_limit] in *. subst U1 R1 lim1.
  exists c'. eexists. split.
  - rewrite (hundo_last f _ c' [] _ m1 (h_fs s) false Hl).
    rewrite app_length. cbn [length]. rewrite Nat.add_sub. reflexivity.
  - cbn [h_fs h_undo h_redo h_limit app]. auto.
Qed.

(* redo after undo: everything is back *)
Theorem redo_after_undo f ign s :
  Consistent f s -> h_undo s <> [] ->
  exists s1, hstep bp repaired f ign (OUndo None false) s quiet = SOk s1 quiet [length (h_undo s) - 1]
             /\ hstep bp repaired f ign (ORedo None) s1 quiet = SOk s quiet [length (h_redo s)].
Proof.
  intros (Hwf & (base & Hu) & _) Hne. destruct s as [m U R lim]. cbn [h_fs h_undo h_redo h_limit] in *.
  destruct (exists_last Hne) as (P & c & ->). rewrite rev_unit in Hu. cbn [chain] in Hu.
  destruct Hu as (m' & Hl & _). cbn [hstep].
  eexists. split.
  - rewrite (hundo_last f P c R lim m m' false Hl). rewrite app_length. cbn [length]. rewrite Nat.add_sub. reflexivity.
  - rewrite (hredo_last f R c P lim m' m (link_back _ _ _ _ _ Hwf Hl)). reflexivity.
Qed.

(* and undo after redo *)
Theorem undo_after_redo f ign s :
  Consistent f s -> h_redo s <> [] ->
  exists s1, hstep bp repaired f ign (ORedo None) s quiet = SOk s1 quiet [length (h_redo s) - 1]
             /\ hstep bp repaired f ign (OUndo None false) s1 quiet = SOk s quiet [length (h_undo s)].
Proof.
  intros (Hwf & _ & (top & Hr)) Hne. destruct s as [m U R lim]. cbn [h_fs h_undo h_redo h_limit] in *.
  destruct (exists_last Hne) as (P & c & ->). rewrite rev_unit in Hr. cbn [chain] in Hr.
  destruct Hr as (m' & Hl & _). cbn [hstep].
  eexists. split.
  - rewrite (hredo_last f P c U lim m m' Hl). rewrite app_length. cbn [length]. rewrite Nat.add_sub. reflexivity.
  - rewrite (hundo_last f U c P lim m' m false (link_back _ _ _ _ _ Hwf Hl)). reflexivity.
Qed.

(* drop=True: as undo, but the redo list is untouched *)
Theorem undo_drop f ign s :
  Consistent f s -> h_undo s <> [] ->
  exists s1 s2,
    hstep bp repaired f ign (OUndo None false) s quiet = SOk s1 quiet [length (h_undo s) - 1]
    /\ hstep bp repaired f ign (OUndo None true) s quiet = SOk s2 quiet [length (h_undo s) - 1]
    /\ h_fs s2 = h_fs s1 /\ h_undo s2 = h_undo s1 /\ h_redo s2 = h_redo s /\ h_limit s2 = h_limit s.
Proof.
  intros (Hwf & (base & Hu) & _) Hne. destruct s as [m U R lim]. cbn [h_fs h_undo h_redo h_limit] in *.
  destruct (exists_last Hne) as (P & c & ->). rewrite rev_unit in Hu. cbn [chain] in Hu.
  destruct Hu as (m' & Hl & _). cbn [hstep].
  eexists. eexists. split; [|split].
  - rewrite (hundo_last f P c R lim m m' false Hl). rewrite app_length. cbn [length]. rewrite Nat.add_sub. reflexivity.
  - rewrite (hundo_last f P c R lim m m' true Hl). rewrite app_length. cbn [length]. rewrite Nat.add_sub. reflexivity.
  - cbn. auto.
Qed.

End dep.
