(* The Consistent invariant under History.do, and the selective undo / redo theorems. *)
From stdpp Require Import gmap list.
From Coq Require Import NArith Lia.
From RopeVerif.Lib Require Import Text.
From RopeVerif.C10 Require Import FsModel FsProofs Change ChangeProofs.
From RopeVerif.C11 Require Import History ExecProofs CommuteProofs HistoryProofs.

(* ------------------------------------------- the performed change has the resources of the given one *)
Lemma pleaf_do_resources (c : change) (m m1 : fs) (c1 : change) (ir : bool) : pleaf Do c m = Some (m1, c1, ir) -> resources c1 = resources c.
Proof.
  intros H. destruct c as [p new [o|]|p q f|p f|p f|t cs].
  - apply pleaf_some in H. destruct H as (k1 & Hb & _). cbn [body] in Hb. apply lift_ok in Hb. destruct Hb as [_ ->]. reflexivity.
  - apply pleaf_fresh in H. destruct H as (o & _ & -> & _). reflexivity.
  - apply pleaf_some in H. destruct H as (k1 & Hb & _). cbn [body] in Hb. apply lift_ok in Hb. destruct Hb as [_ ->]. reflexivity.
  - apply pleaf_some in H. destruct H as (k1 & Hb & _). cbn [body] in Hb.
    destruct (exists_b m p); [discriminate|]. destruct (negb (exists_b m (parent p))); [discriminate|].
    apply lift_ok in Hb. destruct Hb as [_ ->]. reflexivity.
  - apply pleaf_some in H. destruct H as (k1 & Hb & _). cbn [body] in Hb. apply lift_ok in Hb. destruct Hb as [_ ->]. reflexivity.
  - apply pleaf_some in H. destruct H as (k1 & Hb & _). discriminate.
Qed.

Lemma resources_list_app l1 l2 : resources_list (l1 ++ l2) = resources_list l1 ++ resources_list l2.
Proof. induction l1 as [|c l1 IH]; [reflexivity|]. cbn [app resources_list]. rewrite IH, app_assoc. reflexivity. Qed.

Definition DORES (f : nat) : Prop :=
  forall (c : change) (m m1 : fs) (c1 : change) (ir : bool), exec f Do c m = Some (m1, c1, ir) -> resources c1 = resources c.

Lemma eloop_do_resources f (IH : DORES f) (l : list change) : forall (done : list change) (ir : bool) (done1 : list change) (ir1 : bool) (m m1 : fs),
  eloop f Do l m done ir = Some (m1, done1, ir1) ->
  exists res, done1 = rev res ++ done /\ resources_list res = resources_list l.
Proof.
  induction l as [|c l IHl]; intros done ir done1 ir1 m m1 H; cbn [eloop] in H.
  - inversion H; subst. exists []. auto.
  - destruct (exec f Do c m) as [[[m' c'] i]|] eqn:Ec; [|discriminate].
    apply IHl in H. destruct H as (res & -> & Hr). exists (c' :: res). cbn [rev resources_list].
    rewrite <- app_assoc. split; [reflexivity|]. rewrite Hr, (IH _ _ _ _ _ Ec). reflexivity.
Qed.

Lemma exec_do_resources f : DORES f.
Proof.
  induction f as [|f IH]; intros c m m1 c1 ir H; [discriminate|].
  destruct c as [p new old|p q b|p b|p b|t cs];
    try (rewrite exec_leaf in H by exact I; eapply pleaf_do_resources; eauto).
  rewrite exec_CS in H. cbn [order] in H.
  destruct (eloop f Do cs m [] false) as [[[m' done] ir']|] eqn:El; [|discriminate].
  inversion H; subst. apply (eloop_do_resources f IH) in El. destruct El as (res & -> & Hr).
  rewrite app_nil_r, rev_involutive, !resources_CS. exact Hr.
Qed.

Section dep.
(* which dependency test: false = the code as found (class and path), true = paths only *)
Variable bp : bool.

(* ------------------------------------------------------------------ History.do and Consistent *)
Lemma chain_prefix (f : nat) (d : dir) (l1 l2 : list change) (a b : fs) : chain f d (l1 ++ l2) a b -> exists mid, chain f d l1 a mid.
Proof. intros H. apply chain_app in H. destruct H as (mid & H & _). eauto. Qed.

Lemma rev_trim lim (l : list change) : exists pre, rev l = rev (trim lim l) ++ pre.
Proof.
  unfold trim. exists (rev (firstn (length l - lim) l)).
  rewrite <- rev_app_distr, firstn_skipn. reflexivity.
Qed.

(* a successful, exactly reversible do of a change that touches a non-ignored resource *)
Theorem consistent_do_ok f ign c s s' k' deps :
  Consistent f s -> interesting_in ign c = true ->
  hstep bp repaired f ign (ODo c) s quiet = SOk s' k' deps -> irrev k' = false ->
  Consistent f s'.
Proof.
  intros (Hwf & (base & Hu) & _) Hint H Hirr. cbn [hstep] in H. unfold hdo in H.
  destruct (run repaired f true (notify quiet) Do c (h_fs s)) as [m1 k1 c1|m1 k1 x] eqn:Er; [|discriminate].
  destruct (run_ok_exec _ _ _ _ _ _ _ _ _ _ calm_quiet Er) as (ir & He & Hk).
  inversion H; subst s' k' deps; clear H.
  assert (ir = false) by (subst k1; rewrite irrev_after in Hirr; cbn in Hirr; exact Hirr). subst ir.
  destruct (exec_inverse f _ _ _ _ _ Hwf He) as (Hwf1 & Hinv). cbn [opp] in Hinv.
  assert (Hint1 : interesting_in ign c1 = true).
  { unfold interesting_in. rewrite (exec_do_resources f _ _ _ _ _ He). exact Hint. }
  rewrite Hint1. split; [exact Hwf1|]. cbn [h_fs h_undo h_redo].
  split; [|exists m1; reflexivity].
  destruct (rev_trim (h_limit s) (h_undo s ++ [c1])) as (pre & Hpre).
  apply (chain_prefix f Undo _ pre m1 base). rewrite <- Hpre, rev_unit. cbn [chain]. eauto.
Qed.

(* a refused do (no irreversible sub-change performed before the failure) changes nothing *)
Theorem consistent_do_refused f ign c s s' k' x :
  wf_fs (h_fs s) ->
  hstep bp repaired f ign (ODo c) s quiet = SErr s' k' x -> irrev k' = false -> s' = s.
Proof.
  intros Hwf H Hirr. cbn [hstep] in H. unfold hdo in H.
  destruct (run repaired f true (notify quiet) Do c (h_fs s)) as [m1 k1 c1|m1 k1 x1] eqn:Er; [discriminate|].
  inversion H; subst s' k1 x1; clear H.
  destruct (atom_all f _ _ _ _ _ _ _ Hwf Er Hirr) as (-> & _); [left; reflexivity|].
  destruct s; reflexivity.
Qed.

(* -------------------------------------------------------------------------- selective undo *)
Lemma split_at (l : list change) i : i < length l -> exists P c T, l = P ++ c :: T /\ length P = i.
Proof.
  intros H. destruct (lookup_lt_is_Some_2 l i H) as [c Hc].
  exists (take i l), c, (drop (S i) l). split; [symmetry; apply take_drop_middle; exact Hc|].
  rewrite take_length. lia.
Qed.

Lemma marks_parts P c T :
  part false (marks bp (P ++ c :: T) (length P)) (P ++ c :: T) = P ++ part false (mark_scan bp (resources c) T) T
  /\ part true (marks bp (P ++ c :: T) (length P)) (P ++ c :: T) = c :: part true (mark_scan bp (resources c) T) T
  /\ find_deps bp (P ++ c :: T) (length P) = length P :: positions (S (length P)) (mark_scan bp (resources c) T).
Proof.
  unfold find_deps. rewrite marks_split, !part_repeat, positions_repeat. cbn [part Bool.eqb positions app].
  rewrite Nat.add_0_r. auto.
Qed.

Lemma cok_suffix (P X : list change) : cok (resources_list (P ++ X)) -> cok (resources_list X).
Proof. intros H. eapply cok_sub; [|exact H]. intros r Hr. rewrite resources_list_app. apply in_or_app. auto. Qed.

Lemma cok_suffix' (P X : list change) :
  bp = true \/ cok (resources_list (P ++ X)) -> bp = true \/ cok (resources_list X).
Proof. intros [H|H]; [left; exact H|right; eapply cok_suffix; exact H]. Qed.

(* History.undo(change = undo_list[i], drop):  the call succeeds; it returns the dependency closure; the
   undo list keeps the non-members in order; the redo list gains the members (most recent first) unless
   drop; the new tree is what replaying the remaining changes from the SAME initial tree gives; and the
   new state is Consistent (after drop: its undo half). *)
Theorem selective_undo f ign s i drp :
  Consistent f s -> bp = true \/ cok (resources_list (h_undo s)) -> i < length (h_undo s) ->
  let ms := marks bp (h_undo s) i in
  exists s' base,
    hstep bp repaired f ign (OUndo (Some i) drp) s quiet = SOk s' quiet (find_deps bp (h_undo s) i)
    /\ h_undo s' = part false ms (h_undo s)
    /\ h_redo s' = (if drp then h_redo s else h_redo s ++ rev (part true ms (h_undo s)))
    /\ h_limit s' = h_limit s
    /\ wf_fs base /\ replay f base (h_undo s) (h_fs s) /\ replay f base (h_undo s') (h_fs s')
    /\ wf_fs (h_fs s')
    /\ (drp = false -> Consistent f s').
Proof.
  intros Hc Hcok Hi ms. destruct (consistent_replay f s Hc) as (base & Hwfb & Hrep).
  destruct Hc as (Hwf & _ & (top & Hredo)).
  destruct s as [m U R lim]. cbn [h_fs h_undo h_redo h_limit] in *.
  destruct (split_at U i Hi) as (P & c & T & -> & <-). subst ms.
  destruct (marks_parts P c T) as (EF & ET & ED). rewrite EF, ET, ED. clear EF ET ED.
  set (ms := mark_scan bp (resources c) T).
  destruct (split_core bp f Do P c T base m Hwfb Hrep (cok_suffix' P _ Hcok)) as (mid & Hwfm & H1 & H2). fold ms in H1, H2.
  assert (Hundo : chain f Undo (rev (c :: part true ms T)) m mid) by (apply (chain_rev f Do _ mid m Hwfm H2)).
  cbn [hstep]. rewrite (hundo_unfold bp repaired f P c T R lim m quiet drp). fold ms.
  pose proof (perform_undo_chain f lim (c :: part true ms T) (P ++ part false ms T) R m mid Hundo) as Hp.
  cbn [length] in Hp. rewrite Hp. cbn [h_fs h_undo h_redo h_limit].
  exists (Hist mid (P ++ part false ms T) (if drp then R else R ++ rev (c :: part true ms T)) lim), base.
  split.
  { destruct drp; [|reflexivity]. f_equal. f_equal.
    replace (S (length (part true ms T))) with (length (rev (c :: part true ms T))) by (rewrite rev_length; reflexivity).
    apply drop_last_app. }
  cbn [h_fs h_undo h_redo h_limit]. split; [reflexivity|]. split; [reflexivity|]. split; [reflexivity|].
  split; [exact Hwfb|]. split; [exact Hrep|]. split; [exact H1|]. split; [exact Hwfm|].
  intros ->. split; [exact Hwfm|]. cbn [h_fs h_undo h_redo]. split.
  - exists base. apply (chain_rev f Do _ base mid Hwfb H1).
  - exists top. rewrite rev_app_distr, rev_involutive. apply chain_app. exists m. split; [exact H2|exact Hredo].
Qed.

(* History.redo(change = redo_list[i]) *)
Theorem selective_redo f ign s i :
  Consistent f s -> bp = true \/ cok (resources_list (h_redo s)) -> i < length (h_redo s) ->
  let ms := marks bp (h_redo s) i in
  exists s',
    hstep bp repaired f ign (ORedo (Some i)) s quiet = SOk s' quiet (find_deps bp (h_redo s) i)
    /\ h_redo s' = part false ms (h_redo s)
    /\ h_undo s' = h_undo s ++ rev (part true ms (h_redo s))
    /\ h_limit s' = h_limit s
    /\ Consistent f s'.
Proof.
  intros (Hwf & (base & Hundo) & (top & Hredo)) Hcok Hi ms.
  destruct s as [m U R lim]. cbn [h_fs h_undo h_redo h_limit] in *.
  pose proof (chain_wf _ _ _ _ _ Hwf Hredo) as Hwft.
  pose proof (chain_rev' f Do R m top Hwf Hredo) as Hr. cbn [opp] in Hr.
  destruct (split_at R i Hi) as (P & c & T & -> & <-). subst ms.
  destruct (marks_parts P c T) as (EF & ET & ED). rewrite EF, ET, ED. clear EF ET ED.
  set (ms := mark_scan bp (resources c) T).
  destruct (split_core bp f Undo P c T top m Hwft Hr (cok_suffix' P _ Hcok)) as (mid & Hwfm & H1 & H2). fold ms in H1, H2.
  assert (Hdo : chain f Do (rev (c :: part true ms T)) m mid) by (apply (chain_rev f Undo _ mid m Hwfm H2)).
  cbn [hstep]. rewrite (hredo_unfold bp repaired f P c T U lim m quiet). fold ms.
  pose proof (perform_redo_chain f lim (c :: part true ms T) (P ++ part false ms T) U m mid Hdo) as Hp.
  cbn [length] in Hp. rewrite Hp.
  eexists. split; [reflexivity|]. cbn [h_fs h_undo h_redo h_limit].
  split; [reflexivity|]. split; [reflexivity|]. split; [reflexivity|].
  split; [exact Hwfm|]. cbn [h_fs h_undo h_redo]. split.
  - exists base. rewrite rev_app_distr, rev_involutive. apply chain_app. exists m. split; [exact H2|exact Hundo].
  - exists top. apply (chain_rev f Undo _ top mid Hwft H1).
Qed.

(* the dependency scan is sound: every change that is NOT taken is apart from (shares no path with,
   lies neither below nor above) every resource of the chosen change and of the members before it *)
Theorem closure_sound c T :
  bp = true \/ cok (resources_list (c :: T)) -> okmarks (roots c) (mark_scan bp (resources c) T) T.
Proof. intros H. apply (mark_scan_ok bp T (resources c)). exact H. Qed.

(* a change is only taken along when one of its paths equals, lies below or lies above a path of the
   chosen change or of an earlier member *)
Lemma dep1_nested (r s : bool * list N) : dep1 bp r s = true -> nested (snd r) (snd s) = true.
Proof.
  destruct r as [fr pr], s as [fs0 ps]. unfold dep1, contains, rsrc_eqb, proper_prefix, nested. cbn [fst snd].
  destruct bp; [auto|]. rewrite !orb_true_iff, !andb_true_iff. intros [[H|H]|H].
  - destruct H as [_ H]. apply text_eqb_true in H. subst. left. apply is_prefix_refl.
  - destruct H as [_ [_ H]]. left. destruct pr as [|x pr]; [reflexivity|].
    apply andb_true_iff in H. destruct H as [H _]. exact H.
  - destruct H as [_ [_ H]]. right. destruct ps as [|x ps]; [reflexivity|].
    apply andb_true_iff in H. destruct H as [H _]. exact H.
Qed.

Theorem closure_tight rs acc :
  depends_on bp rs acc = true ->
  exists r s, In r rs /\ In s acc /\ nested (snd r) (snd s) = true.
Proof.
  unfold depends_on. intros H. apply existsb_exists in H. destruct H as (r & Hr & H).
  apply existsb_exists in H. destruct H as (s & Hs & H). exists r, s. split; [exact Hr|]. split; [exact Hs|].
  apply dep1_nested. exact H.
Qed.

(* ------------------------------------------------------------- the invariant, in one statement *)
(* conditions on one operation and its outcome under which Consistent is kept: a do must touch a
   non-ignored resource and perform only exactly reversible leaves (also when it is refused half-way);
   an undo must not drop *)
Definition step_ok (ign : list N -> bool) (o : op) (r : sres) : Prop :=
  match o with
  | ODo c => interesting_in ign c = true
             /\ match r with SOk _ k _ => irrev k = false | SErr _ k _ => irrev k = false | SNotListed _ k => True end
  | OUndo _ drp => drp = false
  | ORedo _ => True
  end.

Lemma hundo_none v f drp s k :
  hundo bp v f None drp s k = hundo bp v f (Some (length (h_undo s) - 1)) drp s k.
Proof. reflexivity. Qed.

Lemma hredo_none v f s k :
  hredo bp v f None s k = hredo bp v f (Some (length (h_redo s) - 1)) s k.
Proof. reflexivity. Qed.

Theorem consistent_step f ign o s :
  Consistent f s ->
  bp = true \/ (cok (resources_list (h_undo s)) /\ cok (resources_list (h_redo s))) ->
  step_ok ign o (hstep bp repaired f ign o s quiet) ->
  Consistent f (sres_state (hstep bp repaired f ign o s quiet)).
Proof.
  intros Hc Hcok Hok. destruct o as [c|sel drp|sel]; cbn [step_ok] in Hok.
  - destruct Hok as [Hint Hirr].
    destruct (hstep bp repaired f ign (ODo c) s quiet) as [s' k' deps|s' k' x|s' k'] eqn:E; cbn [sres_state].
    + eapply consistent_do_ok; eauto.
    + destruct Hc as (Hwf & Hrest). rewrite (consistent_do_refused f ign c s s' k' x Hwf E Hirr). split; assumption.
    + cbn [hstep] in E. unfold hdo in E. destruct (run repaired f true (notify quiet) Do c (h_fs s)); discriminate.
  - subst drp. cbn [hstep].
    assert (Hu : bp = true \/ cok (resources_list (h_undo s))) by (destruct Hcok as [H|[H _]]; auto).
    assert (Hsel : forall i, hundo bp repaired f (Some i) false s quiet
                             = hstep bp repaired f ign (OUndo (Some i) false) s quiet) by reflexivity.
    assert (Hgo : forall i, Consistent f (sres_state (hundo bp repaired f (Some i) false s quiet))).
    { intros i. destruct (Nat.lt_ge_cases i (length (h_undo s))) as [Hi|Hi].
      - destruct (selective_undo f ign s i false Hc Hu Hi) as (s' & base & Hs & _ & _ & _ & _ & _ & _ & _ & Hcons).
        rewrite Hsel, Hs. cbn [sres_state]. apply Hcons. reflexivity.
      - unfold hundo. cbn [pick]. destruct (h_undo s) as [|c1 r1]; [exact Hc|].
        apply Nat.ltb_ge in Hi. rewrite Hi. exact Hc. }
    destruct sel as [i|]; [apply Hgo|]. rewrite hundo_none. apply Hgo.
  - cbn [hstep].
    assert (Hr : bp = true \/ cok (resources_list (h_redo s))) by (destruct Hcok as [H|[_ H]]; auto).
    assert (Hsel : forall i, hredo bp repaired f (Some i) s quiet
                             = hstep bp repaired f ign (ORedo (Some i)) s quiet) by reflexivity.
    assert (Hgo : forall i, Consistent f (sres_state (hredo bp repaired f (Some i) s quiet))).
    { intros i. destruct (Nat.lt_ge_cases i (length (h_redo s))) as [Hi|Hi].
      - destruct (selective_redo f ign s i Hc Hr Hi) as (s' & Hs & _ & _ & _ & Hcons).
        rewrite Hsel, Hs. exact Hcons.
      - unfold hredo. cbn [pick]. destruct (h_redo s) as [|c1 r1]; [exact Hc|].
        apply Nat.ltb_ge in Hi. rewrite Hi. exact Hc. }
    destruct sel as [i|]; [apply Hgo|]. rewrite hredo_none. apply Hgo.
Qed.

End dep.
