(* Selective undo / redo of rope.base.history.History, on top of the change model of C10.

   Reused from RopeVerif.C10: the tree (FsModel), the change algebra and [run] = ChangeSet.do/undo
   (Change), and the single-step History.undo()/redo() bookkeeping [history_undo]/[history_redo]
   (= one iteration of _perform_undos / _perform_redos: create_job_set, change.undo(job_set), then
   redo_list.append(undo_list.pop())).

   Added here (rope/base/history.py):
     resources      Change.get_changed_resources() with the class of each resource (File / Folder):
                    Resource.__eq__ compares class and path;
     contains       Folder.contains (not equal, and root or "path/" prefix);
     depends_on     _FindChangeDependencies._depends_on;
     find_deps      _find_dependencies + _FindChangeDependencies.__call__ (scan of the suffix of the
                    list that starts at the chosen change, accumulating the resources of the members);
     move_front     _move_front (remove + append each dependency, in order).  Change objects have no
                    __eq__, so list.index / list.remove go by identity: an entry is named by its
                    POSITION in the list here (a list of membership marks); removing and re-appending
                    the members in list order leaves the other entries in order, followed by the
                    members in order;
     perform        _perform_undos(n) / _perform_redos(n);
     hundo / hredo  History.undo(change, drop) / History.redo(change);
     hdo            History.do with _is_change_interesting (the ignored resources are a parameter:
                    the list of ignored paths among the resources of the case) and _remove_extra_items.
   Lists are in Python order (most recent LAST), as in C10. *)
From stdpp Require Import gmap list.
From Coq Require Import NArith Lia.
From RopeVerif.Lib Require Import Text.
From RopeVerif.C10 Require Import FsModel Change.
From RopeVerif.C10 Require HistoryProofs Static.

(* --------------------------------------------------------------------------------- resources *)
(* (is an instance of Folder, path) *)
Notation rsrc := (bool * list N)%type (only parsing).

Definition rsrc_eqb (a b : rsrc) : bool := Bool.eqb (fst a) (fst b) && text_eqb (snd a) (snd b).

Fixpoint resources (c : change) : list rsrc :=
  match c with
  | CC p _ _ => [(false, p)]
  | MV p q f => [(f, p); (f, q)]
  | CR p f => [(f, p)]
  | RM p f => [(f, p)]
  | CS _ cs =>
      (fix go (l : list change) : list rsrc :=
         match l with [] => [] | c :: r => resources c ++ go r end) cs
  end.

Fixpoint resources_list (l : list change) : list rsrc :=
  match l with [] => [] | c :: r => resources c ++ resources_list r end.

Definition proper_prefix (p q : list N) : bool := is_prefix p q && negb (text_eqb p q).

(* Folder.contains(resource): if self == resource: False; self.path == "" or startswith(self.path + "/") *)
Definition contains (a b : rsrc) : bool :=
  negb (rsrc_eqb a b) && match snd a with [] => true | _ => proper_prefix (snd a) (snd b) end.

(* one resource of the scanned change against one accumulated resource.
   [bp = false]: the code as found (resource equality is class and path, containment asks the class);
   [bp = true]: the proposed repair, which compares paths only (equal, below or above). *)
Definition dep1 (bp : bool) (r s : rsrc) : bool :=
  if bp then nested (snd r) (snd s)
  else rsrc_eqb r s || (fst r && contains r s) || (fst s && contains s r).

Definition depends_on (bp : bool) (rs acc : list rsrc) : bool :=
  existsb (fun r => existsb (dep1 bp r) acc) rs.

(* _FindChangeDependencies.__call__ on change_list[index:] = c :: l : which of the later changes join
   the closure (true = member), with the accumulated resource set *)
Fixpoint mark_scan (bp : bool) (acc : list rsrc) (l : list change) : list bool :=
  match l with
  | [] => []
  | c :: rest =>
      if depends_on bp (resources c) acc then true :: mark_scan bp (acc ++ resources c) rest
      else false :: mark_scan bp acc rest
  end.

(* membership marks for the whole list when the change at position i is chosen *)
Definition marks (bp : bool) (l : list change) (i : nat) : list bool :=
  repeat false i ++ match drop i l with
                    | [] => []
                    | c :: rest => true :: mark_scan bp (resources c) rest
                    end.

(* the dependency list as positions (ascending) *)
Fixpoint positions (j : nat) (ms : list bool) : list nat :=
  match ms with
  | [] => []
  | b :: r => if b then j :: positions (S j) r else positions (S j) r
  end.

Definition find_deps (bp : bool) (l : list change) (i : nat) : list nat := positions 0 (marks bp l i).

(* the entries whose mark is b, in order *)
Fixpoint part (b : bool) (ms : list bool) (l : list change) : list change :=
  match ms, l with
  | m :: ms', c :: l' => if Bool.eqb m b then c :: part b ms' l' else part b ms' l'
  | _, _ => []
  end.

(* _move_front: for change in dependencies: change_list.remove(change); change_list.append(change) *)
Definition move_front (l : list change) (ms : list bool) : list change :=
  part false ms l ++ part true ms l.

(* -------------------------------------------------------------------------------- operations *)
Inductive op :=
| ODo (c : change)
| OUndo (sel : option nat) (drp : bool)      (* History.undo(change = undo_list[sel], drop) *)
| ORedo (sel : option nat).                  (* History.redo(change = redo_list[sel]) *)

(* [SNotListed]: list.index raised ValueError (the change is not in the list) *)
Inductive sres :=
| SOk (s : hist) (k : sched) (deps : list nat)
| SErr (s : hist) (k : sched) (x : err)
| SNotListed (s : hist) (k : sched).

(* Project.is_ignored = _ResourceMatcher.does_match on the patterns of prefs["ignored_resources"]: each
   pattern P becomes a regular expression "anything up to a slash, or nothing; P; a slash and anything, or
   nothing", where a star in P stands for any run of non-slash characters and a question mark for one such
   character: for patterns without a slash (all the default ones) a path is ignored iff SOME segment of it
   matches the glob P.  Segments are interned; [spell_of] gives their code points.  (Symbolic links, also
   ignored, are outside the model.) *)
Fixpoint glob (pat s : list N) : bool :=
  match pat with
  | [] => match s with [] => true | _ => false end
  | c :: pat' =>
      if N.eqb c 42 then                                   (* a star *)
        (fix star (s : list N) : bool :=
           glob pat' s || match s with [] => false | _ :: s' => star s' end) s
      else match s with
           | [] => false
           | d :: s' => (N.eqb c 63 || N.eqb c d) && glob pat' s'      (* a question mark, or the character *)
           end
  end.

Definition spell_of (tbl : list (N * list N)) (seg : N) : list N :=
  match find (fun kv => N.eqb (fst kv) seg) tbl with Some kv => snd kv | None => [] end.

Definition ignored_by (tbl : list (N * list N)) (pats : list (list N)) (p : list N) : bool :=
  existsb (fun seg => existsb (fun pat => glob pat (spell_of tbl seg)) pats) p.

(* History._is_change_interesting: some changed resource is not ignored ([ign] = Project.is_ignored on paths) *)
Definition interesting_in (ign : list N -> bool) (c : change) : bool :=
  existsb (fun r : rsrc => negb (ign (snd r))) (resources c).

Definition hdo (v : variant) (fuel : nat) (ign : list N -> bool) (c : change) (s : hist) (k : sched) : sres :=
  match run v fuel true (notify k) Do c (h_fs s) with
  | Ok m' k' c' =>
      SOk (Hist m' (if interesting_in ign c' then trim (h_limit s) (h_undo s ++ [c']) else h_undo s)
                [] (h_limit s)) k' []
  | Err m' k' x => SErr (set_fs s m') k' x
  end.

(* _perform_undos(count) (d = Undo) / _perform_redos(count) (d = Do) *)
Fixpoint perform (v : variant) (fuel : nat) (d : dir) (n : nat) (s : hist) (k : sched) : hres :=
  match n with
  | O => HOk s k
  | S n' =>
      match (match d with Undo => history_undo v fuel s k | Do => history_redo v fuel s k end) with
      | HOk s' k' => perform v fuel d n' s' k'
      | HErr s' k' x => HErr s' k' x
      end
  end.

Definition pick (sel : option nat) (l : list change) : nat :=
  match sel with Some i => i | None => length l - 1 end.

Definition drop_last (n : nat) (l : list change) : list change := take (length l - n) l.

Definition hundo (bp : bool) (v : variant) (fuel : nat) (sel : option nat) (drp : bool) (s : hist) (k : sched) : sres :=
  let l := h_undo s in
  match l with
  | [] => SErr s k (E HistEmpty)
  | _ =>
      let i := pick sel l in
      if Nat.ltb i (length l) then
        let deps := find_deps bp l i in
        let s1 := Hist (h_fs s) (move_front l (marks bp l i)) (h_redo s) (h_limit s) in
        match perform v fuel Undo (length deps) s1 k with
        | HOk s2 k2 =>
            SOk (if drp then Hist (h_fs s2) (h_undo s2) (drop_last (length deps) (h_redo s2)) (h_limit s2)
                 else s2) k2 deps
        | HErr s2 k2 x => SErr s2 k2 x
        end
      else SNotListed s k
  end.

Definition hredo (bp : bool) (v : variant) (fuel : nat) (sel : option nat) (s : hist) (k : sched) : sres :=
  let l := h_redo s in
  match l with
  | [] => SErr s k (E HistEmpty)
  | _ =>
      let i := pick sel l in
      if Nat.ltb i (length l) then
        let deps := find_deps bp l i in
        let s1 := Hist (h_fs s) (h_undo s) (move_front l (marks bp l i)) (h_limit s) in
        match perform v fuel Do (length deps) s1 k with
        | HOk s2 k2 => SOk s2 k2 deps
        | HErr s2 k2 x => SErr s2 k2 x
        end
      else SNotListed s k
  end.

Definition hstep (bp : bool) (v : variant) (fuel : nat) (ign : list N -> bool) (o : op) (s : hist) (k : sched) : sres :=
  match o with
  | ODo c => hdo v fuel ign c s k
  | OUndo sel drp => hundo bp v fuel sel drp s k
  | ORedo sel => hredo bp v fuel sel s k
  end.

Definition sres_state (r : sres) : hist :=
  match r with SOk s _ _ => s | SErr s _ _ => s | SNotListed s _ => s end.

(* a whole session: every operation starts with a fresh task handle (no stop, no fault) *)
Fixpoint hsteps (bp : bool) (v : variant) (fuel : nat) (ign : list N -> bool) (os : list op) (s : hist) : hist :=
  match os with
  | [] => s
  | o :: r => hsteps bp v fuel ign r (sres_state (hstep bp v fuel ign o s quiet))
  end.

(* ------------------------------------------------- schedule-free view of a successful do/undo *)
(* [exec f d c m = Some (m', c', irr)]: ChangeSet.do / undo of c from m succeeds under a task handle
   that is never stopped and a file system that does not fail, leads to m' and returns c' (the change
   with the captured old contents); irr = some leaf performed was not exactly reversible
   (Change.leaf_rev).  No rollback here: [None] = the call raises (what state it leaves is [run]'s
   business).  ExecProofs.run_exec ties this to [run]. *)
Definition pleaf (d : dir) (c : change) (m : fs) : option (fs * change * bool) :=
  match body quiet d c m with
  | Ok m' _ c' => Some (m', c', negb (leaf_rev d c m))
  | Err _ _ _ => None
  end.

Fixpoint exec (fuel : nat) (d : dir) (c : change) (m : fs) : option (fs * change * bool) :=
  match fuel with
  | O => None
  | S f =>
      match c with
      | CS t cs =>
          let fix eloop (l : list change) (m : fs) (done : list change) (ir : bool)
            : option (fs * list change * bool) :=
            match l with
            | [] => Some (m, done, ir)
            | c :: rest =>
                match exec f d c m with
                | Some (m', c', i) => eloop rest m' (c' :: done) (ir || i)
                | None => None
                end
            end in
          match eloop (order d cs) m [] false with
          | Some (m', done, ir) => Some (m', CS t (match d with Do => rev done | Undo => done end), ir)
          | None => None
          end
      | _ => pleaf d c m
      end
  end.

(* ---------------------------------------------------------------- boolean domain predicates *)
(* a ladder: the list (Python order) can be processed LIFO in direction d from m, every step
   succeeding, exactly reversible, and returning the change unchanged; [Some base] = where it ends *)
Fixpoint change_eqb (a b : change) {struct a} : bool :=
  match a, b with
  | CC p n o, CC p' n' o' =>
      text_eqb p p' && text_eqb n n'
      && match o, o' with Some x, Some y => text_eqb x y | None, None => true | _, _ => false end
  | MV p q f, MV p' q' f' => text_eqb p p' && text_eqb q q' && Bool.eqb f f'
  | CR p f, CR p' f' => text_eqb p p' && Bool.eqb f f'
  | RM p f, RM p' f' => text_eqb p p' && Bool.eqb f f'
  | CS t l, CS t' l' =>
      N.eqb t t' &&
      (fix go (l l' : list change) {struct l} : bool :=
         match l, l' with
         | [], [] => true
         | x :: r, y :: r' => change_eqb x y && go r r'
         | _, _ => false
         end) l l'
  | _, _ => false
  end.

(* [lifo] is the list most-recent-first (= rev of the Python list) *)
Fixpoint ladderb (f : nat) (d : dir) (lifo : list change) (m : fs) : option fs :=
  match lifo with
  | [] => Some m
  | c :: rest =>
      match exec f d c m with
      | Some (m', c', false) => if change_eqb c' c then ladderb f d rest m' else None
      | _ => None
      end
  end.

Definition consistentUb (f : nat) (s : hist) : bool :=
  wf_fsb (h_fs s)
  && match ladderb f Undo (rev (h_undo s)) (h_fs s) with Some _ => true | None => false end.

Definition consistentRb (f : nat) (s : hist) : bool :=
  match ladderb f Do (rev (h_redo s)) (h_fs s) with Some _ => true | None => false end.

Definition consistentb (f : nat) (s : hist) : bool := consistentUb f s && consistentRb f s.

(* resource classes agree with what paths can be on one tree at one time: two resources with the same
   path have the same class, and a resource whose path lies strictly above another one is a Folder *)
Definition class_ok1 (r s : rsrc) : bool :=
  (if text_eqb (snd r) (snd s) then Bool.eqb (fst r) (fst s) else true)
  && (if proper_prefix (snd r) (snd s) then fst r else true)
  && (if proper_prefix (snd s) (snd r) then fst s else true).

Definition class_ok (rs : list rsrc) : bool := forallb (fun r => forallb (class_ok1 r) rs) rs.

(* no RemoveResource leaf *)
Fixpoint undoable (c : change) : bool :=
  match c with
  | RM _ _ => false
  | CS _ cs => (fix go (l : list change) : bool := match l with [] => true | c :: r => undoable c && go r end) cs
  | _ => true
  end.

(* ------------------------------------------------------------------ well-behaved sessions *)
(* A condition on a session that can be evaluated without the ghost flag of the schedule: every do touches
   a non-ignored resource and, from the tree at that moment, passes C10's static scan
   (Static.reversible_cs: every leaf reached before a refusal is exactly reversible in the tree in which
   it is executed - no removal, no move onto an occupied path, recorded old contents that are the
   contents); or, equivalently decided here by [exec], it succeeds with every leaf exactly reversible, or is
   refused and belongs to C10's syntactic class (fresh edits and creations); no undo drops. *)
Definition step_wb (f : nat) (ign : list N -> bool) (o : op) (s : hist) : bool :=
  match o with
  | ODo c => interesting_in ign c
             && (RopeVerif.C10.Static.reversible_cs f (h_fs s) c
                 || match exec f Do c (h_fs s) with
                    | Some (_, _, ir) => negb ir
                    | None => RopeVerif.C10.HistoryProofs.static_ok c
                    end)
  | OUndo _ drp => negb drp
  | ORedo _ => true
  end.

Fixpoint well_behaved_session (bp : bool) (f : nat) (ign : list N -> bool) (os : list op) (s : hist) : bool :=
  match os with
  | [] => true
  | o :: r => step_wb f ign o s
              && well_behaved_session bp f ign r (sres_state (hstep bp repaired f ign o s quiet))
  end.

(* the purely syntactic sub-class: every performed change is built from edits (old contents not yet
   recorded) and creations *)
Definition static_op (ign : list N -> bool) (o : op) : bool :=
  match o with
  | ODo c => interesting_in ign c && RopeVerif.C10.HistoryProofs.static_ok c
  | OUndo _ drp => negb drp
  | ORedo _ => true
  end.

Definition static_session (ign : list N -> bool) (os : list op) : bool := forallb (static_op ign) os.

(* project.prefs["max_history_items"] changed between two operations (History.max_undos reads it on every
   use; nothing is trimmed until the next do or save) *)
Definition set_limit (n : nat) (s : hist) : hist := Hist (h_fs s) (h_undo s) (h_redo s) n.
