(* Well-behaved sessions (a condition without the ghost flag under which every reachable state is
   Consistent), when a drop is harmless, lowering the limit, reopening a saved history (C12), and the
   ignore matcher. *)
From stdpp Require Import gmap list.
From Coq Require Import NArith Lia.
From RopeVerif.Lib Require Import Text.
From RopeVerif.C10 Require Import FsModel FsProofs Change ChangeProofs.
From RopeVerif.C10 Require HistoryProofs Static StaticProofs.
From RopeVerif.C12 Require Persist PersistProofs.
From RopeVerif.C11 Require Import History ExecProofs CommuteProofs HistoryProofs SelectiveProofs.

Module H10 := RopeVerif.C10.HistoryProofs.
Module P12 := RopeVerif.C12.Persist.

(* ------------------------------------------------------------------- well-behaved sessions *)
Section dep.
Variable bp : bool.

(* a well-behaved step has an outcome that satisfies [step_ok]: no ghost flag in the hypothesis *)
Lemma wb_step_ok f ign o s :
  step_wb f ign o s = true -> step_ok ign o (hstep bp repaired f ign o s quiet).
Proof.
  intros H. destruct o as [c|sel drp|sel]; cbn [step_wb step_ok] in *.
  - apply andb_true_iff in H. destruct H as [Hint Hx]. split; [exact Hint|].
    cbn [hstep]. unfold hdo. apply orb_true_iff in Hx. destruct Hx as [Hx|Hx].
    { pose proof (RopeVerif.C10.StaticProofs.reversible_cs_irrev repaired f c (h_fs s) (notify quiet) Hx eq_refl) as Hi.
      destruct (run repaired f true (notify quiet) Do c (h_fs s)); exact Hi. }
    pose proof (run_exec repaired f true (notify quiet) Do c (h_fs s) calm_quiet) as Hr.
    destruct (exec f Do c (h_fs s)) as [[[m' c'] ir]|].
    + rewrite Hr. apply negb_true_iff in Hx. subst ir. reflexivity.
    + pose proof (H10.run_static_irrev repaired f (notify quiet) c (h_fs s) Hx) as Hi.
      destruct Hr as (m' & k' & x & Hr). rewrite Hr in Hi |- *. cbn [res_k] in Hi. exact Hi.
  - apply negb_true_iff in H. exact H.
  - exact I.
Qed.

Theorem well_behaved_step f ign o s :
  Consistent f s -> bp = true \/ (cok (resources_list (h_undo s)) /\ cok (resources_list (h_redo s))) ->
  step_wb f ign o s = true ->
  Consistent f (sres_state (hstep bp repaired f ign o s quiet)).
Proof. intros Hc Hk H. apply consistent_step; [exact Hc|exact Hk|apply wb_step_ok; exact H]. Qed.

End dep.

(* every state a well-behaved session reaches from a Consistent state is Consistent (path-only
   dependency test: no hypothesis on resource classes) *)
Theorem well_behaved_reachable f ign os : forall s,
  Consistent f s -> well_behaved_session true f ign os s = true ->
  Consistent f (hsteps true repaired f ign os s).
Proof.
  induction os as [|o os IH]; intros s Hc H; cbn [hsteps well_behaved_session] in *; [exact Hc|].
  apply andb_true_iff in H. destruct H as [Ho Hrest].
  apply IH; [|exact Hrest]. apply well_behaved_step; auto.
Qed.

(* prefixes of a well-behaved session are well-behaved: so the theorem speaks about EVERY state on the way *)
Lemma well_behaved_prefix bp f ign os1 os2 : forall s,
  well_behaved_session bp f ign (os1 ++ os2) s = true -> well_behaved_session bp f ign os1 s = true.
Proof.
  induction os1 as [|o os1 IH]; intros s H; cbn [app well_behaved_session] in *; [reflexivity|].
  apply andb_true_iff in H. destruct H as [Ho Hrest]. rewrite Ho. cbn [andb]. eapply IH; eauto.
Qed.

Lemma consistent_initial (f : nat) (m : fs) (lim : nat) : wf_fs m -> Consistent f (Hist m [] [] lim).
Proof. intros H. split; [exact H|]. split; exists m; reflexivity. Qed.

(* the syntactic class: edits (old contents not yet recorded) and creations, nested arbitrarily *)
Lemma static_exec_flag (f : nat) (c : change) (m m' : fs) (c' : change) (ir : bool) :
  H10.static_ok c = true -> exec f Do c m = Some (m', c', ir) -> ir = false.
Proof.
  intros Hs He. pose proof (run_exec repaired f true quiet Do c m calm_quiet) as Hr. rewrite He in Hr.
  pose proof (H10.run_static_irrev repaired f quiet c m Hs) as Hi. rewrite Hr in Hi. cbn [res_k] in Hi.
  rewrite irrev_after in Hi. cbn in Hi. exact Hi.
Qed.

Lemma static_session_wb bp f ign os : forall s,
  static_session ign os = true -> well_behaved_session bp f ign os s = true.
Proof.
  induction os as [|o os IH]; intros s H; cbn [static_session forallb well_behaved_session] in *; [reflexivity|].
  apply andb_true_iff in H. destruct H as [Ho Hrest]. rewrite (IH _ Hrest), andb_true_r.
  destruct o as [c|sel drp|sel]; cbn [static_op step_wb] in *; try exact Ho.
  apply andb_true_iff in Ho. destruct Ho as [Hint Hs]. rewrite Hint. cbn [andb]. apply orb_true_iff. right.
  destruct (exec f Do c (h_fs s)) as [[[m' c'] ir]|] eqn:He; [|exact Hs].
  rewrite (static_exec_flag f c _ _ _ _ Hs He). reflexivity.
Qed.

Theorem static_reachable f ign os s :
  Consistent f s -> static_session ign os = true -> Consistent f (hsteps true repaired f ign os s).
Proof. intros Hc H. apply well_behaved_reachable; [exact Hc|apply static_session_wb; exact H]. Qed.

(* hypothesis-free corollary: after any well-behaved session on a project that starts with an empty history,
   History.undo of ANY listed change behaves as C11_selective_undo says *)
Theorem well_behaved_selective_undo (f : nat) (ign : list N -> bool) (os : list op) (m : fs) (lim i : nat) (drp : bool) :
  wf_fs m ->
  well_behaved_session true f ign os (Hist m [] [] lim) = true ->
  let s := hsteps true repaired f ign os (Hist m [] [] lim) in
  i < length (h_undo s) ->
  exists s' base,
    hstep true repaired f ign (OUndo (Some i) drp) s quiet = SOk s' quiet (find_deps true (h_undo s) i)
    /\ h_undo s' = part false (marks true (h_undo s) i) (h_undo s)
    /\ h_redo s' = (if drp then h_redo s else h_redo s ++ rev (part true (marks true (h_undo s) i) (h_undo s)))
    /\ wf_fs base /\ replay f base (h_undo s) (h_fs s) /\ replay f base (h_undo s') (h_fs s')
    /\ (drp = false -> Consistent f s').
Proof.
  intros Hwf Hwb s Hi.
  assert (Hc : Consistent f s) by (apply well_behaved_reachable; [apply consistent_initial; exact Hwf|exact Hwb]).
  destruct (selective_undo true f ign s i drp Hc (or_introl eq_refl) Hi)
    as (s' & base & H1 & H2 & H3 & _ & H5 & H6 & H7 & _ & H9).
  exists s', base. auto 10.
Qed.

Theorem well_behaved_selective_redo (f : nat) (ign : list N -> bool) (os : list op) (m : fs) (lim i : nat) :
  wf_fs m ->
  well_behaved_session true f ign os (Hist m [] [] lim) = true ->
  let s := hsteps true repaired f ign os (Hist m [] [] lim) in
  i < length (h_redo s) ->
  exists s',
    hstep true repaired f ign (ORedo (Some i)) s quiet = SOk s' quiet (find_deps true (h_redo s) i)
    /\ h_redo s' = part false (marks true (h_redo s) i) (h_redo s)
    /\ h_undo s' = h_undo s ++ rev (part true (marks true (h_redo s) i) (h_redo s))
    /\ Consistent f s'.
Proof.
  intros Hwf Hwb s Hi.
  assert (Hc : Consistent f s) by (apply well_behaved_reachable; [apply consistent_initial; exact Hwf|exact Hwb]).
  destruct (selective_redo true f ign s i Hc (or_introl eq_refl) Hi) as (s' & H1 & H2 & H3 & _ & H5).
  exists s'. auto.
Qed.

(* no stale redo entry without drop: in every state a well-behaved session reaches (step_wb forbids
   drop=True) the whole redo list can be redone LIFO, every step succeeding and exactly reversible *)
Theorem no_stale_without_drop f ign os s :
  Consistent f s -> well_behaved_session true f ign os s = true ->
  exists top, chain f Do (rev (h_redo (hsteps true repaired f ign os s))) (h_fs (hsteps true repaired f ign os s)) top.
Proof. intros Hc H. destruct (well_behaved_reachable f ign os s Hc H) as (_ & _ & Hr). exact Hr. Qed.

(* ------------------------------------------------------------------------ when a drop is harmless *)
Lemma chain_skip_block (f : nat) (d : dir) (Y Z : list change) : forall (a b : fs),
  wf_fs a -> (forall y z, In y Y -> In z Z -> apart (roots y) (roots z)) ->
  chain f d (Y ++ Z) a b -> exists mid, chain f d Z a mid.
Proof.
  induction Z as [|c Z IH]; intros a b Hwf Hap H; [exists a; reflexivity|].
  apply chain_bubble in H; [|exact Hwf|intros e He; apply Hap; [exact He|left; reflexivity]].
  cbn [chain] in H. destruct H as (a' & Lc & H).
  destruct (IH a' b (link_wf _ _ _ _ _ Hwf Lc)) as (mid & Hm); [|exact H|].
  - intros y z Hy Hz. apply Hap; [exact Hy|right; exact Hz].
  - exists mid. cbn [chain]. eauto.
Qed.

Lemma hundo_drop_state bp v f sel s k :
  hundo bp v f sel true s k =
  match hundo bp v f sel false s k with
  | SOk s2 k2 deps => SOk (Hist (h_fs s2) (h_undo s2) (drop_last (length deps) (h_redo s2)) (h_limit s2)) k2 deps
  | r => r
  end.
Proof.
  unfold hundo. destruct (h_undo s) as [|c0 rest]; [reflexivity|].
  destruct (Nat.ltb _ _); [|reflexivity].
  destruct (perform v f Undo _ _ k); reflexivity.
Qed.

Lemma find_deps_length bp (l : list change) i :
  i < length l -> length (find_deps bp l i) = length (part true (marks bp l i) l).
Proof. intros H. unfold find_deps. apply positions_length. apply marks_length. exact H. Qed.

(* undo(change, drop=True) keeps the WHOLE invariant when the dropped changes are apart from every entry
   of the redo list (the negation of this condition is the shape of the finding C11-drop-stale-redo) *)
Theorem drop_safe f ign s i :
  Consistent f s -> i < length (h_undo s) ->
  (forall y z, In y (part true (marks true (h_undo s) i) (h_undo s)) -> In z (h_redo s) ->
               apart (roots y) (roots z)) ->
  Consistent f (sres_state (hstep true repaired f ign (OUndo (Some i) true) s quiet)).
Proof.
  intros Hc Hi Hap.
  destruct (selective_undo true f ign s i false Hc (or_introl eq_refl) Hi)
    as (s' & base & H1 & H2 & H3 & H4 & _ & _ & _ & Hwf' & H9).
  specialize (H9 eq_refl). destruct H9 as (_ & Hu & (top & Hr)).
  cbn [hstep] in *. rewrite hundo_drop_state, H1. cbn [sres_state].
  rewrite H3 in Hr |- *. rewrite (find_deps_length true _ _ Hi).
  replace (length (part true (marks true (h_undo s) i) (h_undo s)))
    with (length (rev (part true (marks true (h_undo s) i) (h_undo s)))) by apply rev_length.
  rewrite drop_last_app.
  split; [exact Hwf'|]. cbn [h_fs h_undo h_redo]. split; [exact Hu|].
  rewrite rev_app_distr, rev_involutive in Hr.
  apply (chain_skip_block f Do _ _ (h_fs s') top Hwf') in Hr; [exact Hr|].
  intros y z Hy Hz. apply Hap; [exact Hy|]. apply in_rev. exact Hz.
Qed.

(* ------------------------------------------------------------------------- lowering the limit *)
(* lowering max_history_items between two operations trims nothing by itself ... *)
Lemma set_limit_consistent f n s : Consistent f s -> Consistent f (set_limit n s).
Proof. intros H. exact H. Qed.

(* ... the next recorded do re-establishes |undo| <= limit (and the redo list is empty then) *)
Theorem limit_restored_by_do bp v f ign c s k s' k' deps :
  hstep bp v f ign (ODo c) s k = SOk s' k' deps -> h_undo s' <> h_undo s ->
  length (h_undo s') + length (h_redo s') <= h_limit s' /\ h_limit s' = h_limit s.
Proof.
  cbn [hstep]. unfold hdo. destruct (run v f true (notify k) Do c (h_fs s)) as [m' k1 c'|]; [|discriminate].
  intros H Hne. inversion H; subst; clear H. cbn [h_undo h_redo h_limit length] in *.
  destruct (interesting_in ign c'); [|congruence].
  pose proof (trim_length (h_limit s) (h_undo s ++ [c'])). split; [lia|reflexivity].
Qed.

(* ------------------------------------------------------------ saving and reloading the history *)
(* the lists as C12's persistence model sees them; [sp] renders a path, the ChangeSet tag is its description *)
Fixpoint emb (sp : list N -> list N) (c : change) : P12.change :=
  match c with
  | CC p n o => P12.CContents (sp p) n o
  | MV p q f => P12.CMove (sp p) (P12.kind_of f) (sp q)
  | CR p f => P12.CCreate (sp p) (P12.kind_of f)
  | RM p f => P12.CRemove (sp p) (P12.kind_of f)
  | CS t cs => P12.CSet (N_to_dec t) (List.map (emb sp) cs) None
  end.

Definition emb_hist (sp : list N -> list N) (s : hist) : P12.hist :=
  {| P12.undo_list := List.map (emb sp) (h_undo s); P12.redo_list := List.map (emb sp) (h_redo s) |}.

Lemma trim_map {A B} (g : A -> B) lim (l : list A) :
  skipn (length (List.map g l) - lim) (List.map g l) = List.map g (skipn (length l - lim) l).
Proof. rewrite List.map_length. apply skipn_map. Qed.

(* closing (History.write) and reopening (_load_history) a project: what comes back is the image of the
   same redo list and of the undo list trimmed to the limit - C12_reopen_trimmed on C11's states ... *)
Theorem reopen_bridge sp lim s :
  P12.reopen true (P12.close true lim (emb_hist sp s))
  = Some (emb_hist sp (Hist (h_fs s) (trim lim (h_undo s)) (h_redo s) (h_limit s))).
Proof.
  rewrite RopeVerif.C12.PersistProofs.reopen_trimmed. unfold emb_hist. cbn. f_equal. f_equal.
  unfold P12.trim, trim. apply trim_map.
Qed.

(* ... and that state is Consistent when the state before closing was: every theorem about undo / redo
   applies after a reopen as before it *)
Theorem reopen_consistent f lim s :
  Consistent f s -> Consistent f (Hist (h_fs s) (trim lim (h_undo s)) (h_redo s) (h_limit s)).
Proof.
  intros (Hwf & (base & Hu) & Hr). split; [exact Hwf|]. cbn [h_fs h_undo h_redo]. split; [|exact Hr].
  destruct (rev_trim lim (h_undo s)) as (pre & Hpre). rewrite Hpre in Hu.
  apply chain_prefix in Hu. exact Hu.
Qed.

(* --------------------------------------------------------------------------- the ignore matcher *)
(* everything below an ignored resource is ignored; ignoring depends on the segments only *)
Theorem ignored_below tbl pats p r : ignored_by tbl pats p = true -> ignored_by tbl pats (p ++ r) = true.
Proof. unfold ignored_by. rewrite existsb_app. intros ->. reflexivity. Qed.
