(* Soundness of the boolean form of Consistent (what the correspondence runner evaluates), concrete
   witnesses for the non-vacuity Examples, and the refutations (each witness is replayed on rope). *)
From stdpp Require Import gmap list.
From Coq Require Import NArith Lia.
From RopeVerif.Lib Require Import Text.
From RopeVerif.C10 Require Import FsModel FsProofs Change ChangeProofs.
From RopeVerif.C11 Require Import History ExecProofs CommuteProofs HistoryProofs SelectiveProofs DeepenProofs.

(* ---------------------------------------------------------------- change_eqb decides equality *)
Fixpoint changes_eqb' (l l' : list change) : bool :=
  match l, l' with
  | [], [] => true
  | x :: r, y :: r' => change_eqb x y && changes_eqb' r r'
  | _, _ => false
  end.

Lemma change_eqb_CS t l t' l' : change_eqb (CS t l) (CS t' l') = N.eqb t t' && changes_eqb' l l'.
Proof.
  reflexivity.
Qed.

Lemma change_eqb_true_n n : forall a b, depth a < n -> change_eqb a b = true -> a = b.
Proof.
  induction n as [|n IH]; intros a b Hd H; [lia|].
  destruct a as [p new old|p q f|p f|p f|t l], b as [p' new' old'|p' q' f'|p' f'|p' f'|t' l']; try discriminate.
  - cbn [change_eqb] in H. rewrite !andb_true_iff in H. destruct H as [[H1 H2] H3].
    apply text_eqb_true in H1, H2. subst.
    destruct old as [o|], old' as [o'|]; try discriminate; [apply text_eqb_true in H3; subst|]; reflexivity.
  - cbn [change_eqb] in H. rewrite !andb_true_iff in H. destruct H as [[H1 H2] H3].
    apply text_eqb_true in H1, H2. apply Bool.eqb_prop in H3. subst. reflexivity.
  - cbn [change_eqb] in H. rewrite !andb_true_iff in H. destruct H as [H1 H3].
    apply text_eqb_true in H1. apply Bool.eqb_prop in H3. subst. reflexivity.
  - cbn [change_eqb] in H. rewrite !andb_true_iff in H. destruct H as [H1 H3].
    apply text_eqb_true in H1. apply Bool.eqb_prop in H3. subst. reflexivity.
  - rewrite change_eqb_CS in H. apply andb_true_iff in H. destruct H as [Ht Hl].
    apply N.eqb_eq in Ht. subst t'. f_equal.
    cbn [depth] in Hd. apply Nat.succ_lt_mono in Hd.
    revert l' Hl. induction l as [|x r IHl]; intros [|y r'] Hl; try discriminate; [reflexivity|].
    cbn [changes_eqb'] in Hl. apply andb_true_iff in Hl. destruct Hl as [Hx Hr].
    cbn [fold_right] in Hd. f_equal.
    + apply IH; [lia|exact Hx].
    + apply IHl; [lia|exact Hr].
Qed.

Lemma change_eqb_true a b : change_eqb a b = true -> a = b.
Proof. apply (change_eqb_true_n (S (depth a))). lia. Qed.

Lemma ladderb_sound f d lifo : forall (m b : fs), ladderb f d lifo m = Some b -> chain f d lifo m b.
Proof.
  induction lifo as [|c rest IH]; intros m b H; cbn [ladderb chain] in *; [congruence|].
  destruct (exec f d c m) as [[[m' c'] [|]]|] eqn:He; try discriminate.
  destruct (change_eqb c' c) eqn:Ec; [|discriminate]. apply change_eqb_true in Ec. subst c'.
  exists m'. split; [exact He|apply IH; exact H].
Qed.

Theorem consistentb_sound f s : consistentb f s = true -> Consistent f s.
Proof.
  unfold consistentb, consistentUb, consistentRb. rewrite !andb_true_iff. intros [[Hwf Hu] Hr].
  split; [apply wf_fsb_sound; exact Hwf|]. split.
  - destruct (ladderb f Undo (rev (h_undo s)) (h_fs s)) as [b|] eqn:E; [|discriminate].
    exists b. apply ladderb_sound; exact E.
  - destruct (ladderb f Do (rev (h_redo s)) (h_fs s)) as [b|] eqn:E; [|discriminate].
    exists b. apply ladderb_sound; exact E.
Qed.

Lemma class_ok_sound L : class_ok L = true -> cok L.
Proof. apply class_ok_cok. Qed.

(* ------------------------------------------------------------------------------- witnesses *)
Definition pa : list N := [1%N].
Definition pb : list N := [2%N].
Definition pd : list N := [4%N].
Definition pe : list N := [5%N].
Definition pdb : list N := [4%N; 2%N].
Definition peb : list N := [5%N; 2%N].
Definition pda : list N := [4%N; 1%N].
Definition paa : list N := [1%N; 1%N].
Definition cA : list N := [65%N; 10%N].
Definition cB : list N := [66%N; 10%N].
Definition cC : list N := [67%N].
Definition cD : list N := [68%N].

Definition st (t : list (list N * node)) (lim : nat) : hist := Hist (list_to_map t) [] [] lim.

(* a history of four changes: edit a; move folder d -> e; edit e/b; nested set creating a folder and a
   file in it *)
Definition w_tree : list (list N * node) := [(pa, File cA); (pd, Dir); (pdb, File cB)].
Definition w_ops : list op :=
  [ODo (CS 1 [CC pa cC None]); ODo (CS 2 [MV pd pe true]); ODo (CS 3 [CC peb cD None]);
   ODo (CS 4 [CS 41 [CR [6%N] true; CS 42 [CR [6%N; 7%N] false; CC [6%N; 7%N] cA None]]])].
Definition w_hist : hist := hsteps true repaired 6 (fun _ => false) w_ops (st w_tree 100).

Lemma w_hist_consistent : Consistent 6 w_hist.
Proof. apply consistentb_sound. vm_compute. reflexivity. Qed.

Lemma w_hist_cok : cok (resources_list (h_undo w_hist)).
Proof. apply class_ok_sound. vm_compute. reflexivity. Qed.

(* selective undo of the folder move (position 1): takes the later edit of e/b with it, leaves the edit
   of a and the nested set (a non-LIFO selection) *)
Lemma selective_undo_example :
  Consistent 6 w_hist /\ 1 < length (h_undo w_hist)
  /\ find_deps true (h_undo w_hist) 1 = [1; 2]
  /\ length (part false (marks true (h_undo w_hist) 1) (h_undo w_hist)) = 2.
Proof.
  split; [exact w_hist_consistent|].
  split; [vm_compute; lia|]. split; vm_compute; reflexivity.
Qed.

(* after that selective undo: selective redo of the edit of e/b (position 0 of the redo list [3; 2])
   must first redo the folder move that lies after it in the redo list *)
Definition w_hist2 : hist := sres_state (hstep true repaired 6 (fun _ => false) (OUndo (Some 1) false) w_hist quiet).

Lemma selective_redo_example :
  Consistent 6 w_hist2 /\ 0 < length (h_redo w_hist2)
  /\ find_deps true (h_redo w_hist2) 0 = [0; 1].
Proof.
  split; [apply consistentb_sound; vm_compute; reflexivity|].
  split; [vm_compute; lia|]. vm_compute; reflexivity.
Qed.

Lemma undo_after_do_example :
  exists s1 k1 deps,
    wf_fs (h_fs w_hist) /\ 0 < h_limit w_hist
    /\ hstep true repaired 6 (fun _ => false) (ODo (CS 5 [MV pa [6%N; 1%N] false; CC [6%N; 1%N] cB None])) w_hist quiet = SOk s1 k1 deps
    /\ irrev k1 = false /\ h_undo s1 <> h_undo w_hist.
Proof.
  eexists. eexists. eexists.
  split; [apply wf_fsb_sound; vm_compute; reflexivity|]. split; [vm_compute; lia|].
  split; [vm_compute; reflexivity|]. split; [reflexivity|].
  intros E. apply (f_equal length) in E. vm_compute in E. discriminate.
Qed.

Lemma limit_example :
  within (st w_tree 2) /\ length (h_undo (hsteps true repaired 6 (fun _ => false) w_ops (st w_tree 2))) = 2.
Proof. split; [vm_compute; lia|vm_compute; reflexivity]. Qed.

Lemma swap_example :
  exists a a1 b,
    wf_fs a /\ link 6 Do (CS 1 [CC pa cC (Some cA)]) a a1 /\ link 6 Do (CS 2 [MV pd pe true]) a1 b
    /\ apart (roots (CS 1 [CC pa cC (Some cA)])) (roots (CS 2 [MV pd pe true])).
Proof.
  exists (list_to_map w_tree). eexists. eexists.
  split; [apply wf_fsb_sound; vm_compute; reflexivity|].
  split; [vm_compute; reflexivity|]. split; [vm_compute; reflexivity|].
  intros p q Hp Hq. cbn in Hp, Hq. destruct Hp as [<-|[]]. destruct Hq as [<-|[<-|[]]]; reflexivity.
Qed.

(* --------------------------------------------------------------------------- refutations *)
(* RemoveResource.undo is not implemented: after a successful do of a set containing a removal, undo
   raises NotImplementedError and the removed file stays removed *)
Lemma remove_not_undoable_refuted :
  exists f ign c s s1 k1 d1 s2 k2,
    wf_fs (h_fs s) /\ undoable c = false
    /\ hstep true repaired f ign (ODo c) s quiet = SOk s1 k1 d1 /\ irrev k1 = true
    /\ hstep true repaired f ign (OUndo None false) s1 quiet = SErr s2 k2 (E NotImpl)
    /\ h_fs s !! pa = Some (File cA) /\ h_fs s2 !! pa = None /\ length (h_undo s2) = 1.
Proof.
  exists 4, (fun _ => false), (CS 1 [CC pb cC None; RM pa false]), (st [(pa, File cA); (pb, File cB)] 100).
  eexists. eexists. eexists. eexists. eexists.
  split; [apply wf_fsb_sound; vm_compute; reflexivity|]. split; [reflexivity|].
  split; [vm_compute; reflexivity|]. split; [reflexivity|].
  split; [vm_compute; reflexivity|].
  split; [vm_compute; reflexivity|]. split; [vm_compute; reflexivity|reflexivity].
Qed.

(* Documentation of a FIXED defect (/repo ed5101e): the as-found dependency test, model variant bp = false.
   That scan compares resources by class: a Folder created at the path a File was moved away
   from is not recognised as dependent; the selective undo of the move then moves the file INTO the new
   folder.  The state before is Consistent, the classes are not coherent, the state after is not
   Consistent: for bp = false the hypothesis [cok] of the selective undo theorem cannot be dropped.
   The code under test is expected to be bp = true, for which no such hypothesis exists. *)
Definition w_alias : hist :=
  hsteps false repaired 6 (fun _ => false) [ODo (CS 1 [MV pa pda false]); ODo (CS 2 [CR pa true])] (st [(pa, File cA); (pd, Dir)] 100).

Lemma class_blind_dependency_refuted :
  exists s s' k' deps,
    Consistent 6 s /\ class_ok (resources_list (h_undo s)) = false
    /\ hstep false repaired 6 (fun _ => false) (OUndo (Some 0) false) s quiet = SOk s' k' deps
    /\ deps = [0] /\ h_fs s' !! paa = Some (File cA) /\ consistentb 6 s' = false.
Proof.
  exists w_alias. eexists. eexists. eexists.
  split; [apply consistentb_sound; vm_compute; reflexivity|]. split; [vm_compute; reflexivity|].
  split; [vm_compute; reflexivity|]. split; [reflexivity|].
  split; vm_compute; reflexivity.
Qed.

(* the same input under the path-comparing dependency test: the folder creation is taken along and the
   state after is Consistent (as C11_selective_undo promises without [cok] for bp = true) *)
Lemma class_blind_dependency_repaired :
  exists s' k' deps,
    hstep true repaired 6 (fun _ => false) (OUndo (Some 0) false) w_alias quiet = SOk s' k' deps
    /\ deps = [0; 1] /\ h_fs s' !! pa = Some (File cA) /\ consistentb 6 s' = true.
Proof.
  eexists. eexists. eexists. split; [vm_compute; reflexivity|]. split; [reflexivity|].
  split; vm_compute; reflexivity.
Qed.

(* a MoveResource whose destination file exists overwrites it (os.rename); undo moves the file back
   but the overwritten contents are gone: the hypothesis [irrev k1 = false] cannot be dropped *)
Lemma move_overwrite_refuted :
  exists f ign c s s1 k1 d1 s2 k2 d2,
    wf_fs (h_fs s) /\ undoable c = true
    /\ hstep true repaired f ign (ODo c) s quiet = SOk s1 k1 d1 /\ irrev k1 = true
    /\ hstep true repaired f ign (OUndo None false) s1 quiet = SOk s2 k2 d2
    /\ h_fs s !! pb = Some (File cB) /\ h_fs s2 !! pb = None.
Proof.
  exists 4, (fun _ => false), (CS 1 [MV pa pb false]), (st [(pa, File cA); (pb, File cB)] 100).
  eexists. eexists. eexists. eexists. eexists. eexists.
  split; [apply wf_fsb_sound; vm_compute; reflexivity|]. split; [reflexivity|].
  split; [vm_compute; reflexivity|]. split; [reflexivity|].
  split; [vm_compute; reflexivity|].
  split; vm_compute; reflexivity.
Qed.

(* drop=True forgets the undone change but leaves the redo list alone: a redo entry that depended on the
   forgotten change stays.  Move a -> d/a; edit d/a; undo (the edit goes to the redo list); undo with
   drop (the move is undone and forgotten).  The state is no longer Consistent (its redo half), and
   redo() then WRITES d/a although a is back in place: both files exist, the step was not exactly
   reversible.  Only the undo half of Consistent survives a drop. *)
Definition w_drop : hist :=
  hsteps true repaired 6 (fun _ => false) [ODo (CS 1 [MV pa pda false]); ODo (CS 2 [CC pda cC None]); OUndo None false]
         (st [(pa, File cA); (pd, Dir)] 100).

Lemma drop_stale_redo_refuted :
  exists s1 k1 d1 s2 k2 d2,
    Consistent 6 w_drop
    /\ hstep true repaired 6 (fun _ => false) (OUndo None true) w_drop quiet = SOk s1 k1 d1
    /\ consistentUb 6 s1 = true /\ consistentRb 6 s1 = false
    /\ hstep true repaired 6 (fun _ => false) (ORedo None) s1 quiet = SOk s2 k2 d2
    /\ irrev k2 = true
    /\ h_fs s2 !! pa = Some (File cA) /\ h_fs s2 !! pda = Some (File cC).
Proof.
  eexists. eexists. eexists. eexists. eexists. eexists.
  split; [apply consistentb_sound; vm_compute; reflexivity|].
  split; [vm_compute; reflexivity|]. split; [vm_compute; reflexivity|]. split; [vm_compute; reflexivity|].
  split; [vm_compute; reflexivity|]. split; [reflexivity|]. split; vm_compute; reflexivity.
Qed.

(* ------------------------------------------------------------ witnesses for the deepening theorems *)
Definition no_ign : list N -> bool := fun _ => false.

(* the four-change history above, with two undos and a redo, is a well-behaved session (it contains a folder
   move and nested sets, so it is not in the syntactic class) *)
Definition w_session : list op := w_ops ++ [OUndo (Some 1) false; ORedo (Some 0); OUndo None false].

Lemma well_behaved_example :
  wf_fs (list_to_map w_tree) /\ well_behaved_session true 6 no_ign w_session (st w_tree 100) = true
  /\ static_session no_ign w_session = false
  /\ length (h_undo (hsteps true repaired 6 no_ign w_session (st w_tree 100))) = 3
  /\ length (h_redo (hsteps true repaired 6 no_ign w_session (st w_tree 100))) = 1.
Proof.
  split; [apply wf_fsb_sound; vm_compute; reflexivity|]. split; [vm_compute; reflexivity|].
  split; [reflexivity|]. split; vm_compute; reflexivity.
Qed.

(* a session of the syntactic class: nested creations and fresh edits, a refused creation in the middle
   (rolled back), undo and redo *)
Definition w_static : list op :=
  [ODo (CS 1 [CC pa cC None; CS 2 [CR pe true; CR [5%N; 1%N] false; CC [5%N; 1%N] cD None]]);
   ODo (CS 3 [CC pdb cA None; CR pe true]);
   ODo (CS 4 [CC pdb cD None]); OUndo (Some 0) false; ORedo None].

Lemma static_example :
  static_session no_ign w_static = true
  /\ length (h_undo (hsteps true repaired 6 no_ign w_static (st w_tree 100))) = 2
  /\ h_fs (hsteps true repaired 6 no_ign w_static (st w_tree 100)) !! pdb = Some (File cD).
Proof. split; [reflexivity|]. split; vm_compute; reflexivity. Qed.

(* a drop that is harmless: undo list [edit a; edit d/b], redo list [edit d/b again]; dropping the edit of a *)
Definition w_dropok : hist :=
  hsteps true repaired 6 no_ign
    [ODo (CS 1 [CC pa cC None]); ODo (CS 2 [CC pdb cD None]); ODo (CS 3 [CC pdb cA None]); OUndo None false]
    (st w_tree 100).

Lemma drop_safe_example :
  Consistent 6 w_dropok /\ 0 < length (h_undo w_dropok)
  /\ (forall y z, In y (part true (marks true (h_undo w_dropok) 0) (h_undo w_dropok)) -> In z (h_redo w_dropok) ->
                  apart (roots y) (roots z))
  /\ length (h_redo w_dropok) = 1.
Proof.
  split; [apply consistentb_sound; vm_compute; reflexivity|]. split; [vm_compute; lia|].
  split; [|vm_compute; reflexivity].
  intros y z Hy Hz. vm_compute in Hy, Hz. destruct Hy as [<-|[]]. destruct Hz as [<-|[]].
  intros p q Hp Hq. cbn in Hp, Hq. destruct Hp as [<-|[]]. destruct Hq as [<-|[]]. reflexivity.
Qed.

(* lowering the limit from 100 to 1 with three entries listed: nothing is trimmed until the next do *)
Lemma limit_lowered_example :
  length (h_undo (set_limit 1 w_hist)) = 4 /\ h_limit (set_limit 1 w_hist) = 1
  /\ exists s' k' deps,
       hstep true repaired 6 no_ign (ODo (CS 9 [CC pa cD None])) (set_limit 1 w_hist) quiet = SOk s' k' deps
       /\ length (h_undo s') = 1.
Proof.
  split; [vm_compute; reflexivity|]. split; [reflexivity|].
  eexists. eexists. eexists. split; [vm_compute; reflexivity|reflexivity].
Qed.

(* the matcher on the default patterns: x.pyc, d/.git and a~ are ignored, a.txt and d are not *)
Definition w_tbl : list (N * list N) :=
  [(1, [97; 46; 116; 120; 116]); (2, [120; 46; 112; 121; 99]); (3, [46; 103; 105; 116]); (4, [100]); (5, [97; 126])]%N.
Definition w_pats : list (list N) := [[42; 46; 112; 121; 99]; [42; 126]; [46; 103; 105; 116]]%N.

Lemma ignored_example :
  ignored_by w_tbl w_pats [2%N] = true /\ ignored_by w_tbl w_pats [4%N; 3%N; 1%N] = true
  /\ ignored_by w_tbl w_pats [5%N] = true /\ ignored_by w_tbl w_pats [1%N] = false
  /\ ignored_by w_tbl w_pats [4%N; 1%N] = false.
Proof. repeat split; vm_compute; reflexivity. Qed.
