(* The schedule-free view [exec] of a successful ChangeSet.do / undo:
     - it is what C10's [run] computes under a task handle that is never stopped and a file system
       that does not fail (run_exec);
     - an exactly reversible, successful [exec] is inverted exactly by the opposite direction, which is
       again exactly reversible and returns the same change (exec_inverse);
     - the effect of an exactly reversible leaf as a precondition [pre] and a map transformer [act]. *)
From stdpp Require Import gmap list.
From Coq Require Import NArith Lia.
From RopeVerif.Lib Require Import Text.
From RopeVerif.C10 Require Import FsModel FsProofs Change ChangeProofs.
From RopeVerif.C11 Require Import History.

(* ------------------------------------------------------------------------- unfolding [exec] *)
Fixpoint eloop (f : nat) (d : dir) (l : list change) (m : fs) (done : list change) (ir : bool)
  : option (fs * list change * bool) :=
  match l with
  | [] => Some (m, done, ir)
  | c :: rest =>
      match exec f d c m with
      | Some (m', c', i) => eloop f d rest m' (c' :: done) (ir || i)
      | None => None
      end
  end.

Lemma exec_CS f d t cs m :
  exec (S f) d (CS t cs) m =
  match eloop f d (order d cs) m [] false with
  | Some (m', done, ir) => Some (m', CS t (match d with Do => rev done | Undo => done end), ir)
  | None => None
  end.
Proof.
  cbn [exec].
  match goal with |- match ?g _ m [] false with _ => _ end = _ =>
    assert (H : forall l m0 done ir, g l m0 done ir = eloop f d l m0 done ir) end.
  { induction l as [|c rest IH]; intros m0 done ir; cbn [eloop]; [reflexivity|].
    destruct (exec f d c m0) as [[[m' c'] i]|]; [apply IH|reflexivity]. }
  rewrite H. reflexivity.
Qed.

Lemma exec_leaf f d c m : is_leaf c -> exec (S f) d c m = pleaf d c m.
Proof. destruct c; cbn; tauto. Qed.

(* ------------------------------------------------------------------- calm schedules and [run] *)
Definition calm (k : sched) : Prop := flt k = None /\ stp k = None /\ stopped k = false.

Lemma calm_quiet : calm quiet.
Proof. repeat split. Qed.

Lemma calm_notify k : calm k -> notify k = k.
Proof. intros (_ & H & _). unfold notify. rewrite H. reflexivity. Qed.

Lemma calm_set_irrev k : calm k -> calm (set_irrev k).
Proof. intros (a & b & c). repeat split; assumption. Qed.

Definition after (js ir : bool) (k : sched) : sched := if js && ir then set_irrev k else k.

Lemma calm_after js ir k : calm k -> calm (after js ir k).
Proof. intros H. unfold after. destruct (js && ir); [apply calm_set_irrev|]; exact H. Qed.

Lemma after_after js a b k : after js b (after js a k) = after js (a || b) k.
Proof. unfold after. destruct js, a, b; reflexivity. Qed.

Lemma after_false js k : after js false k = k.
Proof. unfold after. rewrite andb_false_r. reflexivity. Qed.

Lemma irrev_after js ir k : irrev (after js ir k) = irrev k || (js && ir).
Proof. unfold after. destruct (js && ir); cbn; [rewrite orb_true_r|rewrite orb_false_r]; reflexivity. Qed.

Lemma calm_irrev_quiet k : calm k -> irrev k = false -> k = quiet.
Proof. destruct k as [a b c e]. intros (H1 & H2 & H3) H4. cbn in *. subst. reflexivity. Qed.

Lemma prim_calm k r : flt k = None ->
  prim k r = match r with
             | POk m' => inl (m', k)
             | PErr => inr (k, OsErr)
             | PUnmodelled => inr (k, Unmodelled)
             end.
Proof. intros H. unfold prim. rewrite (tick_quiet k H). reflexivity. Qed.

Lemma prim_read_calm k r : flt k = None ->
  prim_read k r = match r with Some c => inl (c, k) | None => inr (k, OsErr) end.
Proof. intros H. unfold prim_read. rewrite (tick_quiet k H). reflexivity. Qed.

Definition resched {A} (k : sched) (r : res A) : res A :=
  match r with Ok m' _ a => Ok m' k a | Err m' _ x => Err m' k x end.

Lemma lift_prim_calm m c w k r : flt k = None ->
  lift m c w (prim k r) = resched k (lift m c w (prim quiet r)).
Proof.
  intros H. rewrite (prim_calm k r H), (prim_calm quiet r eq_refl). destruct r; reflexivity.
Qed.

Lemma body_calm k d c m : flt k = None -> body k d c m = resched k (body quiet d c m).
Proof.
  intros H. destruct c as [p new [o|]|p q f|p f|p f|t cs], d; cbn [body];
    try (apply lift_prim_calm; exact H); try reflexivity.
  - rewrite (prim_read_calm k _ H), (prim_read_calm quiet _ eq_refl).
    destruct (p_read p m); [apply lift_prim_calm; exact H|reflexivity].
  - destruct (exists_b m p); [reflexivity|]. destruct (negb (exists_b m (parent p))); [reflexivity|].
    apply lift_prim_calm; exact H.
Qed.

Lemma leaf_calm v js k d c m : calm k ->
  match pleaf d c m with
  | Some (m', c', ir) => leaf v js k d c m = Ok m' (after js ir k) c'
  | None => exists m' k' x, leaf v js k d c m = Err m' k' x
  end.
Proof.
  intros Hc. pose proof Hc as (Hf & Hs & Ht). unfold leaf, pleaf. rewrite Ht, andb_false_r.
  assert (Hk1 : (if js then notify k else k) = k) by (destruct js; [apply calm_notify; exact Hc|reflexivity]).
  rewrite Hk1, (body_calm k d c m Hf).
  destruct (body quiet d c m) as [m' k2 c'|m' k2 x]; cbn [resched]; [|eauto].
  unfold after.
  destruct (js && negb (leaf_rev d c m)) eqn:Ei.
  - assert (Hc' := calm_set_irrev k Hc). destruct Hc' as (_ & _ & Ht').
    rewrite Ht', andb_false_r. destruct js; [rewrite calm_notify by (apply calm_set_irrev; exact Hc)|]; reflexivity.
  - rewrite Ht, andb_false_r. destruct js; [rewrite calm_notify by exact Hc|]; reflexivity.
Qed.

Definition RUNEXEC (v : variant) (f : nat) : Prop :=
  forall js k d c m, calm k ->
    match exec f d c m with
    | Some (m', c', ir) => run v f js k d c m = Ok m' (after js ir k) c'
    | None => exists m' k' x, run v f js k d c m = Err m' k' x
    end.

Lemma loop_exec v f js d (IH : RUNEXEC v f) l : forall m k done ir, calm k ->
  match eloop f d l m done ir with
  | Some (m', done', ir') => loop v f js d l m (after js ir k) done = Ok m' (after js ir' k) done'
  | None => exists m' k' x, loop v f js d l m (after js ir k) done = Err m' k' x
  end.
Proof.
  induction l as [|c l IHl]; intros m k done ir Hc; cbn [eloop loop]; [reflexivity|].
  pose proof (IH js (after js ir k) d c m (calm_after js ir k Hc)) as Hr.
  destruct (exec f d c m) as [[[m1 c1] i]|].
  - rewrite Hr, after_after. apply IHl; exact Hc.
  - destruct Hr as (m' & k' & x & ->).
    destruct (back v f d (if rb_rev v then done else rev done) m' k') as [[mb kb] y]. eauto.
Qed.

Theorem run_exec v f : RUNEXEC v f.
Proof.
  induction f as [|f IH]; intros js k d c m Hc; [cbn; eauto|].
  destruct c as [p new old|p q b|p b|p b|t cs];
    try (rewrite exec_leaf, run_leaf by exact I; apply leaf_calm; exact Hc).
  rewrite exec_CS, run_CS.
  pose proof (loop_exec v f js d IH (order d cs) m k [] false Hc) as Hl. rewrite after_false in Hl.
  destruct (eloop f d (order d cs) m [] false) as [[[m' done] ir]|].
  - rewrite Hl. reflexivity.
  - destruct Hl as (m' & k' & x & ->). eauto.
Qed.

(* ---------------------------------------------------------- reversible leaves: [pre] and [act] *)
Definition recorded_leaf (c : change) : Prop :=
  match c with CC _ _ None => False | CS _ _ => False | RM _ _ => False | _ => True end.

Definition pre (d : dir) (c : change) (m : fs) : Prop :=
  match c, d with
  | CC p _ (Some o), Do => m !! p = Some (File o)
  | CC p new (Some _), Undo => m !! p = Some (File new)
  | MV p q _, Do => movable p q m
  | MV p q _, Undo => movable q p m
  | CR p f, Do => p <> [] /\ m !! p = None /\ is_dir m (parent p) = true
  | CR p f, Undo => m !! p = Some (if f then Dir else File [])
                    /\ (forall k, is_prefix p k = true -> k <> p -> m !! k = None)
  | _, _ => False
  end.

Definition act (d : dir) (c : change) (m : fs) : fs :=
  match c, d with
  | CC p new (Some _), Do => <[p := File new]> m
  | CC p _ (Some o), Undo => <[p := File o]> m
  | MV p q _, Do => move_tree p q m
  | MV p q _, Undo => move_tree q p m
  | CR p f, Do => <[p := if f then Dir else File []]> m
  | CR p _, Undo => delete p m
  | _, _ => m
  end.

Lemma movable_simple_move (m : fs) p q : movable p q m -> simple_move p q m = true.
Proof.
  intros (Hp & Hq & [n Hn] & Hnone & Hd & Hpq). unfold simple_move.
  rewrite Hn, Hd, Hpq. unfold exists_b.
  destruct p; [congruence|]. destruct q; [congruence|]. rewrite Hnone. reflexivity.
Qed.

Lemma wf_nonroot (m : fs) p n : wf_fs m -> m !! p = Some n -> p <> [].
Proof. intros Hwf H. destruct (Hwf _ _ H); assumption. Qed.

Lemma p_write_file (m : fs) p o c : wf_fs m -> m !! p = Some (File o) -> p_write p c m = POk (<[p := File c]> m).
Proof.
  intros Hwf H. pose proof (wf_nonroot _ _ _ Hwf H). unfold p_write. destruct p; [congruence|].
  rewrite H. reflexivity.
Qed.

Lemma pleaf_some d c m m1 c1 ir :
  pleaf d c m = Some (m1, c1, ir) ->
  exists k1, body quiet d c m = Ok m1 k1 c1 /\ ir = negb (leaf_rev d c m).
Proof.
  unfold pleaf. destruct (body quiet d c m) as [m' k' c'|]; [|discriminate].
  intros H; inversion H; subst. eauto.
Qed.

(* the first do of a ChangeContents records the old contents and then behaves as the recorded one *)
Lemma pleaf_fresh p new m m1 c1 ir :
  pleaf Do (CC p new None) m = Some (m1, c1, ir) ->
  exists o, m !! p = Some (File o) /\ c1 = CC p new (Some o)
            /\ pleaf Do (CC p new (Some o)) m = Some (m1, c1, ir).
Proof.
  intros H. apply pleaf_some in H. destruct H as (k1 & Hb & ->). cbn [body] in Hb.
  rewrite (prim_read_calm quiet _ eq_refl) in Hb. unfold p_read in Hb.
  destruct (m !! p) as [[o|]|] eqn:Ep; try discriminate.
  exists o. split; [reflexivity|]. apply lift_ok in Hb. destruct Hb as [Hb ->]. split; [reflexivity|].
  unfold pleaf. cbn [body]. rewrite Hb. cbn [lift leaf_rev]. rewrite Ep, text_eqb_refl. reflexivity.
Qed.

Lemma pleaf_pre_act d c m m1 c1 :
  wf_fs m -> recorded_leaf c -> pleaf d c m = Some (m1, c1, false) ->
  pre d c m /\ m1 = act d c m /\ c1 = c.
Proof.
  intros Hwf Hrec H. apply pleaf_some in H. destruct H as (k1 & Hb & Hrev).
  symmetry in Hrev. apply negb_false_iff in Hrev.
  destruct c as [p new [o|]|p q f|p f|p f|t cs]; try destruct Hrec; destruct d;
    cbn [leaf_rev] in Hrev; cbn [body] in Hb; cbn [pre act].
  - destruct (m !! p) as [[o'|]|] eqn:Ep; try discriminate. apply text_eqb_true in Hrev. subst o'.
    apply lift_ok in Hb. destruct Hb as [Hb ->]. apply prim_inl in Hb. destruct Hb as [Hb _].
    rewrite (p_write_file _ _ _ _ Hwf Ep) in Hb. inversion Hb. auto.
  - destruct (m !! p) as [[x|]|] eqn:Ep; try discriminate. apply text_eqb_true in Hrev. subst x.
    apply lift_ok in Hb. destruct Hb as [Hb ->]. apply prim_inl in Hb. destruct Hb as [Hb _].
    rewrite (p_write_file _ _ _ _ Hwf Ep) in Hb. inversion Hb. auto.
  - apply simple_move_movable in Hrev. apply lift_ok in Hb. destruct Hb as [Hb ->].
    apply prim_inl in Hb. destruct Hb as [Hb _]. rewrite (p_move_simple _ _ _ Hrev) in Hb. inversion Hb. auto.
  - apply simple_move_movable in Hrev. apply lift_ok in Hb. destruct Hb as [Hb ->].
    apply prim_inl in Hb. destruct Hb as [Hb _]. rewrite (p_move_simple _ _ _ Hrev) in Hb. inversion Hb. auto.
  - destruct (exists_b m p) eqn:Ee; [discriminate|].
    destruct (negb (exists_b m (parent p))) eqn:Epar; [discriminate|].
    apply exists_b_false in Ee. destruct Ee as [Hp0 Hnone].
    apply lift_ok in Hb. destruct Hb as [Hb ->]. apply prim_inl in Hb. destruct Hb as [Hb _].
    unfold p_create in Hb. destruct p as [|x p]; [congruence|]. rewrite Hnone in Hb.
    destruct (is_dir m (parent (x :: p))) eqn:Hd; [|discriminate]. inversion Hb. auto.
  - apply lift_ok in Hb. destruct Hb as [Hb ->]. apply prim_inl in Hb. destruct Hb as [Hb _].
    unfold p_remove in Hb. destruct (m !! p) as [[c|]|] eqn:Ep; try discriminate.
    + apply andb_true_iff in Hrev. destruct Hrev as [Hf Hc]. apply negb_true_iff in Hf. subst f.
      destruct c; [|discriminate]. pose proof (wf_nonroot _ _ _ Hwf Ep).
      destruct p as [|x p]; [congruence|]. inversion Hb.
      split; [split; [reflexivity|]; apply (wf_file_leaf m (x :: p) [] Hwf Ep)|auto].
    + apply andb_true_iff in Hrev. destruct Hrev as [Hf Hc]. subst f. apply negb_true_iff in Hc.
      pose proof (wf_nonroot _ _ _ Hwf Ep). destruct p as [|x p]; [congruence|]. inversion Hb.
      rewrite (remove_tree_childless _ _ Hc).
      split; [split; [reflexivity|]; apply (proj1 (has_children_false m (x :: p)) Hc)|auto].
Qed.

Lemma act_pre_pleaf d c m :
  wf_fs m -> recorded_leaf c -> pre d c m -> pleaf d c m = Some (act d c m, c, false).
Proof.
  intros Hwf Hrec Hpre.
  destruct c as [p new [o|]|p q f|p f|p f|t cs]; try destruct Hrec; destruct d;
    cbn [pre act] in *; unfold pleaf; cbn [body leaf_rev].
  - rewrite (p_write_file _ _ _ _ Hwf Hpre), prim_quiet by reflexivity. cbn [lift].
    rewrite Hpre, text_eqb_refl. reflexivity.
  - rewrite (p_write_file _ _ _ _ Hwf Hpre), prim_quiet by reflexivity. cbn [lift].
    rewrite Hpre, text_eqb_refl. reflexivity.
  - rewrite (p_move_simple _ _ _ Hpre), prim_quiet by reflexivity. cbn [lift].
    rewrite (movable_simple_move _ _ _ Hpre). reflexivity.
  - rewrite (p_move_simple _ _ _ Hpre), prim_quiet by reflexivity. cbn [lift].
    rewrite (movable_simple_move _ _ _ Hpre). reflexivity.
  - destruct Hpre as (Hp & Hnone & Hd).
    assert (Ee : exists_b m p = false) by (unfold exists_b; destruct p; [congruence|]; rewrite Hnone; reflexivity).
    rewrite Ee, (is_dir_exists _ _ Hd). cbn [negb]. unfold p_create. destruct p as [|x p]; [congruence|].
    rewrite Hnone, Hd, prim_quiet by reflexivity. reflexivity.
  - destruct Hpre as (Hn & Hch). pose proof (wf_nonroot _ _ _ Hwf Hn). unfold p_remove.
    destruct p as [|x p]; [congruence|]. rewrite Hn. destruct f.
    + assert (Hc : has_children m (x :: p) = false) by (apply has_children_false; exact Hch).
      rewrite (remove_tree_childless _ _ Hc), prim_quiet by reflexivity. cbn [lift]. rewrite Hc. reflexivity.
    + rewrite prim_quiet by reflexivity. reflexivity.
Qed.

(* the opposite leaf is enabled after the action, and takes the tree back *)
Lemma pre_act_back d c m :
  wf_fs m -> recorded_leaf c -> pre d c m ->
  wf_fs (act d c m) /\ pre (opp d) c (act d c m) /\ act (opp d) c (act d c m) = m.
Proof.
  intros Hwf Hrec Hpre.
  destruct c as [p new [o|]|p q f|p f|p f|t cs]; try destruct Hrec; destruct d; cbn [pre act opp] in *.
  - destruct (Hwf _ _ Hpre) as [Hp0 Hd]. split; [|split].
    + apply wf_fs_insert; auto. rewrite Hpre. discriminate.
    + apply lookup_insert.
    + rewrite insert_insert. apply insert_id. exact Hpre.
  - destruct (Hwf _ _ Hpre) as [Hp0 Hd]. split; [|split].
    + apply wf_fs_insert; auto. rewrite Hpre. discriminate.
    + apply lookup_insert.
    + rewrite insert_insert. apply insert_id. exact Hpre.
  - split; [apply wf_fs_move_tree; assumption|]. split; [apply movable_back; assumption|].
    rewrite (move_tree_sym q p). apply move_tree_invol.
  - split; [apply wf_fs_move_tree; assumption|]. split; [apply movable_back; assumption|].
    rewrite (move_tree_sym p q). apply move_tree_invol.
  - destruct Hpre as (Hp & Hnone & Hd). split; [|split].
    + apply wf_fs_insert; auto. rewrite Hnone. discriminate.
    + split; [apply lookup_insert|]. intros k Hk Hne. rewrite lookup_insert_ne by congruence.
      eapply wf_no_orphans; eauto.
    + apply delete_insert. exact Hnone.
  - destruct Hpre as (Hn & Hch). destruct (Hwf _ _ Hn) as [Hp0 Hd]. split; [|split].
    + apply wf_fs_delete; assumption.
    + split; [exact Hp0|]. split; [apply lookup_delete|].
      rewrite (is_dir_ext m); [exact Hd|]. apply lookup_delete_ne. intros E. symmetry in E.
      revert E. apply parent_neq. exact Hp0.
    + apply insert_delete. exact Hn.
Qed.

(* ------------------------------------------------------ an exactly reversible exec is inverted *)
(* [link f d c a b]: doing (undoing) c from a succeeds, is exactly reversible, leads to b and
   returns c itself *)
Definition link (f : nat) (d : dir) (c : change) (a b : fs) : Prop := exec f d c a = Some (b, c, false).

Lemma pleaf_recorded d c m m1 c1 ir : pleaf d c m = Some (m1, c1, ir) -> is_leaf c -> recorded_leaf c1 \/ ir = true.
Proof.
  intros H Hl. destruct c as [p new [o|]|p q f|p f|p f|t cs]; try destruct Hl.
  - apply pleaf_some in H. destruct H as (k1 & Hb & _). left.
    destruct d; cbn [body] in Hb; apply lift_ok in Hb; destruct Hb as [_ ->]; exact I.
  - destruct d.
    + apply pleaf_fresh in H. destruct H as (o & _ & -> & _). left. exact I.
    + apply pleaf_some in H. destruct H as (k1 & Hb & _). discriminate.
  - apply pleaf_some in H. destruct H as (k1 & Hb & _). left.
    destruct d; cbn [body] in Hb; apply lift_ok in Hb; destruct Hb as [_ ->]; exact I.
  - apply pleaf_some in H. destruct H as (k1 & Hb & _). left. destruct d; cbn [body] in Hb.
    + destruct (exists_b m p); [discriminate|]. destruct (negb (exists_b m (parent p))); [discriminate|].
      apply lift_ok in Hb; destruct Hb as [_ ->]; exact I.
    + apply lift_ok in Hb; destruct Hb as [_ ->]; exact I.
  - right. apply pleaf_some in H. destruct H as (k1 & Hb & ->). destruct d; reflexivity.
Qed.

Lemma pleaf_inverse d c m m1 c1 :
  wf_fs m -> is_leaf c -> pleaf d c m = Some (m1, c1, false) ->
  wf_fs m1 /\ is_leaf c1 /\ pleaf (opp d) c1 m1 = Some (m, c1, false).
Proof.
  intros Hwf Hl H.
  assert (Hrc : exists c0, recorded_leaf c0 /\ pleaf d c0 m = Some (m1, c1, false)).
  { destruct c as [p new [o|]|p q f|p f|p f|t cs]; try destruct Hl;
      try (eexists; split; [|exact H]; exact I).
    - destruct d; [|apply pleaf_some in H; destruct H as (k1 & Hb & _); discriminate].
      apply pleaf_fresh in H. destruct H as (o & _ & -> & H). eexists; split; [|exact H]. exact I.
    - apply pleaf_some in H. destruct H as (k1 & Hb & Hr). destruct d; discriminate. }
  destruct Hrc as (c0 & Hrec & H0).
  destruct (pleaf_pre_act _ _ _ _ _ Hwf Hrec H0) as (Hpre & -> & ->).
  destruct (pre_act_back _ _ _ Hwf Hrec Hpre) as (Hwf1 & Hpre1 & Hback).
  split; [exact Hwf1|]. split; [destruct c0; try exact I; destruct Hrec|].
  rewrite (act_pre_pleaf _ _ _ Hwf1 Hrec Hpre1), Hback. reflexivity.
Qed.

Definition EINV (f : nat) : Prop :=
  forall d c m m1 c1, wf_fs m -> exec f d c m = Some (m1, c1, false) ->
    wf_fs m1 /\ exec f (opp d) c1 m1 = Some (m, c1, false).

Lemma eloop_flag f d l : forall m done ir m1 done1,
  eloop f d l m done ir = Some (m1, done1, false) -> ir = false.
Proof.
  induction l as [|c l IH]; intros m done ir m1 done1 H; cbn [eloop] in H.
  - inversion H; reflexivity.
  - destruct (exec f d c m) as [[[m' c'] i]|]; [|discriminate].
    apply IH in H. apply orb_false_elim in H. tauto.
Qed.

(* [done] (most recent first) can be re-processed in the opposite direction from m back to m0 *)
Lemma eloop_inv f d (IH : EINV f) l : forall m done m1 done1 m0,
  wf_fs m ->
  (forall acc, eloop f (opp d) done m acc false = Some (m0, rev done ++ acc, false)) ->
  eloop f d l m done false = Some (m1, done1, false) ->
  wf_fs m1
  /\ (forall acc, eloop f (opp d) done1 m1 acc false = Some (m0, rev done1 ++ acc, false)).
Proof.
  induction l as [|c l IHl]; intros m done m1 done1 m0 Hwf Hback H; cbn [eloop] in H.
  - inversion H; subst. auto.
  - destruct (exec f d c m) as [[[m' c'] i]|] eqn:Ec; [|discriminate]. cbn [orb] in H.
    pose proof (eloop_flag _ _ _ _ _ _ _ _ H) as ->.
    destruct (IH _ _ _ _ _ Hwf Ec) as (Hwf' & Hinv).
    eapply IHl; [exact Hwf'| |exact H].
    intros acc. cbn [eloop]. rewrite Hinv. cbn [orb]. rewrite Hback. cbn [rev]. rewrite <- app_assoc. reflexivity.
Qed.

Theorem exec_inverse f : EINV f.
Proof.
  induction f as [|f IH]; intros d c m m1 c1 Hwf H; [discriminate|].
  destruct c as [p new old|p q b|p b|p b|t cs].
  1-4: rewrite exec_leaf in H by exact I;
       eapply pleaf_inverse in H; [|exact Hwf|exact I]; destruct H as (Hwf1 & Hl & Hinv);
       (split; [exact Hwf1|]); rewrite exec_leaf by exact Hl; assumption.
  rewrite exec_CS in H.
  destruct (eloop f d (order d cs) m [] false) as [[[m' done] ir]|] eqn:El; [|discriminate].
  inversion H; subst m' c1 ir; clear H.
  destruct (eloop_inv f d IH (order d cs) m [] m1 done m Hwf (fun acc => eq_refl) El) as (Hwf1 & Hback).
  split; [exact Hwf1|]. rewrite exec_CS.
  assert (Ho : order (opp d) (match d with Do => rev done | Undo => done end) = done).
  { destruct d; cbn [opp order]; [apply rev_involutive|reflexivity]. }
  rewrite Ho, Hback, app_nil_r.
  destruct d; cbn [opp]; [reflexivity|rewrite rev_involutive; reflexivity].
Qed.

(* applying it twice: the returned change, re-processed from the same tree, behaves the same *)
Corollary exec_again f d c m m1 c1 :
  wf_fs m -> exec f d c m = Some (m1, c1, false) -> exec f d c1 m = Some (m1, c1, false).
Proof.
  intros Hwf H. destruct (exec_inverse f _ _ _ _ _ Hwf H) as (Hwf1 & Hinv).
  destruct (exec_inverse f _ _ _ _ _ Hwf1 Hinv) as (_ & H2). destruct d; exact H2.
Qed.
