(* Independent changes commute.
   Two exactly reversible changes whose resource paths neither coincide nor nest can be performed in
   either order with the same result (swap_changes, both directions); a whole change is the sequence
   of its leaves (flatten / unflatten); and a list of changes can be reordered as History._move_front
   does when every non-member is apart from the members that precede it (reorder). *)
From stdpp Require Import gmap list.
From Coq Require Import NArith Lia.
From RopeVerif.Lib Require Import Text.
From RopeVerif.C10 Require Import FsModel FsProofs Change ChangeProofs.
From RopeVerif.C11 Require Import History ExecProofs.

(* the paths of the resources of a change *)
Definition roots (c : change) : list (list N) := map snd (resources c).

(* no path of the first list equals, lies below or lies above a path of the second *)
Definition apart (ps qs : list (list N)) : Prop := forall p q, In p ps -> In q qs -> nested p q = false.

Lemma apart_sym ps qs : apart ps qs -> apart qs ps.
Proof. intros H p q Hp Hq. rewrite nested_sym. apply H; assumption. Qed.

Lemma apart_app_r ps qs rs : apart ps (qs ++ rs) <-> apart ps qs /\ apart ps rs.
Proof.
  split.
  - intros H. split; intros p q Hp Hq; apply H; auto; apply in_or_app; auto.
  - intros [H1 H2] p q Hp Hq. apply in_app_or in Hq. destruct Hq; [apply H1|apply H2]; assumption.
Qed.

Lemma apart_app_l ps qs rs : apart (ps ++ qs) rs <-> apart ps rs /\ apart qs rs.
Proof.
  split.
  - intros H. split; intros p q Hp Hq; apply H; auto; apply in_or_app; auto.
  - intros [H1 H2] p q Hp Hq. apply in_app_or in Hp. destruct Hp; [apply H1|apply H2]; assumption.
Qed.

Lemma nested_refl p : nested p p = true.
Proof. unfold nested. rewrite is_prefix_refl. reflexivity. Qed.

Lemma not_below (p q r : list N) : nested p q = false -> is_prefix p (q ++ r) = false.
Proof. intros H. unfold is_prefix. rewrite (strip_disjoint p q r H). reflexivity. Qed.

Lemma not_nested_prefix p q : nested p q = false -> is_prefix p q = false /\ is_prefix q p = false.
Proof. apply nested_false. Qed.

(* a path below (or equal to) neither root is not moved *)
Lemma swapf_fix p q k : nested k p = false -> nested k q = false -> swapf p q k = k.
Proof.
  intros H1 H2. apply swapf_other.
  - rewrite nested_sym in H1. apply nested_false in H1. tauto.
  - rewrite nested_sym in H2. apply nested_false in H2. tauto.
Qed.

(* -------------------------------------------------------------------- commuting the actions *)
Lemma ins_mov (m : fs) (k0 p q : list N) v :
  nested k0 p = false -> nested k0 q = false ->
  move_tree p q (<[k0 := v]> m) = <[k0 := v]> (move_tree p q m).
Proof.
  intros H1 H2. apply map_eq. intros k. rewrite lookup_move_tree.
  destruct (decide (k = k0)) as [->|Hne].
  - rewrite (swapf_fix p q k0 H1 H2), !lookup_insert. reflexivity.
  - rewrite (lookup_insert_ne (move_tree p q m) k0 k v) by congruence. rewrite lookup_move_tree.
    apply lookup_insert_ne. intros E. apply Hne.
    assert (E' : swapf p q k0 = swapf p q k) by (rewrite (swapf_fix p q k0 H1 H2); exact E).
    apply (swapf_inj p q) in E'. congruence.
Qed.

Lemma swapf_nested_id p q k : nested p q = true -> swapf p q k = k.
Proof. intros H. unfold swapf. rewrite H. reflexivity. Qed.

Lemma swapf_comm p q p' q' k :
  nested p p' = false -> nested p q' = false -> nested q p' = false -> nested q q' = false ->
  swapf p q (swapf p' q' k) = swapf p' q' (swapf p q k).
Proof.
  intros H1 H2 H3 H4.
  destruct (nested p q) eqn:Hpq; [rewrite !(swapf_nested_id p q) by exact Hpq; reflexivity|].
  destruct (nested p' q') eqn:Hpq'; [rewrite !(swapf_nested_id p' q') by exact Hpq'; reflexivity|].
  assert (G : forall a b r, nested a b = false -> is_prefix a (b ++ r) = false) by (intros; apply not_below; assumption).
  assert (H1' := H1). assert (H2' := H2). assert (H3' := H3). assert (H4' := H4).
  rewrite nested_sym in H1', H2', H3', H4'.
  destruct (swapf_cases p' q' k Hpq') as [[r [-> ->]]|[[r [-> ->]]|[Ha [Hb ->]]]].
  - rewrite (swapf_other p q (q' ++ r)) by (apply G; assumption).
    rewrite (swapf_other p q (p' ++ r)) by (apply G; assumption).
    symmetry. apply swapf_under_p; exact Hpq'.
  - rewrite (swapf_other p q (p' ++ r)) by (apply G; assumption).
    rewrite (swapf_other p q (q' ++ r)) by (apply G; assumption).
    symmetry. apply swapf_under_q; exact Hpq'.
  - destruct (swapf_cases p q k Hpq) as [[r [-> ->]]|[[r [-> ->]]|[Hc [Hd ->]]]].
    + symmetry. apply swapf_other; apply G; assumption.
    + symmetry. apply swapf_other; apply G; assumption.
    + symmetry. apply swapf_other; assumption.
Qed.

Lemma mov_mov (m : fs) (p q p' q' : list N) :
  nested p p' = false -> nested p q' = false -> nested q p' = false -> nested q q' = false ->
  move_tree p q (move_tree p' q' m) = move_tree p' q' (move_tree p q m).
Proof.
  intros H1 H2 H3 H4. apply map_eq. intros k. rewrite !lookup_move_tree.
  rewrite (swapf_comm p' q' p q); [reflexivity|rewrite nested_sym; assumption..].
Qed.

Lemma ins_ins (m : fs) (p q : list N) v w : nested p q = false -> <[p := v]> (<[q := w]> m) = <[q := w]> (<[p := v]> m).
Proof. intros H. apply insert_commute. intros ->. rewrite nested_refl in H. discriminate. Qed.

(* Do-direction action of a recorded reversible leaf: an insertion or a subtree move *)
Inductive shape := Ins (p : list N) (v : node) | Mov (p q : list N) | NoShape.

Definition shape_of (c : change) : shape :=
  match c with
  | CC p new (Some _) => Ins p (File new)
  | CR p f => Ins p (if f then Dir else File [])
  | MV p q _ => Mov p q
  | _ => NoShape
  end.

Definition apply_shape (s : shape) (m : fs) : fs :=
  match s with Ins p v => <[p := v]> m | Mov p q => move_tree p q m | NoShape => m end.

Definition shape_roots (s : shape) : list (list N) :=
  match s with Ins p _ => [p] | Mov p q => [p; q] | NoShape => [] end.

Lemma act_shape (c : change) (m : fs) : act Do c m = apply_shape (shape_of c) m.
Proof. destruct c as [p new [o|]|p q f|p f|p f|t cs]; reflexivity. Qed.

Lemma roots_shape c : recorded_leaf c -> roots c = shape_roots (shape_of c).
Proof. destruct c as [p new [o|]|p q f|p f|p f|t cs]; intros H; try destruct H; reflexivity. Qed.

Lemma shape_comm (s1 s2 : shape) (m : fs) :
  apart (shape_roots s1) (shape_roots s2) ->
  apply_shape s1 (apply_shape s2 m) = apply_shape s2 (apply_shape s1 m).
Proof.
  intros H. destruct s1 as [p v|p q|], s2 as [p' v'|p' q'|]; cbn [apply_shape shape_roots] in *; try reflexivity.
  - apply ins_ins. apply H; left; reflexivity.
  - symmetry. apply ins_mov; apply H; cbn; auto.
  - apply ins_mov; rewrite nested_sym; apply H; cbn; auto.
  - apply mov_mov; apply H; cbn; auto.
Qed.

(* ------------------------------------------------------------------------ frame and locality *)
Lemma apply_shape_frame (s : shape) (k : list N) (m : fs) :
  (forall r, In r (shape_roots s) -> is_prefix r k = false) -> apply_shape s m !! k = m !! k.
Proof.
  intros H. destruct s as [p v|p q|]; cbn [apply_shape shape_roots] in *; [| |reflexivity].
  - apply lookup_insert_ne. intros ->. pose proof (H k (or_introl eq_refl)) as E.
    rewrite is_prefix_refl in E. discriminate.
  - apply move_lookup_other; apply H; cbn; auto.
Qed.

Lemma pre_local (c : change) (m m' : fs) :
  recorded_leaf c ->
  (forall r, In r (roots c) -> m' !! r = m !! r /\ m' !! parent r = m !! parent r) ->
  pre Do c m -> pre Do c m'.
Proof.
  intros Hrec H.
  destruct c as [p new [o|]|p q f|p f|p f|t cs]; try destruct Hrec; cbn [pre roots resources map snd] in *.
  - intros Hp. destruct (H p) as [E _]; [left; reflexivity|]. rewrite E. exact Hp.
  - intros (Hp & Hq & [n Hn] & Hnone & Hd & Hpq).
    destruct (H p) as [Ep _]; [left; reflexivity|]. destruct (H q) as [Eq Eqp]; [right; left; reflexivity|].
    repeat split; try assumption.
    + rewrite Ep. eauto.
    + rewrite Eq. exact Hnone.
    + rewrite (is_dir_ext m); [exact Hd|exact Eqp].
  - intros (Hp & Hnone & Hd). destruct (H p) as [Ep Epp]; [left; reflexivity|].
    repeat split; try assumption.
    + rewrite Ep. exact Hnone.
    + rewrite (is_dir_ext m); [exact Hd|exact Epp].
Qed.

Lemma prefix_of_parent r q : is_prefix r (parent q) = true -> is_prefix r q = true.
Proof. intros H. eapply is_prefix_trans; [exact H|apply is_prefix_parent]. Qed.

(* two independent reversible leaves, performed one after the other, can be performed in the other
   order with the same result *)
Lemma swap_leaf (a b : change) (m : fs) :
  recorded_leaf a -> recorded_leaf b -> apart (roots a) (roots b) ->
  pre Do a m -> pre Do b (act Do a m) ->
  pre Do b m /\ pre Do a (act Do b m) /\ act Do a (act Do b m) = act Do b (act Do a m).
Proof.
  intros Ha Hb Hap Hpa Hpb.
  assert (Fa : forall r, In r (roots b) -> act Do a m !! r = m !! r /\ act Do a m !! parent r = m !! parent r).
  { intros r Hr. rewrite act_shape. split; apply apply_shape_frame; intros r' Hr'; rewrite <- (roots_shape a Ha) in Hr'.
    - specialize (Hap r' r Hr' Hr). apply nested_false in Hap. tauto.
    - destruct (is_prefix r' (parent r)) eqn:E; [|reflexivity].
      apply prefix_of_parent in E. specialize (Hap r' r Hr' Hr). apply nested_false in Hap. destruct Hap; congruence. }
  assert (Fb : forall r, In r (roots a) -> act Do b m !! r = m !! r /\ act Do b m !! parent r = m !! parent r).
  { intros r Hr. rewrite act_shape. split; apply apply_shape_frame; intros r' Hr'; rewrite <- (roots_shape b Hb) in Hr'.
    - specialize (Hap r r' Hr Hr'). apply nested_false in Hap. tauto.
    - destruct (is_prefix r' (parent r)) eqn:E; [|reflexivity].
      apply prefix_of_parent in E. specialize (Hap r r' Hr Hr'). apply nested_false in Hap. destruct Hap; congruence. }
  split; [|split].
  - apply (pre_local b (act Do a m) m Hb); [|exact Hpb].
    intros r Hr. destruct (Fa r Hr) as [E1 E2]. split; congruence.
  - apply (pre_local a m (act Do b m) Ha); [|exact Hpa]. exact Fb.
  - rewrite !act_shape. apply shape_comm. rewrite <- (roots_shape a Ha), <- (roots_shape b Hb). exact Hap.
Qed.

(* ----------------------------------------------------------------- sequences of leaf actions *)
Fixpoint lsteps (l : list change) (a b : fs) : Prop :=
  match l with
  | [] => a = b
  | c :: r => recorded_leaf c /\ pre Do c a /\ lsteps r (act Do c a) b
  end.

Lemma lsteps_app l1 l2 a b : lsteps (l1 ++ l2) a b <-> exists mid, lsteps l1 a mid /\ lsteps l2 mid b.
Proof.
  revert a. induction l1 as [|c l1 IH]; intros a; cbn [lsteps app].
  - split; [intros H; exists a; auto|intros (mid & -> & H); exact H].
  - split.
    + intros (Hr & Hp & H). apply IH in H. destruct H as (mid & H1 & H2). exists mid. auto.
    + intros (mid & (Hr & Hp & H1) & H2). split; [exact Hr|]. split; [exact Hp|]. apply IH. eauto.
Qed.

Lemma lsteps_wf l : forall a b, wf_fs a -> lsteps l a b -> wf_fs b.
Proof.
  induction l as [|c l IH]; intros a b Hwf H; cbn [lsteps] in H; [subst; exact Hwf|].
  destruct H as (Hr & Hp & H). destruct (pre_act_back Do c a Hwf Hr Hp) as (Hwf' & _). eapply IH; eauto.
Qed.

Definition apart_from (x : change) (B : list change) : Prop := forall y, In y B -> apart (roots x) (roots y).

Lemma lsteps_bubble x B C : forall a b,
  apart_from x B -> lsteps (x :: B ++ C) a b -> lsteps (B ++ x :: C) a b.
Proof.
  induction B as [|y B IH]; intros a b Hap H; [exact H|].
  cbn [lsteps app] in *. destruct H as (Hrx & Hpx & Hry & Hpy & H).
  destruct (swap_leaf x y a Hrx Hry (Hap y (or_introl eq_refl)) Hpx Hpy) as (Hpy' & Hpx' & Hcomm).
  split; [exact Hry|]. split; [exact Hpy'|]. apply IH.
  - intros z Hz. apply Hap. right; exact Hz.
  - cbn [lsteps]. split; [exact Hrx|]. split; [exact Hpx'|]. rewrite Hcomm. exact H.
Qed.

Lemma lsteps_swap A B : forall a b,
  (forall x, In x A -> apart_from x B) -> lsteps (A ++ B) a b -> lsteps (B ++ A) a b.
Proof.
  induction A as [|x A IH]; intros a b Hap H; [rewrite app_nil_r; exact H|].
  cbn [app] in H. cbn [lsteps] in H. destruct H as (Hrx & Hpx & H).
  apply IH in H; [|intros z Hz; apply Hap; right; exact Hz].
  apply lsteps_bubble; [apply Hap; left; reflexivity|].
  cbn [lsteps]. auto.
Qed.

(* --------------------------------------------------------------- a change as its leaf sequence *)
Fixpoint leaves (c : change) : list change :=
  match c with
  | CS _ cs => (fix go (l : list change) : list change := match l with [] => [] | c :: r => leaves c ++ go r end) cs
  | _ => [c]
  end.

Fixpoint leaves_list (l : list change) : list change :=
  match l with [] => [] | c :: r => leaves c ++ leaves_list r end.

Lemma leaves_CS t cs : leaves (CS t cs) = leaves_list cs.
Proof. cbn [leaves]. induction cs as [|c r IH]; [reflexivity|]. cbn [leaves_list]. rewrite <- IH. reflexivity. Qed.

Lemma resources_CS t cs : resources (CS t cs) = resources_list cs.
Proof. cbn [resources]. induction cs as [|c r IH]; [reflexivity|]. cbn [resources_list]. rewrite <- IH. reflexivity. Qed.

Lemma eloop_shape f d l : forall a acc ir b r ir',
  eloop f d l a acc ir = Some (b, r, ir') -> exists pre, r = pre ++ acc /\ length pre = length l.
Proof.
  induction l as [|y l IH]; intros a acc ir b r ir' H; cbn [eloop] in H.
  - inversion H; subst. exists []. auto.
  - destruct (exec f d y a) as [[[a' y'] j]|]; [|discriminate].
    apply IH in H. destruct H as (pre & -> & Hlen). exists (pre ++ [y']).
    rewrite <- app_assoc. split; [reflexivity|]. rewrite app_length. cbn. lia.
Qed.

Definition FLAT (f : nat) : Prop :=
  forall c m m1, wf_fs m -> exec f Do c m = Some (m1, c, false) -> lsteps (leaves c) m m1.

Lemma eloop_flat f (IH : FLAT f) l : forall m done m1,
  wf_fs m -> eloop f Do l m done false = Some (m1, rev l ++ done, false) -> lsteps (leaves_list l) m m1.
Proof.
  induction l as [|c l IHl]; intros m done m1 Hwf H; cbn [eloop leaves_list] in *.
  - inversion H; subst. reflexivity.
  - destruct (exec f Do c m) as [[[m' c'] i]|] eqn:Ec; [|discriminate]. cbn [orb] in H.
    pose proof (eloop_flag _ _ _ _ _ _ _ _ H) as ->.
    assert (Hc : c' = c).
    { pose proof (eloop_shape _ _ _ _ _ _ _ _ _ H) as (pre & Heq & Hlen).
      cbn [rev] in Heq. rewrite <- app_assoc in Heq. cbn [app] in Heq.
      apply app_inj_1 in Heq; [|rewrite rev_length; symmetry; exact Hlen].
      destruct Heq as [_ Heq]. inversion Heq. reflexivity. }
    subst c'. apply lsteps_app. exists m'. split; [apply IH; assumption|].
    destruct (exec_inverse f _ _ _ _ _ Hwf Ec) as (Hwf' & _).
    apply (IHl m' (c :: done)); [exact Hwf'|]. cbn [rev] in H. rewrite <- app_assoc in H. exact H.
Qed.

Theorem flatten f : FLAT f.
Proof.
  induction f as [|f IH]; intros c m m1 Hwf H; [discriminate|].
  destruct c as [p new old|p q b|p b|p b|t cs].
  1-4: rewrite exec_leaf in H by exact I; cbn [leaves lsteps];
       destruct (pleaf_recorded _ _ _ _ _ _ H I) as [Hr|Hr]; [|discriminate];
       destruct (pleaf_pre_act _ _ _ _ _ Hwf Hr H) as (Hpre & -> & _); auto.
  rewrite exec_CS in H. cbn [order] in H.
  destruct (eloop f Do cs m [] false) as [[[m' done] ir]|] eqn:El; [|discriminate].
  assert (Hcs : rev done = cs /\ m' = m1 /\ ir = false) by (inversion H; auto).
  destruct Hcs as (Hcs & -> & ->). clear H. rewrite leaves_CS.
  apply (eloop_flat f IH cs m [] m1 Hwf). rewrite app_nil_r.
  assert (Hd : rev cs = done) by (rewrite <- Hcs; apply rev_involutive). rewrite Hd. exact El.
Qed.

(* the other way round: fuel that sufficed once for c suffices again *)
Definition UNFLAT (f : nat) : Prop :=
  forall c m0 r0 m m1, exec f Do c m0 = Some r0 -> wf_fs m -> lsteps (leaves c) m m1 ->
    exec f Do c m = Some (m1, c, false).

Lemma eloop_unflat f (IH : UNFLAT f) l : forall m0 done0 ir0 r0 m done m1,
  eloop f Do l m0 done0 ir0 = Some r0 -> wf_fs m -> lsteps (leaves_list l) m m1 ->
  eloop f Do l m done false = Some (m1, rev l ++ done, false).
Proof.
  induction l as [|c l IHl]; intros m0 done0 ir0 r0 m done m1 H0 Hwf H; cbn [eloop leaves_list] in *.
  - cbn [lsteps] in H. subst. reflexivity.
  - destruct (exec f Do c m0) as [[[m0' c0'] i0]|] eqn:Ec0; [|discriminate].
    apply lsteps_app in H. destruct H as (mid & H1 & H2).
    rewrite (IH c m0 _ m mid Ec0 Hwf H1). cbn [orb].
    rewrite (IHl _ _ _ _ mid (c :: done) m1 H0 (lsteps_wf _ _ _ Hwf H1) H2).
    cbn [rev]. rewrite <- app_assoc. reflexivity.
Qed.

Theorem unflatten f : UNFLAT f.
Proof.
  induction f as [|f IH]; intros c m0 r0 m m1 H0 Hwf H; [discriminate|].
  destruct c as [p new old|p q b|p b|p b|t cs].
  1-4: rewrite exec_leaf by exact I; cbn [leaves lsteps] in H; destruct H as (Hr & Hp & <-);
       apply act_pre_pleaf; assumption.
  rewrite exec_CS in *. cbn [order] in *. rewrite leaves_CS in H.
  destruct (eloop f Do cs m0 [] false) as [r|] eqn:El0; [|discriminate].
  rewrite (eloop_unflat f IH cs _ _ _ _ m [] m1 El0 Hwf H), app_nil_r, rev_involutive. reflexivity.
Qed.

(* the paths of a leaf are among the paths of the change *)
Lemma roots_leaves_n n : forall c0, depth c0 < n ->
  forall l, In l (leaves c0) -> forall r, In r (roots l) -> In r (roots c0).
Proof.
  induction n as [|n IH]; intros c0 Hd l Hl r Hr; [lia|].
  destruct c0 as [p new old|p q b|p b|p b|t cs]; try (cbn [leaves] in Hl; destruct Hl as [<-|[]]; exact Hr).
  rewrite leaves_CS in Hl. unfold roots. rewrite resources_CS.
  cbn [depth] in Hd. apply Nat.succ_lt_mono in Hd.
  induction cs as [|c1 cs IHcs]; cbn [leaves_list resources_list fold_right] in *; [destruct Hl|].
  rewrite List.map_app. apply in_or_app. apply in_app_or in Hl. destruct Hl as [Hl|Hl].
  - left. assert (Hd1 : depth c1 < n) by lia. exact (IH c1 Hd1 l Hl r Hr).
  - right. apply IHcs; [lia|exact Hl].
Qed.

Lemma roots_leaves c : forall l, In l (leaves c) -> forall r, In r (roots l) -> In r (roots c).
Proof. apply (roots_leaves_n (S (depth c))). lia. Qed.

(* ----------------------------------------------------------------- commuting whole changes *)
Theorem swap_do (f : nat) (e x : change) (a a1 b : fs) :
  wf_fs a -> link f Do e a a1 -> link f Do x a1 b -> apart (roots e) (roots x) ->
  exists a1', link f Do x a a1' /\ link f Do e a1' b.
Proof.
  unfold link. intros Hwf He Hx Hap.
  destruct (exec_inverse f _ _ _ _ _ Hwf He) as (Hwf1 & _).
  pose proof (flatten f _ _ _ Hwf He) as Le. pose proof (flatten f _ _ _ Hwf1 Hx) as Lx.
  assert (L : lsteps (leaves e ++ leaves x) a b) by (apply lsteps_app; eauto).
  apply lsteps_swap in L.
  - apply lsteps_app in L. destruct L as (mid & L1 & L2). exists mid.
    pose proof (unflatten f _ _ _ _ _ Hx Hwf L1) as E1. split; [exact E1|].
    apply (unflatten f _ _ _ _ _ He (lsteps_wf _ _ _ Hwf L1) L2).
  - intros le Hle lx Hlx p q Hp Hq. apply Hap; eapply roots_leaves; eauto.
Qed.

Theorem swap_any (f : nat) (d : dir) (e x : change) (a a1 b : fs) :
  wf_fs a -> link f d e a a1 -> link f d x a1 b -> apart (roots e) (roots x) ->
  exists a1', link f d x a a1' /\ link f d e a1' b.
Proof.
  destruct d; [apply swap_do|].
  unfold link. intros Hwf He Hx Hap.
  destruct (exec_inverse f _ _ _ _ _ Hwf He) as (Hwf1 & Ie).
  destruct (exec_inverse f _ _ _ _ _ Hwf1 Hx) as (Hwfb & Ix). cbn [opp] in *.
  destruct (swap_do f x e b a1 a Hwfb Ix Ie (apart_sym _ _ Hap)) as (mid & J1 & J2). unfold link in *.
  destruct (exec_inverse f _ _ _ _ _ Hwfb J1) as (Hwfm & K1).
  destruct (exec_inverse f _ _ _ _ _ Hwfm J2) as (_ & K2). cbn [opp] in *.
  exists mid. auto.
Qed.
