(* Correspondence runner for C11.  One case = one session on a real rope project: the initial tree, the
   history limit, the ignored paths, and a list of operations (History.do of a built change, undo /
   redo of the last or of a chosen listed change, drop) with, for EVERY operation, what was observed
   after it: exception chain, tree snapshot, undo list and redo list (abstracted changes with captured
   old contents; the ChangeSet description number is the identity tag), and the dependency list the
   call returned (positions in the list before the call, in the order returned).
   The model runs the whole session from the initial state on its own; the comparison happens here. *)
From stdpp Require Import gmap list.
From Coq Require Import NArith.
From RopeVerif.Lib Require Import Text.
From RopeVerif.C10 Require Import FsModel Change Runner.
From RopeVerif.C11 Require Import History.

Record ostep := {
  t_reopen : bool;                 (* the step is: close the project (save_history on) and open it again *)
  t_setlim : option nat;           (* Some n: the step is "prefs max_history_items := n" (t_op is not looked at) *)
  t_stop : option nat;             (* Some j: TaskHandle.stop() is called during the j-th observer notification *)
  t_op : op;
  o_raised : bool;
  o_err : list N;                  (* exception chain, class codes of C10.Runner; 50 = ValueError *)
  o_tree : list (list N * node);
  o_undo : list change;
  o_redo : list change;
  o_deps : list nat;               (* returned changes as positions in the list before the call *)
  o_irrev : option bool            (* successful operation: the harness's own reversibility verdict on its primitives *)
}.

Record case := {
  c_tree : list (list N * node);
  c_limit : nat;
  c_spell : list (N * list N);     (* spelling of the interned path segments *)
  c_pats : list (list N);          (* prefs["ignored_resources"] *)
  c_paths : list (list N);         (* the resource paths the session's changes touch ... *)
  c_ign : list (list N);           (* ... and those of them Project.is_ignored answered True for *)
  c_steps : list ostep
}.

Definition fuel : nat := 12.

Definition bit (b : bool) (w : N) : N := if b then w else 0%N.

Fixpoint nats_eqb (a b : list nat) : bool :=
  match a, b with
  | [], [] => true
  | x :: r, y :: r' => Nat.eqb x y && nats_eqb r r'
  | _, _ => false
  end.

(* mismatch bits of one step: 1 raised / exception chain, 2 tree, 4 undo list, 8 redo list,
   16 returned dependency list, 32 reversibility verdict of a successful do *)
Definition cmp1 (r : sres) (o : ostep) : N :=
  let '(raised, chain, deps) :=
    match r with
    | SOk _ _ deps => (false, [], rev deps)
    | SErr _ _ x => (true, squash (eflat x), [])
    | SNotListed _ _ => (true, [50%N], [])
    end in
  let s' := sres_state r in
  (bit (negb (Bool.eqb raised (o_raised o) && text_eqb chain (squash (o_err o)))) 1
   + bit (negb (tree_eqb (h_fs s') (o_tree o))) 2
   + bit (negb (changes_eqb (h_undo s') (o_undo o))) 4
   + bit (negb (changes_eqb (h_redo s') (o_redo o))) 8
   + bit (negb (nats_eqb deps (o_deps o))) 16
   + bit (match o_irrev o, r with
          | Some b, SOk _ k' _ => negb (Bool.eqb b (irrev k'))
          | _, _ => false
          end) 32)%N.

(* 0 = the model agrees with the observation at every step; otherwise 64 * (1 + index of the first
   disagreeing step) + its mismatch bits; 2^20 + 64 * (1 + index) = at that step the model declares the
   behaviour outside itself (shutil.move's copytree fallback for a folder moved below a missing parent):
   the comparison of the session ends there *)
(* what C11_reopen says comes back from History.write + _load_history *)
Definition reopened (s : hist) : hist := Hist (h_fs s) (trim (h_limit s) (h_undo s)) (h_redo s) (h_limit s).

Fixpoint walk (bp : bool) (v : variant) (ign : list N -> bool) (i : N) (l : list ostep) (s : hist) : N :=
  match l with
  | [] => 0%N
  | o :: rest =>
      let r := if t_reopen o then SOk (reopened s) quiet [] else
               match t_setlim o with
               | Some n => SOk (set_limit n s) quiet []
               | None => hstep bp v fuel ign (t_op o) s (Sched None (t_stop o) false false)
               end in
      let w := cmp1 r o in
      if match r with SErr _ _ x => artefact x | _ => false end
      then (1048576 + 64 * (i + 1))%N       (* the model declares the behaviour outside itself (C10: Unmodelled / fuel) *)
      else if N.eqb w 0 then walk bp v ign (i + 1)%N rest (sres_state r)
      else (64 * (i + 1) + w)%N
  end.

Definition init (c : case) : hist := Hist (list_to_map (c_tree c)) [] [] (c_limit c).

(* the model's Project.is_ignored *)
Definition ign_of (c : case) : list N -> bool := ignored_by (c_spell c) (c_pats c).

Definition ign_agrees (c : case) : bool :=
  forallb (fun p => Bool.eqb (ign_of c p) (existsb (text_eqb p) (c_ign c))) (c_paths c).

(* 1 = the model's is_ignored differs from the code's on some resource of the session *)
Definition report1 (bp : bool) (v : variant) (c : case) : N :=
  if ign_agrees c then walk bp v (ign_of c) 0%N (c_steps c) (init c) else 1%N.
Definition report (bp : bool) (v : variant) (cs : list case) : list N := map (report1 bp v) cs.

(* ------------------------------------------------------------------------ theorem domains *)
Definition is_sel (o : op) : bool :=
  match o with OUndo (Some _) _ => true | ORedo (Some _) => true | _ => false end.

Definition listed (o : op) (s : hist) : bool :=
  match o with
  | OUndo (Some i) _ => Nat.ltb i (length (h_undo s))
  | ORedo (Some i) => Nat.ltb i (length (h_redo s))
  | OUndo None _ => negb (Nat.eqb (length (h_undo s)) 0)
  | ORedo None => negb (Nat.eqb (length (h_redo s)) 0)
  | ODo _ => true
  end.

Definition base_of (s : hist) : option fs := ladderb fuel Undo (rev (h_undo s)) (h_fs s).

Definition fs_eqb (a b : fs) : bool :=
  Nat.eqb (length (map_to_list a)) (length (map_to_list b))
  && forallb (fun kv => match b !! fst kv with Some n => node_eqb n (snd kv) | None => false end)
             (map_to_list a).

(* per step: 1 = the state before is Consistent (boolean form) and the resource classes of both lists
   are coherent (domain of C11_inv / C11_selective_undo); 2 = and the operation is a selective
   undo/redo of a listed change; 4 = in that domain the model's step does NOT end in a Consistent state
   with the same base tree (would contradict the theorems: never expected; after drop=True only the
   undo half of Consistent is claimed);
   8 = the step is a successful History.do whose forward phase was exactly reversible;
   16 = the state before is Consistent and the step is well-behaved (step_wb): then (bit 4) the state after
   must be Consistent again (C11_well_behaved_step) *)
Definition dom1 (bp : bool) (v : variant) (ign : list N -> bool) (o : op) (s : hist) : N * hist :=
  let r := hstep bp v fuel ign o s quiet in
  let s' := sres_state r in
  let wb := consistentb fuel s && step_wb fuel ign o s in
  let indom := consistentb fuel s
               && (bp || class_ok (resources_list (h_undo s) ++ resources_list (h_redo s))) in
  let sel := indom && is_sel o && listed o s in
  let bad :=
    if sel then
      negb (match r with SOk _ _ _ => true | _ => false end
            && consistentUb fuel s'
            && match o with OUndo _ true => true | _ => consistentRb fuel s' end
            && match base_of s, base_of s' with Some a, Some b => fs_eqb a b | _, _ => false end)
    else false in
  let dook := match o, r with ODo _, SOk _ k' _ => negb (irrev k') | _, _ => false end in
  let bad := bad || (wb && negb (consistentb fuel s')) in
  ((bit indom 1 + bit sel 2 + bit bad 4 + bit dook 8 + bit wb 16)%N, s').

Fixpoint dom_walk (bp : bool) (v : variant) (ign : list N -> bool) (l : list ostep) (s : hist) : list N :=
  match l with
  | [] => []
  | o :: rest =>
      if t_reopen o then dom_walk bp v ign rest (reopened s) else
      match t_setlim o with
      | Some n => dom_walk bp v ign rest (set_limit n s)
      | None =>
          match t_stop o with
          | Some _ => dom_walk bp v ign rest
                        (sres_state (hstep bp v fuel ign (t_op o) s (Sched None (t_stop o) false false)))
          | None => let '(w, s') := dom1 bp v ign (t_op o) s in w :: dom_walk bp v ign rest s'
          end
      end
  end.

(* per case: [number of steps in the domain; number of selective steps in the domain; contradictions;
   reversible successful do steps; well-behaved steps from a Consistent state] *)
Definition stats1 (bp : bool) (v : variant) (c : case) : list N :=
  let ws := dom_walk bp v (ign_of c) (c_steps c) (init c) in
  let cnt (b : N) := N.of_nat (length (filter (fun w => N.testbit w b) ws)) in
  [cnt 0%N; cnt 1%N; cnt 2%N; cnt 3%N; cnt 4%N].

Definition sum4 (a b : list N) : list N :=
  match a, b with
  | [a0; a1; a2; a3; a4], [b0; b1; b2; b3; b4] => [a0 + b0; a1 + b1; a2 + b2; a3 + b3; a4 + b4]%N
  | _, _ => a
  end.

Definition stats (bp : bool) (v : variant) (cs : list case) : list N :=
  fold_right (fun c acc => sum4 (stats1 bp v c) acc) [0; 0; 0; 0; 0]%N cs.
