(* Proofs about the model of coq/C06/Args.v. *)
From Coq Require Import List NArith Bool Arith Lia Permutation.
From RopeVerif.C06 Require Import Args.
Import ListNotations.

(* ------------------------------------------------------------------------------------------------ *)
(* basics                                                                                            *)
Lemma has_name_In n l : has_name n l = true <-> In n l.
Proof.
  unfold has_name. rewrite existsb_exists. split.
  - intros [x [Hx He]]. apply N.eqb_eq in He. subst. exact Hx.
  - intros H. exists n. split; [exact H|apply N.eqb_refl].
Qed.

Lemma has_name_false n l : has_name n l = false <-> ~ In n l.
Proof.
  rewrite <- has_name_In. destruct (has_name n l); split; intros; try congruence.
Qed.

Lemma nodup_names_NoDup l : nodup_names l = true <-> NoDup l.
Proof.
  induction l as [|x l IH]; cbn [nodup_names].
  - split; [constructor|reflexivity].
  - rewrite andb_true_iff, negb_true_iff, has_name_false, IH. split.
    + intros [H1 H2]. constructor; assumption.
    + intros H. inversion H; subst. split; assumption.
Qed.

Lemma NoDup_app_one {A} (l : list A) x : NoDup l -> ~ In x l -> NoDup (l ++ [x]).
Proof.
  induction l as [|y l IH]; cbn [app]; intros ND Hx.
  - constructor; [intros []|constructor].
  - inversion ND; subst. constructor.
    + rewrite in_app_iff. intros [H|[H|[]]]; [contradiction|]. subst. apply Hx. left. reflexivity.
    + apply IH; [assumption|]. intros H. apply Hx. right. exact H.
Qed.

Lemma pd_get_set_eq k v pd : pd_get k (pd_set k v pd) = Some v.
Proof. unfold pd_set. cbn [pd_get]. rewrite N.eqb_refl. reflexivity. Qed.

Lemma pd_get_set_neq k k' v pd : k <> k' -> pd_get k' (pd_set k v pd) = pd_get k' pd.
Proof. intros H. unfold pd_set. cbn [pd_get]. apply N.eqb_neq in H. rewrite H. reflexivity. Qed.

Lemma pd_get_del_eq k pd : pd_get k (pd_del k pd) = None.
Proof.
  induction pd as [|[k0 v] pd IH]; cbn [pd_del pd_get]; [reflexivity|].
  destruct (N.eqb_spec k0 k); [exact IH|]. cbn [pd_get]. apply N.eqb_neq in n. rewrite n. exact IH.
Qed.

Lemma pd_get_del_neq k k' pd : k <> k' -> pd_get k' (pd_del k pd) = pd_get k' pd.
Proof.
  intros H. induction pd as [|[k0 v] pd IH]; cbn [pd_del pd_get]; [reflexivity|].
  destruct (N.eqb_spec k0 k).
  - subst. apply N.eqb_neq in H. rewrite H. exact IH.
  - cbn [pd_get]. destruct (N.eqb k0 k'); [reflexivity|exact IH].
Qed.

Lemma delete_nth_others {B} : forall (l : list (N * B)) i n x, NoDup (map fst l) -> nth_error l i = Some (n, x) ->
  forall e, In e (delete_nth i l) -> fst e <> n.
Proof.
  induction l as [|y l IH]; intros [|i] n x ND H e He; cbn [nth_error delete_nth] in *; try discriminate.
  - inversion H; subst. cbn [map fst] in ND. inversion ND; subst. intros Heq. apply H2. rewrite <- Heq. apply in_map. exact He.
  - cbn [map] in ND. inversion ND; subst. destruct He as [He|He].
    + subst. intros Heq. apply H2. rewrite Heq. change n with (fst (n, x)). apply in_map. eapply nth_error_In. exact H.
    + eapply IH; eauto.
Qed.

Lemma pd_get_In_fst k v l : pd_get k l = Some v -> In k (map fst l).
Proof.
  induction l as [|[k0 v0] l IH]; cbn [pd_get map fst]; [discriminate|].
  destruct (N.eqb_spec k0 k); intros H.
  - left. assumption.
  - right. apply IH. exact H.
Qed.

Lemma pd_get_notin k l : ~ In k (map fst l) -> pd_get k l = None.
Proof.
  intros H. destruct (pd_get k l) eqn:E; [|reflexivity]. exfalso. apply H. eapply pd_get_In_fst. exact E.
Qed.

(* the value a parameter effectively receives: the bound one, else the default *)
Definition eff (dflt : option N) (bound : option N) : option N :=
  match bound with Some v => Some v | None => dflt end.

(* ------------------------------------------------------------------------------------------------ *)
(* slots (specification side) versus param_dict (implementation side)                                *)
Fixpoint sget (n : N) (slots : list (N * option N)) : option N :=
  match slots with
  | [] => None
  | (m, b) :: r => if N.eqb m n then b else sget n r
  end.

Lemma sget_notin n slots : ~ In n (map fst slots) -> sget n slots = None.
Proof.
  induction slots as [|[m b] r IH]; cbn [sget map fst]; [reflexivity|].
  intros H. destruct (N.eqb_spec m n); [exfalso; apply H; left; assumption|].
  apply IH. intros H1. apply H. right. exact H1.
Qed.

Lemma bind_pos_names ps args : map fst (fst (bind_pos ps args)) = map fst ps.
Proof.
  revert args. induction ps as [|[n d] ps IH]; intros args; cbn [bind_pos]; [reflexivity|].
  destruct args as [|v args'].
  - specialize (IH []). destruct (bind_pos ps []) as [s r]. cbn [fst map] in *. f_equal. exact IH.
  - specialize (IH args'). destruct (bind_pos ps args') as [s r]. cbn [fst map] in *. f_equal. exact IH.
Qed.

Lemma bind_pos_nil ps n : sget n (fst (bind_pos ps [])) = None /\ snd (bind_pos ps []) = [].
Proof.
  induction ps as [|[m d] ps IH]; cbn [bind_pos]; [split; reflexivity|].
  destruct (bind_pos ps []) as [s r]. cbn [fst snd sget] in *. destruct IH as [IH1 IH2].
  split; [|exact IH2]. destruct (N.eqb m n); [reflexivity|exact IH1].
Qed.

(* positional phase *)
Lemma pos_phase ps : NoDup (map fst ps) ->
  forall args pd,
    snd (map_pos ps args pd) = snd (bind_pos ps args)
    /\ forall n, pd_get n (fst (map_pos ps args pd))
                 = match sget n (fst (bind_pos ps args)) with Some v => Some v | None => pd_get n pd end.
Proof.
  induction ps as [|[m d] ps IH]; intros ND args pd.
  - destruct args; cbn; split; auto.
  - inversion ND as [|? ? Hm ND']; subst. destruct args as [|v args'].
    + cbn [map_pos fst snd]. pose proof (bind_pos_nil ((m, d) :: ps)) as Hn.
      split; [symmetry; apply (Hn 0%N)|]. intros n. destruct (Hn n) as [Hn1 _]. rewrite Hn1. reflexivity.
    + cbn [map_pos bind_pos]. specialize (IH ND' args' (pd_set m v pd)). destruct IH as [IH1 IH2].
      pose proof (bind_pos_names ps args') as Hnm.
      destruct (bind_pos ps args') as [s r]. cbn [fst snd] in *. split; [exact IH1|].
      intros n. rewrite IH2. cbn [sget]. destruct (N.eqb_spec m n).
      * subst. rewrite sget_notin; [apply pd_get_set_eq|]. rewrite Hnm. exact Hm.
      * destruct (sget n s); [reflexivity|]. apply pd_get_set_neq. exact n0.
Qed.

Lemma slot_set_sget n v slots s' :
  slot_set n v slots = Some s' ->
  (forall k, sget k s' = if N.eqb n k then Some v else sget k slots) /\ map fst s' = map fst slots.
Proof.
  revert s'. induction slots as [|[m b] r IH]; intros s'; cbn [slot_set]; [discriminate|].
  destruct (N.eqb_spec m n).
  - subst. destruct b; [discriminate|]. intros H. inversion H; subst. split; [|reflexivity].
    intros k. cbn [sget]. destruct (N.eqb n k); reflexivity.
  - destruct (slot_set n v r) as [r'|] eqn:E; [|discriminate]. intros H. inversion H; subst.
    destruct (IH r' eq_refl) as [IH1 IH2]. split; [|cbn [map fst]; f_equal; exact IH2].
    intros k. cbn [sget]. destruct (N.eqb_spec m k).
    + subst. destruct (N.eqb_spec n k); [congruence|reflexivity].
    + apply IH1.
Qed.

Lemma has_param_names ps n : has_param ps n = has_name n (map fst ps).
Proof. reflexivity. Qed.

(* keyword phase *)
Lemma kw_phase hk ps : forall kws slots pd extra slots' extra',
  map fst slots = map fst ps ->
  (forall n, pd_get n pd = sget n slots) ->
  bind_kws hk kws slots extra = Some (slots', extra') ->
  (forall n, pd_get n (fst (map_kws ps kws pd extra)) = sget n slots')
  /\ snd (map_kws ps kws pd extra) = extra' /\ map fst slots' = map fst ps.
Proof.
  induction kws as [|[n v] kws IH]; intros slots pd extra slots' extra' Hn HR; cbn [bind_kws map_kws].
  - intros H. inversion H; subst. cbn [fst snd]. auto.
  - replace (has_param ps n) with (has_name n (map fst slots)) by (rewrite has_param_names, Hn; reflexivity).
    destruct (has_name n (map fst slots)) eqn:Eh.
    + destruct (slot_set n v slots) as [s1|] eqn:Es; [|discriminate]. intros H.
      destruct (slot_set_sget _ _ _ _ Es) as [Hs1 Hs2].
      eapply IH; [| |exact H].
      * rewrite Hs2. exact Hn.
      * intros k. rewrite Hs1. destruct (N.eqb_spec n k).
        -- subst. apply pd_get_set_eq.
        -- rewrite pd_get_set_neq by assumption. apply HR.
    + destruct (hk && negb (has_name n (map fst extra))); [|discriminate]. intros H.
      eapply IH; [exact Hn|exact HR|exact H].
Qed.

Lemma kw_phase_extra hk : forall kws slots extra slots' extra',
  bind_kws hk kws slots extra = Some (slots', extra') ->
  (Forall (fun kv => ~ In (fst kv) (map fst slots)) extra -> Forall (fun kv => ~ In (fst kv) (map fst slots)) extra')
  /\ (NoDup (map fst extra) -> NoDup (map fst extra'))
  /\ (hk = false -> extra' = extra).
Proof.
  induction kws as [|[n v] kws IH]; intros slots extra slots' extra'; cbn [bind_kws].
  - intros H. inversion H; subst. auto.
  - destruct (has_name n (map fst slots)) eqn:Eh.
    + destruct (slot_set n v slots) as [s1|] eqn:Es; [|discriminate]. intros H.
      destruct (slot_set_sget _ _ _ _ Es) as [_ Hs2]. specialize (IH _ _ _ _ H). rewrite Hs2 in IH. exact IH.
    + destruct hk; cbn [andb]; [|discriminate].
      destruct (has_name n (map fst extra)) eqn:Ee; cbn [negb]; [discriminate|]. intros H.
      specialize (IH _ _ _ _ H). destruct IH as [I1 [I2 I3]]. split; [|split].
      * intros HF. apply I1. apply Forall_app. split; [exact HF|]. constructor; [|constructor].
        cbn [fst]. apply has_name_false. exact Eh.
      * intros ND. apply I2. rewrite map_app. cbn [map fst].
        apply NoDup_app_one. exact ND. apply has_name_false. exact Ee.
      * discriminate.
Qed.

Lemma NoDup_app_l {A} (l l' : list A) : NoDup (l ++ l') -> NoDup l.
Proof.
  induction l as [|x l IH]; cbn [app]; intros H; [constructor|].
  inversion H; subst. constructor.
  - intros Hx. apply H2. apply in_or_app. left. exact Hx.
  - apply IH. assumption.
Qed.

Lemma valid_def_NoDup d : valid_def d = true -> NoDup (names d).
Proof.
  unfold valid_def. rewrite andb_true_iff. intros [H _]. apply nodup_names_NoDup in H.
  eapply NoDup_app_l. exact H.
Qed.

Lemma fill_lookup : forall ps slots bp,
  NoDup (map fst ps) -> map fst slots = map fst ps ->
  fill_defaults ps slots = Some bp ->
  map fst bp = map fst ps
  /\ forall n dflt, In (n, dflt) ps -> pd_get n bp = eff dflt (sget n slots) /\ pd_get n bp <> None.
Proof.
  induction ps as [|[n dflt] ps IH]; intros slots bp ND Hn; destruct slots as [|[m b] s']; cbn [fill_defaults];
    try discriminate.
  - intros H. inversion H; subst. split; [reflexivity|]. intros ? ? [].
  - cbn [map fst] in Hn. injection Hn as Hmn Hn'. subst m. cbn [map fst] in ND. inversion ND as [|? ? Hm ND']; subst.
    destruct (match b with Some v => Some v | None => dflt end) as [v|] eqn:Ev; [|discriminate].
    destruct (fill_defaults ps s') as [r|] eqn:Er; [|discriminate].
    intros H. inversion H; subst. destruct (IH _ _ ND' Hn' Er) as [IH1 IH2].
    split; [cbn [map fst]; f_equal; exact IH1|].
    intros k dk [Hk|Hk].
    + inversion Hk; subst. cbn [pd_get sget]. rewrite N.eqb_refl. unfold eff. rewrite Ev. split; congruence.
    + assert (n <> k) as Hne.
      { intros ->. apply Hm. change k with (fst (k, dk)). apply in_map. exact Hk. }
      cbn [pd_get sget]. apply N.eqb_neq in Hne. rewrite Hne. apply IH2. exact Hk.
Qed.

Lemma init_spec d c b :
  bind_args d (c_args c) (c_kws c) = Some b ->
  NoDup (names d)
  /\ (forall n dflt, In (n, dflt) (d_args d) ->
        eff dflt (pd_get n (m_pd (mapping_init d c))) = lookup n b /\ lookup n b <> None)
  /\ m_surplus (mapping_init d c) = b_star b /\ m_kwargs (mapping_init d c) = b_kw b
  /\ Forall (fun kv => ~ In (fst kv) (names d)) (b_kw b) /\ NoDup (map fst (b_kw b))
  /\ (b_kw b <> [] -> d_kw d <> None) /\ (b_star b <> [] -> d_star d <> None)
  /\ map fst (b_params b) = names d.
Proof.
  unfold bind_args, mapping_init. destruct (valid_def d) eqn:Ev; cbn [negb]; [|discriminate].
  pose proof (valid_def_NoDup _ Ev) as ND. unfold names in ND.
  destruct (pos_phase (d_args d) ND (c_args c) []) as [Hp1 Hp2].
  pose proof (bind_pos_names (d_args d) (c_args c)) as Hnm.
  destruct (bind_pos (d_args d) (c_args c)) as [slots surplus].
  destruct (map_pos (d_args d) (c_args c) []) as [pd1 sur]. cbn [fst snd] in *. subst sur.
  intros H.
  assert (exists slots' extra bp, bind_kws (is_some (d_kw d)) (c_kws c) slots [] = Some (slots', extra)
            /\ fill_defaults (d_args d) slots' = Some bp /\ b = mkBind bp surplus extra
            /\ (surplus <> [] -> d_star d <> None)) as [slots' [extra [bp [Hk [Hf [Hb Hs]]]]]].
  { destruct surplus as [|x sr].
    - destruct (bind_kws (is_some (d_kw d)) (c_kws c) slots []) as [[s' e]|] eqn:Ek; [|discriminate].
      destruct (fill_defaults (d_args d) s') as [bp|] eqn:Ef; [|discriminate].
      inversion H; subst. exists s', e, bp. repeat split; try reflexivity; try assumption; congruence.
    - destruct (d_star d) as [st|]; [|discriminate].
      destruct (bind_kws (is_some (d_kw d)) (c_kws c) slots []) as [[s' e]|] eqn:Ek; [|discriminate].
      destruct (fill_defaults (d_args d) s') as [bp|] eqn:Ef; [|discriminate].
      inversion H; subst. exists s', e, bp. repeat split; try reflexivity; try assumption; congruence. }
  clear H. subst b. cbn [b_params b_star b_kw lookup].
  assert (forall n, pd_get n pd1 = sget n slots) as HR.
  { intros n. rewrite Hp2. cbn [pd_get]. destruct (sget n slots); reflexivity. }
  destruct (kw_phase _ (d_args d) _ _ _ _ _ _ Hnm HR Hk) as [K1 [K2 K3]].
  destruct (kw_phase_extra _ _ _ _ _ _ Hk) as [E1 [E2 E3]].
  destruct (map_kws (d_args d) (c_kws c) pd1 []) as [pd2 kwargs]. cbn [fst snd m_pd m_kwargs m_surplus] in *. subst kwargs.
  destruct (fill_lookup _ _ _ ND K3 Hf) as [F1 F2].
  split; [exact ND|]. split.
  { intros n dflt Hin. destruct (F2 _ _ Hin) as [F3 F4]. unfold lookup. cbn [b_params].
    rewrite K1. split; [symmetry; exact F3|exact F4]. }
  split; [reflexivity|]. split; [reflexivity|]. split.
  { unfold names. rewrite <- Hnm. apply E1. constructor. }
  split; [apply E2; constructor|]. split.
  { intros Hne Hkw. apply Hne. apply E3. rewrite Hkw. reflexivity. }
  split; [exact Hs|exact F1].
Qed.

(* ------------------------------------------------------------------------------------------------ *)
(* list surgery preserves Forall                                                                     *)
Lemma Forall_delete_nth {A} (Q : A -> Prop) i l : Forall Q l -> Forall Q (delete_nth i l).
Proof.
  revert i. induction l as [|x l IH]; intros i H; [destruct i; constructor|].
  inversion H; subst. destruct i; cbn [delete_nth]; [assumption|]. constructor; [assumption|apply IH; assumption].
Qed.

Lemma Forall_insert_nth {A} (Q : A -> Prop) i x l : Forall Q l -> Q x -> Forall Q (insert_nth i x l).
Proof.
  revert l. induction i as [|i IH]; intros l H Hx; cbn [insert_nth].
  - constructor; assumption.
  - destruct l as [|y r]; [constructor; [assumption|constructor]|].
    inversion H; subst. constructor; [assumption|apply IH; assumption].
Qed.

Lemma Forall_set_nth {A} (Q : A -> Prop) i x l l' :
  set_nth i x l = Some l' -> Forall Q l -> Q x -> Forall Q l'.
Proof.
  revert i l'. induction l as [|y r IH]; intros [|j] l'; cbn [set_nth]; try discriminate.
  - intros H HF Hx. inversion H; subst. inversion HF; subst. constructor; assumption.
  - destruct (set_nth j x r) as [r'|] eqn:E; [|discriminate]. intros H HF Hx. inversion H; subst.
    inversion HF; subst. constructor; [assumption|]. eapply IH; eauto.
Qed.

Lemma reorder_loop_Forall (Q : N * option N -> Prop) old : Forall Q old ->
  forall order k acc na, reorder_loop old order k acc = Some na -> Forall Q acc -> Forall Q na.
Proof.
  intros Hold. induction order as [|i order IH]; intros k acc na; cbn [reorder_loop].
  - intros H. inversion H; subst. auto.
  - destruct (nth_error old i) as [p|] eqn:En; [|discriminate].
    destruct (set_nth k p acc) as [acc'|] eqn:Es; [|discriminate].
    intros H HF. eapply IH; [exact H|]. eapply Forall_set_nth; [exact Es|exact HF|].
    rewrite Forall_forall in Hold. apply Hold. eapply nth_error_In. exact En.
Qed.

(* ------------------------------------------------------------------------------------------------ *)
(* everything below holds for both variants of ArgumentRemover.change_argument_mapping               *)
Section Variant.
Variable rdel : bool.
Variable kwfix : bool.
Local Notation call_read := (Args.call_read kwfix).
Local Notation change_site := (Args.change_site kwfix rdel).
Local Notation change_map := (Args.change_map rdel).
Local Notation apply_maps := (Args.apply_maps rdel).
Local Notation change_call := (Args.change_call rdel).
Local Notation side_ok := (Args.side_ok rdel).

Section Step.
  Variable R : list (N * N) -> N * option N -> Prop.
  Hypothesis R_other : forall pd n v e, fst e <> n -> R pd e -> R (pd_set n v pd) e.
  Hypothesis R_inline : forall pd n e d', R pd (n, Some e) -> pd_get n pd = None -> R (pd_set n e pd) (n, d').
  Hypothesis R_bound : forall pd n d d', pd_get n pd <> None -> R pd (n, d) -> R pd (n, d').
  Hypothesis R_autodef : forall pd n a, R pd (n, None) -> R pd (n, Some a).
  Hypothesis R_del : forall pd n e, fst e <> n -> R pd e -> R (pd_del n pd) e.
  Variable add_ok : changer -> Prop.
  Hypothesis R_add : forall pd i n dflt val, add_ok (Add i n dflt val) ->
    R (match val with Some v => pd_set n v pd | None => pd end) (n, dflt).

  Lemma autodef_pass_Forall pd a : forall l seen, Forall (R pd) l -> Forall (R pd) (autodef_pass a seen l).
  Proof.
    induction l as [|[n dflt] l IH]; intros seen H; cbn [autodef_pass]; [constructor|].
    inversion H; subst. constructor; [|apply IH; assumption].
    destruct dflt as [e|]; [assumption|]. destruct a as [x|]; [|assumption].
    destruct seen; [|assumption]. apply R_autodef. assumption.
  Qed.

  Lemma step_inv ch d d1 m m1 :
    change_def ch d = Some d1 -> change_map ch d m = Some m1 -> add_ok ch ->
    (rdel = true -> NoDup (map fst (d_args d))) ->
    Forall (R (m_pd m)) (d_args d) ->
    Forall (R (m_pd m1)) (d_args d1) /\ m_kwargs m1 = m_kwargs m /\ m_surplus m1 = m_surplus m.
  Proof.
    intros H1 H2 Hok Hnd. revert H1 H2 Hok.
    destruct ch as [|i|i n dflt val|i rm|order autodef]; cbn [change_def Args.change_map].
    - intros H1 H2 _ HF. inversion H1; inversion H2; subst. auto.
    - intros H1 H2 _ HF.
      assert (Forall (R (m_pd m)) (d_args d1)
              /\ (i < length (d_args d) -> d_args d1 = delete_nth i (d_args d))) as [HF1 Hdel].
      { destruct (i <? length (d_args d)) eqn:El.
        { inversion H1; subst. cbn [d_args]. split; [apply Forall_delete_nth; exact HF|reflexivity]. }
        apply Nat.ltb_ge in El.
        destruct ((i =? length (d_args d)) && is_some (d_star d)); [inversion H1; subst; split; [exact HF|lia]|].
        match type of H1 with (if ?b then _ else _) = _ => destruct b end; inversion H1; subst; (split; [exact HF|lia]). }
      destruct rdel; [|inversion H2; subst; auto].
      destruct (nth_error (d_args d) i) as [[n dn]|] eqn:En; [|inversion H2; subst; auto].
      inversion H2; subst. cbn [m_pd m_kwargs m_surplus]. split; [|auto].
      assert (i < length (d_args d)) as Hi by (apply nth_error_Some; congruence).
      rewrite (Hdel Hi) in *. rewrite Forall_forall in *. intros e He. apply R_del; [|apply HF1; exact He].
      eapply delete_nth_others; [apply Hnd; reflexivity|exact En|exact He].
    - destruct (has_param (d_args d) n) eqn:Ehp; [discriminate|]. intros H1 H2 Hok HF.
      inversion H1; subst. cbn [d_args].
      assert (forall e, In e (d_args d) -> fst e <> n) as Hne.
      { intros e He Heq. unfold has_param in Ehp. apply has_name_false in Ehp. apply Ehp.
        rewrite <- Heq. apply in_map. exact He. }
      pose proof (R_add (m_pd m) i n dflt val Hok) as Hnew.
      destruct val as [v|]; inversion H2; subst; cbn [m_pd m_kwargs m_surplus]; (split; [|auto]).
      + apply Forall_insert_nth; [|exact Hnew]. rewrite Forall_forall in *. intros e He.
        apply R_other; [apply Hne; exact He|apply HF; exact He].
      + apply Forall_insert_nth; [exact HF|exact Hnew].
    - intros H1 H2 _ HF. destruct (nth_error (d_args d) i) as [[n dflt]|] eqn:En; [|discriminate].
      pose proof (nth_error_In _ _ En) as Hin.
      assert (Forall (R (m_pd m1)) (d_args d) /\ (dflt = None \/ pd_get n (m_pd m1) <> None)
              /\ m_kwargs m1 = m_kwargs m /\ m_surplus m1 = m_surplus m) as [HF1 [Hc Hks]].
      { destruct dflt as [e|].
        - destruct (pd_get n (m_pd m)) as [v|] eqn:Eg; inversion H2; subst; cbn [m_pd m_kwargs m_surplus].
          + split; [exact HF|]. split; [right; congruence|auto].
          + split.
            * rewrite Forall_forall in *. intros [k dk] He. destruct (N.eq_dec k n) as [->|Hk].
              -- apply R_inline with (e := e); [apply HF; exact Hin|exact Eg].
              -- apply R_other; [cbn [fst]; exact Hk|apply HF; exact He].
            * split; [right; rewrite pd_get_set_eq; discriminate|auto].
        - inversion H2; subst. split; [exact HF|]. split; [left; reflexivity|auto]. }
      split; [|exact Hks]. destruct rm.
      + destruct (set_nth i (n, None) (d_args d)) as [a|] eqn:Es; [|discriminate].
        inversion H1; subst. cbn [d_args]. eapply Forall_set_nth; [exact Es|exact HF1|].
        rewrite Forall_forall in HF1. specialize (HF1 _ Hin).
        destruct Hc as [->|Hb]; [exact HF1|]. eapply R_bound; [exact Hb|exact HF1].
      + inversion H1; subst. exact HF1.
    - intros H1 H2 _ HF. inversion H2; subst. split; [|auto].
      destruct (reorder_loop (d_args d) order 0 (d_args d)) as [na|] eqn:Er; [|discriminate].
      inversion H1; subst. cbn [d_args]. apply autodef_pass_Forall.
      eapply reorder_loop_Forall; [exact HF|exact Er|exact HF].
  Qed.

  Lemma steps_inv : forall cs d d' m m',
    apply_defs cs d = Some d' -> apply_maps cs d m = Some m' -> Forall add_ok cs ->
    (rdel = true -> nodup_steps cs d = true) ->
    Forall (R (m_pd m)) (d_args d) ->
    Forall (R (m_pd m')) (d_args d') /\ m_kwargs m' = m_kwargs m /\ m_surplus m' = m_surplus m.
  Proof.
    induction cs as [|ch cs IH]; intros d d' m m'; cbn [apply_defs Args.apply_maps].
    - intros H1 H2 _ _ HF. inversion H1; inversion H2; subst. auto.
    - destruct (change_def ch d) as [d1|] eqn:Ed; [|discriminate].
      destruct (change_map ch d m) as [m1|] eqn:Em; [|discriminate].
      intros H1 H2 Hok Hnd HF. inversion Hok; subst.
      assert (rdel = true -> NoDup (map fst (d_args d)) /\ nodup_steps cs d1 = true) as Hnd'.
      { intros Hr. specialize (Hnd Hr). cbn [nodup_steps] in Hnd. rewrite Ed in Hnd.
        apply andb_true_iff in Hnd. destruct Hnd as [N1 N2]. split; [apply nodup_names_NoDup; exact N1|exact N2]. }
      destruct (step_inv _ _ _ _ _ Ed Em H3 (fun Hr => proj1 (Hnd' Hr)) HF) as [S1 [S2 S3]].
      destruct (IH _ _ _ _ H1 H2 H4 (fun Hr => proj2 (Hnd' Hr)) S1) as [T1 [T2 T3]].
      split; [exact T1|]. split; congruence.
  Qed.
End Step.

(* ------------------------------------------------------------------------------------------------ *)
(* the two invariants carried through the changer pipeline                                            *)
Definition P (b0 : binding) (names0 : list N) (pd : list (N * N)) (e : N * option N) : Prop :=
  eff (snd e) (pd_get (fst e) pd) <> None
  /\ (In (fst e) names0 -> eff (snd e) (pd_get (fst e) pd) = lookup (fst e) b0).

Definition addP (names0 : list N) (ch : changer) : Prop :=
  match ch with
  | Add _ n dflt val => ~ In n names0 /\ (is_some dflt || is_some val = true)
  | _ => True
  end.

Definition Q (pd : list (N * N)) (e : N * option N) : Prop := pd_get (fst e) pd <> None.

Definition addQ (ch : changer) : Prop :=
  match ch with Add _ _ _ None => False | _ => True end.

Lemma steps_P b0 names0 : forall cs d d' m m',
  apply_defs cs d = Some d' -> apply_maps cs d m = Some m' -> Forall (addP names0) cs ->
  (rdel = true -> nodup_steps cs d = true) ->
  Forall (P b0 names0 (m_pd m)) (d_args d) ->
  Forall (P b0 names0 (m_pd m')) (d_args d') /\ m_kwargs m' = m_kwargs m /\ m_surplus m' = m_surplus m.
Proof.
  intros cs d d' m m' H1 H2 H3 H5 H4.
  refine (steps_inv (P b0 names0) _ _ _ _ _ (addP names0) _ cs d d' m m' H1 H2 H3 H5 H4); unfold P; cbn [fst snd];
    clear cs d d' m m' H1 H2 H3 H4 H5.
  - intros pd n v e Hne H. rewrite pd_get_set_neq by congruence. exact H.
  - intros pd n e d' [H1 H2] Hg. rewrite Hg in *. rewrite pd_get_set_eq. cbn [eff] in *.
    split; [discriminate|exact H2].
  - intros pd n d d' Hb H. destruct (pd_get n pd); [exact H|congruence].
  - intros pd n a [H1 H2]. destruct (pd_get n pd); [split; assumption|]. cbn [eff] in H1. congruence.
  - intros pd n e Hne H. rewrite pd_get_del_neq by congruence. exact H.
  - intros pd i n dflt val [Hn Hv]. split.
    + destruct val as [v|]; [rewrite pd_get_set_eq; discriminate|].
      destruct dflt; [|discriminate]. destruct (pd_get n pd); discriminate.
    + intros Hin. contradiction.
Qed.

Lemma steps_Q : forall cs d d' m m',
  apply_defs cs d = Some d' -> apply_maps cs d m = Some m' -> Forall addQ cs ->
  (rdel = true -> nodup_steps cs d = true) ->
  Forall (Q (m_pd m)) (d_args d) -> Forall (Q (m_pd m')) (d_args d').
Proof.
  intros cs d d' m m' H1 H2 H3 H5 H4.
  refine (proj1 (steps_inv Q _ _ _ _ _ addQ _ cs d d' m m' H1 H2 H3 H5 H4)); unfold Q; cbn [fst snd].
  - intros pd n v e Hne H. rewrite pd_get_set_neq by congruence. exact H.
  - intros pd n e x' _ _. rewrite pd_get_set_eq. discriminate.
  - intros pd n x x' _ H. exact H.
  - intros pd n a H. exact H.
  - intros pd n e Hne H. rewrite pd_get_del_neq by congruence. exact H.
  - intros pd i n dflt val Hok. destruct val as [v|]; [rewrite pd_get_set_eq; discriminate|contradiction].
Qed.

(* where the names of the final definition come from *)
Lemma In_delete_nth {A} (x : A) i l : In x (delete_nth i l) -> In x l.
Proof.
  revert i. induction l as [|y l IH]; intros [|i]; cbn [delete_nth]; intros H; try contradiction.
  - right. exact H.
  - destruct H as [H|H]; [left; exact H|right; eapply IH; exact H].
Qed.

Lemma In_insert_nth {A} (x y : A) i l : In x (insert_nth i y l) -> x = y \/ In x l.
Proof.
  revert l. induction i as [|i IH]; intros l; cbn [insert_nth].
  - intros [H|H]; [left; congruence|right; exact H].
  - destruct l as [|z r]; [intros [H|[]]; left; congruence|].
    intros [H|H]; [right; left; exact H|]. destruct (IH _ H); [left; assumption|right; right; assumption].
Qed.

Lemma autodef_pass_names a : forall l seen, map fst (autodef_pass a seen l) = map fst l.
Proof.
  induction l as [|[n dflt] l IH]; intros seen; cbn [autodef_pass map]; [reflexivity|]. f_equal; [|apply IH].
  destruct dflt; [reflexivity|]. destruct a; [|reflexivity]. destruct seen; reflexivity.
Qed.

Lemma step_names seen ch d d1 : change_def ch d = Some d1 -> addP seen ch ->
  forall n, In n (names d1) -> In n (names d) \/ ~ In n seen.
Proof.
  unfold names. destruct ch as [|i|i k dflt val|i rm|order autodef]; cbn [change_def]; intros H Hok n Hn.
  - inversion H; subst. left. exact Hn.
  - left. destruct (i <? length (d_args d)).
    { inversion H; subst. cbn [d_args] in Hn. apply in_map_iff in Hn. destruct Hn as [e [He1 He2]].
      apply in_map_iff. exists e. split; [exact He1|]. eapply In_delete_nth. exact He2. }
    destruct ((i =? length (d_args d)) && is_some (d_star d)); [inversion H; subst; exact Hn|].
    match type of H with (if ?b then _ else _) = _ => destruct b end; inversion H; subst; exact Hn.
  - destruct (has_param (d_args d) k); [discriminate|]. inversion H; subst. cbn [d_args] in Hn.
    apply in_map_iff in Hn. destruct Hn as [e [He1 He2]]. apply In_insert_nth in He2.
    destruct He2 as [->|He2].
    + right. cbn [fst] in He1. subst. apply Hok.
    + left. apply in_map_iff. exists e. auto.
  - left. destruct rm; [|inversion H; subst; exact Hn].
    destruct (nth_error (d_args d) i) as [[k dflt]|] eqn:En; [|discriminate].
    destruct (set_nth i (k, None) (d_args d)) as [a|] eqn:Es; [|discriminate]. inversion H; subst.
    cbn [d_args] in Hn. apply in_map_iff in Hn. destruct Hn as [e [He1 He2]].
    assert (Forall (fun e => In (fst e) (map fst (d_args d))) a) as HF.
    { eapply Forall_set_nth; [exact Es| |].
      - rewrite Forall_forall. intros x Hx. apply in_map. exact Hx.
      - cbn [fst]. change k with (fst (k, dflt)). apply in_map. eapply nth_error_In. exact En. }
    rewrite Forall_forall in HF. rewrite <- He1. apply HF. exact He2.
  - left. destruct (reorder_loop (d_args d) order 0 (d_args d)) as [na|] eqn:Er; [|discriminate].
    inversion H; subst. cbn [d_args] in Hn. rewrite autodef_pass_names in Hn.
    assert (Forall (fun e => In (fst e) (map fst (d_args d))) na) as HF.
    { assert (Forall (fun e => In (fst e) (map fst (d_args d))) (d_args d)) as H0.
      { rewrite Forall_forall. intros x Hx. apply in_map. exact Hx. }
      eapply reorder_loop_Forall; [exact H0|exact Er|exact H0]. }
    rewrite Forall_forall in HF. apply in_map_iff in Hn. destruct Hn as [e [He1 He2]].
    rewrite <- He1. apply HF. exact He2.
Qed.

Lemma steps_names seen : forall cs d d', apply_defs cs d = Some d' -> Forall (addP seen) cs ->
  forall n, In n (names d') -> In n (names d) \/ ~ In n seen.
Proof.
  induction cs as [|ch cs IH]; intros d d'; cbn [apply_defs].
  - intros H _ n Hn. inversion H; subst. left. exact Hn.
  - destruct (change_def ch d) as [d1|] eqn:Ed; [|discriminate]. intros H Hok n Hn. inversion Hok; subst.
    destruct (IH _ _ H H3 n Hn) as [H1|H1]; [|right; exact H1].
    eapply step_names; eauto.
Qed.

Lemma adds_ok_addP : forall cs seen seen0, adds_ok seen cs = true -> (forall x, In x seen0 -> In x seen) ->
  Forall (addP seen0) cs.
Proof.
  induction cs as [|ch cs IH]; intros seen seen0 H Hs; [constructor|].
  destruct ch as [|i|i n dflt val|i rm|order autodef]; cbn [adds_ok] in H;
    try (constructor; [exact I|eapply IH; eauto]).
  rewrite !andb_true_iff in H. destruct H as [[H1 H2] H3]. constructor.
  - cbn [addP]. split; [|exact H2]. apply negb_true_iff, has_name_false in H1. intros Hx. apply H1. apply Hs. exact Hx.
  - eapply IH; [exact H3|]. intros x Hx. right. apply Hs. exact Hx.
Qed.

Lemma adds_have_value_addQ cs : adds_have_value cs = true -> Forall addQ cs.
Proof.
  unfold adds_have_value. rewrite forallb_forall, Forall_forall. intros H ch Hc. specialize (H _ Hc).
  destruct ch as [|i|i n dflt [v|]|i rm|order autodef]; cbn [addQ]; try exact I. discriminate.
Qed.

(* ------------------------------------------------------------------------------------------------ *)
(* what to_call_info emits binds, under Python's rules, every parameter to its effective value        *)
Definition F (ps : list (N * option N)) (pd : list (N * N)) : list (N * option N) :=
  map (fun e => (fst e, pd_get (fst e) pd)) ps.

Lemma F_names ps pd : map fst (F ps pd) = map fst ps.
Proof. unfold F. rewrite map_map. cbn [fst]. reflexivity. Qed.

Lemma sget_F pd n dflt : forall ps, In (n, dflt) ps -> sget n (F ps pd) = pd_get n pd.
Proof.
  induction ps as [|[m dm] ps IH]; intros H; [contradiction|]. cbn [F map sget fst].
  destruct (N.eqb_spec m n); [subst; reflexivity|].
  destruct H as [H|H]; [inversion H; congruence|]. apply IH. exact H.
Qed.

Lemma bind_pos_nil_fst ps : bind_pos ps [] = (map (fun e => (fst e, None)) ps, []).
Proof. induction ps as [|[n d] ps IH]; cbn [bind_pos map fst]; [reflexivity|]. rewrite IH. reflexivity. Qed.

Lemma slot_set_mid n v T : forall pre, ~ In n (map fst pre) ->
  slot_set n v (pre ++ (n, None) :: T) = Some (pre ++ (n, Some v) :: T).
Proof.
  induction pre as [|[m b] pre IH]; cbn [app slot_set map fst]; intros H.
  - rewrite N.eqb_refl. reflexivity.
  - destruct (N.eqb_spec m n); [exfalso; apply H; left; assumption|].
    rewrite IH; [reflexivity|]. intros Hx. apply H. right. exact Hx.
Qed.

Lemma app_cons_assoc {A} (l : list A) x r : l ++ x :: r = (l ++ [x]) ++ r.
Proof. rewrite <- app_assoc. reflexivity. Qed.

Lemma kws_gap hk pd kwargs : forall ps2 pre, NoDup (map fst pre ++ map fst ps2) ->
  bind_kws hk (tci_kws ps2 pd ++ kwargs) (pre ++ map (fun e => (fst e, None)) ps2) []
  = bind_kws hk kwargs (pre ++ F ps2 pd) [].
Proof.
  induction ps2 as [|[m dm] ps2 IH]; intros pre ND; [reflexivity|].
  cbn [tci_kws map F fst] in *. fold (F ps2 pd).
  assert (NoDup (map fst (pre ++ [(m, dm)]) ++ map fst ps2)) as ND'.
  { rewrite map_app, <- app_assoc. exact ND. }
  destruct (pd_get m pd) as [v|] eqn:Eg.
  - cbn [app bind_kws].
    assert (has_name m (map fst (pre ++ (m, None) :: map (fun e => (fst e, None)) ps2)) = true) as Hh.
    { apply has_name_In. rewrite map_app. apply in_or_app. right. left. reflexivity. }
    rewrite Hh. rewrite slot_set_mid.
    + rewrite (app_cons_assoc pre (m, Some v)), (app_cons_assoc pre (m, Some v) (F ps2 pd)). apply IH.
      rewrite map_app in *. exact ND'.
    + apply NoDup_remove_2 in ND. intros Hx. apply ND. apply in_or_app. left. exact Hx.
  - rewrite (app_cons_assoc pre (m, None)), (app_cons_assoc pre (m, None) (F ps2 pd)). apply IH.
    rewrite map_app in *. exact ND'.
Qed.

Lemma kws_pos hk pd kwargs : forall ps pre, NoDup (map fst pre ++ map fst ps) ->
  bind_kws hk (snd (tci ps pd) ++ kwargs) (pre ++ fst (bind_pos ps (fst (tci ps pd)))) []
  = bind_kws hk kwargs (pre ++ F ps pd) []
  /\ snd (bind_pos ps (fst (tci ps pd))) = [].
Proof.
  induction ps as [|[n dn] ps IH]; intros pre ND; [split; reflexivity|].
  cbn [tci]. destruct (pd_get n pd) as [v|] eqn:Eg.
  - assert (NoDup (map fst (pre ++ [(n, Some v)]) ++ map fst ps)) as ND'.
    { rewrite map_app, <- app_assoc. exact ND. }
    specialize (IH _ ND'). destruct (tci ps pd) as [a k]. cbn [fst snd] in *. cbn [bind_pos].
    destruct (bind_pos ps a) as [s r]. cbn [fst snd] in *. destruct IH as [IH1 IH2]. split; [|exact IH2].
    cbn [F map fst]. fold (F ps pd). rewrite Eg.
    rewrite (app_cons_assoc pre (n, Some v)), (app_cons_assoc pre (n, Some v) (F ps pd)). exact IH1.
  - cbn [fst snd]. rewrite bind_pos_nil_fst. cbn [fst snd]. split; [|reflexivity].
    pose proof (kws_gap hk pd kwargs ((n, dn) :: ps) pre ND) as H.
    cbn [tci_kws] in H. rewrite Eg in H. exact H.
Qed.

Lemma pos_all pd sur : forall ps, Forall (Q pd) ps ->
  snd (tci ps pd) = [] /\ bind_pos ps (fst (tci ps pd) ++ sur) = (F ps pd, sur).
Proof.
  induction ps as [|[n dn] ps IH]; intros H; [split; reflexivity|].
  inversion H as [|? ? Hq Hr]; subst. unfold Q in Hq. cbn [fst] in Hq. cbn [tci].
  destruct (pd_get n pd) as [v|] eqn:Eg; [|congruence].
  destruct (IH Hr) as [IH1 IH2]. destruct (tci ps pd) as [a k]. cbn [fst snd] in *. split; [exact IH1|].
  cbn [app bind_pos]. rewrite IH2. cbn [F map fst]. rewrite Eg. reflexivity.
Qed.

Lemma kws_extra hk slots : forall kwargs extra,
  Forall (fun kv => ~ In (fst kv) (map fst slots)) kwargs ->
  NoDup (map fst extra ++ map fst kwargs) -> (kwargs <> [] -> hk = true) ->
  bind_kws hk kwargs slots extra = Some (slots, extra ++ kwargs).
Proof.
  induction kwargs as [|[n v] kwargs IH]; intros extra HF ND Hk; cbn [bind_kws].
  - rewrite app_nil_r. reflexivity.
  - inversion HF as [|? ? Hn HF']; subst. cbn [fst] in Hn.
    rewrite (proj2 (has_name_false _ _) Hn). assert (hk = true) as Hhk by (apply Hk; discriminate).
    subst hk. cbn [andb map fst] in *.
    assert (has_name n (map fst extra) = false) as He.
    { apply has_name_false. apply NoDup_remove_2 in ND. intros Hx. apply ND. apply in_or_app. left. exact Hx. }
    rewrite He. cbn [negb]. rewrite IH.
    + rewrite <- app_assoc. reflexivity.
    + exact HF'.
    + rewrite map_app, <- app_assoc. exact ND.
    + intros _. reflexivity.
Qed.

Lemma fill_F pd : forall ps, Forall (fun e => eff (snd e) (pd_get (fst e) pd) <> None) ps ->
  exists bp, fill_defaults ps (F ps pd) = Some bp.
Proof.
  induction ps as [|[n d] ps IH]; intros H; [exists []; reflexivity|].
  inversion H as [|? ? H1 H2]; subst. cbn [fst snd] in H1. destruct (IH H2) as [r Hr].
  cbn [F map fill_defaults fst]. fold (F ps pd). rewrite Hr. unfold eff in H1.
  destruct (pd_get n pd) as [v|].
  - exists ((n, v) :: r). reflexivity.
  - destruct d as [v|]; [|congruence]. exists ((n, v) :: r). reflexivity.
Qed.

Lemma emit d' pd surplus kwargs :
  valid_def d' = true ->
  Forall (fun e => eff (snd e) (pd_get (fst e) pd) <> None) (d_args d') ->
  (surplus <> [] -> d_star d' <> None /\ Forall (Q pd) (d_args d')) ->
  Forall (fun kv => ~ In (fst kv) (names d')) kwargs -> NoDup (map fst kwargs) ->
  (kwargs <> [] -> d_kw d' <> None) ->
  exists b', bind_args d' (fst (tci (d_args d') pd) ++ surplus) (snd (tci (d_args d') pd) ++ kwargs) = Some b'
    /\ (forall n dflt, In (n, dflt) (d_args d') -> lookup n b' = eff dflt (pd_get n pd))
    /\ b_star b' = surplus /\ b_kw b' = kwargs /\ map fst (b_params b') = names d'.
Proof.
  intros Hv HE HS HK1 HK2 HK3. pose proof (valid_def_NoDup _ Hv) as ND. unfold names in *.
  set (ps := d_args d') in *. set (hk := is_some (d_kw d')).
  assert (exists slots, bind_pos ps (fst (tci ps pd) ++ surplus) = (slots, surplus)
            /\ bind_kws hk (snd (tci ps pd) ++ kwargs) slots [] = bind_kws hk kwargs (F ps pd) []) as [slots [Hp Hkw]].
  { destruct surplus as [|x sr].
    - rewrite app_nil_r. destruct (kws_pos hk pd kwargs ps [] ND) as [K1 K2]. cbn [app] in K1.
      exists (fst (bind_pos ps (fst (tci ps pd)))). split; [|exact K1].
      destruct (bind_pos ps (fst (tci ps pd))) as [s r]. cbn [fst snd] in *. subst r. reflexivity.
    - destruct HS as [_ HQ]; [discriminate|]. destruct (pos_all pd (x :: sr) ps HQ) as [A1 A2].
      exists (F ps pd). split; [exact A2|]. rewrite A1. reflexivity. }
  unfold bind_args. rewrite Hv. cbn [negb]. fold ps. rewrite Hp.
  assert (bind_kws hk kwargs (F ps pd) [] = Some (F ps pd, kwargs)) as Hk2.
  { rewrite kws_extra; [reflexivity| | |].
    - rewrite F_names. exact HK1.
    - exact HK2.
    - intros Hne. specialize (HK3 Hne). unfold hk. destruct (d_kw d'); [reflexivity|congruence]. }
  destruct (fill_F pd ps HE) as [bp Hbp].
  assert (match surplus with
          | [] => match bind_kws hk (snd (tci ps pd) ++ kwargs) slots [] with
                  | Some (slots', extra) => match fill_defaults ps slots' with
                                            | Some ps0 => Some (mkBind ps0 surplus extra) | None => None end
                  | None => None end
          | _ :: _ => match d_star d' with
                      | Some _ => match bind_kws hk (snd (tci ps pd) ++ kwargs) slots [] with
                                  | Some (slots', extra) => match fill_defaults ps slots' with
                                                            | Some ps0 => Some (mkBind ps0 surplus extra) | None => None end
                                  | None => None end
                      | None => None end
          end = Some (mkBind bp surplus kwargs)) as Hres.
  { rewrite Hkw, Hk2, Hbp. destruct surplus as [|x sr]; [reflexivity|].
    destruct HS as [Hst _]; [discriminate|]. destruct (d_star d'); [reflexivity|congruence]. }
  exists (mkBind bp surplus kwargs). split.
  { rewrite <- Hres. destruct surplus; [reflexivity|]. destruct (d_star d'); reflexivity. }
  destruct (fill_lookup ps (F ps pd) bp ND (F_names ps pd) Hbp) as [L1 L2].
  split; [|cbn; auto]. intros n dflt Hin. unfold lookup. cbn [b_params].
  destruct (L2 _ _ Hin) as [L3 _]. rewrite L3. rewrite (sget_F pd n dflt ps Hin). reflexivity.
Qed.

(* ------------------------------------------------------------------------------------------------ *)
(* facts about ArgumentMapping.__init__ that do not need a valid call                                *)
Lemma map_pos_mono k : forall ps args pd, pd_get k pd <> None -> pd_get k (fst (map_pos ps args pd)) <> None.
Proof.
  induction ps as [|[n d] ps IH]; intros args pd H; destruct args as [|v args]; cbn [map_pos fst]; try exact H.
  apply IH. destruct (N.eq_dec n k) as [->|Hne]; [rewrite pd_get_set_eq; discriminate|].
  rewrite pd_get_set_neq by exact Hne. exact H.
Qed.

Lemma map_kws_mono k ps : forall kws pd kwargs, pd_get k pd <> None -> pd_get k (fst (map_kws ps kws pd kwargs)) <> None.
Proof.
  induction kws as [|[n v] kws IH]; intros pd kwargs H; cbn [map_kws fst]; [exact H|].
  destruct (has_param ps n); [|apply IH; exact H].
  apply IH. destruct (N.eq_dec n k) as [->|Hne]; [rewrite pd_get_set_eq; discriminate|].
  rewrite pd_get_set_neq by exact Hne. exact H.
Qed.

Lemma map_pos_surplus : forall ps args pd, length ps < length args ->
  Forall (Q (fst (map_pos ps args pd))) ps.
Proof.
  induction ps as [|[n d] ps IH]; intros args pd H; [constructor|].
  destruct args as [|v args]; [cbn in H; lia|]. cbn [map_pos]. constructor.
  - unfold Q. cbn [fst]. apply map_pos_mono. rewrite pd_get_set_eq. discriminate.
  - apply IH. cbn [length] in H. lia.
Qed.

Lemma map_pos_no_surplus : forall ps args pd, length args <= length ps -> snd (map_pos ps args pd) = [].
Proof.
  induction ps as [|[n d] ps IH]; intros args pd H; destruct args as [|v args]; cbn [map_pos snd]; try reflexivity.
  - cbn in H. lia.
  - apply IH. cbn [length] in H. lia.
Qed.

Lemma map_kws_no_extra ps : forall kws pd kwargs,
  existsb (fun kv => negb (has_param ps (fst kv))) kws = false -> snd (map_kws ps kws pd kwargs) = kwargs.
Proof.
  induction kws as [|[n v] kws IH]; intros pd kwargs H; cbn [map_kws snd]; [reflexivity|].
  cbn [existsb fst] in H. apply orb_false_iff in H. destruct H as [H1 H2].
  apply negb_false_iff in H1. rewrite H1. apply IH. exact H2.
Qed.

Lemma map_kws_sub ps : forall kws pd kwargs kv,
  In kv (snd (map_kws ps kws pd kwargs)) -> In kv kwargs \/ In kv kws.
Proof.
  induction kws as [|[n v] kws IH]; intros pd kwargs kv; cbn [map_kws snd]; [auto|].
  destruct (has_param ps n); intros H; apply IH in H.
  - destruct H; [left; assumption|right; right; assumption].
  - destruct H as [H|H]; [|right; right; assumption].
    apply in_app_or in H. destruct H as [H|[H|[]]]; [left; assumption|right; left; assumption].
Qed.

Lemma mapping_init_fields d c :
  m_surplus (mapping_init d c) = snd (map_pos (d_args d) (c_args c) [])
  /\ m_kwargs (mapping_init d c) = snd (map_kws (d_args d) (c_kws c) (fst (map_pos (d_args d) (c_args c) [])) [])
  /\ m_pd (mapping_init d c) = fst (map_kws (d_args d) (c_kws c) (fst (map_pos (d_args d) (c_args c) [])) []).
Proof.
  unfold mapping_init. destruct (map_pos (d_args d) (c_args c) []) as [pd1 sur]. cbn [fst snd].
  destruct (map_kws (d_args d) (c_kws c) pd1 []) as [pd2 kwargs]. cbn. auto.
Qed.

(* ------------------------------------------------------------------------------------------------ *)
(* the main theorem                                                                                  *)
Lemma preserve_strong d cs c d' m' b :
  apply_defs cs d = Some d' -> apply_maps cs d (mapping_init d c) = Some m' ->
  side_ok d cs c d' = true -> bind d c = Some b ->
  exists b', bind d' (to_call_info m' c d') = Some b'
    /\ (forall n dflt, In (n, dflt) (d_args d') -> lookup n b' = eff dflt (pd_get n (m_pd m')))
    /\ Forall (P b (names d) (m_pd m')) (d_args d')
    /\ b_star b' = b_star b /\ b_kw b' = b_kw b /\ map fst (b_params b') = names d'
    /\ (m_surplus m' <> [] -> Forall (Q (m_pd m')) (d_args d')).
Proof.
  intros Hd Hm Hside Hb. unfold bind in Hb. destruct (plain_call c) eqn:Hplain; [|discriminate].
  destruct (init_spec d c b Hb) as [ND [I1 [I2 [I3 [I4 [I5 [I6 [I7 I8]]]]]]]].
  unfold Args.side_ok in Hside. rewrite !andb_true_iff in Hside. destruct Hside as [[[[Hv Hadds] Hsur] Hext] Hnds].
  assert (rdel = true -> nodup_steps cs d = true) as Hnd.
  { intros Hr. rewrite Hr in Hnds. exact Hnds. }
  set (seen := names d ++ map fst (c_kws c)) in *.
  assert (Forall (addP (names d)) cs) as HaP.
  { eapply adds_ok_addP; [exact Hadds|]. intros x Hx. unfold seen. apply in_or_app. left. exact Hx. }
  assert (Forall (addP seen) cs) as HaS by (eapply adds_ok_addP; [exact Hadds|auto]).
  assert (Forall (P b (names d) (m_pd (mapping_init d c))) (d_args d)) as HP0.
  { rewrite Forall_forall. intros [n dflt] Hin. destruct (I1 _ _ Hin) as [J1 J2]. unfold P. cbn [fst snd].
    rewrite J1. split; [exact J2|reflexivity]. }
  destruct (steps_P b (names d) cs d d' _ m' Hd Hm HaP Hnd HP0) as [HP [Hkw Hsu]].
  destruct (mapping_init_fields d c) as [M1 [M2 M3]].
  assert (Forall (fun e => eff (snd e) (pd_get (fst e) (m_pd m')) <> None) (d_args d')) as HE.
  { eapply Forall_impl; [|exact HP]. intros e [H _]. exact H. }
  assert (m_surplus m' <> [] -> d_star d' <> None /\ Forall (Q (m_pd m')) (d_args d')) as HS.
  { intros Hne. rewrite Hsu in Hne. unfold has_surplus in Hsur.
    destruct (length (d_args d) <? length (c_args c)) eqn:El.
    - cbn [negb orb] in Hsur. apply andb_true_iff in Hsur. destruct Hsur as [S1 S2]. split.
      + destruct (d_star d'); [discriminate|discriminate].
      + eapply steps_Q; [exact Hd|exact Hm|apply adds_have_value_addQ; exact S1|exact Hnd|].
        rewrite M3. apply Nat.ltb_lt in El. pose proof (map_pos_surplus (d_args d) (c_args c) [] El) as HQ.
        rewrite Forall_forall in *. intros e He. unfold Q. apply map_kws_mono. apply HQ. exact He.
    - exfalso. apply Hne. rewrite M1. apply map_pos_no_surplus. apply Nat.ltb_ge in El. exact El. }
  assert (Forall (fun kv => ~ In (fst kv) (names d')) (m_kwargs m')) as HK1.
  { rewrite Hkw, I3. rewrite Forall_forall. rewrite Forall_forall in I4. intros kv Hkv Hin.
    destruct (steps_names seen cs d d' Hd HaS _ Hin) as [H|H].
    - exact (I4 _ Hkv H).
    - apply H. unfold seen. apply in_or_app. right. rewrite <- I3, M2 in Hkv.
      apply map_kws_sub in Hkv. destruct Hkv as [[]|Hkv]. apply in_map. exact Hkv. }
  assert (m_kwargs m' <> [] -> d_kw d' <> None) as HK3.
  { intros Hne. rewrite Hkw in Hne. unfold has_extra_kw in Hext.
    destruct (existsb (fun kv => negb (has_param (d_args d) (fst kv))) (c_kws c)) eqn:Ee.
    - cbn [negb orb] in Hext. destruct (d_kw d'); discriminate.
    - exfalso. apply Hne. rewrite M2. apply map_kws_no_extra. exact Ee. }
  assert (NoDup (map fst (m_kwargs m'))) as HK2 by (rewrite Hkw, I3; exact I5).
  destruct (emit d' (m_pd m') (m_surplus m') (m_kwargs m') Hv HE HS HK1 HK2 HK3) as [b' [B1 [B2 [B3 [B4 B5]]]]].
  exists b'. split.
  { unfold bind, to_call_info. destruct (tci (d_args d') (m_pd m')) as [a k]. cbn [fst snd] in B1.
    unfold plain_call in *. cbn [c_star c_kwstar c_args c_kws]. rewrite Hplain. exact B1. }
  split; [exact B2|]. split; [exact HP|].
  split; [rewrite B3, Hsu; exact I2|]. split; [rewrite B4, Hkw; exact I3|]. split; [exact B5|].
  intros Hne. apply (proj2 (HS Hne)).
Qed.

Theorem preserve d cs c d' c' b :
  apply_defs cs d = Some d' -> change_call cs d c = Some c' ->
  side_ok d cs c d' = true -> bind d c = Some b ->
  exists b', bind d' c' = Some b'
    /\ (forall n, In n (names d) -> In n (names d') -> lookup n b' = lookup n b)
    /\ b_star b' = b_star b /\ b_kw b' = b_kw b /\ map fst (b_params b') = names d'.
Proof.
  intros Hd Hc Hside Hb. unfold Args.change_call in Hc. rewrite Hd in Hc.
  destruct (apply_maps cs d (mapping_init d c)) as [m'|] eqn:Hm; [|discriminate]. inversion Hc; subst c'. clear Hc.
  destruct (preserve_strong d cs c d' m' b Hd Hm Hside Hb) as [b' [B1 [B2 [HP [B3 [B4 [B5 _]]]]]]].
  exists b'. split; [exact B1|]. split; [|auto].
  intros n Hn Hn'. unfold names in Hn'. apply in_map_iff in Hn'. destruct Hn' as [[n0 dflt] [E1 E2]].
  cbn [fst] in E1. subst n0. rewrite (B2 _ _ E2). rewrite Forall_forall in HP.
  destruct (HP _ E2) as [_ HP2]. cbn [fst snd] in HP2. apply HP2. exact Hn.
Qed.

(* non-vacuity: a method-like definition with defaults, *a and **k; reorder + add + inline *)
Lemma preserve_nonvacuous :
  exists d cs c d' c' b,
    d = mkDef [(1, None); (2, None); (3, Some 10)]%N (Some 7%N) (Some 8%N)
    /\ cs = [Reorder [0; 2; 1] (Some 11%N); Add 3 4%N (Some 12%N) None; InlineDefault 1 true]
    /\ c = mkCall 20%N [30; 31]%N [(9, 32)]%N None None true false
    /\ apply_defs cs d = Some d' /\ change_call cs d c = Some c'
    /\ side_ok d cs c d' = true /\ bind d c = Some b
    /\ c_kws c' = [(9, 32)]%N /\ c_args c' = [30; 10; 31]%N.
Proof. destruct rdel; do 6 eexists; repeat split; vm_compute; reflexivity. Qed.

(* ------------------------------------------------------------------------------------------------ *)
(* the rendered header determines the definition: to_string lists exactly the parameters, in order,
   with their defaults, then *a, then **k                                                            *)
Fixpoint def_unrender (toks : list ptoken) (acc : definfo) : definfo :=
  match toks with
  | [] => acc
  | PPlain n :: r => def_unrender r (mkDef (d_args acc ++ [(n, None)]) (d_star acc) (d_kw acc))
  | PDefault n e :: r => def_unrender r (mkDef (d_args acc ++ [(n, Some e)]) (d_star acc) (d_kw acc))
  | PStar n :: r => def_unrender r (mkDef (d_args acc) (Some n) (d_kw acc))
  | PKw n :: r => def_unrender r (mkDef (d_args acc) (d_star acc) (Some n))
  end.

Lemma def_unrender_args : forall l pre s (k : N),
  def_unrender (map (fun p => match p with (n, Some e) => PDefault n e | (n, None) => PPlain n end) l ++ s)
               (mkDef pre None None)
  = def_unrender s (mkDef (pre ++ l) None None) .
Proof.
  induction l as [|[n [e|]] l IH]; intros pre s k; cbn [map app def_unrender d_args d_star d_kw].
  - rewrite app_nil_r. reflexivity.
  - rewrite (IH _ s k), <- app_assoc. reflexivity.
  - rewrite (IH _ s k), <- app_assoc. reflexivity.
Qed.

Lemma definition_string d : def_unrender (def_render d) (mkDef [] None None) = d.
Proof.
  unfold def_render. rewrite (def_unrender_args _ _ _ 0%N). cbn [app].
  destruct d as [a [s|] [k|]]; reflexivity.
Qed.

(* ------------------------------------------------------------------------------------------------ *)
(* refutations: computed witnesses on which the faithful model breaks the property                   *)

(* def f(a, [star], k=1): the keyword-only parameter is lost, the header becomes f(a, [star]) *)
Lemma kwonly_refuted : forall fixed,
  exists a d, a_kwonly a <> [] /\ def_read fixed a = Some d /\ apply_defs [Normalize] d = Some d
              /\ def_render d = [PPlain 1%N; PStar 0%N] /\ a_empty a = 0%N.
Proof.
  intros fixed. exists (mkAst [1%N] None [] None [2%N] [Some 3%N] 0%N 9%N). eexists. repeat split; try (destruct fixed; vm_compute; reflexivity).
  discriminate.
Qed.

(* `def f(a, b=1, *r)`: the default is attached to a parameter called "*r", b loses it *)
Lemma vararg_default_refuted :
  exists a d, a_kwonly a = [] /\ def_read false a = Some d /\ def_of_ast a <> d /\ valid_def (def_of_ast a) = true
              /\ def_render d = [PPlain 1%N; PPlain 2%N; PDefault 6%N 3%N].
Proof.
  exists (mkAst [1%N; 2%N] (Some (5%N, 6%N)) [3%N] None [] [] 0%N 9%N). eexists.
  repeat split; try (vm_compute; reflexivity). vm_compute. discriminate.
Qed.

(* `def f(a, b)` with `f( *xs )`, xs = [x0, x1], reordered to `def f(b, a)`: the call is unchanged *)
Lemma star_call_reorder_refuted :
  exists d cs c d' c' xs b b',
    apply_defs cs d = Some d' /\ change_call cs d c = Some c' /\ valid_def d' = true /\ c' = c
    /\ bind_with d c xs [] = Some b /\ bind_with d' c' xs [] = Some b'
    /\ lookup 1%N b = Some 40%N /\ lookup 1%N b' = Some 41%N.
Proof.
  exists (mkDef [(1, None); (2, None)]%N None None), [Reorder [1; 0] None],
         (mkCall 20%N [] [] (Some 30%N) None false false).
  do 2 eexists. exists [40; 41]%N. do 2 eexists. repeat split; destruct rdel; vm_compute; reflexivity.
Qed.

(* remove b, add a new b with default 0: the call keeps passing the argument of the removed b *)
Lemma remove_then_add_same_name_refuted :
  exists d cs c d' c' b',
    cs = [Remove 1; Add 1 2%N (Some 50%N) None]
    /\ apply_defs cs d = Some d' /\ Args.change_call false cs d c = Some c' /\ valid_def d' = true
    /\ bind d' c' = Some b' /\ lookup 2%N b' = Some 31%N.
Proof.
  exists (mkDef [(1, None); (2, None)]%N None None). eexists.
  exists (mkCall 20%N [30; 31]%N [] None None false false). do 3 eexists.
  repeat split; vm_compute; reflexivity.
Qed.

(* `def f(a, *r)` with `f(1, 2, 3)`, add b=0 at index 1 without a call value: b receives 2 *)
Lemma add_default_under_surplus_refuted :
  exists d cs c d' c' b b',
    cs = [Add 1 2%N (Some 50%N) None]
    /\ apply_defs cs d = Some d' /\ change_call cs d c = Some c' /\ valid_def d' = true
    /\ adds_ok (names d ++ map fst (c_kws c)) cs = true
    /\ bind d c = Some b /\ bind d' c' = Some b'
    /\ lookup 2%N b' = Some 31%N /\ b_star b = [31; 32]%N /\ b_star b' = [32%N].
Proof.
  exists (mkDef [(1, None)]%N (Some 7%N) None). eexists.
  exists (mkCall 20%N [30; 31; 32]%N [] None None false false). do 4 eexists.
  repeat split; vm_compute; reflexivity.
Qed.

(* moving a parameter without default behind one with a default, without autodef: invalid header *)
Lemma reorder_invalid_def_refuted :
  exists d cs c d' c' b,
    cs = [Reorder [1; 0] None]
    /\ apply_defs cs d = Some d' /\ change_call cs d c = Some c' /\ bind d c = Some b
    /\ valid_def d' = false /\ bind d' c' = None.
Proof.
  exists (mkDef [(1, None); (2, Some 10)]%N None None). eexists.
  exists (mkCall 20%N [30]%N [] None None false false). do 3 eexists.
  repeat split; vm_compute; reflexivity.
Qed.

(* ------------------------------------------------------------------------------------------------ *)
(* DefinitionInfo._read reads a header without keyword-only parameters as what it means in Python --  *)
(* with the proposed fix always; with the code as found only if *a and defaults do not occur together *)
Lemma last_item_app l x : last_item (l ++ [x]) = Some x.
Proof.
  unfold last_item. rewrite app_length. cbn [length]. replace (length l + 1 - 1) with (length l) by lia.
  rewrite nth_error_app2 by lia. rewrite Nat.sub_diag. reflexivity.
Qed.

Lemma droplast_app {A} (l : list A) x : droplast 1 (l ++ [x]) = l.
Proof.
  unfold droplast. rewrite app_length. cbn [length]. replace (length l + 1 - 1) with (length l) by lia.
  rewrite firstn_app, Nat.sub_diag, firstn_all. cbn [firstn]. apply app_nil_r.
Qed.

Lemma last_item_INm l i : last_item (map INm l) = Some i -> exists t, i = INm t.
Proof.
  unfold last_item. intros H. apply nth_error_In in H. apply in_map_iff in H. destruct H as [t [H _]].
  exists t. congruence.
Qed.

Definition strip (args : list pitem) : list pitem * option N * option N :=
  let '(args, kw) := match last_item args with
                     | Some (IStarStar b _) => (droplast 1 args, Some b)
                     | _ => (args, None)
                     end in
  let '(args, star) := match last_item args with
                       | Some (IStar b _) => (droplast 1 args, Some b)
                       | _ => (args, None)
                       end in
  (args, star, kw).

Lemma strip_spec l (va kwa : option (N * N)) :
  strip (map INm l ++ (match va with Some (b, t) => [IStar b t] | None => [] end)
                   ++ (match kwa with Some (b, t) => [IStarStar b t] | None => [] end))
  = (map INm l, option_map fst va, option_map fst kwa).
Proof.
  unfold strip. destruct kwa as [[kb kt]|]; destruct va as [[vb vt]|]; cbn [option_map fst].
  - rewrite app_assoc, last_item_app, droplast_app, last_item_app, droplast_app. reflexivity.
  - cbn [app]. rewrite last_item_app, droplast_app. cbn iota beta.
    destruct (last_item (map INm l)) as [i|] eqn:E; [|reflexivity].
    destruct (last_item_INm _ _ E) as [t ->]. reflexivity.
  - rewrite app_nil_r, last_item_app. cbn iota beta. rewrite last_item_app, droplast_app. reflexivity.
  - cbn [app]. rewrite app_nil_r. destruct (last_item (map INm l)) as [i|] eqn:E.
    + destruct (last_item_INm _ _ E) as [t ->]. cbn iota beta. rewrite E. reflexivity.
    + cbn iota beta. rewrite E. reflexivity.
Qed.

Lemma def_read_strip fixed a :
  def_read fixed a = match get_parameters fixed a with
                     | None => None
                     | Some (args, kwargs) =>
                         let '(args', star, kw) := strip args in
                         Some (mkDef (map (fun i => (item_tok i, None)) args' ++ kwargs) star kw)
                     end.
Proof.
  unfold def_read, strip. destruct (get_parameters fixed a) as [[args kwargs]|]; [|reflexivity].
  destruct (last_item args) as [[?|? ?|? ?]|]; cbn;
    match goal with |- context [last_item ?x] => destruct (last_item x) as [[?|? ?|? ?]|] end; reflexivity.
Qed.

Lemma zip_map_INm (X : list N) (Y : list N) :
  map (fun p => (item_tok (fst p), Some (snd p))) (zip (map INm X) Y)
  = map (fun p => (fst p, Some (snd p))) (zip X Y).
Proof.
  revert Y. induction X as [|x X IH]; intros [|y Y]; cbn [map zip fst snd item_tok]; try reflexivity.
  f_equal. apply IH.
Qed.

Lemma zip_nil_r {A B} (l : list A) : zip l (@nil B) = [].
Proof. destruct l; reflexivity. Qed.

Lemma def_read_ok fixed a :
  a_kwonly a = [] -> a_kwdefaults a = [] ->
  (fixed = true \/ a_vararg a = None \/ a_defaults a = []) ->
  def_read fixed a = Some (def_of_ast a).
Proof.
  intros Hko Hkd Hfix. rewrite def_read_strip. unfold get_parameters, def_of_ast. rewrite Hko, Hkd. cbn [length].
  set (ps := a_params a). set (va := match a_vararg a with Some (b, t) => [IStar b t] | None => [] end).
  set (kwa := match a_kwarg a with Some (b, t) => [IStarStar b t] | None => [] end).
  destruct (a_defaults a) as [|d0 ds] eqn:Ed.
  - (* no defaults *)
    cbn [length]. rewrite Nat.sub_0_r, firstn_all, zip_nil_r. cbn [map]. rewrite app_nil_r.
    assert (((map INm ps ++ (if fixed then [] else va)) ++ (if fixed then va else []) ++ kwa)
            = map INm ps ++ va ++ kwa) as ->.
    { destruct fixed; cbn [app]; rewrite ?app_nil_r, <- ?app_assoc; reflexivity. }
    unfold va, kwa. rewrite strip_spec. rewrite map_map. cbn [item_tok]. rewrite app_nil_r. reflexivity.
  - (* defaults: the vararg entry must not be in the list when they are zipped *)
    assert ((if fixed then [] else va) = []) as Hva.
    { destruct fixed; [reflexivity|]. destruct Hfix as [Hf|[Hf|Hf]]; try discriminate.
      unfold va. rewrite Hf. reflexivity. }
    assert ((if fixed then va else []) = va) as Hva2.
    { destruct fixed; [reflexivity|]. destruct Hfix as [Hf|[Hf|Hf]]; try discriminate.
      unfold va. rewrite Hf. reflexivity. }
    rewrite Hva, Hva2, app_nil_r. set (n := length (d0 :: ds)).
    replace (match n with O => (map INm ps, []) | S _ =>
               (droplast n (map INm ps),
                map (fun p => (item_tok (fst p), Some (snd p))) (zip (lastn n (map INm ps)) (d0 :: ds))) end)
      with (droplast n (map INm ps),
            map (fun p => (item_tok (fst p), Some (snd p))) (zip (lastn n (map INm ps)) (d0 :: ds)))
      by reflexivity.
    unfold droplast, lastn. rewrite map_length, firstn_map, skipn_map, zip_map_INm.
    unfold va, kwa. rewrite strip_spec. rewrite map_map. cbn [item_tok]. reflexivity.
Qed.

(* ------------------------------------------------------------------------------------------------ *)
(* which keys param_dict can hold, and that a bound key stays bound                                   *)
Fixpoint added (cs : list changer) : list N :=
  match cs with
  | [] => []
  | Add _ n _ _ :: r => n :: added r
  | _ :: r => added r
  end.

Lemma added_app a b : added (a ++ b) = added a ++ added b.
Proof. induction a as [|[] a IH]; cbn [app added]; try exact IH; [reflexivity|]. f_equal. exact IH. Qed.

Lemma change_map_mono ch d d1 m m1 k :
  change_def ch d = Some d1 -> change_map ch d m = Some m1 ->
  (rdel = true -> NoDup (map fst (d_args d))) -> In k (names d1) ->
  pd_get k (m_pd m) <> None -> pd_get k (m_pd m1) <> None.
Proof.
  intros Hd H Hnd Hin. revert Hd H.
  destruct ch as [|i|i n dflt val|i rm|order autodef]; cbn [change_def Args.change_map]; intros Hd H Hk;
    try (inversion H; subst; exact Hk).
  - destruct rdel; [|inversion H; subst; exact Hk].
    destruct (nth_error (d_args d) i) as [[n dn]|] eqn:En; [|inversion H; subst; exact Hk].
    inversion H; subst. cbn [m_pd].
    assert (i < length (d_args d)) as Hi by (apply nth_error_Some; congruence).
    apply Nat.ltb_lt in Hi. rewrite Hi in Hd. inversion Hd; subst. unfold names in Hin. cbn [d_args] in Hin.
    apply in_map_iff in Hin. destruct Hin as [e [E1 E2]].
    pose proof (delete_nth_others _ _ _ _ (Hnd eq_refl) En e E2) as Hne.
    rewrite pd_get_del_neq by congruence. exact Hk.
  - destruct val as [v|]; inversion H; subst; [|exact Hk]. cbn [m_pd].
    destruct (N.eq_dec n k) as [->|Hne]; [rewrite pd_get_set_eq; discriminate|].
    rewrite pd_get_set_neq by exact Hne. exact Hk.
  - destruct (nth_error (d_args d) i) as [[n dflt]|]; [|discriminate].
    destruct dflt as [e|]; [|inversion H; subst; exact Hk].
    destruct (pd_get n (m_pd m)); inversion H; subst; [exact Hk|]. cbn [m_pd].
    destruct (N.eq_dec n k) as [->|Hne]; [rewrite pd_get_set_eq; discriminate|].
    rewrite pd_get_set_neq by exact Hne. exact Hk.
Qed.

Lemma change_map_keys ch d m m1 k :
  change_map ch d m = Some m1 -> pd_get k (m_pd m1) <> None ->
  pd_get k (m_pd m) <> None \/ In k (names d) \/ In k (added [ch]).
Proof.
  destruct ch as [|i|i n dflt val|i rm|order autodef]; cbn [Args.change_map added]; intros H Hk;
    try (inversion H; subst; left; exact Hk).
  - destruct rdel; [|inversion H; subst; left; exact Hk].
    destruct (nth_error (d_args d) i) as [[n dn]|]; inversion H; subst; [|left; exact Hk]. cbn [m_pd] in Hk.
    left. destruct (N.eq_dec n k) as [->|Hne]; [rewrite pd_get_del_eq in Hk; congruence|].
    rewrite pd_get_del_neq in Hk by exact Hne. exact Hk.
  - destruct val as [v|]; inversion H; subst; [|left; exact Hk]. cbn [m_pd] in Hk.
    destruct (N.eq_dec n k) as [->|Hne]; [right; right; left; reflexivity|].
    rewrite pd_get_set_neq in Hk by exact Hne. left. exact Hk.
  - destruct (nth_error (d_args d) i) as [[n dflt]|] eqn:En; [|discriminate].
    destruct dflt as [e|]; [|inversion H; subst; left; exact Hk].
    destruct (pd_get n (m_pd m)); inversion H; subst; [left; exact Hk|]. cbn [m_pd] in Hk.
    destruct (N.eq_dec n k) as [->|Hne].
    + right. left. unfold names. change k with (fst (k, Some e)). apply in_map. eapply nth_error_In. exact En.
    + rewrite pd_get_set_neq in Hk by exact Hne. left. exact Hk.
Qed.

Lemma step_names2 ch d d1 : change_def ch d = Some d1 ->
  forall n, In n (names d1) -> In n (names d) \/ In n (added [ch]).
Proof.
  intros H n Hn. destruct ch as [|i|i k dflt val|i rm|order autodef].
  - cbn [change_def] in H. inversion H; subst. left. exact Hn.
  - destruct (step_names (n :: nil) (Remove i) d d1 H I n Hn) as [H1|H1]; [left; exact H1|].
    exfalso. apply H1. left. reflexivity.
  - cbn [change_def] in H. destruct (has_param (d_args d) k); [discriminate|]. inversion H; subst.
    unfold names in *. cbn [d_args] in Hn. apply in_map_iff in Hn. destruct Hn as [e [He1 He2]].
    apply In_insert_nth in He2. destruct He2 as [->|He2].
    + right. cbn [fst] in He1. subst. left. reflexivity.
    + left. apply in_map_iff. exists e. auto.
  - destruct (step_names (n :: nil) (InlineDefault i rm) d d1 H I n Hn) as [H1|H1]; [left; exact H1|].
    exfalso. apply H1. left. reflexivity.
  - destruct (step_names (n :: nil) (Reorder order autodef) d d1 H I n Hn) as [H1|H1]; [left; exact H1|].
    exfalso. apply H1. left. reflexivity.
Qed.

Lemma steps_keys : forall cs d d' m m',
  apply_defs cs d = Some d' -> apply_maps cs d m = Some m' ->
  forall k, In k (names d') \/ pd_get k (m_pd m') <> None ->
            In k (names d) \/ pd_get k (m_pd m) <> None \/ In k (added cs).
Proof.
  induction cs as [|ch cs IH]; intros d d' m m'; cbn [apply_defs Args.apply_maps].
  - intros H1 H2 k Hk. inversion H1; inversion H2; subst. destruct Hk; auto.
  - destruct (change_def ch d) as [d1|] eqn:Ed; [|discriminate].
    destruct (change_map ch d m) as [m1|] eqn:Em; [|discriminate]. intros H1 H2 k Hk.
    assert (added (ch :: cs) = added [ch] ++ added cs) as Ha by (apply (added_app [ch] cs)).
    rewrite Ha. destruct (IH _ _ _ _ H1 H2 k Hk) as [J|[J|J]].
    + destruct (step_names2 _ _ _ Ed _ J) as [J1|J1]; [left; exact J1|].
      right. right. apply in_or_app. left. exact J1.
    + destruct (change_map_keys _ _ _ _ _ Em J) as [J1|[J1|J1]]; auto.
      right. right. apply in_or_app. left. exact J1.
    + right. right. apply in_or_app. right. exact J.
Qed.

Lemma steps_mono k : forall cs d d' m m',
  apply_defs cs d = Some d' -> apply_maps cs d m = Some m' -> Forall (addP [k]) cs ->
  (rdel = true -> nodup_steps cs d = true) -> In k (names d') ->
  pd_get k (m_pd m) <> None -> pd_get k (m_pd m') <> None.
Proof.
  induction cs as [|ch cs IH]; intros d d' m m'; cbn [apply_defs Args.apply_maps].
  - intros H1 H2 _ _ _ Hk. inversion H2; subst. exact Hk.
  - destruct (change_def ch d) as [d1|] eqn:Ed; [|discriminate].
    destruct (change_map ch d m) as [m1|] eqn:Em; [|discriminate]. intros H1 H2 Hok Hnd Hin Hk.
    inversion Hok; subst.
    assert (rdel = true -> NoDup (map fst (d_args d)) /\ nodup_steps cs d1 = true) as Hnd'.
    { intros Hr. specialize (Hnd Hr). cbn [nodup_steps] in Hnd. rewrite Ed in Hnd.
      apply andb_true_iff in Hnd. destruct Hnd as [N1 N2]. split; [apply nodup_names_NoDup; exact N1|exact N2]. }
    assert (In k (names d1)) as Hin1.
    { destruct (steps_names [k] cs d1 d' H1 H4 k Hin) as [J|J]; [exact J|]. exfalso. apply J. left. reflexivity. }
    eapply IH; [exact H1|exact H2|exact H4|intros Hr; apply (Hnd' Hr)|exact Hin|].
    eapply change_map_mono; [exact Ed|exact Em|intros Hr; apply (Hnd' Hr)|exact Hin1|exact Hk].
Qed.

Lemma mapping_init_keys d c k : pd_get k (m_pd (mapping_init d c)) <> None -> In k (names d).
Proof.
  destruct (mapping_init_fields d c) as [_ [_ ->]].
  assert (forall ps args pd, pd_get k (fst (map_pos ps args pd)) <> None -> pd_get k pd <> None \/ In k (map fst ps)) as Hp.
  { induction ps as [|[n dn] ps IH]; intros args pd H; destruct args as [|v args]; cbn [map_pos fst] in H; auto.
    destruct (IH _ _ H) as [J|J]; [|right; right; exact J].
    destruct (N.eq_dec n k) as [->|Hne]; [right; left; reflexivity|].
    rewrite pd_get_set_neq in J by exact Hne. left. exact J. }
  assert (forall kws pd kwargs, pd_get k (fst (map_kws (d_args d) kws pd kwargs)) <> None ->
                                pd_get k pd <> None \/ In k (names d)) as Hq.
  { induction kws as [|[n v] kws IH]; intros pd kwargs H; cbn [map_kws fst] in H; auto.
    destruct (has_param (d_args d) n) eqn:Eh; [|apply (IH _ _ H)].
    destruct (IH _ _ H) as [J|J]; [|right; exact J].
    destruct (N.eq_dec n k) as [->|Hne]; [right; apply has_name_In; exact Eh|].
    rewrite pd_get_set_neq in J by exact Hne. left. exact J. }
  intros H. destruct (Hq _ _ _ H) as [J|J]; [|exact J].
  destruct (Hp _ _ _ J) as [J1|J1]; [cbn in J1; congruence|exact J1].
Qed.

(* ------------------------------------------------------------------------------------------------ *)
(* C06_added: an added parameter receives the supplied value, else its default, at every call         *)
Lemma apply_defs_app : forall a b d d', apply_defs (a ++ b) d = Some d' ->
  exists d1, apply_defs a d = Some d1 /\ apply_defs b d1 = Some d'.
Proof.
  induction a as [|ch a IH]; intros b d d'; cbn [app apply_defs].
  - intros H. exists d. auto.
  - destruct (change_def ch d) as [d0|]; [|discriminate]. apply IH.
Qed.

Lemma apply_maps_app : forall a b d m m', apply_maps (a ++ b) d m = Some m' ->
  exists d1 m1, apply_defs a d = Some d1 /\ apply_maps a d m = Some m1 /\ apply_maps b d1 m1 = Some m'.
Proof.
  induction a as [|ch a IH]; intros b d m m'; cbn [app Args.apply_maps apply_defs].
  - intros H. exists d, m. auto.
  - destruct (change_map ch d m) as [m0|]; [|discriminate].
    destruct (change_def ch d) as [d0|]; [|discriminate]. apply IH.
Qed.

Lemma apply_defs_snoc : forall pre ch d d1 d2,
  apply_defs pre d = Some d1 -> change_def ch d1 = Some d2 -> apply_defs (pre ++ [ch]) d = Some d2.
Proof.
  induction pre as [|c0 pre IH]; intros ch d d1 d2 H1 H2; cbn [app apply_defs] in *.
  - inversion H1; subst. rewrite H2. reflexivity.
  - destruct (change_def c0 d); [|discriminate]. eapply IH; eauto.
Qed.

Lemma apply_maps_snoc : forall pre ch d d1 d2 m m1 m2,
  apply_defs pre d = Some d1 -> apply_maps pre d m = Some m1 ->
  change_map ch d1 m1 = Some m2 -> change_def ch d1 = Some d2 -> apply_maps (pre ++ [ch]) d m = Some m2.
Proof.
  induction pre as [|c0 pre IH]; intros ch d d1 d2 m m1 m2 H1 H2 H3 H4; cbn [app apply_defs Args.apply_maps] in *.
  - inversion H1; inversion H2; subst. rewrite H3, H4. reflexivity.
  - destruct (change_map c0 d m); [|discriminate]. destruct (change_def c0 d); [|discriminate]. eapply IH; eauto.
Qed.

Lemma nodup_steps_app : forall a b d d1, apply_defs a d = Some d1 ->
  nodup_steps (a ++ b) d = nodup_steps a d && nodup_steps b d1.
Proof.
  induction a as [|ch a IH]; intros b d d1; cbn [app apply_defs].
  - intros H. inversion H; subst. cbn [nodup_steps]. rewrite andb_true_r.
    destruct b; cbn [nodup_steps]; destruct (nodup_names (names d1)); reflexivity.
  - cbn [nodup_steps]. destruct (change_def ch d) as [d0|]; [|discriminate]. intros H.
    rewrite (IH b d0 d1 H). rewrite andb_assoc. reflexivity.
Qed.

Lemma adds_ok_mid : forall pre seen i n dflt val post,
  adds_ok seen (pre ++ Add i n dflt val :: post) = true ->
  ~ In n seen /\ ~ In n (added pre) /\ (is_some dflt || is_some val = true) /\ Forall (addP [n]) post.
Proof.
  induction pre as [|ch pre IH]; intros seen i n dflt val post; cbn [app].
  - cbn [adds_ok added]. rewrite !andb_true_iff. intros [[H1 H2] H3].
    apply negb_true_iff, has_name_false in H1. repeat split; auto.
    eapply adds_ok_addP; [exact H3|]. intros x [<-|[]]. left. reflexivity.
  - destruct ch as [|j|j k dk vk|j rm|order autodef]; cbn [adds_ok added]; try apply IH.
    rewrite !andb_true_iff. intros [[H1 H2] H3]. destruct (IH _ _ _ _ _ _ H3) as [J1 [J2 [J3 J4]]].
    repeat split; auto.
    + intros Hx. apply J1. right. exact Hx.
    + intros [Hx|Hx]; [apply J1; left; exact Hx|exact (J2 Hx)].
Qed.

Lemma In_insert_nth_self {A} (x : A) : forall i l, In x (insert_nth i x l).
Proof.
  induction i as [|i IH]; intros l; cbn [insert_nth]; [left; reflexivity|].
  destruct l as [|y r]; [left; reflexivity|]. right. apply IH.
Qed.

Definition Rn (n : N) (X : option N) (pd : list (N * N)) (e : N * option N) : Prop :=
  eff (snd e) (pd_get (fst e) pd) <> None /\ (fst e = n -> eff (snd e) (pd_get (fst e) pd) = X).

Lemma steps_Rn n X : forall cs d d' m m',
  apply_defs cs d = Some d' -> apply_maps cs d m = Some m' -> Forall (addP [n]) cs ->
  (rdel = true -> nodup_steps cs d = true) ->
  Forall (Rn n X (m_pd m)) (d_args d) -> Forall (Rn n X (m_pd m')) (d_args d').
Proof.
  intros cs d d' m m' H1 H2 H3 H5 H4.
  refine (proj1 (steps_inv (Rn n X) _ _ _ _ _ (addP [n]) _ cs d d' m m' H1 H2 H3 H5 H4)); unfold Rn; cbn [fst snd];
    clear cs d d' m m' H1 H2 H3 H4 H5.
  - intros pd k v e Hne H. rewrite pd_get_set_neq by congruence. exact H.
  - intros pd k e x' [J1 J2] Hg. rewrite Hg in *. rewrite pd_get_set_eq. cbn [eff] in *.
    split; [discriminate|exact J2].
  - intros pd k x x' Hb H. destruct (pd_get k pd); [exact H|congruence].
  - intros pd k a [J1 J2]. destruct (pd_get k pd); [split; assumption|]. cbn [eff] in J1. congruence.
  - intros pd k e Hne H. rewrite pd_get_del_neq by congruence. exact H.
  - intros pd i k dflt val [Hn Hv]. split.
    + destruct val as [v|]; [rewrite pd_get_set_eq; discriminate|].
      destruct dflt; [|discriminate]. destruct (pd_get k pd); discriminate.
    + intros ->. exfalso. apply Hn. left. reflexivity.
Qed.

Theorem added_value d pre i n dflt val post c d' c' b b' :
  apply_defs (pre ++ Add i n dflt val :: post) d = Some d' ->
  change_call (pre ++ Add i n dflt val :: post) d c = Some c' ->
  side_ok d (pre ++ Add i n dflt val :: post) c d' = true ->
  bind d c = Some b -> bind d' c' = Some b' -> In n (names d') ->
  lookup n b' = match val with Some v => Some v | None => dflt end.
Proof.
  set (cs := pre ++ Add i n dflt val :: post). intros Hd Hc Hside Hb Hb' Hin.
  unfold Args.change_call in Hc. rewrite Hd in Hc.
  destruct (apply_maps cs d (mapping_init d c)) as [m'|] eqn:Hm; [|discriminate]. inversion Hc; subst c'. clear Hc.
  destruct (preserve_strong d cs c d' m' b Hd Hm Hside Hb) as [b2 [B1 [B2 _]]].
  rewrite B1 in Hb'. inversion Hb'; subst b2. clear Hb'.
  (* split the run at the adder *)
  unfold cs in Hd, Hm. destruct (apply_maps_app _ _ _ _ _ Hm) as [d1 [m1 [Hd1 [Hm1 Hm2]]]].
  destruct (apply_defs_app _ _ _ _ Hd) as [d1' [Hd1' Hd2]]. rewrite Hd1 in Hd1'. inversion Hd1'; subst d1'. clear Hd1'.
  cbn [apply_defs Args.apply_maps] in Hd2, Hm2.
  destruct (change_map (Add i n dflt val) d1 m1) as [m2|] eqn:Em; [|discriminate].
  destruct (change_def (Add i n dflt val) d1) as [d2|] eqn:Ed; [|discriminate].
  (* side conditions *)
  pose proof Hside as Hside'. unfold Args.side_ok in Hside'. rewrite !andb_true_iff in Hside'.
  destruct Hside' as [[[[_ Hadds] _] _] Hnds]. fold cs in Hadds.
  destruct (adds_ok_mid _ _ _ _ _ _ _ Hadds) as [A1 [A2 [A3 A4]]].
  assert (rdel = true -> nodup_steps (pre ++ [Add i n dflt val]) d = true /\ nodup_steps post d2 = true) as Hnd.
  { intros Hr. rewrite Hr in Hnds. cbn [negb orb] in Hnds. fold cs in Hnds. unfold cs in Hnds.
    rewrite (nodup_steps_app pre _ d d1 Hd1) in Hnds. apply andb_true_iff in Hnds. destruct Hnds as [N1 N2].
    cbn [nodup_steps] in N2. rewrite Ed in N2. apply andb_true_iff in N2. destruct N2 as [N2 N3].
    split; [|exact N3]. rewrite (nodup_steps_app pre _ d d1 Hd1). rewrite N1. cbn [nodup_steps andb]. rewrite Ed, N2.
    cbn [andb]. destruct post; cbn [nodup_steps] in N3; apply andb_true_iff in N3; destruct N3 as [N3 _]; rewrite N3; reflexivity. }
  (* n is not a key before the adder *)
  assert (pd_get n (m_pd m1) = None) as Hfresh.
  { destruct (pd_get n (m_pd m1)) eqn:E; [|reflexivity]. exfalso.
    assert (In n (names d1) \/ pd_get n (m_pd m1) <> None) as Hk by (right; congruence).
    destruct (steps_keys _ _ _ _ _ Hd1 Hm1 n Hk) as [J|[J|J]].
    - apply A1. apply in_or_app. left. exact J.
    - apply A1. apply in_or_app. left. apply (mapping_init_keys d c n J).
    - exact (A2 J). }
  (* the invariant P up to and including the adder gives "every parameter has a value" *)
  assert (Forall (addP (names d)) (pre ++ [Add i n dflt val])) as HaP.
  { assert (Forall (addP (names d)) cs) as H0.
    { eapply adds_ok_addP; [exact Hadds|]. intros x Hx. apply in_or_app. left. exact Hx. }
    unfold cs in H0. rewrite Forall_forall in *. intros x Hx. apply H0.
    apply in_app_or in Hx. apply in_or_app. destruct Hx as [Hx|[<-|[]]]; [left; exact Hx|right; left; reflexivity]. }
  unfold bind in Hb. destruct (plain_call c); [|discriminate].
  destruct (init_spec d c b Hb) as [_ [I1 _]].
  assert (Forall (P b (names d) (m_pd (mapping_init d c))) (d_args d)) as HP0.
  { rewrite Forall_forall. intros [k dk] Hk. destruct (I1 _ _ Hk) as [J1 J2]. unfold P. cbn [fst snd].
    rewrite J1. split; [exact J2|reflexivity]. }
  pose proof (apply_defs_snoc _ _ _ _ _ Hd1 Ed) as Hd12.
  pose proof (apply_maps_snoc _ _ _ _ _ _ _ _ Hd1 Hm1 Em Ed) as Hm12.
  destruct (steps_P b (names d) _ _ _ _ _ Hd12 Hm12 HaP (fun Hr => proj1 (Hnd Hr)) HP0) as [HP2 _].
  (* start the invariant about n after the adder *)
  set (X := match val with Some v => Some v | None => dflt end).
  assert (Forall (Rn n X (m_pd m2)) (d_args d2)) as HR2.
  { cbn [change_def Args.change_map] in Ed, Em. destruct (has_param (d_args d1) n) eqn:Ehp; [discriminate|].
    inversion Ed; subst d2. cbn [d_args] in *. rewrite Forall_forall in *. intros [k dk] Hk.
    destruct (HP2 _ Hk) as [J1 _]. unfold Rn. cbn [fst snd] in *. split; [exact J1|]. intros ->.
    apply In_insert_nth in Hk. destruct Hk as [Hk|Hk].
    - inversion Hk; subst dk. unfold X. destruct val as [v|]; inversion Em; subst m2; cbn [m_pd].
      + rewrite pd_get_set_eq. reflexivity.
      + rewrite Hfresh. reflexivity.
    - exfalso. unfold has_param in Ehp. apply has_name_false in Ehp. apply Ehp.
      change n with (fst (n, dk)). apply in_map. exact Hk. }
  pose proof (steps_Rn n X post d2 d' m2 m' Hd2 Hm2 A4 (fun Hr => proj2 (Hnd Hr)) HR2) as HRf.
  unfold names in Hin. apply in_map_iff in Hin. destruct Hin as [[k dk] [E1 E2]]. cbn [fst] in E1. subst k.
  rewrite (B2 _ _ E2). rewrite Forall_forall in HRf. destruct (HRf _ E2) as [_ J]. cbn [fst snd] in J.
  apply J. reflexivity.
Qed.

(* ------------------------------------------------------------------------------------------------ *)
(* text level: what to_string prints is read back by CallInfo.read as the same call                   *)
Lemma render_read_gen d' c' r' :
  call_render c' = Some r' -> c_kwstar c' = None -> c_implicit c' && c_ctor c' = false ->
  (c_ctor c' = true -> exists n rest dflt ps, c_args c' = n :: rest /\ d_args d' = (n, dflt) :: ps) ->
  call_read d' (c_implicit c') (c_ctor c') r' = Some c'.
Proof.
  destruct c' as [fn args kws st kst imp ct]. unfold call_render, Args.call_read.
  cbn [c_fname c_args c_kws c_star c_kwstar c_implicit c_ctor]. intros Hr Hk Hx Hc. subst kst.
  destruct imp.
  - destruct ct; [discriminate|]. destruct args as [|a rest]; [discriminate|]. inversion Hr; subst. reflexivity.
  - destruct ct.
    + destruct (Hc eq_refl) as [n [rest [dflt [ps [E1 E2]]]]]. subst args. inversion Hr; subst.
      cbn [r_kwstar is_some r_recv r_pos tl r_fname r_kws r_star]. rewrite E2. reflexivity.
    + inversion Hr; subst. reflexivity.
Qed.

Lemma slot_set_unbound n v : forall slots s', slot_set n v slots = Some s' -> sget n slots = None.
Proof.
  induction slots as [|[m b] r IH]; intros s'; cbn [slot_set sget]; [discriminate|].
  destruct (N.eqb m n).
  - destruct b; [discriminate|reflexivity].
  - destruct (slot_set n v r) as [r'|] eqn:E; [|discriminate]. intros _. eapply IH. reflexivity.
Qed.

Lemma bind_kws_keeps hk k v : forall kws slots extra slots' extra',
  bind_kws hk kws slots extra = Some (slots', extra') -> sget k slots = Some v -> sget k slots' = Some v.
Proof.
  induction kws as [|[n w] kws IH]; intros slots extra slots' extra'; cbn [bind_kws].
  - intros H. inversion H; subst. auto.
  - destruct (has_name n (map fst slots)).
    + destruct (slot_set n w slots) as [s1|] eqn:Es; [|discriminate]. intros H Hk.
      eapply IH; [exact H|]. destruct (slot_set_sget _ _ _ _ Es) as [J _]. rewrite J.
      destruct (N.eqb_spec n k); [|exact Hk]. subst. rewrite (slot_set_unbound _ _ _ _ Es) in Hk. discriminate.
    + destruct (hk && negb (has_name n (map fst extra))); [|discriminate]. apply IH.
Qed.

Lemma bind_args_inv d args kws b :
  bind_args d args kws = Some b ->
  valid_def d = true /\ exists slots' extra bp,
    bind_kws (is_some (d_kw d)) kws (fst (bind_pos (d_args d) args)) [] = Some (slots', extra)
    /\ fill_defaults (d_args d) slots' = Some bp
    /\ b = mkBind bp (snd (bind_pos (d_args d) args)) extra.
Proof.
  unfold bind_args. destruct (valid_def d); cbn [negb]; [|discriminate]. intros H. split; [reflexivity|].
  destruct (bind_pos (d_args d) args) as [slots surplus]. cbn [fst snd].
  destruct surplus as [|x sr].
  - destruct (bind_kws (is_some (d_kw d)) kws slots []) as [[s' e]|] eqn:Ek; [|discriminate].
    destruct (fill_defaults (d_args d) s') as [bp|] eqn:Ef; [|discriminate].
    inversion H; subst. exists s', e, bp. auto.
  - destruct (d_star d); [|discriminate].
    destruct (bind_kws (is_some (d_kw d)) kws slots []) as [[s' e]|] eqn:Ek; [|discriminate].
    destruct (fill_defaults (d_args d) s') as [bp|] eqn:Ef; [|discriminate].
    inversion H; subst. exists s', e, bp. auto.
Qed.

(* the first positional argument is what the first parameter receives *)
Lemma bind_first d v args kws b n dflt ps :
  bind_args d (v :: args) kws = Some b -> d_args d = (n, dflt) :: ps -> lookup n b = Some v.
Proof.
  intros H Hd. destruct (bind_args_inv _ _ _ _ H) as [Hv [slots' [extra [bp [Hk [Hf Hb]]]]]].
  pose proof (valid_def_NoDup _ Hv) as ND. unfold names in ND.
  pose proof (bind_pos_names (d_args d) (v :: args)) as Hnm.
  assert (sget n (fst (bind_pos (d_args d) (v :: args))) = Some v) as Hs.
  { rewrite Hd. cbn [bind_pos]. destruct (bind_pos ps args). cbn [fst sget]. rewrite N.eqb_refl. reflexivity. }
  pose proof (bind_kws_keeps _ _ _ _ _ _ _ _ Hk Hs) as Hs'.
  assert (map fst slots' = map fst (d_args d)) as Hn'.
  { assert (forall kws0 slots0 extra0 s1 e1, bind_kws (is_some (d_kw d)) kws0 slots0 extra0 = Some (s1, e1) ->
                                             map fst s1 = map fst slots0) as Hgen.
    { induction kws0 as [|[k w] kws0 IH]; intros slots0 extra0 s1 e1; cbn [bind_kws].
      - intros H0. inversion H0; subst. reflexivity.
      - destruct (has_name k (map fst slots0)).
        + destruct (slot_set k w slots0) as [s2|] eqn:Es; [|discriminate]. intros H0.
          rewrite (IH _ _ _ _ H0). apply (slot_set_sget _ _ _ _ Es).
        + destruct (is_some (d_kw d) && negb (has_name k (map fst extra0))); [|discriminate]. apply IH. }
    rewrite (Hgen _ _ _ _ _ Hk). exact Hnm. }
  destruct (fill_lookup _ _ _ ND Hn' Hf) as [_ F2].
  assert (In (n, dflt) (d_args d)) as Hin by (rewrite Hd; left; reflexivity).
  destruct (F2 _ _ Hin) as [F3 _]. subst b. unfold lookup. cbn [b_params]. rewrite F3, Hs'. reflexivity.
Qed.

Theorem text_roundtrip d cs implicit ctor r c d' c' r' b :
  call_read d implicit ctor r = Some c ->
  apply_defs cs d = Some d' -> change_call cs d c = Some c' -> call_render c' = Some r' ->
  side_ok d cs c d' = true -> recv_ok d c d' = true -> bind d c = Some b ->
  call_read d' implicit ctor r' = Some c'.
Proof.
  intros Hread Hd Hc Hrend Hside Hrecv Hb.
  assert (c_kwstar c = None) as Ck.
  { unfold bind, plain_call in Hb. destruct (c_kwstar c); [|reflexivity].
    cbn [is_some negb] in Hb. rewrite andb_false_r in Hb. discriminate. }
  assert (c_implicit c = implicit /\ c_ctor c = ctor
          /\ (ctor = true -> exists n dflt ps, d_args d = (n, dflt) :: ps /\ exists rest, c_args c = n :: rest)) as [Ci [Cc Cf]].
  { unfold Args.call_read in Hread. destruct (is_some (r_kwstar r) && negb kwfix); [discriminate|].
    destruct ctor.
    - destruct (d_args d) as [|[n dflt] ps] eqn:Ed; [discriminate|]. inversion Hread; subst c. cbn.
      repeat split; auto. intros _. exists n, dflt, ps. split; [reflexivity|]. eexists. reflexivity.
    - inversion Hread; subst c. cbn. repeat split; auto. discriminate. }
  unfold Args.change_call in Hc. rewrite Hd in Hc.
  destruct (apply_maps cs d (mapping_init d c)) as [m'|] eqn:Hm; [|discriminate]. inversion Hc; subst c'. clear Hc.
  assert (c_implicit (to_call_info m' c d') = implicit /\ c_ctor (to_call_info m' c d') = ctor
          /\ c_kwstar (to_call_info m' c d') = None) as [Ti [Tc Tk]].
  { unfold to_call_info. destruct (tci (d_args d') (m_pd m')). cbn. auto. }
  rewrite <- Ti, <- Tc. unfold recv_ok in Hrecv. rewrite andb_true_iff in Hrecv. destruct Hrecv as [R1 R2].
  apply render_read_gen; [exact Hrend|exact Tk| |].
  { rewrite Ti, Tc, <- Ci, <- Cc. apply negb_true_iff. exact R1. }
  rewrite Tc. intros ->. destruct (Cf eq_refl) as [n [dflt [ps [Ed [rest Ea]]]]].
  rewrite Cc, orb_true_r in R2. cbn [negb orb] in R2. unfold first_name in R2. rewrite Ed in R2.
  destruct (d_args d') as [|[n' dflt'] ps'] eqn:Ed'; [discriminate|]. cbn [opt_N_eqb] in R2. apply N.eqb_eq in R2. subst n'.
  destruct (preserve_strong d cs c d' m' b Hd Hm Hside Hb) as [b' [_ [_ [HP _]]]].
  unfold bind in Hb. destruct (plain_call c); [|discriminate]. rewrite Ea in Hb.
  pose proof (bind_first _ _ _ _ _ _ _ _ Hb Ed) as Hl.
  assert (pd_get n (m_pd m') <> None) as Hbound.
  { pose proof Hside as Hs. unfold Args.side_ok in Hs. rewrite !andb_true_iff in Hs. destruct Hs as [[[[_ Hadds] _] _] Hnds].
    eapply (steps_mono n cs d d'); [exact Hd|exact Hm| | | |].
    - eapply adds_ok_addP; [exact Hadds|]. intros x [<-|[]]. apply in_or_app. left. unfold names. rewrite Ed. left. reflexivity.
    - intros Hr. rewrite Hr in Hnds. exact Hnds.
    - unfold names. rewrite Ed'. left. reflexivity.
    - destruct (mapping_init_fields d c) as [_ [_ ->]].
      apply map_kws_mono. rewrite Ed, Ea. cbn [map_pos]. apply map_pos_mono. rewrite pd_get_set_eq. discriminate. }
  rewrite Ed' in HP. inversion HP as [|? ? HP1 _]; subst. destruct HP1 as [_ HP1]. cbn [fst snd] in HP1.
  assert (In n (names d)) as Hin by (unfold names; rewrite Ed; left; reflexivity).
  specialize (HP1 Hin). rewrite Hl in HP1.
  destruct (pd_get n (m_pd m')) as [w|] eqn:Eg; [|congruence]. cbn [eff] in HP1. inversion HP1; subst w.
  unfold to_call_info. rewrite Ed'. cbn [tci]. rewrite Eg. destruct (tci ps' (m_pd m')) as [a k]. cbn [c_args app].
  exists n, (a ++ m_surplus m'), dflt', ps'. auto.
Qed.

(* ------------------------------------------------------------------------------------------------ *)
(* C06_removed_unused: removing a parameter needs no side condition                                   *)
Lemma defaults_suffix_mono l : defaults_suffix true l = true -> defaults_suffix false l = true.
Proof. destruct l as [|[n [e|]] r]; cbn [defaults_suffix negb andb]; intros H; try discriminate; auto. Qed.

Lemma defaults_suffix_delete : forall l i s, defaults_suffix s l = true -> defaults_suffix s (delete_nth i l) = true.
Proof.
  induction l as [|[n [e|]] r IH]; intros [|j] s; cbn [defaults_suffix delete_nth]; auto.
  - intros H. destruct s; [exact H|apply defaults_suffix_mono; exact H].
  - rewrite !andb_true_iff. intros [H1 H2]. destruct s; [discriminate|exact H2].
  - rewrite !andb_true_iff. intros [H1 H2]. split; [exact H1|apply IH; exact H2].
Qed.

Lemma map_delete_nth {A B} (f : A -> B) : forall l i, map f (delete_nth i l) = delete_nth i (map f l).
Proof.
  induction l as [|x l IH]; intros [|i]; cbn [delete_nth map]; try reflexivity. f_equal. apply IH.
Qed.

Lemma NoDup_delete_app {A} (rest : list A) : forall l i, NoDup (l ++ rest) -> NoDup (delete_nth i l ++ rest).
Proof.
  induction l as [|x l IH]; intros [|i] H; cbn [delete_nth app] in *; auto.
  - inversion H; assumption.
  - inversion H as [|? ? Hx Hr]; subst. constructor; [|apply IH; exact Hr].
    intros Hin. apply Hx. apply in_app_or in Hin. apply in_or_app. destruct Hin as [Hin|Hin]; [|right; exact Hin].
    left. eapply In_delete_nth. exact Hin.
Qed.

Lemma valid_def_delete d i :
  valid_def d = true -> valid_def (mkDef (delete_nth i (d_args d)) (d_star d) (d_kw d)) = true.
Proof.
  unfold valid_def, names. cbn [d_args d_star d_kw]. rewrite !andb_true_iff. intros [H1 H2]. split.
  - apply nodup_names_NoDup. apply nodup_names_NoDup in H1. rewrite map_delete_nth. apply NoDup_delete_app. exact H1.
  - apply defaults_suffix_delete. exact H2.
Qed.

Lemma map_pos_surplus_nonempty : forall ps args pd, length ps < length args -> snd (map_pos ps args pd) <> [].
Proof.
  induction ps as [|[n d] ps IH]; intros args pd H; destruct args as [|v args]; cbn [map_pos snd]; cbn [length] in H; try lia.
  - discriminate.
  - apply IH. lia.
Qed.

Lemma map_kws_kwargs_app ps : forall kws pd kwargs,
  snd (map_kws ps kws pd kwargs) = kwargs ++ snd (map_kws ps kws pd []).
Proof.
  induction kws as [|[n v] kws IH]; intros pd kwargs; cbn [map_kws snd].
  - rewrite app_nil_r. reflexivity.
  - destruct (has_param ps n); [apply IH|]. rewrite (IH pd (kwargs ++ [(n, v)])), (IH pd ([] ++ [(n, v)])).
    rewrite <- app_assoc. reflexivity.
Qed.

Lemma map_kws_extra_nonempty ps : forall kws pd,
  existsb (fun kv => negb (has_param ps (fst kv))) kws = true -> snd (map_kws ps kws pd []) <> [].
Proof.
  induction kws as [|[n v] kws IH]; intros pd H; cbn [existsb fst] in H; [discriminate|]. cbn [map_kws].
  destruct (has_param ps n); cbn [negb orb] in H.
  - apply IH. exact H.
  - rewrite map_kws_kwargs_app. cbn [app]. discriminate.
Qed.

Theorem removed_unused d i c b :
  i < length (d_args d) -> bind d c = Some b ->
  exists d' c' b',
    apply_defs [Remove i] d = Some d' /\ change_call [Remove i] d c = Some c'
    /\ names d' = delete_nth i (names d) /\ d_star d' = d_star d /\ d_kw d' = d_kw d
    /\ bind d' c' = Some b'
    /\ (forall n, In n (names d') -> lookup n b' = lookup n b)
    /\ b_star b' = b_star b /\ b_kw b' = b_kw b /\ map fst (b_params b') = names d'.
Proof.
  intros Hi Hb. set (d' := mkDef (delete_nth i (d_args d)) (d_star d) (d_kw d)).
  assert (apply_defs [Remove i] d = Some d') as Hd.
  { cbn [apply_defs change_def]. apply Nat.ltb_lt in Hi. rewrite Hi. reflexivity. }
  assert (exists m1, apply_maps [Remove i] d (mapping_init d c) = Some m1) as [m1 Hm1].
  { cbn [Args.apply_maps Args.change_map change_def]. apply Nat.ltb_lt in Hi. rewrite Hi.
    destruct rdel; [|eexists; reflexivity]. destruct (nth_error (d_args d) i) as [[n dn]|]; eexists; reflexivity. }
  assert (change_call [Remove i] d c = Some (to_call_info m1 c d')) as Hc.
  { unfold Args.change_call. rewrite Hd, Hm1. reflexivity. }
  pose proof Hb as Hb0. unfold bind in Hb0. destruct (plain_call c); [|discriminate].
  destruct (init_spec d c b Hb0) as [_ [_ [I2 [I3 [_ [_ [I6 [I7 _]]]]]]]].
  destruct (bind_args_inv _ _ _ _ Hb0) as [Hv _].
  destruct (mapping_init_fields d c) as [M1 [M2 _]].
  assert (side_ok d [Remove i] c d' = true) as Hside.
  { unfold Args.side_ok. rewrite !andb_true_iff. repeat split.
    - apply valid_def_delete. exact Hv.
    - unfold has_surplus. destruct (length (d_args d) <? length (c_args c)) eqn:El; [|reflexivity].
      cbn [negb orb adds_have_value forallb andb d_star d']. apply Nat.ltb_lt in El.
      assert (b_star b <> []) as Hne by (rewrite <- I2, M1; apply map_pos_surplus_nonempty; exact El).
      specialize (I7 Hne). destruct (d_star d); [reflexivity|congruence].
    - unfold has_extra_kw. destruct (existsb (fun kv => negb (has_param (d_args d) (fst kv))) (c_kws c)) eqn:Ee; [|reflexivity].
      cbn [negb orb d_kw d'].
      assert (b_kw b <> []) as Hne by (rewrite <- I3, M2; apply map_kws_extra_nonempty; exact Ee).
      specialize (I6 Hne). destruct (d_kw d); [reflexivity|congruence].
    - destruct rdel; [|reflexivity]. cbn [negb orb nodup_steps change_def]. apply Nat.ltb_lt in Hi. rewrite Hi. fold d'.
      rewrite andb_true_r. apply andb_true_iff. split; apply nodup_names_NoDup, valid_def_NoDup; [exact Hv|].
      apply valid_def_delete. exact Hv. }
  destruct (preserve d [Remove i] c d' _ b Hd Hc Hside Hb) as [b' [B1 [B2 [B3 [B4 B5]]]]].
  exists d', (to_call_info m1 c d'), b'.
  assert (names d' = delete_nth i (names d)) as Hn by (unfold names, d'; cbn [d_args]; apply map_delete_nth).
  repeat split; auto.
  intros n Hn'. apply B2; [|exact Hn']. rewrite Hn in Hn'. eapply In_delete_nth. exact Hn'.
Qed.

(* ------------------------------------------------------------------------------------------------ *)
(* C06_inline_default: a call that relied on the default passes it explicitly afterwards              *)
Lemma map_pos_passed n : forall ps args pd,
  pd_get n (fst (map_pos ps args pd)) <> None -> pd_get n pd <> None \/ passed_pos ps args n <> None.
Proof.
  induction ps as [|[m dm] ps IH]; intros args pd H; destruct args as [|v args]; cbn [map_pos fst passed_pos] in *; auto.
  destruct (N.eqb_spec m n); [right; discriminate|].
  destruct (IH _ _ H) as [J|J]; [|right; exact J]. rewrite pd_get_set_neq in J by assumption. left. exact J.
Qed.

Lemma map_kws_passed n ps : forall kws pd kwargs,
  pd_get n (fst (map_kws ps kws pd kwargs)) <> None -> pd_get n pd <> None \/ pd_get n kws <> None.
Proof.
  induction kws as [|[k v] kws IH]; intros pd kwargs H; cbn [map_kws fst pd_get] in *; auto.
  destruct (N.eqb_spec k n); [right; discriminate|].
  destruct (has_param ps k); destruct (IH _ _ H) as [J|J]; auto.
  rewrite pd_get_set_neq in J by assumption. left. exact J.
Qed.

Lemma passed_none_unbound d c n : passed d c n = None -> pd_get n (m_pd (mapping_init d c)) = None.
Proof.
  unfold passed. intros H. destruct (pd_get n (m_pd (mapping_init d c))) eqn:E; [|reflexivity]. exfalso.
  destruct (mapping_init_fields d c) as [_ [_ M3]]. rewrite M3 in E.
  assert (pd_get n (fst (map_kws (d_args d) (c_kws c) (fst (map_pos (d_args d) (c_args c) [])) [])) <> None) as E' by congruence.
  destruct (map_kws_passed _ _ _ _ _ E') as [J|J].
  - destruct (map_pos_passed _ _ _ _ J) as [J1|J1]; [cbn in J1; congruence|].
    destruct (passed_pos (d_args d) (c_args c) n); congruence.
  - destruct (passed_pos (d_args d) (c_args c) n); [discriminate|]. congruence.
Qed.

Lemma tci_kws_get pd n v rest : forall ps dn, NoDup (map fst ps) -> In (n, dn) ps -> pd_get n pd = Some v ->
  pd_get n (tci_kws ps pd ++ rest) = Some v.
Proof.
  induction ps as [|[m dm] ps IH]; intros dn ND Hin Hg; [contradiction|]. cbn [tci_kws].
  inversion ND as [|? ? Hm ND']; subst.
  destruct Hin as [Hin|Hin].
  - inversion Hin; subst. rewrite Hg. cbn [app pd_get]. rewrite N.eqb_refl. reflexivity.
  - assert (m <> n) as Hne.
    { intros ->. apply Hm. change n with (fst (n, dn)). apply in_map. exact Hin. }
    destruct (pd_get m pd); [cbn [app pd_get]; apply N.eqb_neq in Hne; rewrite Hne|]; eapply IH; eauto.
Qed.

Lemma passed_pos_nil ps n : passed_pos ps [] n = None.
Proof. destruct ps as [|[m d] ps]; reflexivity. Qed.

Lemma passed_tci pd sur kwargs n v : forall ps dn,
  NoDup (map fst ps) -> In (n, dn) ps -> pd_get n pd = Some v -> (sur <> [] -> Forall (Q pd) ps) ->
  match passed_pos ps (fst (tci ps pd) ++ sur) n with
  | Some w => Some w
  | None => pd_get n (snd (tci ps pd) ++ kwargs)
  end = Some v.
Proof.
  induction ps as [|[m dm] ps IH]; intros dn ND Hin Hg HS; [contradiction|].
  inversion ND as [|? ? Hm ND']; subst. cbn [tci].
  destruct (pd_get m pd) as [w|] eqn:Em.
  - destruct (tci ps pd) as [a k] eqn:Et. cbn [fst snd app passed_pos].
    destruct (N.eqb_spec m n); [subst; congruence|].
    destruct Hin as [Hin|Hin]; [inversion Hin; congruence|].
    specialize (IH dn ND' Hin Hg). cbn [fst snd] in IH. apply IH.
    intros Hs. specialize (HS Hs). inversion HS; assumption.
  - assert (sur = []) as ->.
    { destruct sur as [|x sr]; [reflexivity|]. exfalso. assert (Forall (Q pd) ((m, dm) :: ps)) as HQ by (apply HS; discriminate).
      inversion HQ as [|? ? Hq _]; subst. unfold Q in Hq. cbn [fst] in Hq. congruence. }
    cbn [fst snd app]. rewrite passed_pos_nil.
    destruct Hin as [Hin|Hin]; [inversion Hin; congruence|]. eapply tci_kws_get; eauto.
Qed.

Lemma set_nth_Some {A} (y : A) : forall l i x, nth_error l i = Some x -> exists l', set_nth i y l = Some l'.
Proof.
  induction l as [|z l IH]; intros [|i] x H; cbn [nth_error set_nth] in *; try discriminate.
  - eexists. reflexivity.
  - destruct (IH _ _ H) as [l' ->]. eexists. reflexivity.
Qed.

Lemma set_nth_names {B} (n : N) (x y : B) : forall l i l', set_nth i (n, x) l = Some l' -> nth_error l i = Some (n, y) ->
  map fst l' = map fst l.
Proof.
  induction l as [|z l IH]; intros [|i] l'; cbn [nth_error set_nth]; try discriminate.
  - intros H1 H2. inversion H1; inversion H2; subst. reflexivity.
  - destruct (set_nth i (n, x) l) as [r|] eqn:E; [|discriminate]. intros H1 H2. inversion H1; subst.
    cbn [map]. f_equal. eapply IH; eauto.
Qed.

Lemma In_set_nth_self {A} (x : A) : forall l i l', set_nth i x l = Some l' -> In x l'.
Proof.
  induction l as [|z l IH]; intros [|i] l'; cbn [set_nth]; try discriminate.
  - intros H. inversion H; subst. left. reflexivity.
  - destruct (set_nth i x l) as [r|] eqn:E; [|discriminate]. intros H. inversion H; subst. right. eapply IH. exact E.
Qed.

Theorem inline_default d i rm n e c b :
  nth_error (d_args d) i = Some (n, Some e) -> bind d c = Some b -> passed d c n = None ->
  exists d' c',
    apply_defs [InlineDefault i rm] d = Some d' /\ change_call [InlineDefault i rm] d c = Some c'
    /\ names d' = names d /\ d_star d' = d_star d /\ d_kw d' = d_kw d
    /\ In (n, if rm then None else Some e) (d_args d')
    /\ passed d' c' n = Some e.
Proof.
  intros Hn Hb Hp. pose proof (passed_none_unbound _ _ _ Hp) as Hu.
  unfold bind in Hb. destruct (plain_call c); [|discriminate].
  destruct (init_spec d c b Hb) as [ND [_ [I2 [I3 [I4 _]]]]].
  assert (exists d', change_def (InlineDefault i rm) d = Some d' /\ map fst (d_args d') = map fst (d_args d)
                     /\ d_star d' = d_star d /\ d_kw d' = d_kw d
                     /\ In (n, if rm then None else Some e) (d_args d')) as [d' [Hd [Hnm [Hst [Hkw Hin]]]]].
  { cbn [change_def]. destruct rm.
    - rewrite Hn. destruct (set_nth_Some (n, @None N) _ _ _ Hn) as [a Ha]. rewrite Ha. eexists. split; [reflexivity|].
      cbn [d_args d_star d_kw]. repeat split; auto.
      + eapply set_nth_names; eauto.
      + eapply In_set_nth_self. exact Ha.
    - exists d. repeat split; auto. eapply nth_error_In. exact Hn. }
  set (m1 := mkMap (pd_set n e (m_pd (mapping_init d c))) (m_kwargs (mapping_init d c)) (m_surplus (mapping_init d c))).
  assert (apply_maps [InlineDefault i rm] d (mapping_init d c) = Some m1) as Hm.
  { cbn [Args.apply_maps Args.change_map]. rewrite Hn, Hu, Hd. reflexivity. }
  exists d', (to_call_info m1 c d'). split; [cbn [apply_defs]; rewrite Hd; reflexivity|].
  split; [unfold Args.change_call; cbn [apply_defs]; rewrite Hd, Hm; reflexivity|].
  split; [exact Hnm|]. split; [exact Hst|]. split; [exact Hkw|]. split; [exact Hin|].
  unfold passed, to_call_info. destruct (tci (d_args d') (m_pd m1)) as [a k] eqn:Et. cbn [c_args c_kws].
  assert (NoDup (map fst (d_args d'))) as ND' by (rewrite Hnm; exact ND).
  assert (pd_get n (m_pd m1) = Some e) as Hg by (unfold m1; cbn [m_pd]; apply pd_get_set_eq).
  assert (m_surplus m1 <> [] -> Forall (Q (m_pd m1)) (d_args d')) as HS.
  { intros Hne. eapply steps_Q with (cs := [InlineDefault i rm]) (d := d) (m := mapping_init d c).
    - cbn [apply_defs]. rewrite Hd. reflexivity.
    - exact Hm.
    - constructor; [exact I|constructor].
    - intros _. cbn [nodup_steps]. rewrite Hd. unfold names. rewrite Hnm. cbn [nodup_steps]. rewrite !andb_true_r.
      apply andb_true_iff. split; apply nodup_names_NoDup; exact ND.
    - destruct (mapping_init_fields d c) as [M1 [_ M3]]. unfold m1 in Hne. cbn [m_surplus] in Hne. rewrite M1 in Hne.
      assert (length (d_args d) < length (c_args c)) as Hl.
      { destruct (Nat.lt_ge_cases (length (d_args d)) (length (c_args c))) as [Hl|Hl]; [exact Hl|].
        exfalso. apply Hne. apply map_pos_no_surplus. exact Hl. }
      rewrite M3. pose proof (map_pos_surplus (d_args d) (c_args c) [] Hl) as HQ.
      rewrite Forall_forall in *. intros x Hx. unfold Q. apply map_kws_mono. apply HQ. exact Hx. }
  pose proof (passed_tci (m_pd m1) (m_surplus m1) (m_kwargs m1) n e (d_args d') _ ND' Hin Hg HS) as Hpt.
  rewrite Et in Hpt. cbn [fst snd] in Hpt.
  destruct (passed_pos (d_args d') (a ++ m_surplus m1) n); exact Hpt.
Qed.

(* ------------------------------------------------------------------------------------------------ *)
(* C06_reorder_perm: with a permutation as new_order the parameters are exactly permuted              *)
Lemma set_nth_spec {A} (p : A) : forall acc k, k < length acc ->
  set_nth k p acc = Some (firstn k acc ++ p :: skipn (S k) acc).
Proof.
  induction acc as [|x acc IH]; intros [|k] H; cbn [length] in H; try lia; cbn [set_nth firstn skipn app].
  - reflexivity.
  - rewrite IH by lia. reflexivity.
Qed.

Lemma skipn_skipn' {A} : forall b a (l : list A), skipn a (skipn b l) = skipn (b + a) l.
Proof.
  induction b as [|b IH]; intros a l; [reflexivity|]. destruct l as [|x l]; cbn [skipn plus].
  - destruct a; reflexivity.
  - apply IH.
Qed.

Lemma reorder_loop_spec old dummy : forall order k acc,
  (forall i, In i order -> i < length old) -> k + length order <= length acc ->
  reorder_loop old order k acc
  = Some (firstn k acc ++ map (fun i => nth i old dummy) order ++ skipn (k + length order) acc).
Proof.
  induction order as [|i rest IH]; intros k acc Hin Hlen; cbn [reorder_loop map length app].
  - rewrite Nat.add_0_r, firstn_skipn. reflexivity.
  - cbn [length] in Hlen. rewrite (nth_error_nth' old dummy) by (apply Hin; left; reflexivity).
    rewrite set_nth_spec by lia.
    set (p := nth i old dummy). set (acc' := firstn k acc ++ p :: skipn (S k) acc).
    assert (length (firstn k acc) = k) as Hfk by (apply firstn_length_le; lia).
    assert (length acc' = length acc) as Hl.
    { unfold acc'. rewrite app_length. cbn [length]. rewrite Hfk, skipn_length. lia. }
    rewrite IH; [|intros j Hj; apply Hin; right; exact Hj|rewrite Hl; lia].
    f_equal.
    assert (firstn (S k) acc' = firstn k acc ++ [p]) as ->.
    { unfold acc'. rewrite firstn_app, Hfk. replace (S k - k) with 1 by lia.
      rewrite (firstn_all2 (firstn k acc)) by lia. reflexivity. }
    assert (skipn (S k + length rest) acc' = skipn (k + S (length rest)) acc) as ->.
    { unfold acc'. rewrite skipn_app, Hfk. rewrite skipn_all2 by lia. cbn [app].
      replace (S k + length rest - k) with (S (length rest)) by lia.
      change (skipn (S (length rest)) (p :: skipn (S k) acc)) with (skipn (length rest) (skipn (S k) acc)).
      rewrite skipn_skipn'. f_equal. lia. }
    rewrite <- app_assoc. reflexivity.
Qed.

Lemma autodef_pass_none : forall l s, autodef_pass None s l = l.
Proof.
  induction l as [|[n dflt] l IH]; intros s; cbn [autodef_pass]; [reflexivity|]. rewrite IH.
  destruct dflt; reflexivity.
Qed.

Lemma map_nth_seq {A} (d : A) : forall l, map (fun i => nth i l d) (seq 0 (length l)) = l.
Proof.
  induction l as [|x l IH]; [reflexivity|]. cbn [length]. rewrite <- cons_seq, <- seq_shift. cbn [map nth].
  rewrite map_map. cbn [nth]. f_equal. exact IH.
Qed.

Theorem reorder_perm d order :
  Permutation order (seq 0 (length (d_args d))) ->
  apply_defs [Reorder order None] d
  = Some (mkDef (map (fun i => nth i (d_args d) (0%N, None)) order) (d_star d) (d_kw d))
  /\ Permutation (map (fun i => nth i (d_args d) (0%N, None)) order) (d_args d).
Proof.
  intros Hp. split.
  - cbn [apply_defs change_def].
    rewrite (reorder_loop_spec (d_args d) (0%N, None)).
    + cbn [firstn app plus]. rewrite (Permutation_length Hp), seq_length. rewrite skipn_all. rewrite app_nil_r.
      rewrite autodef_pass_none. reflexivity.
    + intros i Hi. apply (Permutation_in _ Hp) in Hi. apply in_seq in Hi. lia.
    + rewrite (Permutation_length Hp), seq_length. lia.
  - eapply Permutation_trans; [apply Permutation_map; exact Hp|]. rewrite map_nth_seq. apply Permutation_refl.
Qed.

(* ------------------------------------------------------------------------------------------------ *)
(* the statement at the level of the program text: read the call, change it, print it, read it again *)
Theorem preserve_text d cs implicit ctor r c d' c' r' b :
  call_read d implicit ctor r = Some c ->
  apply_defs cs d = Some d' -> change_call cs d c = Some c' -> call_render c' = Some r' ->
  side_ok d cs c d' = true -> recv_ok d c d' = true -> bind d c = Some b ->
  exists c2 b', call_read d' implicit ctor r' = Some c2 /\ bind d' c2 = Some b'
    /\ (forall n, In n (names d) -> In n (names d') -> lookup n b' = lookup n b)
    /\ b_star b' = b_star b /\ b_kw b' = b_kw b /\ map fst (b_params b') = names d'.
Proof.
  intros H1 H2 H3 H4 H5 H6 H7. destruct (preserve d cs c d' c' b H2 H3 H5 H7) as [b' Hb'].
  exists c', b'. split; [|exact Hb']. eapply text_roundtrip; eauto.
Qed.

Lemma preserve_text_nonvacuous :
  exists d cs r c d' c' r' b,
    d = mkDef [(1, None); (2, None); (3, Some 10)]%N None (Some 8%N)
    /\ cs = [Reorder [0; 2; 1] (Some 11%N); InlineDefault 1 true]
    /\ r = mkRend None 20%N [31]%N [(9, 32)]%N None None
    /\ call_read d false true r = Some c
    /\ apply_defs cs d = Some d' /\ change_call cs d c = Some c' /\ call_render c' = Some r'
    /\ side_ok d cs c d' = true /\ recv_ok d c d' = true /\ bind d c = Some b
    /\ r' = mkRend None 20%N [10; 31]%N [(9, 32)]%N None None.
Proof. destruct rdel; do 8 eexists; repeat split; vm_compute; reflexivity. Qed.

(* the code as it is now (e1c84b5) *)
Lemma def_read_ok_current a :
  a_kwonly a = [] -> a_kwdefaults a = [] -> def_read true a = Some (def_of_ast a).
Proof. intros H1 H2. apply def_read_ok; auto. Qed.

Lemma def_read_ok_nonvacuous :
  exists a, a_kwonly a = [] /\ a_kwdefaults a = [] /\ a_vararg a <> None /\ a_defaults a <> []
            /\ def_read true a = Some (def_of_ast a)
            /\ def_of_ast a = mkDef [(1, None); (2, Some 3)]%N (Some 5%N) (Some 7%N).
Proof.
  exists (mkAst [1; 2]%N (Some (5, 6)%N) [3%N] (Some (7, 8)%N) [] [] 0%N 9%N).
  repeat split; try discriminate; vm_compute; reflexivity.
Qed.

Lemma added_nonvacuous :
  exists d pre i n dflt val post c d' c' b b',
    d = mkDef [(1, None); (2, Some 10)]%N None None
    /\ pre = [Remove 0] /\ post = [Reorder [1; 0] None] /\ n = 3%N /\ dflt = Some 12%N /\ val = None
    /\ apply_defs (pre ++ Add i n dflt val :: post) d = Some d'
    /\ change_call (pre ++ Add i n dflt val :: post) d c = Some c'
    /\ side_ok d (pre ++ Add i n dflt val :: post) c d' = true
    /\ bind d c = Some b /\ bind d' c' = Some b' /\ In n (names d') /\ lookup n b' = Some 12%N.
Proof.
  exists (mkDef [(1, None); (2, Some 10)]%N None None), [Remove 0], 1, 3%N, (Some 12%N), None, [Reorder [1; 0] None],
         (mkCall 20%N [30]%N [] None None false false).
  destruct rdel; do 4 eexists; (repeat split; try (vm_compute; reflexivity)); vm_compute; auto.
Qed.

Lemma removed_unused_nonvacuous :
  exists d i c b, d = mkDef [(1, None); (2, None); (3, Some 10)]%N (Some 7%N) None /\ i = 1
    /\ c = mkCall 20%N [30; 31; 32; 33]%N [] None None false false
    /\ i < length (d_args d) /\ bind d c = Some b.
Proof. do 4 eexists. repeat split; try (vm_compute; reflexivity). cbn. auto. Qed.

Lemma inline_default_nonvacuous :
  exists d i n e c b, d = mkDef [(1, None); (2, Some 10); (3, Some 11)]%N None None /\ i = 1
    /\ c = mkCall 20%N [30]%N [(3, 31)]%N None None false false
    /\ nth_error (d_args d) i = Some (n, Some e) /\ bind d c = Some b /\ passed d c n = None.
Proof. do 6 eexists. repeat split; vm_compute; reflexivity. Qed.

Lemma reorder_perm_nonvacuous :
  exists d order, d = mkDef [(1, None); (2, None); (3, Some 10)]%N None None /\ order = [1; 0; 2]
    /\ Permutation order (seq 0 (length (d_args d))).
Proof.
  do 2 eexists. repeat split. cbn. apply perm_swap.
Qed.

(* ------------------------------------------------------------------------------------------------ *)
(* C06_introduce_parameter: the new trailing parameter takes its default, nothing else moves          *)
Lemma defaults_suffix_snoc p e : forall l s, defaults_suffix s (l ++ [(p, Some e)]) = defaults_suffix s l.
Proof.
  induction l as [|[n [x|]] l IH]; intros s; cbn [app defaults_suffix]; auto. rewrite IH. reflexivity.
Qed.

Lemma bind_pos_snoc p dp : forall ps args, length args <= length ps ->
  bind_pos (ps ++ [(p, dp)]) args = (fst (bind_pos ps args) ++ [(p, None)], []) /\ snd (bind_pos ps args) = [].
Proof.
  induction ps as [|[n d] ps IH]; intros args H.
  - destruct args; [|cbn in H; lia]. cbn. auto.
  - destruct args as [|v args]; cbn [app bind_pos].
    + destruct (IH [] (Nat.le_0_l _)) as [I1 I2]. rewrite I1. destruct (bind_pos ps []) as [s r]. cbn [fst snd] in *. auto.
    + cbn [length] in H. destruct (IH args (le_S_n _ _ H)) as [I1 I2]. rewrite I1.
      destruct (bind_pos ps args) as [s r]. cbn [fst snd] in *. auto.
Qed.

Lemma slot_set_app n v x : forall slots s', slot_set n v slots = Some s' -> slot_set n v (slots ++ [x]) = Some (s' ++ [x]).
Proof.
  induction slots as [|[m b] r IH]; intros s'; cbn [slot_set app]; [discriminate|].
  destruct (N.eqb m n).
  - destruct b; [discriminate|]. intros H. inversion H; subst. reflexivity.
  - destruct (slot_set n v r) as [r'|] eqn:E; [|discriminate]. intros H. inversion H; subst.
    rewrite (IH _ eq_refl). reflexivity.
Qed.

Lemma has_name_app n a b : has_name n (a ++ b) = has_name n a || has_name n b.
Proof. unfold has_name. apply existsb_app. Qed.

Lemma bind_kws_snoc hk p : forall kws slots extra slots' extra',
  ~ In p (map fst kws) -> bind_kws hk kws slots extra = Some (slots', extra') ->
  bind_kws hk kws (slots ++ [(p, None)]) extra = Some (slots' ++ [(p, None)], extra').
Proof.
  induction kws as [|[n v] kws IH]; intros slots extra slots' extra' Hp; cbn [bind_kws].
  - intros H. inversion H; subst. reflexivity.
  - assert (n <> p) as Hne by (intros ->; apply Hp; left; reflexivity).
    assert (~ In p (map fst kws)) as Hp' by (intros Hx; apply Hp; right; exact Hx).
    rewrite map_app, has_name_app. cbn [map fst has_name existsb]. apply N.eqb_neq in Hne. rewrite Hne.
    cbn [orb]. rewrite orb_false_r.
    destruct (has_name n (map fst slots)).
    + destruct (slot_set n v slots) as [s1|] eqn:Es; [|discriminate]. rewrite (slot_set_app _ _ _ _ _ Es). apply IH. exact Hp'.
    + destruct (hk && negb (has_name n (map fst extra))); [|discriminate]. apply IH. exact Hp'.
Qed.

Lemma fill_defaults_snoc p e : forall ps slots bp, fill_defaults ps slots = Some bp ->
  fill_defaults (ps ++ [(p, Some e)]) (slots ++ [(p, None)]) = Some (bp ++ [(p, e)]).
Proof.
  induction ps as [|[n d] ps IH]; intros slots bp; destruct slots as [|[m b] s]; cbn [fill_defaults app]; try discriminate.
  - intros H. inversion H; subst. reflexivity.
  - destruct (match b with Some v => Some v | None => d end) as [v|]; [|discriminate].
    destruct (fill_defaults ps s) as [r|] eqn:E; [|discriminate]. intros H. inversion H; subst.
    rewrite (IH _ _ E). reflexivity.
Qed.

Lemma pd_get_app_l k v : forall l r, pd_get k l = Some v -> pd_get k (l ++ r) = Some v.
Proof.
  induction l as [|[k0 v0] l IH]; intros r; cbn [pd_get app]; [discriminate|].
  destruct (N.eqb k0 k); [auto|apply IH].
Qed.

Lemma pd_get_app_r k : forall l r, ~ In k (map fst l) -> pd_get k (l ++ r) = pd_get k r.
Proof.
  induction l as [|[k0 v0] l IH]; intros r H; cbn [pd_get app map fst] in *; [reflexivity|].
  destruct (N.eqb_spec k0 k); [exfalso; apply H; left; assumption|]. apply IH. intros Hx. apply H. right. exact Hx.
Qed.

Theorem introduce_parameter d c p e b :
  bind d c = Some b -> introduce_ok d c p = true ->
  exists b', bind (introduce_def d p e) c = Some b'
    /\ (forall n, In n (names d) -> lookup n b' = lookup n b)
    /\ lookup p b' = Some e /\ b_star b' = b_star b /\ b_kw b' = b_kw b.
Proof.
  intros Hb Hok. unfold bind in *. destruct (plain_call c); [|discriminate].
  unfold introduce_ok in Hok. rewrite andb_true_iff, !negb_true_iff in Hok. destruct Hok as [Hfresh Hsur].
  apply has_name_false in Hfresh. unfold has_surplus in Hsur. apply Nat.ltb_ge in Hsur.
  destruct (init_spec d c b Hb) as [ND [I1 [_ [_ [_ [_ [_ [_ I8]]]]]]]].
  destruct (bind_args_inv _ _ _ _ Hb) as [Hv [slots' [extra [bp [Hk [Hf Hbb]]]]]].
  assert (valid_def (introduce_def d p e) = true) as Hv'.
  { unfold valid_def in *. rewrite andb_true_iff in *. destruct Hv as [V1 V2]. unfold introduce_def, names. cbn [d_args d_star d_kw].
    split; [|rewrite defaults_suffix_snoc; exact V2].
    apply nodup_names_NoDup. apply nodup_names_NoDup in V1. rewrite map_app. cbn [map fst]. rewrite <- app_assoc. cbn [app].
    eapply Permutation_NoDup; [apply Permutation_middle|]. constructor; [|exact V1].
    intros Hx. apply Hfresh. unfold names. apply in_app_or in Hx. apply in_or_app. destruct Hx as [Hx|Hx]; [left; exact Hx|].
    right. rewrite app_assoc. apply in_or_app. left. exact Hx. }
  destruct (bind_pos_snoc p (Some e) (d_args d) (c_args c) Hsur) as [P1 P2].
  assert (~ In p (map fst (c_kws c))) as Hpk.
  { intros Hx. apply Hfresh. apply in_or_app. right. apply in_or_app. right. apply in_or_app. right. exact Hx. }
  pose proof (bind_kws_snoc _ p _ _ _ _ _ Hpk Hk) as K1.
  pose proof (fill_defaults_snoc p e _ _ _ Hf) as F1.
  exists (mkBind (bp ++ [(p, e)]) [] extra). split.
  { unfold bind_args. rewrite Hv'. cbn [negb introduce_def d_args d_star d_kw]. rewrite P1, K1, F1. reflexivity. }
  subst b. cbn [b_params b_star b_kw lookup] in *. rewrite P2. split; [|split; [|auto]].
  - intros n Hn. unfold names in Hn. apply in_map_iff in Hn. destruct Hn as [[n0 dn] [E1 E2]]. cbn [fst] in E1. subst n0.
    destruct (I1 _ _ E2) as [_ J]. unfold lookup in J. cbn [b_params] in J.
    unfold lookup. cbn [b_params].
    destruct (pd_get n bp) as [v|] eqn:Eg; [|congruence]. apply pd_get_app_l. exact Eg.
  - unfold lookup. cbn [b_params]. rewrite pd_get_app_r; [cbn [pd_get]; rewrite N.eqb_refl; reflexivity|].
    rewrite I8. intros Hx. apply Hfresh. apply in_or_app. left. exact Hx.
Qed.

(* with surplus positional arguments the introduced parameter takes the first of them: the exact
   behaviour behind the open finding introduce-before-vararg *)
Lemma bind_pos_snoc_surplus p dp : forall ps args, length ps < length args ->
  exists x rest, snd (bind_pos ps args) = x :: rest
    /\ bind_pos (ps ++ [(p, dp)]) args = (fst (bind_pos ps args) ++ [(p, Some x)], rest).
Proof.
  induction ps as [|[n d] ps IH]; intros args H.
  - destruct args as [|x rest]; [cbn in H; lia|]. exists x, rest. cbn. auto.
  - destruct args as [|v args]; [cbn in H; lia|]. cbn [length] in H.
    destruct (IH args (proj2 (Nat.succ_lt_mono _ _) H)) as [x [rest [I1 I2]]]. exists x, rest.
    cbn [app bind_pos]. rewrite I2. destruct (bind_pos ps args) as [s r]. cbn [fst snd] in *. auto.
Qed.

Lemma bind_kws_snoc_any hk p o : forall kws slots extra slots' extra',
  ~ In p (map fst kws) -> bind_kws hk kws slots extra = Some (slots', extra') ->
  bind_kws hk kws (slots ++ [(p, o)]) extra = Some (slots' ++ [(p, o)], extra').
Proof.
  induction kws as [|[n v] kws IH]; intros slots extra slots' extra' Hp; cbn [bind_kws].
  - intros H. inversion H; subst. reflexivity.
  - assert (n <> p) as Hne by (intros ->; apply Hp; left; reflexivity).
    assert (~ In p (map fst kws)) as Hp' by (intros Hx; apply Hp; right; exact Hx).
    rewrite map_app, has_name_app. cbn [map fst has_name existsb]. apply N.eqb_neq in Hne. rewrite Hne.
    cbn [orb]. rewrite orb_false_r.
    destruct (has_name n (map fst slots)).
    + destruct (slot_set n v slots) as [s1|] eqn:Es; [|discriminate]. rewrite (slot_set_app _ _ _ _ _ Es). apply IH. exact Hp'.
    + destruct (hk && negb (has_name n (map fst extra))); [|discriminate]. apply IH. exact Hp'.
Qed.

Lemma fill_defaults_snoc_bound p e x : forall ps slots bp, fill_defaults ps slots = Some bp ->
  fill_defaults (ps ++ [(p, Some e)]) (slots ++ [(p, Some x)]) = Some (bp ++ [(p, x)]).
Proof.
  induction ps as [|[n d] ps IH]; intros slots bp; destruct slots as [|[m b] s]; cbn [fill_defaults app]; try discriminate.
  - intros H. inversion H; subst. reflexivity.
  - destruct (match b with Some v => Some v | None => d end) as [v|]; [|discriminate].
    destruct (fill_defaults ps s) as [r|] eqn:E; [|discriminate]. intros H. inversion H; subst.
    rewrite (IH _ _ E). reflexivity.
Qed.

Theorem introduce_surplus d c p e b :
  bind d c = Some b ->
  has_name p (names d ++ opt_list (d_star d) ++ opt_list (d_kw d) ++ map fst (c_kws c)) = false ->
  has_surplus d c = true ->
  exists x rest b', b_star b = x :: rest /\ bind (introduce_def d p e) c = Some b'
    /\ (forall n, In n (names d) -> lookup n b' = lookup n b)
    /\ lookup p b' = Some x /\ b_star b' = rest /\ b_kw b' = b_kw b.
Proof.
  intros Hb Hfresh Hsur. unfold bind in *. destruct (plain_call c); [|discriminate].
  apply has_name_false in Hfresh. unfold has_surplus in Hsur. apply Nat.ltb_lt in Hsur.
  destruct (init_spec d c b Hb) as [ND [I1 [_ [_ [_ [_ [_ [I7 I8]]]]]]]].
  destruct (bind_args_inv _ _ _ _ Hb) as [Hv [slots' [extra [bp [Hk [Hf Hbb]]]]]].
  assert (valid_def (introduce_def d p e) = true) as Hv'.
  { unfold valid_def in *. rewrite andb_true_iff in *. destruct Hv as [V1 V2]. unfold introduce_def, names. cbn [d_args d_star d_kw].
    split; [|rewrite defaults_suffix_snoc; exact V2].
    apply nodup_names_NoDup. apply nodup_names_NoDup in V1. rewrite map_app. cbn [map fst]. rewrite <- app_assoc. cbn [app].
    eapply Permutation_NoDup; [apply Permutation_middle|]. constructor; [|exact V1].
    intros Hx. apply Hfresh. unfold names. apply in_app_or in Hx. apply in_or_app. destruct Hx as [Hx|Hx]; [left; exact Hx|].
    right. rewrite app_assoc. apply in_or_app. left. exact Hx. }
  destruct (bind_pos_snoc_surplus p (Some e) (d_args d) (c_args c) Hsur) as [x [rest [P2 P1]]].
  assert (~ In p (map fst (c_kws c))) as Hpk.
  { intros Hx. apply Hfresh. apply in_or_app. right. apply in_or_app. right. apply in_or_app. right. exact Hx. }
  pose proof (bind_kws_snoc_any _ p (Some x) _ _ _ _ _ Hpk Hk) as K1.
  pose proof (fill_defaults_snoc_bound p e x _ _ _ Hf) as F1.
  assert (d_star d <> None) as Hst by (apply I7; subst b; cbn [b_star]; rewrite P2; discriminate).
  exists x, rest, (mkBind (bp ++ [(p, x)]) rest extra). subst b. cbn [b_params b_star b_kw] in *. split; [exact P2|]. split.
  { unfold bind_args. rewrite Hv'. cbn [negb introduce_def d_args d_star d_kw]. rewrite P1, K1, F1.
    destruct rest; [reflexivity|]. destruct (d_star d); [reflexivity|congruence]. }
  split; [|split; [|auto]].
  - intros n Hn. unfold names in Hn. apply in_map_iff in Hn. destruct Hn as [[n0 dn] [E1 E2]]. cbn [fst] in E1. subst n0.
    destruct (I1 _ _ E2) as [_ J]. unfold lookup in J. cbn [b_params] in J. unfold lookup. cbn [b_params].
    destruct (pd_get n bp) as [v|] eqn:Eg; [|congruence]. apply pd_get_app_l. exact Eg.
  - unfold lookup. cbn [b_params]. rewrite pd_get_app_r; [cbn [pd_get]; rewrite N.eqb_refl; reflexivity|].
    rewrite I8. intros Hx. apply Hfresh. apply in_or_app. left. exact Hx.
Qed.

Lemma introduce_surplus_nonvacuous :
  exists d c p e b, d = mkDef [(1, None)]%N (Some 7%N) None
    /\ c = mkCall 20%N [30; 31; 32]%N [] None None false false /\ p = 3%N /\ e = 40%N
    /\ bind d c = Some b
    /\ has_name p (names d ++ opt_list (d_star d) ++ opt_list (d_kw d) ++ map fst (c_kws c)) = false
    /\ has_surplus d c = true.
Proof. do 5 eexists. repeat split; vm_compute; reflexivity. Qed.

Lemma introduce_parameter_nonvacuous :
  exists d c p e b, d = mkDef [(1, None); (2, Some 10)]%N (Some 7%N) (Some 8%N)
    /\ c = mkCall 20%N [30]%N [(2, 31); (9, 32)]%N None None false false
    /\ bind d c = Some b /\ introduce_ok d c p = true /\ p = 3%N /\ e = 40%N.
Proof. do 5 eexists. repeat split; vm_compute; reflexivity. Qed.

(* def f(a, [star]r) with f(1, 2): the introduced parameter swallows the surplus argument *)
Lemma introduce_before_vararg_refuted :
  exists d c p e b b', bind d c = Some b /\ bind (introduce_def d p e) c = Some b'
    /\ has_name p (names d ++ opt_list (d_star d) ++ opt_list (d_kw d) ++ map fst (c_kws c)) = false
    /\ b_star b = [31%N] /\ b_star b' = [] /\ lookup p b' = Some 31%N /\ e = 40%N.
Proof.
  exists (mkDef [(1, None)]%N (Some 7%N) None), (mkCall 20%N [30; 31]%N [] None None false false), 3%N, 40%N.
  do 2 eexists. repeat split; vm_compute; reflexivity.
Qed.

(* ------------------------------------------------------------------------------------------------ *)
(* C06_normalize_idempotent                                                                          *)
Fixpoint bpre (ps : list (N * option N)) (pd : list (N * N)) : list N :=
  match ps with
  | [] => []
  | (n, _) :: r => match pd_get n pd with Some _ => n :: bpre r pd | None => [] end
  end.

Lemma bpre_sub ps pd n : In n (bpre ps pd) -> In n (map fst ps).
Proof.
  induction ps as [|[m dm] ps IH]; cbn [bpre map fst]; [auto|]. destruct (pd_get m pd); [|intros []].
  intros [H|H]; [left; exact H|right; apply IH; exact H].
Qed.

Lemma tci_kws_sub ps pd n : In n (map fst (tci_kws ps pd)) -> In n (map fst ps).
Proof.
  induction ps as [|[m dm] ps IH]; cbn [tci_kws map fst]; [auto|]. destruct (pd_get m pd); cbn [map fst].
  - intros [H|H]; [left; exact H|right; apply IH; exact H].
  - intros H. right. apply IH. exact H.
Qed.

Lemma tci_kws_NoDup ps pd : NoDup (map fst ps) -> NoDup (map fst (tci_kws ps pd)).
Proof.
  induction ps as [|[m dm] ps IH]; cbn [tci_kws map fst]; intros ND; [constructor|].
  inversion ND as [|? ? Hm ND']; subst. destruct (pd_get m pd); cbn [map fst]; [|apply IH; exact ND'].
  constructor; [|apply IH; exact ND']. intros Hx. apply Hm. eapply tci_kws_sub. exact Hx.
Qed.

Lemma tci_snd_sub ps pd n : In n (map fst (snd (tci ps pd))) -> In n (map fst ps).
Proof.
  induction ps as [|[m dm] ps IH]; cbn [tci]; [cbn; auto|]. destruct (pd_get m pd).
  - destruct (tci ps pd) as [a k]. cbn [snd map fst] in *. intros H. right. apply IH. exact H.
  - cbn [snd map fst]. intros H. right. eapply tci_kws_sub. exact H.
Qed.

Lemma tci_snd_NoDup ps pd : NoDup (map fst ps) -> NoDup (map fst (snd (tci ps pd))).
Proof.
  induction ps as [|[m dm] ps IH]; cbn [tci]; intros ND; [constructor|]. inversion ND; subst. destruct (pd_get m pd).
  - destruct (tci ps pd) as [a k]. cbn [snd] in *. apply IH. assumption.
  - cbn [snd]. apply tci_kws_NoDup. assumption.
Qed.

Lemma tci_kws_get_full pd n : forall ps, NoDup (map fst ps) -> In n (map fst ps) ->
  pd_get n (tci_kws ps pd) = pd_get n pd.
Proof.
  induction ps as [|[m dm] ps IH]; intros ND Hin; [contradiction|]. inversion ND as [|? ? Hm ND']; subst.
  cbn [tci_kws]. destruct (N.eq_dec m n) as [->|Hne].
  - destruct (pd_get n pd) as [v|] eqn:Eg; [cbn [pd_get]; rewrite N.eqb_refl; reflexivity|].
    apply pd_get_notin. intros Hx. apply Hm. eapply tci_kws_sub. exact Hx.
  - destruct Hin as [Hin|Hin]; [cbn in Hin; congruence|].
    destruct (pd_get m pd); [cbn [pd_get]; apply N.eqb_neq in Hne; rewrite Hne|]; apply IH; assumption.
Qed.

Lemma tci_snd_get pd n : forall ps, NoDup (map fst ps) -> In n (map fst ps) ->
  pd_get n (snd (tci ps pd)) = if has_name n (bpre ps pd) then None else pd_get n pd.
Proof.
  induction ps as [|[m dm] ps IH]; intros ND Hin; [contradiction|]. inversion ND as [|? ? Hm ND']; subst.
  cbn [tci bpre]. destruct (pd_get m pd) as [w|] eqn:Em.
  - destruct (tci ps pd) as [a k] eqn:Et. cbn [snd has_name existsb]. destruct (N.eqb_spec n m).
    + subst. cbn [orb]. apply pd_get_notin. intros Hx. apply Hm.
      pose proof (tci_snd_sub ps pd m) as Hs. rewrite Et in Hs. apply Hs. exact Hx.
    + cbn [orb]. destruct Hin as [Hin|Hin]; [cbn in Hin; congruence|].
      specialize (IH ND' Hin). cbn [snd] in IH. exact IH.
  - cbn [snd has_name existsb]. destruct Hin as [Hin|Hin].
    + cbn in Hin. subst. rewrite Em. apply pd_get_notin. intros Hx. apply Hm. eapply tci_kws_sub. exact Hx.
    + apply tci_kws_get_full; assumption.
Qed.

Lemma has_name_cons n m l : has_name n (m :: l) = N.eqb n m || has_name n l.
Proof. reflexivity. Qed.

Lemma reinit_pos pd : forall ps pd0 sur, NoDup (map fst ps) -> (sur <> [] -> Forall (Q pd) ps) ->
  snd (map_pos ps (fst (tci ps pd) ++ sur) pd0) = sur
  /\ forall n, pd_get n (fst (map_pos ps (fst (tci ps pd) ++ sur) pd0))
               = if has_name n (bpre ps pd) then pd_get n pd else pd_get n pd0.
Proof.
  induction ps as [|[m dm] ps IH]; intros pd0 sur ND HS.
  - cbn [tci fst app bpre has_name existsb]. destruct sur; cbn; auto.
  - inversion ND as [|? ? Hm ND']; subst. cbn [tci bpre]. destruct (pd_get m pd) as [w|] eqn:Em.
    + assert (sur <> [] -> Forall (Q pd) ps) as HS' by (intros Hs; specialize (HS Hs); inversion HS; assumption).
      specialize (IH (pd_set m w pd0) sur ND' HS'). destruct (tci ps pd) as [a k]. cbn [fst snd app map_pos] in *.
      destruct IH as [I1 I2]. split; [exact I1|]. intros n. rewrite I2. rewrite has_name_cons.
      destruct (N.eqb_spec n m).
      * subst. cbn [orb]. assert (has_name m (bpre ps pd) = false) as ->.
        { apply has_name_false. intros Hx. apply Hm. eapply bpre_sub. exact Hx. }
        rewrite pd_get_set_eq. symmetry. exact Em.
      * cbn [orb]. destruct (has_name n (bpre ps pd)); [reflexivity|]. apply pd_get_set_neq. congruence.
    + assert (sur = []) as ->.
      { destruct sur as [|x sr]; [reflexivity|]. exfalso. assert (Forall (Q pd) ((m, dm) :: ps)) as HQ by (apply HS; discriminate).
        inversion HQ as [|? ? Hq _]; subst. unfold Q in Hq. cbn [fst] in Hq. congruence. }
      cbn [fst app map_pos snd has_name existsb]. auto.
Qed.

Lemma map_kws_params ps rest : forall k pdA kw0, (forall kv, In kv k -> has_param ps (fst kv) = true) ->
  map_kws ps (k ++ rest) pdA kw0 = map_kws ps rest (fold_left (fun acc kv => pd_set (fst kv) (snd kv) acc) k pdA) kw0.
Proof.
  induction k as [|[n v] k IH]; intros pdA kw0 H; cbn [app map_kws fold_left fst snd]; [reflexivity|].
  pose proof (H (n, v) (or_introl eq_refl)) as Hn. cbn [fst] in Hn. rewrite Hn.
  apply IH. intros kv Hkv. apply H. right. exact Hkv.
Qed.

Lemma map_kws_extras ps : forall kwargs pdB kw0, (forall kv, In kv kwargs -> has_param ps (fst kv) = false) ->
  map_kws ps kwargs pdB kw0 = (pdB, kw0 ++ kwargs).
Proof.
  induction kwargs as [|[n v] kwargs IH]; intros pdB kw0 H; cbn [map_kws]; [rewrite app_nil_r; reflexivity|].
  pose proof (H (n, v) (or_introl eq_refl)) as Hn. cbn [fst] in Hn. rewrite Hn.
  rewrite IH; [rewrite <- app_assoc; reflexivity|].
  intros kv Hkv. apply H. right. exact Hkv.
Qed.

Lemma fold_set_get n : forall k pdA, NoDup (map fst k) ->
  pd_get n (fold_left (fun acc kv => pd_set (fst kv) (snd kv) acc) k pdA)
  = match pd_get n k with Some v => Some v | None => pd_get n pdA end.
Proof.
  induction k as [|[m w] k IH]; intros pdA ND; cbn [fold_left pd_get fst snd]; [reflexivity|].
  inversion ND as [|? ? Hm ND']; subst. rewrite IH by exact ND'. destruct (N.eqb_spec m n).
  - subst. rewrite pd_get_notin by exact Hm. apply pd_get_set_eq.
  - destruct (pd_get n k); [reflexivity|]. apply pd_get_set_neq. exact n0.
Qed.

Lemma map_kws_kwargs_not_param ps : forall kws pd kw0 kv,
  In kv (snd (map_kws ps kws pd kw0)) -> In kv kw0 \/ has_param ps (fst kv) = false.
Proof.
  induction kws as [|[n v] kws IH]; intros pd kw0 kv; cbn [map_kws snd]; [auto|].
  destruct (has_param ps n) eqn:Eh; intros H; apply IH in H; [exact H|].
  destruct H as [H|H]; [|right; exact H]. apply in_app_or in H. destruct H as [H|[H|[]]]; [left; exact H|].
  right. subst. exact Eh.
Qed.

Lemma tci_ext pd1 pd : forall ps, (forall e, In e ps -> pd_get (fst e) pd1 = pd_get (fst e) pd) ->
  tci ps pd1 = tci ps pd /\ tci_kws ps pd1 = tci_kws ps pd.
Proof.
  induction ps as [|[m dm] ps IH]; intros H; [split; reflexivity|].
  destruct IH as [I1 I2]; [intros e He; apply H; right; exact He|].
  pose proof (H (m, dm) (or_introl eq_refl)) as Hm. cbn [fst] in Hm.
  cbn [tci tci_kws]. rewrite Hm, I1, I2. split; reflexivity.
Qed.

Theorem normalize_idempotent d c c1 :
  NoDup (names d) -> change_call [Normalize] d c = Some c1 -> change_call [Normalize] d c1 = Some c1.
Proof.
  intros ND H. unfold Args.change_call in *. cbn [apply_defs Args.apply_maps change_def Args.change_map] in *.
  inversion H; subst c1. clear H. f_equal.
  set (m := mapping_init d c). set (ps := d_args d) in *. unfold names in ND. fold ps in ND.
  destruct (mapping_init_fields d c) as [M1 [M2 M3]]. fold m ps in M1, M2, M3.
  assert (m_surplus m <> [] -> Forall (Q (m_pd m)) ps) as HS.
  { intros Hne. rewrite M1 in Hne.
    assert (length ps < length (c_args c)) as Hl.
    { destruct (Nat.lt_ge_cases (length ps) (length (c_args c))) as [Hl|Hl]; [exact Hl|].
      exfalso. apply Hne. apply map_pos_no_surplus. exact Hl. }
    rewrite M3. pose proof (map_pos_surplus ps (c_args c) [] Hl) as HQ.
    rewrite Forall_forall in *. intros x Hx. unfold Q. apply map_kws_mono. apply HQ. exact Hx. }
  assert (forall kv, In kv (m_kwargs m) -> has_param ps (fst kv) = false) as HK.
  { intros kv Hkv. rewrite M2 in Hkv. apply map_kws_kwargs_not_param in Hkv. destruct Hkv as [[]|Hkv]. exact Hkv. }
  set (c1 := to_call_info m c d).
  assert (c_args c1 = fst (tci ps (m_pd m)) ++ m_surplus m /\ c_kws c1 = snd (tci ps (m_pd m)) ++ m_kwargs m
          /\ c_fname c1 = c_fname c /\ c_star c1 = c_star c /\ c_kwstar c1 = c_kwstar c
          /\ c_implicit c1 = c_implicit c /\ c_ctor c1 = c_ctor c) as [A1 [A2 [A3 [A4 [A5 [A6 A7]]]]]].
  { unfold c1, to_call_info. fold ps. destruct (tci ps (m_pd m)). cbn. auto 10. }
  destruct (reinit_pos (m_pd m) ps [] (m_surplus m) ND HS) as [P1 P2].
  assert (forall kv, In kv (snd (tci ps (m_pd m))) -> has_param ps (fst kv) = true) as Hkp.
  { intros kv Hkv. unfold has_param. apply has_name_In. eapply tci_snd_sub. apply in_map. exact Hkv. }
  assert (m_surplus (mapping_init d c1) = m_surplus m /\ m_kwargs (mapping_init d c1) = m_kwargs m
          /\ forall e, In e ps -> pd_get (fst e) (m_pd (mapping_init d c1)) = pd_get (fst e) (m_pd m)) as [R1 [R2 R3]].
  { destruct (mapping_init_fields d c1) as [N1 [N2 N3]]. fold ps in N1, N2, N3. rewrite A1 in N1, N2, N3. rewrite A2 in N2, N3.
    rewrite N1, N2, N3. split; [exact P1|].
    rewrite (map_kws_params ps (m_kwargs m) _ _ [] Hkp), (map_kws_extras ps _ _ [] HK). cbn [fst snd app].
    split; [reflexivity|]. intros [n dn] He. cbn [fst].
    rewrite fold_set_get by (apply tci_snd_NoDup; exact ND).
    assert (In n (map fst ps)) as Hn by (change n with (fst (n, dn)); apply in_map; exact He).
    rewrite (tci_snd_get (m_pd m) n ps ND Hn), P2.
    destruct (has_name n (bpre ps (m_pd m))); [reflexivity|]. destruct (pd_get n (m_pd m)); reflexivity. }
  unfold to_call_info at 1. fold ps. destruct (tci_ext (m_pd (mapping_init d c1)) (m_pd m) ps R3) as [T1 _].
  rewrite T1, R1, R2, A3, A4, A5, A6, A7. unfold c1, to_call_info. fold ps. reflexivity.
Qed.

Lemma normalize_idempotent_nonvacuous :
  exists d c c1, d = mkDef [(1, None); (2, Some 10); (3, Some 11)]%N (Some 7%N) (Some 8%N)
    /\ c = mkCall 20%N [30]%N [(9, 32); (3, 31)]%N (Some 40%N) None false false
    /\ NoDup (names d) /\ change_call [Normalize] d c = Some c1
    /\ c1 = mkCall 20%N [30]%N [(3, 31); (9, 32)]%N (Some 40%N) None false false.
Proof.
  do 3 eexists. repeat split; try (vm_compute; reflexivity).
  cbn. repeat constructor; cbn; intuition discriminate.
Qed.

(* ------------------------------------------------------------------------------------------------ *)
(* C06_explicit_preserved: an argument the call passes stays an argument (a default is evaluated when
   the def runs, an argument at the call, so equal spelling would not be enough)                      *)
Lemma passed_pos_sget n v : forall ps args, passed_pos ps args n = Some v -> sget n (fst (bind_pos ps args)) = Some v.
Proof.
  induction ps as [|[m dm] ps IH]; intros args; destruct args as [|a args]; cbn [passed_pos bind_pos]; try discriminate.
  specialize (IH args). destruct (bind_pos ps args) as [s r]. cbn [fst sget] in *.
  destruct (N.eqb m n); [auto|exact IH].
Qed.

Lemma passed_pos_none_sget n : forall ps args, passed_pos ps args n = None -> sget n (fst (bind_pos ps args)) = None.
Proof.
  induction ps as [|[m dm] ps IH]; intros args; [reflexivity|]. destruct args as [|a args].
  - intros _. apply (bind_pos_nil ((m, dm) :: ps) n).
  - cbn [passed_pos bind_pos]. specialize (IH args). destruct (bind_pos ps args) as [s r]. cbn [fst sget] in *.
    destruct (N.eqb m n); [discriminate|exact IH].
Qed.

Lemma bind_kws_sets hk n v : forall kws slots extra slots' extra',
  bind_kws hk kws slots extra = Some (slots', extra') -> In n (map fst slots) -> sget n slots = None ->
  pd_get n kws = Some v -> sget n slots' = Some v.
Proof.
  induction kws as [|[k w] kws IH]; intros slots extra slots' extra'; cbn [bind_kws pd_get]; [discriminate|].
  intros H Hin Hs Hg. destruct (N.eqb_spec k n).
  - subst k. inversion Hg; subst w. rewrite (proj2 (has_name_In _ _) Hin) in H.
    destruct (slot_set n v slots) as [s1|] eqn:Es; [|discriminate].
    eapply bind_kws_keeps; [exact H|]. destruct (slot_set_sget _ _ _ _ Es) as [J _]. rewrite J, N.eqb_refl. reflexivity.
  - destruct (has_name k (map fst slots)).
    + destruct (slot_set k w slots) as [s1|] eqn:Es; [|discriminate]. destruct (slot_set_sget _ _ _ _ Es) as [J1 J2].
      eapply IH; [exact H|rewrite J2; exact Hin| |exact Hg]. rewrite J1. apply N.eqb_neq in n0. rewrite n0. exact Hs.
    + destruct (hk && negb (has_name k (map fst extra))); [|discriminate]. eapply IH; eauto.
Qed.

Lemma passed_pd d c b n v :
  bind_args d (c_args c) (c_kws c) = Some b -> In n (names d) -> passed d c n = Some v ->
  pd_get n (m_pd (mapping_init d c)) = Some v.
Proof.
  intros Hb Hin Hp. destruct (bind_args_inv _ _ _ _ Hb) as [Hv [slots' [extra [bp [Hk _]]]]].
  pose proof (valid_def_NoDup _ Hv) as ND. unfold names in ND, Hin.
  destruct (pos_phase (d_args d) ND (c_args c) []) as [_ Hp2].
  pose proof (bind_pos_names (d_args d) (c_args c)) as Hnm.
  assert (forall k, pd_get k (fst (map_pos (d_args d) (c_args c) [])) = sget k (fst (bind_pos (d_args d) (c_args c)))) as HR.
  { intros k. rewrite Hp2. cbn [pd_get]. destruct (sget k (fst (bind_pos (d_args d) (c_args c)))); reflexivity. }
  destruct (kw_phase _ (d_args d) _ _ _ _ _ _ Hnm HR Hk) as [K1 _].
  destruct (mapping_init_fields d c) as [_ [_ ->]]. rewrite K1.
  unfold passed in Hp. destruct (passed_pos (d_args d) (c_args c) n) as [w|] eqn:Epp.
  - inversion Hp; subst w. eapply bind_kws_keeps; [exact Hk|]. apply passed_pos_sget. exact Epp.
  - eapply bind_kws_sets; [exact Hk| | |exact Hp].
    + rewrite Hnm. exact Hin.
    + apply passed_pos_none_sget. exact Epp.
Qed.

Definition Rv (n v : N) (pd : list (N * N)) (e : N * option N) : Prop := fst e = n -> pd_get n pd = Some v.

Lemma steps_Rv n v : forall cs d d' m m',
  apply_defs cs d = Some d' -> apply_maps cs d m = Some m' -> Forall (addP [n]) cs ->
  (rdel = true -> nodup_steps cs d = true) ->
  Forall (Rv n v (m_pd m)) (d_args d) -> Forall (Rv n v (m_pd m')) (d_args d').
Proof.
  intros cs d d' m m' H1 H2 H3 H5 H4.
  refine (proj1 (steps_inv (Rv n v) _ _ _ _ _ (addP [n]) _ cs d d' m m' H1 H2 H3 H5 H4)); unfold Rv; cbn [fst snd];
    clear cs d d' m m' H1 H2 H3 H4 H5.
  - intros pd k w e Hne H He. rewrite pd_get_set_neq by congruence. exact (H He).
  - intros pd k e x' H Hg ->. rewrite (H eq_refl) in Hg. discriminate.
  - intros pd k x x' _ H. exact H.
  - intros pd k a H. exact H.
  - intros pd k e Hne H He. rewrite pd_get_del_neq by congruence. exact (H He).
  - intros pd i k dflt val [Hn _] ->. exfalso. apply Hn. left. reflexivity.
Qed.

Theorem explicit_preserved d cs c d' c' b n v :
  apply_defs cs d = Some d' -> change_call cs d c = Some c' ->
  side_ok d cs c d' = true -> bind d c = Some b ->
  In n (names d) -> In n (names d') -> passed d c n = Some v -> passed d' c' n = Some v.
Proof.
  intros Hd Hc Hside Hb Hin Hin' Hp. unfold Args.change_call in Hc. rewrite Hd in Hc.
  destruct (apply_maps cs d (mapping_init d c)) as [m'|] eqn:Hm; [|discriminate]. inversion Hc; subst c'. clear Hc.
  destruct (preserve_strong d cs c d' m' b Hd Hm Hside Hb) as [b' [_ [_ [_ [_ [_ [_ HS]]]]]]].
  pose proof Hside as Hs. unfold Args.side_ok in Hs. rewrite !andb_true_iff in Hs. destruct Hs as [[[[Hv Hadds] _] _] Hnds].
  unfold bind in Hb. destruct (plain_call c); [|discriminate].
  pose proof (passed_pd d c b n v Hb Hin Hp) as Hg0.
  assert (Forall (Rv n v (m_pd m')) (d_args d')) as HR.
  { eapply steps_Rv; [exact Hd|exact Hm| | |].
    - eapply adds_ok_addP; [exact Hadds|]. intros x [<-|[]]. apply in_or_app. left. exact Hin.
    - intros Hr. rewrite Hr in Hnds. exact Hnds.
    - rewrite Forall_forall. intros e _ _. exact Hg0. }
  unfold names in Hin'. apply in_map_iff in Hin'. destruct Hin' as [[k dk] [E1 E2]]. cbn [fst] in E1. subst k.
  rewrite Forall_forall in HR. pose proof (HR _ E2 eq_refl) as Hg.
  pose proof (valid_def_NoDup _ Hv) as ND'. unfold names in ND'.
  pose proof (passed_tci (m_pd m') (m_surplus m') (m_kwargs m') n v (d_args d') _ ND' E2 Hg HS) as Hpt.
  unfold passed, to_call_info. destruct (tci (d_args d') (m_pd m')) as [a k]. cbn [c_args c_kws fst snd] in *.
  destruct (passed_pos (d_args d') (a ++ m_surplus m') n); exact Hpt.
Qed.

Lemma explicit_preserved_nonvacuous :
  exists d cs c d' c' b n v,
    d = mkDef [(1, None); (2, Some 10); (3, Some 10)]%N None None
    /\ cs = [Add 1 4%N (Some 12%N) None]
    /\ c = mkCall 20%N [30]%N [(3, 10)]%N None None false false
    /\ apply_defs cs d = Some d' /\ change_call cs d c = Some c'
    /\ side_ok d cs c d' = true /\ bind d c = Some b
    /\ n = 3%N /\ v = 10%N /\ In n (names d) /\ In n (names d') /\ passed d c n = Some v
    /\ c_kws c' = [(3, 10)]%N.
Proof.
  destruct rdel; do 8 eexists; (repeat split; try (vm_compute; reflexivity)); vm_compute; auto.
Qed.

(* ------------------------------------------------------------------------------------------------ *)
(* project level: every call site the finders reach is rewritten consistently; a constructor call
   through an inheriting subclass is not reached                                                     *)
Theorem site_preserve is_init d cs s d' r' c b :
  finder_finds is_init (ps_callee s) = true ->
  apply_defs cs d = Some d' -> change_site is_init d cs s = Some r' ->
  call_read d (ps_implicit s) (ps_ctor s) (ps_call s) = Some c ->
  side_ok d cs c d' = true -> recv_ok d c d' = true -> bind d c = Some b ->
  exists c2 b', call_read d' (ps_implicit s) (ps_ctor s) r' = Some c2 /\ bind d' c2 = Some b'
    /\ (forall n, In n (names d) -> In n (names d') -> lookup n b' = lookup n b)
    /\ b_star b' = b_star b /\ b_kw b' = b_kw b /\ map fst (b_params b') = names d'.
Proof.
  intros Hf Hd Hs Hr Hside Hrecv Hb. unfold Args.change_site in Hs. rewrite Hf, Hr in Hs.
  destruct (change_call cs d c) as [c'|] eqn:Hc; [|discriminate].
  eapply preserve_text; eauto.
Qed.

Lemma site_preserve_nonvacuous :
  exists d cs s d' r' c b,
    d = mkDef [(1, None); (2, None); (3, Some 10)]%N None None
    /\ cs = [Reorder [0; 2; 1] (Some 11%N)]
    /\ s = mkPsite CClass false true (mkRend None 20%N [31]%N [(3, 32)]%N None None)
    /\ finder_finds true (ps_callee s) = true
    /\ apply_defs cs d = Some d' /\ change_site true d cs s = Some r'
    /\ call_read d (ps_implicit s) (ps_ctor s) (ps_call s) = Some c
    /\ side_ok d cs c d' = true /\ recv_ok d c d' = true /\ bind d c = Some b
    /\ r' = mkRend None 20%N [32; 31]%N [] None None.
Proof. destruct rdel; do 7 eexists; repeat split; vm_compute; reflexivity. Qed.

(* class B(A): pass; B(1, 2) with A.__init__(self, a, b) reordered to (self, b, a): the call stays, a gets 2 *)
Lemma subclass_ctor_refuted :
  exists d cs s d' r' c c2 b b',
    s = mkPsite CSubclass false true (mkRend None 21%N [31; 32]%N [] None None)
    /\ apply_defs cs d = Some d' /\ valid_def d' = true
    /\ change_site true d cs s = Some r' /\ r' = ps_call s
    /\ call_read d false true (ps_call s) = Some c /\ bind d c = Some b
    /\ call_read d' false true r' = Some c2 /\ bind d' c2 = Some b'
    /\ lookup 2%N b = Some 31%N /\ lookup 2%N b' = Some 32%N.
Proof.
  exists (mkDef [(1, None); (2, None); (3, None)]%N None None), [Reorder [0; 2; 1] None].
  do 7 eexists. repeat split; vm_compute; reflexivity.
Qed.

End Variant.
