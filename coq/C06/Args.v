(* Model of rope/refactor/functionutils.py (DefinitionInfo, CallInfo, ArgumentMapping) and of the
   changers of rope/refactor/change_signature.py, plus the specification [bind] of Python's call
   binding.  Definitions only; proofs are in ArgsProofs.v.

   Expressions and identifiers are opaque tokens (N): the harness interns source strings, so the token
   of the parameter name "self" and of the expression "self" coincide, as the strings do in rope.
   This file is meant to be imported by other properties (C04 uses ArgumentMapping and [bind]). *)
From Coq Require Import List NArith Bool Arith.
Import ListNotations.

Notation pname := N (only parsing).
Notation aexpr := N (only parsing).

(* ------------------------------------------------------------------------------------------------ *)
(* DefinitionInfo: args_with_defaults, args_arg, keywords_arg                                          *)
Record definfo := mkDef {
  d_args : list (pname * option aexpr);
  d_star : option pname;
  d_kw   : option pname
}.

(* CallInfo.  c_args includes the instance for method calls (implicit_arg) and the inserted first
   parameter name for constructor calls, exactly as CallInfo.read builds it. *)
Record callinfo := mkCall {
  c_fname    : N;
  c_args     : list aexpr;
  c_kws      : list (pname * aexpr);
  c_star     : option aexpr;
  c_kwstar   : option aexpr;
  c_implicit : bool;
  c_ctor     : bool
}.

Definition names (d : definfo) : list pname := map fst (d_args d).

Definition has_name (n : pname) (l : list pname) : bool := existsb (N.eqb n) l.

(* for pair in definition_info.args_with_defaults: if pair[0] == name *)
Definition has_param (ps : list (pname * option aexpr)) (n : pname) : bool := has_name n (map fst ps).

(* ------------------------------------------------------------------------------------------------ *)
(* param_dict: a Python dict.  Only `k in d`, `d[k]` and `d[k] = v` are ever used, so an association
   list with "first binding wins" and assignment by consing is an exact model of the lookups.          *)
Notation pdict := (list (N * N)) (only parsing).

Fixpoint pd_get (k : pname) (pd : pdict) : option aexpr :=
  match pd with
  | [] => None
  | (k0, v) :: r => if N.eqb k0 k then Some v else pd_get k r
  end.

Definition pd_set (k : pname) (v : aexpr) (pd : pdict) : pdict := (k, v) :: pd.

(* del d[k] *)
Fixpoint pd_del (k : pname) (pd : pdict) : pdict :=
  match pd with
  | [] => []
  | (k0, v) :: r => if N.eqb k0 k then pd_del k r else (k0, v) :: pd_del k r
  end.

Record mapping := mkMap {
  m_pd      : pdict;                  (* self.param_dict *)
  m_kwargs  : list (pname * aexpr);     (* self.keyword_args *)
  m_surplus : list aexpr               (* self.args_arg *)
}.

(* for index, value in enumerate(call_info.args): ... *)
Fixpoint map_pos (ps : list (pname * option aexpr)) (args : list aexpr) (pd : pdict) : pdict * list aexpr :=
  match args with
  | [] => (pd, [])
  | v :: args' =>
      match ps with
      | [] => (pd, args)
      | (n, _) :: ps' => map_pos ps' args' (pd_set n v pd)
      end
  end.

(* for name, value in call_info.keywords: ... *)
Fixpoint map_kws (ps : list (pname * option aexpr)) (kws : list (pname * aexpr)) (pd : pdict)
         (kwargs : list (pname * aexpr)) : pdict * list (pname * aexpr) :=
  match kws with
  | [] => (pd, kwargs)
  | (n, v) :: r =>
      if has_param ps n then map_kws ps r (pd_set n v pd) kwargs
      else map_kws ps r pd (kwargs ++ [(n, v)])
  end.

(* ArgumentMapping.__init__ *)
Definition mapping_init (d : definfo) (c : callinfo) : mapping :=
  let '(pd1, surplus) := map_pos (d_args d) (c_args c) [] in
  let '(pd2, kwargs) := map_kws (d_args d) (c_kws c) pd1 [] in
  mkMap pd2 kwargs surplus.

(* the inner loop of to_call_info: every later parameter that is bound becomes a keyword *)
Fixpoint tci_kws (ps : list (pname * option aexpr)) (pd : pdict) : list (pname * aexpr) :=
  match ps with
  | [] => []
  | (n, _) :: ps' =>
      match pd_get n pd with
      | Some v => (n, v) :: tci_kws ps' pd
      | None => tci_kws ps' pd
      end
  end.

(* the outer loop: positionals while parameters are bound, keywords from the first gap on *)
Fixpoint tci (ps : list (pname * option aexpr)) (pd : pdict) : list aexpr * list (pname * aexpr) :=
  match ps with
  | [] => ([], [])
  | (n, _) :: ps' =>
      match pd_get n pd with
      | Some v => let '(a, k) := tci ps' pd in (v :: a, k)
      | None => ([], tci_kws ps' pd)
      end
  end.

(* ArgumentMapping.to_call_info *)
Definition to_call_info (m : mapping) (c : callinfo) (d : definfo) : callinfo :=
  let '(a, k) := tci (d_args d) (m_pd m) in
  mkCall (c_fname c) (a ++ m_surplus m) (k ++ m_kwargs m) (c_star c) (c_kwstar c)
         (c_implicit c) (c_ctor c).

(* ------------------------------------------------------------------------------------------------ *)
(* The changers.  Indices are Python ints >= 0.                                                       *)
Inductive changer :=
| Normalize
| Remove (i : nat)
| Add (i : nat) (n : pname) (dflt : option aexpr) (val : option aexpr)
| InlineDefault (i : nat) (remove : bool)
| Reorder (order : list nat) (autodef : option aexpr).

Fixpoint delete_nth {A} (i : nat) (l : list A) : list A :=
  match l with
  | [] => []
  | x :: r => match i with O => r | S j => x :: delete_nth j r end
  end.

(* list.insert(i, x): an index past the end appends *)
Fixpoint insert_nth {A} (i : nat) (x : A) (l : list A) : list A :=
  match i with
  | O => x :: l
  | S j => match l with [] => [x] | y :: r => y :: insert_nth j x r end
  end.

(* l[i] = x; None is IndexError *)
Fixpoint set_nth {A} (i : nat) (x : A) (l : list A) : option (list A) :=
  match l with
  | [] => None
  | y :: r =>
      match i with
      | O => Some (x :: r)
      | S j => match set_nth j x r with Some r' => Some (y :: r') | None => None end
      end
  end.

(* for new_index, index in enumerate(new_order): new_args[new_index] = old[index] *)
Fixpoint reorder_loop (old : list (pname * option aexpr)) (order : list nat) (new_index : nat)
         (new_args : list (pname * option aexpr)) : option (list (pname * option aexpr)) :=
  match order with
  | [] => Some new_args
  | index :: rest =>
      match nth_error old index with
      | None => None
      | Some p =>
          match set_nth new_index p new_args with
          | None => None
          | Some na => reorder_loop old rest (S new_index) na
          end
      end
  end.

(* the autodef pass of ArgumentReorderer.change_definition_info *)
Fixpoint autodef_pass (autodef : option aexpr) (seen : bool) (l : list (pname * option aexpr))
  : list (pname * option aexpr) :=
  match l with
  | [] => []
  | (n, dflt) :: r =>
      let seen' := match dflt with Some _ => true | None => seen end in
      let p := match dflt, autodef with
               | None, Some a => if seen' then (n, Some a) else (n, None)
               | _, _ => (n, dflt)
               end in
      p :: autodef_pass autodef seen' r
  end.

Definition is_some {A} (o : option A) : bool := match o with Some _ => true | None => false end.

(* changer.change_definition_info(definition_info) on the deep copy; None = the call raises *)
Definition change_def (ch : changer) (d : definfo) : option definfo :=
  match ch with
  | Normalize => Some d
  | Remove i =>
      let n := length (d_args d) in
      if i <? n then Some (mkDef (delete_nth i (d_args d)) (d_star d) (d_kw d))
      else if (i =? n) && is_some (d_star d) then Some (mkDef (d_args d) None (d_kw d))
      else if ((i =? n) && negb (is_some (d_star d)) && is_some (d_kw d))
              || ((i =? S n) && is_some (d_star d) && is_some (d_kw d))
           then Some (mkDef (d_args d) (d_star d) None)
      else Some d
  | Add i n dflt _ =>
      if has_param (d_args d) n then None                       (* RefactoringError: duplicate *)
      else Some (mkDef (insert_nth i (n, dflt) (d_args d)) (d_star d) (d_kw d))
  | InlineDefault i remove =>
      if remove then
        match nth_error (d_args d) i with
        | None => None                                          (* IndexError *)
        | Some (n, _) =>
            match set_nth i (n, None) (d_args d) with
            | Some a => Some (mkDef a (d_star d) (d_kw d))
            | None => None
            end
        end
      else Some d
  | Reorder order autodef =>
      match reorder_loop (d_args d) order 0 (d_args d) with
      | None => None                                            (* IndexError *)
      | Some na => Some (mkDef (autodef_pass autodef false na) (d_star d) (d_kw d))
      end
  end.

(* changer.change_argument_mapping(definition_info, mapping) where definition_info is the definition
   *before* this changer.  ArgumentRemover: [rdel] = true is the current code (commit 26a80fc): the
   name of the removed parameter is looked up at self.index and its entry is deleted.  [rdel] = false is
   the code as first found: `name = definition_info.args_with_defaults[0]` was a (name, default) tuple
   and param_dict is keyed by strings, so `name in mapping.param_dict` was always False and nothing was
   ever deleted.  The harness evaluates rdel = true; the theorems hold for both. *)
Definition change_map (rdel : bool) (ch : changer) (d : definfo) (m : mapping) : option mapping :=
  match ch with
  | Normalize | Reorder _ _ => Some m
  | Remove i =>
      if rdel then
        match nth_error (d_args d) i with
        | Some (n, _) => Some (mkMap (pd_del n (m_pd m)) (m_kwargs m) (m_surplus m))
        | None => Some m
        end
      else Some m
  | Add _ n _ val =>
      match val with
      | Some v => Some (mkMap (pd_set n v (m_pd m)) (m_kwargs m) (m_surplus m))
      | None => Some m
      end
  | InlineDefault i _ =>
      match nth_error (d_args d) i with
      | None => None                                            (* IndexError *)
      | Some (n, dflt) =>
          match dflt, pd_get n (m_pd m) with
          | Some e, None => Some (mkMap (pd_set n e (m_pd m)) (m_kwargs m) (m_surplus m))
          | _, _ => Some m
          end
      end
  end.

(* _FunctionChangers._get_changed_definition_infos, last element *)
Fixpoint apply_defs (cs : list changer) (d : definfo) : option definfo :=
  match cs with
  | [] => Some d
  | ch :: r => match change_def ch d with Some d1 => apply_defs r d1 | None => None end
  end.

(* the zip loop of change_call: each changer sees the definition before it *)
Fixpoint apply_maps (rdel : bool) (cs : list changer) (d : definfo) (m : mapping) : option mapping :=
  match cs with
  | [] => Some m
  | ch :: r =>
      match change_map rdel ch d m, change_def ch d with
      | Some m1, Some d1 => apply_maps rdel r d1 m1
      | _, _ => None
      end
  end.

(* _FunctionChangers.change_call after CallInfo.read *)
Definition change_call (rdel : bool) (cs : list changer) (d : definfo) (c : callinfo) : option callinfo :=
  match apply_defs cs d, apply_maps rdel cs d (mapping_init d c) with
  | Some d', Some m' => Some (to_call_info m' c d')
  | _, _ => None
  end.

(* ------------------------------------------------------------------------------------------------ *)
(* DefinitionInfo._read over _FunctionDefParser.get_parameters, on the `ast.arguments` of the header.
   The parser works on strings such as "*r" and "**k"; tokens are opaque, so the harness supplies for
   the starred names both tokens (of "r" and of "*r"), and the tokens of "" and "*".                  *)
Record astargs := mkAst {
  a_params     : list N;                 (* posonlyargs ++ args *)
  a_vararg     : option (N * N);         (* (token of "r", token of "*r") *)
  a_defaults   : list N;                 (* source text of args.defaults *)
  a_kwarg      : option (N * N);         (* (token of "k", token of "**k") *)
  a_kwonly     : list N;
  a_kwdefaults : list (option N);        (* one entry per keyword-only parameter *)
  a_empty      : N;                      (* token of "" *)
  a_bare       : N                       (* token of "*" *)
}.

(* an entry of the parser's `args` list: its string token and what startswith() sees *)
Inductive pitem := INm (t : N) | IStar (base t : N) | IStarStar (base t : N).

Definition item_tok (i : pitem) : N :=
  match i with INm t => t | IStar _ t => t | IStarStar _ t => t end.

Definition lastn {A} (n : nat) (l : list A) : list A := skipn (length l - n) l.    (* l[-n:], n > 0 *)
Definition droplast {A} (n : nat) (l : list A) : list A := firstn (length l - n) l. (* del l[-n:], n > 0 *)

Fixpoint zip {A B} (a : list A) (b : list B) : list (A * B) :=
  match a, b with
  | x :: a', y :: b' => (x, y) :: zip a' b'
  | _, _ => []
  end.

(* _FunctionDefParser.get_parameters; None = the parser raises (AttributeError on a keyword-only
   parameter without default) or leaves the modelled domain (a (name, default) tuple used as a name).
   [fixed] = true is the current code (commit e1c84b5: "*vararg" is appended after the defaults have
   been zipped onto the last entries); [fixed] = false is the code as first found (appended BEFORE, so
   `def f(a, b=1, *r)` was read as a, b, "*r"=1), kept to document the fixed defect.  The harness
   evaluates fixed = true and reports a VIOLATION if rope shows the old behaviour. *)
Definition get_parameters (fixed : bool) (a : astargs) : option (list pitem * list (N * option N)) :=
  let va := match a_vararg a with Some (b, t) => [IStar b t] | None => [] end in
  let args0 := map INm (a_params a) ++ (if fixed then [] else va) in
  let n := length (a_defaults a) in
  let '(args1, kwargs1) :=
    match n with
    | O => (args0, [])
    | _ => (droplast n args0, map (fun p => (item_tok (fst p), Some (snd p))) (zip (lastn n args0) (a_defaults a)))
    end in
  let args2 := args1 ++ (if fixed then va else [])
               ++ (match a_kwarg a with Some (b, t) => [IStarStar b t] | None => [] end) in
  let args3 := match a_kwonly a with
               | [] => args2
               | _ => args2 ++ [IStar (a_empty a) (a_bare a)] ++ map INm (a_kwonly a)
               end in
  let m := length (a_kwdefaults a) in
  match m with
  | O => Some (args3, kwargs1)
  | _ =>
      match zip (lastn m kwargs1) (a_kwdefaults a) with
      | [] => Some (droplast m args3, kwargs1)
      | _ :: _ => None
      end
  end.

Definition last_item (l : list pitem) : option pitem := nth_error l (length l - 1).

(* DefinitionInfo._read *)
Definition def_read (fixed : bool) (a : astargs) : option definfo :=
  match get_parameters fixed a with
  | None => None
  | Some (args, kwargs) =>
      let '(args, kw) := match last_item args with
                         | Some (IStarStar b _) => (droplast 1 args, Some b)
                         | _ => (args, None)
                         end in
      let '(args, star) := match last_item args with
                           | Some (IStar b _) => (droplast 1 args, Some b)
                           | _ => (args, None)
                           end in
      Some (mkDef (map (fun i => (item_tok i, None)) args ++ kwargs) star kw)
  end.

(* what the header means in Python, for headers without keyword-only parameters: the defaults belong
   to the last parameters *)
Definition def_of_ast (a : astargs) : definfo :=
  let n := length (a_defaults a) in
  mkDef (map (fun p => (p, None)) (firstn (length (a_params a) - n) (a_params a))
         ++ map (fun p => (fst p, Some (snd p))) (zip (skipn (length (a_params a) - n) (a_params a)) (a_defaults a)))
        (option_map fst (a_vararg a)) (option_map fst (a_kwarg a)).

(* ------------------------------------------------------------------------------------------------ *)
(* Text level: what to_string emits and what the parsers read back, as token structures.             *)
Inductive ptoken := PPlain (n : pname) | PDefault (n : pname) (e : aexpr) | PStar (n : pname) | PKw (n : pname).

(* DefinitionInfo.arguments_to_string *)
Definition def_render (d : definfo) : list ptoken :=
  map (fun p => match p with (n, Some e) => PDefault n e | (n, None) => PPlain n end) (d_args d)
  ++ (match d_star d with Some s => [PStar s] | None => [] end)
  ++ (match d_kw d with Some k => [PKw k] | None => [] end).

Record rendered := mkRend {
  r_recv   : option aexpr;            (* `recv.` in front of the function name *)
  r_fname  : N;
  r_pos    : list aexpr;
  r_kws    : list (pname * aexpr);
  r_star   : option aexpr;
  r_kwstar : option aexpr
}.

(* CallInfo.to_string; None = IndexError on self.args[0] *)
Definition call_render (c : callinfo) : option rendered :=
  if c_implicit c then
    match c_args c with
    | [] => None
    | a :: rest => Some (mkRend (Some a) (c_fname c) rest (c_kws c) (c_star c) (c_kwstar c))
    end
  else
    Some (mkRend None (c_fname c) (if c_ctor c then tl (c_args c) else c_args c)
                 (c_kws c) (c_star c) (c_kwstar c)).

(* CallInfo.read on a rendered call: [implicit]/[ctor] are what rope's type inference says about the
   callee (method called on an instance / class called); None = IndexError (definition without
   parameters for a constructor).  [kwfix] = true is the current code (commit 091d633: a **mapping of
   the call is carried through as keywords_arg); [kwfix] = false is the code as first found, where
   `assert kw.arg` of _FunctionCallParser.get_parameters fired on such a call (AssertionError, None
   here) and the `**` branch of CallInfo.read was unreachable; kept to document the fixed defect.  The
   harness evaluates kwfix = true and reports a VIOLATION if the assertion is back. *)
Definition call_read (kwfix : bool) (d : definfo) (implicit ctor : bool) (r : rendered) : option callinfo :=
  if is_some (r_kwstar r) && negb kwfix then None else
  let args0 := match r_recv r with
               | Some a => if implicit then a :: r_pos r else r_pos r
               | None => r_pos r
               end in
  if ctor then
    match d_args d with
    | [] => None
    | (n, _) :: _ => Some (mkCall (r_fname r) (n :: args0) (r_kws r) (r_star r) (r_kwstar r) implicit ctor)
    end
  else Some (mkCall (r_fname r) args0 (r_kws r) (r_star r) (r_kwstar r) implicit ctor).

(* ------------------------------------------------------------------------------------------------ *)
(* Call-site discovery of ChangeSignature._change_calls / _ChangeCallsInModule, over what the callee
   expression of a call statically denotes:
     CTarget    the changed function itself (f, m.f, o.meth, A.meth, A.__init__ ...)
     CClass     the class whose __init__ is the changed function (A(...), m.A(...), self.A(...))
     CSubclass  a subclass that inherits that __init__ (class B(A): pass; B(...))
     COther     anything else.
   occurrences.create_finder(name, pyname) yields the occurrences of the function; for __init__
   _MultipleFinders adds create_finder(class name, class pyname, only_calls=True).  A subclass has a
   pyname of its own, so its constructor calls are in neither finder: they are left alone. *)
Inductive callee := CTarget | CClass | CSubclass | COther.

Definition finder_finds (is_init : bool) (k : callee) : bool :=
  match k with
  | CTarget => true
  | CClass => is_init
  | CSubclass | COther => false
  end.

Record psite := mkPsite { ps_callee : callee; ps_implicit : bool; ps_ctor : bool; ps_call : rendered }.

(* _ChangeCallsInModule.get_changed_module for one call occurrence: found -> read, change, print;
   not found -> the text stays.  None = rope raises. *)
Definition change_site (kwfix rdel is_init : bool) (d : definfo) (cs : list changer) (s : psite) : option rendered :=
  if finder_finds is_init (ps_callee s) then
    match call_read kwfix d (ps_implicit s) (ps_ctor s) (ps_call s) with
    | None => None
    | Some c => match change_call rdel cs d c with Some c' => call_render c' | None => None end
    end
  else Some (ps_call s).

(* ------------------------------------------------------------------------------------------------ *)
(* Specification: Python's call binding (PEP 3102-free fragment: positional-or-keyword parameters
   with defaults, *a, **k).  Written from the language reference, independently of ArgumentMapping.   *)
Record binding := mkBind {
  b_params : list (pname * aexpr);     (* every parameter with the expression it receives; a parameter
                                        filled by its default receives the default expression *)
  b_star   : list aexpr;              (* what *a collects *)
  b_kw     : list (pname * aexpr)      (* what **k collects *)
}.

Fixpoint nodup_names (l : list pname) : bool :=
  match l with
  | [] => true
  | x :: r => negb (has_name x r) && nodup_names r
  end.

(* no parameter without default after one with a default *)
Fixpoint defaults_suffix (seen : bool) (ps : list (pname * option aexpr)) : bool :=
  match ps with
  | [] => true
  | (_, Some _) :: r => defaults_suffix true r
  | (_, None) :: r => negb seen && defaults_suffix false r
  end.

Definition opt_list {A} (o : option A) : list A := match o with Some x => [x] | None => [] end.

(* the definition compiles: distinct parameter names, defaults form a suffix *)
Definition valid_def (d : definfo) : bool :=
  nodup_names (names d ++ opt_list (d_star d) ++ opt_list (d_kw d)) && defaults_suffix false (d_args d).

(* slots: each parameter with what is bound to it so far *)
Fixpoint bind_pos (ps : list (pname * option aexpr)) (args : list aexpr)
  : list (pname * option aexpr) * list aexpr :=
  match ps with
  | [] => ([], args)
  | (n, _) :: ps' =>
      match args with
      | [] => let '(s, r) := bind_pos ps' [] in ((n, None) :: s, r)
      | v :: args' => let '(s, r) := bind_pos ps' args' in ((n, Some v) :: s, r)
      end
  end.

(* bind keyword n; None = "multiple values for argument" *)
Fixpoint slot_set (n : pname) (v : aexpr) (slots : list (pname * option aexpr))
  : option (list (pname * option aexpr)) :=
  match slots with
  | [] => None
  | (m, b) :: r =>
      if N.eqb m n then match b with None => Some ((m, Some v) :: r) | Some _ => None end
      else match slot_set n v r with Some r' => Some ((m, b) :: r') | None => None end
  end.

Fixpoint bind_kws (has_kw : bool) (kws : list (pname * aexpr)) (slots : list (pname * option aexpr))
         (extra : list (pname * aexpr)) : option (list (pname * option aexpr) * list (pname * aexpr)) :=
  match kws with
  | [] => Some (slots, extra)
  | (n, v) :: r =>
      if has_name n (map fst slots) then
        match slot_set n v slots with
        | Some s' => bind_kws has_kw r s' extra
        | None => None
        end
      else if has_kw && negb (has_name n (map fst extra)) then bind_kws has_kw r slots (extra ++ [(n, v)])
      else None                              (* unexpected / repeated keyword argument *)
  end.

(* missing arguments take the default; None = "missing required argument" *)
Fixpoint fill_defaults (ps slots : list (pname * option aexpr)) : option (list (pname * aexpr)) :=
  match ps, slots with
  | [], [] => Some []
  | (n, dflt) :: ps', (_, b) :: s' =>
      match (match b with Some v => Some v | None => dflt end), fill_defaults ps' s' with
      | Some v, Some r => Some ((n, v) :: r)
      | _, _ => None
      end
  | _, _ => None
  end.

Definition bind_args (d : definfo) (args : list aexpr) (kws : list (pname * aexpr)) : option binding :=
  if negb (valid_def d) then None else
  let '(slots, surplus) := bind_pos (d_args d) args in
  match surplus, d_star d with
  | _ :: _, None => None                     (* too many positional arguments *)
  | _, _ =>
      match bind_kws (is_some (d_kw d)) kws slots [] with
      | None => None
      | Some (slots', extra) =>
          match fill_defaults (d_args d) slots' with
          | None => None
          | Some ps => Some (mkBind ps surplus extra)
          end
      end
  end.

(* a call without *xs / **kw is bound statically; with them the runtime contents are supplied:
   [xs] the elements of the starred iterable, [kv] the items of the double-starred mapping *)
Definition plain_call (c : callinfo) : bool := negb (is_some (c_star c)) && negb (is_some (c_kwstar c)).

Definition bind_with (d : definfo) (c : callinfo) (xs : list aexpr) (kv : list (pname * aexpr)) : option binding :=
  bind_args d (c_args c ++ (if is_some (c_star c) then xs else []))
            (c_kws c ++ (if is_some (c_kwstar c) then kv else [])).

Definition bind (d : definfo) (c : callinfo) : option binding :=
  if plain_call c then bind_args d (c_args c) (c_kws c) else None.

(* the expression a call passes explicitly to parameter n (None: relies on the default) *)
Fixpoint passed_pos (ps : list (pname * option aexpr)) (args : list aexpr) (n : pname) : option aexpr :=
  match ps, args with
  | (m, _) :: ps', v :: args' => if N.eqb m n then Some v else passed_pos ps' args' n
  | _, _ => None
  end.

Definition passed (d : definfo) (c : callinfo) (n : pname) : option aexpr :=
  match passed_pos (d_args d) (c_args c) n with
  | Some v => Some v
  | None => pd_get n (c_kws c)
  end.

Definition lookup (n : pname) (b : binding) : option aexpr := pd_get n (b_params b).

(* ------------------------------------------------------------------------------------------------ *)
(* Boolean side conditions of the preservation theorem                                               *)

(* every added parameter is new with respect to [seen] (the original parameters, the keywords of the
   call, the earlier additions) and comes with a default or a value *)
Fixpoint adds_ok (seen : list pname) (cs : list changer) : bool :=
  match cs with
  | [] => true
  | Add _ n dflt val :: r =>
      negb (has_name n seen) && (is_some dflt || is_some val) && adds_ok (n :: seen) r
  | _ :: r => adds_ok seen r
  end.

Definition adds_have_value (cs : list changer) : bool :=
  forallb (fun ch => match ch with Add _ _ _ None => false | _ => true end) cs.

Definition has_surplus (d : definfo) (c : callinfo) : bool := length (d_args d) <? length (c_args c).

(* IntroduceParameter.get_changes: definition_info.args_with_defaults.append((new_parameter, primary));
   the header is rewritten with to_string, the occurrences of the expression in the body become the
   new name, the call sites are left alone.                                                          *)
Definition introduce_def (d : definfo) (p e : N) : definfo :=
  mkDef (d_args d ++ [(p, Some e)]) (d_star d) (d_kw d).

Definition introduce_ok (d : definfo) (c : callinfo) (p : N) : bool :=
  negb (has_name p (names d ++ opt_list (d_star d) ++ opt_list (d_kw d) ++ map fst (c_kws c)))
  && negb (has_surplus d c).

Definition has_extra_kw (d : definfo) (c : callinfo) : bool :=
  existsb (fun kv => negb (has_param (d_args d) (fst kv))) (c_kws c).

(* methods and constructors: the receiver parameter stays first *)
Definition first_name (d : definfo) : option pname :=
  match d_args d with [] => None | (n, _) :: _ => Some n end.

Definition opt_N_eqb (a b : option N) : bool :=
  match a, b with Some x, Some y => N.eqb x y | None, None => true | _, _ => false end.

(* every intermediate definition has distinct parameter names (a new_order that is not a permutation
   can duplicate one); only needed when the remover deletes by name *)
Fixpoint nodup_steps (cs : list changer) (d : definfo) : bool :=
  nodup_names (names d)
  && match cs with
     | [] => true
     | ch :: r => match change_def ch d with Some d1 => nodup_steps r d1 | None => true end
     end.

Definition side_ok (rdel : bool) (d : definfo) (cs : list changer) (c : callinfo) (d' : definfo) : bool :=
  valid_def d'                                                       (* includes valid_order *)
  && adds_ok (names d ++ map fst (c_kws c)) cs
  && (negb (has_surplus d c) || (adds_have_value cs && is_some (d_star d')))
  && (negb (has_extra_kw d c) || is_some (d_kw d'))
  && (negb rdel || nodup_steps cs d).

(* text level: the receiver parameter of a method / constructor call stays first, and a call is not
   both (rope's is_method_call and is_constructor are exclusive) *)
Definition recv_ok (d : definfo) (c : callinfo) (d' : definfo) : bool :=
  negb (c_implicit c && c_ctor c)
  && (negb (c_implicit c || c_ctor c) || opt_N_eqb (first_name d) (first_name d')).
