(* Correspondence runner for C06.  The harness writes, with the inputs, what rope produced; the
   comparison with the model is computed here by vm_compute. *)
From Coq Require Import List NArith Bool Arith.
From RopeVerif.C06 Require Import Args.
Import ListNotations.

Definition opt_eqb {A} (eqb : A -> A -> bool) (a b : option A) : bool :=
  match a, b with Some x, Some y => eqb x y | None, None => true | _, _ => false end.

Fixpoint list_eqb {A} (eqb : A -> A -> bool) (a b : list A) : bool :=
  match a, b with
  | [], [] => true
  | x :: a', y :: b' => eqb x y && list_eqb eqb a' b'
  | _, _ => false
  end.

Definition pair_eqb {A B} (ea : A -> A -> bool) (eb : B -> B -> bool) (a b : A * B) : bool :=
  ea (fst a) (fst b) && eb (snd a) (snd b).

Definition kws_eqb := list_eqb (pair_eqb N.eqb N.eqb).

Definition def_eqb (a b : definfo) : bool :=
  list_eqb (pair_eqb N.eqb (opt_eqb N.eqb)) (d_args a) (d_args b)
  && opt_eqb N.eqb (d_star a) (d_star b) && opt_eqb N.eqb (d_kw a) (d_kw b).

Definition call_eqb (a b : callinfo) : bool :=
  N.eqb (c_fname a) (c_fname b) && list_eqb N.eqb (c_args a) (c_args b) && kws_eqb (c_kws a) (c_kws b)
  && opt_eqb N.eqb (c_star a) (c_star b) && opt_eqb N.eqb (c_kwstar a) (c_kwstar b)
  && Bool.eqb (c_implicit a) (c_implicit b) && Bool.eqb (c_ctor a) (c_ctor b).

Definition ptoken_eqb (a b : ptoken) : bool :=
  match a, b with
  | PPlain x, PPlain y | PStar x, PStar y | PKw x, PKw y => N.eqb x y
  | PDefault x e, PDefault y f => N.eqb x y && N.eqb e f
  | _, _ => false
  end.

Definition rend_eqb (a b : rendered) : bool :=
  opt_eqb N.eqb (r_recv a) (r_recv b) && N.eqb (r_fname a) (r_fname b)
  && list_eqb N.eqb (r_pos a) (r_pos b) && kws_eqb (r_kws a) (r_kws b)
  && opt_eqb N.eqb (r_star a) (r_star b) && opt_eqb N.eqb (r_kwstar a) (r_kwstar b).

Definition binding_eqb (a b : binding) : bool :=
  kws_eqb (b_params a) (b_params b) && list_eqb N.eqb (b_star a) (b_star b) && kws_eqb (b_kw a) (b_kw b).

(* ---- unit level: rope's DefinitionInfo / CallInfo / ArgumentMapping objects driven directly ------ *)
Record ucase := {
  u_rdel : bool;                    (* which variant of ArgumentRemover rope runs (probed) *)
  u_def  : definfo;
  u_call : callinfo;
  u_cs   : list changer;
  u_newdef  : option definfo;       (* changed_definition_infos[-1]; None = raised *)
  u_newcall : option callinfo;      (* mapping.to_call_info(...) after the changers; None = raised *)
  u_bind    : option binding        (* inspect.signature(old).bind(old call), None = TypeError / invalid *)
}.

(* the conclusion of C06_preserve, computed: 0 = outside the domain, 1 = holds, 2 = fails *)
Definition preserved (rdel : bool) (d : definfo) (cs : list changer) (c : callinfo) : N :=
  match apply_defs cs d, bind d c with
  | Some d', Some b =>
      if side_ok rdel d cs c d' && recv_ok d c d' then
        match change_call rdel cs d c with
        | Some c' =>
            match bind d' c' with
            | Some b' =>
                if forallb (fun n => negb (has_name n (names d')) || opt_eqb N.eqb (lookup n b') (lookup n b)) (names d)
                   && list_eqb N.eqb (b_star b') (b_star b) && kws_eqb (b_kw b') (b_kw b)
                then 1%N else 2%N
            | None => 2%N
            end
        | None => 0%N        (* rope raises on this call: the whole refactoring is refused *)
        end
      else 0%N
  | _, _ => 0%N
  end.

(* result codes: 0 agree; 1 definition differs; 2 call differs; 3 bind spec differs from CPython;
   4 in-domain case on which the model does not preserve the binding (excluded by the theorem) *)
Definition run_ucase (k : ucase) : N :=
  if negb (opt_eqb def_eqb (apply_defs (u_cs k) (u_def k)) (u_newdef k)) then 1%N
  else if negb (opt_eqb call_eqb (change_call (u_rdel k) (u_cs k) (u_def k) (u_call k)) (u_newcall k)) then 2%N
  else if plain_call (u_call k) && negb (opt_eqb binding_eqb (bind (u_def k) (u_call k)) (u_bind k)) then 3%N
  else if N.eqb (preserved (u_rdel k) (u_def k) (u_cs k) (u_call k)) 2 then 4%N
  else 0%N.

(* ---- end to end: ChangeSignature(...).get_changes(changers) on a temporary project ------------- *)
(* s_call / e_newcalls come from the harness with every positional argument, starred or not, as a
   token in r_pos and r_star = None; s_stars lists (token of "xs", token of "*xs") for the starred
   ones, so that `args[-1].startswith("*")` of CallInfo.read can be decided here *)
Record site := { s_callee : callee; s_implicit : bool; s_ctor : bool; s_call : rendered; s_stars : list (N * N) }.

Fixpoint star_base (stars : list (N * N)) (t : N) : option N :=
  match stars with
  | [] => None
  | (b, s) :: r => if N.eqb s t then Some b else star_base r t
  end.

Fixpoint star_tok (stars : list (N * N)) (b : N) : option N :=
  match stars with
  | [] => None
  | (b0, s) :: r => if N.eqb b0 b then Some s else star_tok r b
  end.

(* the syntactic reading of the argument list: a starred last positional is the * argument *)
Definition norm_in (stars : list (N * N)) (r : rendered) : rendered :=
  match rev (r_pos r) with
  | last :: front =>
      match star_base stars last with
      | Some b => mkRend (r_recv r) (r_fname r) (rev front) (r_kws r) (Some b) (r_kwstar r)
      | None => r
      end
  | [] => r
  end.

(* and back: to_string prints "*" + args_arg after the positionals *)
Definition norm_out (stars : list (N * N)) (r : rendered) : rendered :=
  match r_star r with
  | Some b =>
      match star_tok stars b with
      | Some s => mkRend (r_recv r) (r_fname r) (r_pos r ++ [s]) (r_kws r) None (r_kwstar r)
      | None => r
      end
  | None => r
  end.

Record ecase := {
  e_kwfix : bool;                      (* which variant of the call parser rope runs: does a **mapping call parse (probed) *)
  e_init : bool;                       (* the changed function is an __init__ *)
  e_rdel : bool;                       (* which variant of ArgumentRemover rope runs (probed) *)
  e_fixed : bool;                      (* which variant of the header parser rope runs (probed) *)
  e_ast   : astargs;                   (* the header as CPython's ast sees it *)
  e_cs    : list changer;
  e_sites : list site;
  e_newdef   : option (list ptoken);      (* None = get_changes raised *)
  e_newcalls : list rendered
}.

(* e_init: the changed function is an __init__ (the constructor finder is added) *)
Definition model_site (kwfix rdel is_init : bool) (d : definfo) (cs : list changer) (s : site) : option rendered :=
  option_map (norm_out (s_stars s))
    (change_site kwfix rdel is_init d cs (mkPsite (s_callee s) (s_implicit s) (s_ctor s) (norm_in (s_stars s) (s_call s)))).

Fixpoint all_some {A} (l : list (option A)) : option (list A) :=
  match l with
  | [] => Some []
  | Some x :: r => match all_some r with Some r' => Some (x :: r') | None => None end
  | None :: _ => None
  end.

Definition site_preserved (kwfix rdel is_init : bool) (d : definfo) (cs : list changer) (s : site) : N :=
  if negb (finder_finds is_init (s_callee s)) then 0%N else
  match call_read kwfix d (s_implicit s) (s_ctor s) (norm_in (s_stars s) (s_call s)) with
  | Some c => preserved rdel d cs c
  | None => 0%N
  end.

Definition e_def (k : ecase) : definfo :=
  match def_read (e_fixed k) (e_ast k) with Some d => d | None => mkDef [] None None end.

(* the header was read as what it means in Python (no keyword-only parameters, defaults attached to
   the right parameters): only then do the theorems about [bind (e_def k)] speak about the program *)
Definition read_ok (fixed : bool) (a : astargs) : bool :=
  match a_kwonly a with [] => opt_eqb def_eqb (def_read fixed a) (Some (def_of_ast a)) | _ => false end.

Definition e_site_code (k : ecase) (s : site) : N :=
  if read_ok (e_fixed k) (e_ast k) then site_preserved (e_kwfix k) (e_rdel k) (e_init k) (e_def k) (e_cs k) s else 0%N.

(* the observable is the emitted text: a parameter whose *name* is the string "*r" (the misread vararg)
   and the vararg r both print as `*r`; both sides are brought to the same token before comparing *)
Definition canon_tok (a : astargs) (t : ptoken) : ptoken :=
  match t with
  | PPlain x =>
      match a_vararg a, a_kwarg a with
      | Some (b, s), _ => if N.eqb x s then PStar b else
                            match a_kwarg a with Some (b2, s2) => if N.eqb x s2 then PKw b2 else t | None => t end
      | None, Some (b2, s2) => if N.eqb x s2 then PKw b2 else t
      | None, None => t
      end
  | _ => t
  end.

Definition run_ecase (k : ecase) : N :=
  let md := match def_read (e_fixed k) (e_ast k) with Some d => apply_defs (e_cs k) d | None => None end in
  let mc := all_some (map (model_site (e_kwfix k) (e_rdel k) (e_init k) (e_def k) (e_cs k)) (e_sites k)) in
  match md, mc with
  | Some d', Some calls =>
      match e_newdef k with
      | None => 1%N
      | Some toks =>
          if negb (list_eqb ptoken_eqb (map (canon_tok (e_ast k)) (def_render d')) toks) then 1%N
          else if negb (list_eqb rend_eqb calls (e_newcalls k)) then 2%N
          else if existsb (fun s => N.eqb (e_site_code k s) 2) (e_sites k) then 4%N
          else 0%N
      end
  | _, _ => match e_newdef k with None => 0%N | Some _ => 1%N end
  end.

Fixpoint mismatches_from {A} (f : A -> N) (i : N) (cs : list A) : list (N * N) :=
  match cs with
  | [] => []
  | c :: r =>
      let code := f c in
      if N.eqb code 0 then mismatches_from f (N.succ i) r else (i, code) :: mismatches_from f (N.succ i) r
  end.
Definition umismatches (cs : list ucase) : list (N * N) := mismatches_from run_ucase 0 cs.
Definition emismatches (cs : list ecase) : list (N * N) := mismatches_from run_ecase 0 cs.

(* how many (case, call) pairs lie inside the domain of C06_preserve *)
Definition ucount_domain (cs : list ucase) : N :=
  N.of_nat (length (filter (fun k => N.eqb (preserved (u_rdel k) (u_def k) (u_cs k) (u_call k)) 1) cs)).
Definition ecount_domain (cs : list ecase) : N :=
  N.of_nat (length (flat_map (fun k => filter (fun s => N.eqb (e_site_code k s) 1) (e_sites k)) cs)).

(* per site the domain code (0 outside, 1 inside and preserved, 2 inside and not preserved), each case
   terminated by 9, so that the harness can compare with its own, CPython-based, domain classification *)
Definition edomain (cs : list ecase) : list N :=
  flat_map (fun k => map (e_site_code k) (e_sites k) ++ [9%N]) cs.
Definition udomain (cs : list ucase) : list N :=
  map (fun k => preserved (u_rdel k) (u_def k) (u_cs k) (u_call k)) cs.

(* ---- IntroduceParameter(project, resource, offset).get_changes(name) ---------------------------- *)
Record icase := {
  i_kwfix : bool;
  i_fixed : bool;
  i_ast : astargs;
  i_p : N;                               (* the new parameter *)
  i_e : N;                               (* the expression (primary) it replaces *)
  i_sites : list site;                   (* call sites, left alone by the refactoring *)
  i_newdef : option (list ptoken)        (* None = raised *)
}.

Definition i_def (k : icase) : definfo :=
  match def_read (i_fixed k) (i_ast k) with Some d => d | None => mkDef [] None None end.

(* 0 outside the domain of C06_introduce_parameter, 1 inside and the conclusion holds, 2 inside and fails *)
Definition i_site_code (k : icase) (s : site) : N :=
  if read_ok (i_fixed k) (i_ast k) then
    match call_read (i_kwfix k) (i_def k) (s_implicit s) (s_ctor s) (norm_in (s_stars s) (s_call s)) with
    | Some c =>
        match bind (i_def k) c with
        | Some b =>
            if introduce_ok (i_def k) c (i_p k) then
              match bind (introduce_def (i_def k) (i_p k) (i_e k)) c with
              | Some b' =>
                  if forallb (fun n => opt_eqb N.eqb (lookup n b') (lookup n b)) (names (i_def k))
                     && opt_eqb N.eqb (lookup (i_p k) b') (Some (i_e k))
                     && list_eqb N.eqb (b_star b') (b_star b) && kws_eqb (b_kw b') (b_kw b)
                  then 1%N else 2%N
              | None => 2%N
              end
            else 0%N
        | None => 0%N
        end
    | None => 0%N
    end
  else 0%N.

Definition run_icase (k : icase) : N :=
  match def_read (i_fixed k) (i_ast k) with
  | Some d =>
      match i_newdef k with
      | Some toks =>
          if negb (list_eqb ptoken_eqb (map (canon_tok (i_ast k)) (def_render (introduce_def d (i_p k) (i_e k)))) toks) then 1%N
          else if existsb (fun s => N.eqb (i_site_code k s) 2) (i_sites k) then 4%N else 0%N
      | None => 1%N
      end
  | None => match i_newdef k with None => 0%N | Some _ => 1%N end
  end.

Definition imismatches (cs : list icase) : list (N * N) := mismatches_from run_icase 0 cs.
Definition idomain (cs : list icase) : list N :=
  flat_map (fun k => map (i_site_code k) (i_sites k) ++ [9%N]) cs.
