(* Property C05 — theorems only. Each is closed by [exact] and followed by Print Assumptions. *)
From Coq Require Import List NArith Bool Arith.
From RopeVerif.C05 Require Import Layout LayoutProofs Move Domain MoveProofs RootProofs RenameProofs ToPackageProofs SimProofs BystanderProofs Refute RefuteProofs.
Import ListNotations.

(* libutils.modname is inverted by Project.find_module: for every layout (any depth, any number of source
   folders), every folder and Python file of it that is reachable by its name (its naming root is a source
   folder, no earlier source folder answers the same dotted name, a file m.py has no sibling folder m).
   For p/__init__.py the answer is the package folder p. *)
Theorem C05_modname_inverse :
  forall (l : layout) (r : res),
    wf_layout l = true -> in_layout l r = true -> no_shadowing l r = true ->
    find_module l (modname l r) = Some (canon r).
Proof. exact modname_inverse. Qed.
Print Assumptions C05_modname_inverse.

(* Relative variant: from every package level below its folder a module is found by its own name. *)
Theorem C05_relative_inverse :
  forall (l : layout) (r : res) (below : path),
    wf_layout l = true -> in_layout l r = true ->
    match r with
    | RPy p n => negb (N.eqb n INIT) && negb (is_dir l (p ++ [n]))
    | RDir _ => true
    end = true ->
    find_relative_module l [match r with RDir p => last_name p | RPy _ n => n end]
                         (res_parent r ++ below) (S (length below)) = Some r.
Proof. exact relative_inverse. Qed.
Print Assumptions C05_relative_inverse.

(* MoveModule of a module file p/b.py into a package dest (legal_move: any layout whose root is the only
   source folder, nothing named b at the destination, ...): for a client written in one of the styles
     import p.b | import p.b as x | from p import b [as x] | from p.b import g [as k] | from p.b import *
     | from . import b | from .b import g [as k]
   — and, for the variant of the code whose import context knows the importing module's folder
   (v_relctx V = true, proposed_fixes/C05-relative-from-import-context.diff), also  from . import b as x  —
   with any number of references to the module and its globals through the bound name, the model of
   MoveModule._change_occurrences_in_module terminates without raising, keeps the number and order of the
   references, and every reference that meant object o before (Python's semantics: resolve_ref, including
   "is the submodule loaded") means the moved object after, in the moved tree. *)
Theorem C05_move_module_refs :
  forall (V : variant) (w : world) (p : path) (b : N) (dest : path),
    legal_move w p b dest = true ->
    forall (folder : path) (name : N) (st : style) (refs : list dotted),
      style_side V w p b dest folder st = true ->
      forallb (ref_ok w p b st) refs = true ->
      let m := client_of p b folder name st refs in
      exists m',
        change_occurrences V w (RPy p b) dest m = Done m'
        /\ m_folder m' = folder /\ m_name m' = name
        /\ length (m_refs m') = length (m_refs m)
        /\ forall i r o,
             nth_error (m_refs m) i = Some r -> resolve_ref w m r = Some o ->
             exists r', nth_error (m_refs m') i = Some r'
                        /\ resolve_ref (move_world (RPy p b) dest w) m' r'
                           = Some (move_obj (move_res (RPy p b) dest) o).
Proof. exact move_module_client. Qed.
Print Assumptions C05_move_module_refs.

(* The same statement for the boolean domain predicate the correspondence run evaluates on every case. *)
Theorem C05_move_module_domain :
  forall (V : variant) (w : world) (p : path) (b : N) (dest : path) (m : pymod),
    move_domain V w (RPy p b) dest m = true ->
    exists m', move_module_text V w (RPy p b) dest m = Done m'
               /\ m_folder m' = m_folder m /\ m_name m' = m_name m
               /\ refs_preserved w p b dest m m'.
Proof. exact move_module_domain. Qed.
Print Assumptions C05_move_module_domain.

(* Destination = project root, for the variant of the code in which _change_import_statements also runs when
   the destination has no module name (v_rootfrom V = true, proposed_fixes/C05-move-to-source-root-from-imports.diff):
   a client  from p import b [as x]  is rewritten to  import b [as x]  and every reference through the bound
   name reaches the moved module / its globals.  (As found, the aliased form is C05_move_to_root_refuted.) *)
Theorem C05_move_to_root_refs :
  forall (V : variant) (w : world) (p : path) (b : N) (m : pymod),
    root_domain V w (RPy p b) m = true ->
    exists m', move_module_text V w (RPy p b) [] m = Done m'
               /\ m_folder m' = m_folder m /\ m_name m' = m_name m /\ m_refs m' = m_refs m
               /\ forall r o, In r (m_refs m) -> resolve_ref w m r = Some o ->
                    resolve_ref (move_world (RPy p b) [] w) m' r = Some (move_obj (move_res (RPy p b) []) o).
Proof. exact move_to_root_domain. Qed.
Print Assumptions C05_move_to_root_refs.

(* The witnesses of C05_move_relative_alias_refuted and C05_move_to_root_refuted (and the AttributeError of
   C05_move_crash_example) under the repaired variant: not broken, and inside the extended theorems' domains. *)
Example C05_example_repaired :
  breaks_move repaired w1 (RPy [a_] b_) [c_] m_rel_alias = false
  /\ move_domain repaired w1 (RPy [a_] b_) [c_] m_rel_alias = true
  /\ move_domain as_found w1 (RPy [a_] b_) [c_] m_rel_alias = false
  /\ breaks_move repaired w1 (RPy [a_] b_) [] m_root_alias = false
  /\ root_domain repaired w1 (RPy [a_] b_) m_root_alias = true
  /\ root_domain repaired w1 (RPy [a_] b_) m_ex_root = true
  /\ move_module_text repaired w1 (RPy [a_] b_) [c_] m_crash
     = Done (mk [a_; p_] [IFrom 0 [c_] [(b_, None)]] [[b_; f_]]).
Proof. exact repaired_examples. Qed.
Print Assumptions C05_example_repaired.

(* ---- headline statements for the code as it is now: Refute.repaired = the three MoveModule repairs
   9f7c670 (import context knows the folder), 4ab2467 (root destination), 0b4a7b3 (Case 3 writes an absolute
   from-import) are in; the harness treats any other probed behaviour as a VIOLATION *)
Theorem C05_move_module_refs_repaired :
  forall (w : world) (p : path) (b : N) (dest : path) (m : pymod),
    move_domain repaired w (RPy p b) dest m = true ->
    exists m', move_module_text repaired w (RPy p b) dest m = Done m'
               /\ m_folder m' = m_folder m /\ m_name m' = m_name m
               /\ refs_preserved w p b dest m m'.
Proof. exact (move_module_domain repaired). Qed.
Print Assumptions C05_move_module_refs_repaired.

Theorem C05_move_to_root_refs_repaired :
  forall (w : world) (p : path) (b : N) (m : pymod),
    root_domain repaired w (RPy p b) m = true ->
    exists m', move_module_text repaired w (RPy p b) [] m = Done m'
               /\ m_folder m' = m_folder m /\ m_name m' = m_name m /\ m_refs m' = m_refs m
               /\ forall r o, In r (m_refs m) -> resolve_ref w m r = Some o ->
                    resolve_ref (move_world (RPy p b) [] w) m' r = Some (move_obj (move_res (RPy p b) []) o).
Proof. exact (move_to_root_domain repaired). Qed.
Print Assumptions C05_move_to_root_refs_repaired.

(* By-standers, with ANY number of import statements and references: a module in which rope finds no occurrence of
   the moving module file and whose references mean the same with that file taken out of the project is left
   unchanged by MoveModule (any destination, the project root included; any variant of the code) and every one of
   its references keeps its meaning in the moved tree. *)
Theorem C05_bystander_refs :
  forall (V : variant) (w : world) (p : path) (b : N) (dest : path) (m : pymod),
    bystander_domain w (RPy p b) dest m = true ->
    move_module_text V w (RPy p b) dest m = Done m
    /\ forall r o, In r (m_refs m) -> resolve_ref w m r = Some o ->
         resolve_ref (move_world (RPy p b) dest w) m r = Some (move_obj (move_res (RPy p b) dest) o).
Proof. exact bystander_domain_thm. Qed.
Print Assumptions C05_bystander_refs.

Example C05_example_bystander :
  bystander_domain w3k (RPy [a_; p_] b_) [c_] m_by = true
  /\ bystander_domain w3k (RPy [a_; p_] b_) [] m_by = true
  /\ resolve_ref w3k m_by [x_; r_] = Some (OGlob (RPy [a_] q_) r_)
  /\ length (m_imports m_by) = 2.
Proof. exact example_bystander. Qed.
Print Assumptions C05_example_bystander.

(* C05_all_import: inside the theorems' domains no stale import statement remains — a module whose import
   statements all succeeded before still has only succeeding import statements after MoveModule (either
   destination kind) and after Rename, in the moved/renamed tree.  (Any variant of the code; for ModuleToPackage it
   is part of C05_to_package_refs' simulation and for every other module.) *)
Theorem C05_all_import_move :
  forall (V : variant) (w : world) (p : path) (b : N) (dest : path) (m m' : pymod),
    move_domain V w (RPy p b) dest m = true ->
    move_module_text V w (RPy p b) dest m = Done m' ->
    imports_ok w m = true -> imports_ok (move_world (RPy p b) dest w) m' = true.
Proof. exact move_module_all_import_domain. Qed.
Print Assumptions C05_all_import_move.

Theorem C05_all_import_move_to_root :
  forall (V : variant) (w : world) (p : path) (b : N) (m m' : pymod),
    root_domain V w (RPy p b) m = true ->
    move_module_text V w (RPy p b) [] m = Done m' ->
    imports_ok (move_world (RPy p b) [] w) m' = true.
Proof. exact move_to_root_all_import_domain. Qed.
Print Assumptions C05_all_import_move_to_root.

Theorem C05_all_import_rename :
  forall (w : world) (p : path) (b nb : N) (m : pymod),
    rename_domain w (RPy p b) nb m = true ->
    imports_ok w m = true ->
    imports_ok (map_world (rename_res (RPy p b) nb) w) (rename_module_text w (RPy p b) nb m) = true.
Proof. exact rename_module_all_import_domain. Qed.
Print Assumptions C05_all_import_rename.

Example C05_example_all_import :
  imports_ok w3 m_ex_import = true /\ imports_ok w3 m_ex_rel = true /\ imports_ok w3 m_ex_from = true
  /\ move_domain repaired w3 (RPy [a_; p_] b_) [c_] m_ex_rel = true.
Proof. exact example_all_import. Qed.
Print Assumptions C05_example_all_import.

(* Case 3 (names imported from the moving module through a relative from-import): broken with the old level-keeping
   Case 3, repaired by 0b4a7b3 — the model under `repaired` writes  from a.b import b . *)
Example C05_example_case3_repaired :
  breaks_move repaired w6 (RDir [c_; b_]) [a_] m_case3 = false
  /\ breaks_move {| v_relctx := true; v_rootfrom := true; v_case3abs := false |} w6 (RDir [c_; b_]) [a_] m_case3 = true
  /\ move_module_text repaired w6 (RDir [c_; b_]) [a_] m_case3
     = Done (mk [c_] [IFrom 0 [a_; b_] [(b_, None)]] [[b_; f_]]).
Proof. exact case3_examples. Qed.
Print Assumptions C05_example_case3_repaired.

(* Rename of a module file p/b.py to p/nb.py (rename_legal: the new name is free, ...): for the same client
   styles, the model of rename_in_module (every occurrence of the word b that evaluates to the module, in import
   statements and references alike) keeps the number and order of the references and every reference that
   meant o means the renamed object afterwards. *)
Theorem C05_rename_module_refs :
  forall (w : world) (p : path) (b nb : N),
    rename_legal w p b nb = true ->
    forall (folder : path) (name : N) (st : style) (refs : list dotted),
      rename_style_side p b folder st = true ->
      forallb (ref_ok w p b st) refs = true ->
      let m := client_of p b folder name st refs in
      let m' := rename_module_text w (RPy p b) nb m in
      length (m_refs m') = length (m_refs m)
      /\ forall i r o,
           nth_error (m_refs m) i = Some r -> resolve_ref w m r = Some o ->
           exists r', nth_error (m_refs m') i = Some r'
                      /\ resolve_ref (map_world (rename_res (RPy p b) nb) w) m' r'
                         = Some (move_obj (rename_res (RPy p b) nb) o).
Proof. exact rename_module_client. Qed.
Print Assumptions C05_rename_module_refs.

Theorem C05_rename_module_domain :
  forall (w : world) (p : path) (b nb : N) (m : pymod),
    rename_domain w (RPy p b) nb m = true ->
    r_refs_preserved w p b nb m (rename_module_text w (RPy p b) nb m).
Proof. exact rename_module_domain. Qed.
Print Assumptions C05_rename_module_domain.

Example C05_example_rename :
  rename_domain w3 (RPy [a_; p_] b_) nb_ m_ex_import = true
  /\ rename_domain w3 (RPy [a_; p_] b_) nb_ m_ex_rel = true
  /\ rename_domain w3 (RPy [a_; p_] b_) nb_ m_ex_from = true.
Proof. exact example_rename. Qed.
Print Assumptions C05_example_rename.

(* ModuleToPackage (p/b.py becomes p/b/__init__.py; no other module is rewritten): for EVERY other module of
   the project — any number of import statements in any style, any references — every reference that meant
   object o before means the same object afterwards (the module object itself being now the package). *)
Theorem C05_to_package_refs :
  forall (w : world) (p : path) (b : N) (m : pymod) (r : dotted) (o : obj),
    to_package_domain w (RPy p b) m = true ->
    resolve_ref w (to_package_text w (RPy p b) m) r = Some o ->
    resolve_ref (to_package_world (RPy p b) w) (to_package_text w (RPy p b) m) r
    = Some (move_obj (to_package_obj_res (RPy p b)) o).
Proof. exact to_package_domain_thm. Qed.
Print Assumptions C05_to_package_refs.

Example C05_example_to_package :
  to_package_domain w3 (RPy [a_; p_] b_) m_ex_import = true
  /\ to_package_domain w3 (RPy [a_; p_] b_) m_ex_rel = true
  /\ resolve_ref (to_package_world (RPy [a_; p_] b_) w3) m_ex_rel [b_; f_] = Some (OGlob (RDir [a_; p_; b_]) f_).
Proof. exact example_to_package. Qed.
Print Assumptions C05_example_to_package.

Example C05_example_inverse :
  let l := w_l w3 in
  wf_layout l = true /\ in_layout l (RPy [a_; p_] b_) = true /\ no_shadowing l (RPy [a_; p_] b_) = true
  /\ modname l (RPy [a_; p_] b_) = [a_; p_; b_]
  /\ in_layout l (RPy [a_; p_] INIT) = true /\ no_shadowing l (RPy [a_; p_] INIT) = true
  /\ modname l (RPy [a_; p_] INIT) = [a_; p_].
Proof. exact example_inverse. Qed.
Print Assumptions C05_example_inverse.

Example C05_example_move_domain :
  move_domain as_found w3 (RPy [a_; p_] b_) [c_] m_ex_import = true
  /\ move_domain as_found w3 (RPy [a_; p_] b_) [c_] m_ex_rel = true
  /\ move_domain as_found w3 (RPy [a_; p_] b_) [c_] m_ex_from = true
  /\ resolve_ref w3 m_ex_import [a_; p_; b_; f_] = Some (OGlob (RPy [a_; p_] b_) f_)
  /\ resolve_ref w3 m_ex_rel [b_; f_] = Some (OGlob (RPy [a_; p_] b_) f_)
  /\ resolve_ref w3 m_ex_from [x_; f_] = Some (OGlob (RPy [a_; p_] b_) f_).
Proof. exact example_move_domain. Qed.
Print Assumptions C05_example_move_domain.

(* ---- what the faithful model of the code AS FOUND does not satisfy (each witness is a replay under findings/ that fails on the
   real library); the hypotheses of C05_move_module_refs exclude exactly these shapes. *)

(* from . import b as x : relative from-imports are invisible to _change_import_statements *)
Theorem C05_move_relative_alias_refuted :
  exists w p b dest m, legal_move w p b dest = true /\ breaks_move as_found w (RPy p b) dest m = true.
Proof. exact rel_alias_refuted. Qed.
Print Assumptions C05_move_relative_alias_refuted.

(* destination = project root: _change_import_statements is skipped, from a import b as x stays *)
Theorem C05_move_to_root_refuted :
  exists w p b m, wf_layout (w_l w) = true /\ breaks_move as_found w (RPy p b) [] m = true.
Proof. exact to_root_refuted. Qed.
Print Assumptions C05_move_to_root_refuted.

(* import a.b ; a.g : the package name bound by the rewritten import disappears (one import statement) *)
Theorem C05_move_package_name_refuted :
  exists w p b dest m, legal_move w p b dest = true /\ breaks_move as_found w (RPy p b) dest m = true
                       /\ length (m_imports m) = 1.
Proof. exact package_name_refuted. Qed.
Print Assumptions C05_move_package_name_refuted.

Theorem C05_move_bound_twice_refuted :
  exists w p b dest m, legal_move w p b dest = true /\ breaks_move as_found w (RPy p b) dest m = true.
Proof. exact bound_twice_refuted. Qed.
Print Assumptions C05_move_bound_twice_refuted.

Theorem C05_move_head_bound_refuted :
  exists w p b dest m, legal_move w p b dest = true /\ breaks_move as_found w (RPy p b) dest m = true.
Proof. exact head_bound_refuted. Qed.
Print Assumptions C05_move_head_bound_refuted.

Theorem C05_move_star_destination_refuted :
  exists w p b dest m, legal_move w p b dest = true /\ breaks_move as_found w (RPy p b) dest m = true.
Proof. exact star_dest_refuted. Qed.
Print Assumptions C05_move_star_destination_refuted.

Theorem C05_move_package_relative_refuted :
  exists w q dest m, wf_layout (w_l w) = true /\ breaks_move as_found w (RDir q) dest m = true.
Proof. exact leaving_package_refuted. Qed.
Print Assumptions C05_move_package_relative_refuted.

Theorem C05_move_ancestor_attribute_refuted :
  exists w p b dest m, legal_move w p b dest = true /\ breaks_move as_found w (RPy p b) dest m = true.
Proof. exact ancestor_attr_refuted. Qed.
Print Assumptions C05_move_ancestor_attribute_refuted.

Theorem C05_three_dots_refuted :
  exists w p b dest m, legal_move w p b dest = true /\ breaks_move as_found w (RPy p b) dest m = true
                       /\ breaks_rename w (RPy p b) nb_ m = true.
Proof. exact three_dots_refuted. Qed.
Print Assumptions C05_three_dots_refuted.

Theorem C05_rename_bound_twice_refuted :
  exists w src newn m, wf_layout (w_l w) = true /\ breaks_rename w src newn m = true.
Proof. exact rename_twice_refuted. Qed.
Print Assumptions C05_rename_bound_twice_refuted.

(* from .. import b : the implementation raises AttributeError (nothing is changed) *)
Example C05_move_crash_example :
  exists w p b dest m, legal_move w p b dest = true /\ move_module_text as_found w (RPy p b) dest m = Crash.
Proof. exact crash_example. Qed.
Print Assumptions C05_move_crash_example.
