(* Property C04 — theorems only. Each is closed by [exact] and followed by Print Assumptions. *)
From Coq Require Import List NArith ZArith Bool.
From RopeVerif.Lib Require Import Text.
From RopeVerif.C04 Require Import Inline InlineProofs Expr ExprProofs Call CallProofs Rename RenameProofs Splice SpliceProofs Receiver ReceiverProofs.
Import ListNotations.

(* ------------------------------------------------------------------------------------------------
   Function inlining: argument binding at a call site.
   The parameter dictionary from which `_calculate_header` builds the `param = value` lines of a call
   site is exactly Python's binding of that call (positional, keyword, defaults), for every valid
   definition without * / ** parameters and every well-formed call without * / ** arguments, when the
   generator is in its initial state. *)
Theorem C04_binding :
  forall d c b,
    valid_def d = true -> bind d c = Some b ->
    update_state (init_state d) (param_dict d c) = map (fun p => (fst p, Some (snd p))) b
    /\ forall alias, fst (calculate_header alias d (init_state d) c) = header_of_binding b.
Proof. exact (fun d c b VD HB => conj (binding_correct d c b VD HB) (fun alias => header_correct alias d c b VD HB)). Qed.
Print Assumptions C04_binding.

(* Which variant is the code: since /repo 45cf20a `_calculate_header` works on `dict(self.definition_params)`,
   i.e. the CURRENT code is the variant [alias = false]; the correspondence run compares rope with that
   variant on every case.  [alias = true] is the code before that fix (`paramdict = self.definition_params`),
   kept in the model so that a regression is recognised and named; the statements about it below are history.

   The generator state is not modified by a call site (current code: the dict is copied per site). *)
Theorem C04_state_invariant :
  forall d st c, snd (calculate_header false d st c) = st.
Proof. exact state_invariant. Qed.
Print Assumptions C04_state_invariant.

(* ... hence the call sites are inlined independently of each other and of their order, *)
Theorem C04_sites_independent :
  forall d st cs, inline_sites false d st cs = map (calculate_header false d st) cs.
Proof. exact sites_independent. Qed.
Print Assumptions C04_sites_independent.

(* ... and every site of every sequence of well-formed call sites receives Python's binding. *)
Theorem C04_sites_bind :
  forall d cs bs,
    valid_def d = true -> map (bind d) cs = map Some bs ->
    headers false d (init_state d) cs = map header_of_binding bs.
Proof. exact sites_bind. Qed.
Print Assumptions C04_sites_bind.

(* The code before 45cf20a (`paramdict = self.definition_params`, updated in place; variant alias = true)
   violated the invariant: def f(a, b=5); f(1, b=2); f(3) -- the state after the first site differs from
   the initial one and the second site is given b = 2 instead of Python's b = 5.  The witness is replayed on
   rope on every run (corpus/C04/alias-definition-params.json) and must now pass. *)
Theorem C04_state_invariant_refuted :
  exists d c1 c2,
    valid_def d = true /\ well_formed_call d c1 = true /\ well_formed_call d c2 = true /\
    snd (calculate_header true d (init_state d) c1) <> init_state d /\
    (exists b2, bind d c2 = Some b2 /\
       nth 1 (headers true d (init_state d) [c1; c2]) [] <> header_of_binding b2) /\
    no_stale d [c1; c2] = false.
Proof. exact state_invariant_refuted. Qed.
Print Assumptions C04_state_invariant_refuted.

(* What did hold for the aliased variant (not the current code): if no call site relies on the default of a
   parameter that an earlier site handled by the same generator passed explicitly ([no_stale]), all sites
   receive Python's binding. *)
Theorem C04_sites_bind_aliased_partial :
  forall d cs bs,
    valid_def d = true -> no_stale d cs = true -> map (bind d) cs = map Some bs ->
    headers true d (init_state d) cs = map header_of_binding bs.
Proof. exact alias_sites_bind. Qed.
Print Assumptions C04_sites_bind_aliased_partial.

Example C04_binding_nontrivial :
  (* def f(a, b, c=7, d=8); f(x, d=y, b=z): keywords out of order, one default *)
  let d := mkDef [(1, None); (2, None); (3, Some 17); (4, Some 18)]%N false false in
  let c := mkCall [21%N] [(4, 22); (2, 23)]%N false in
  valid_def d = true /\ bind d c = Some [(1, 21); (2, 23); (3, 17); (4, 22)]%N /\
  no_stale d [mkCall [24; 25]%N [] false; c; c] = true /\
  no_stale d [c; mkCall [24; 25]%N [] false] = false.
Proof. exact (conj eq_refl (conj eq_refl (conj eq_refl eq_refl))). Qed.
Print Assumptions C04_binding_nontrivial.

(* ------------------------------------------------------------------------------------------------
   Variable inlining (textual replacement of the reads by the right-hand side, `_inline_variable`).
   [side_variable x p]: x is assigned exactly once, not read before and not in its own definition; no
   variable of the right-hand side is assigned after the definition; every read sits where the text of
   the right-hand side binds at least as tightly as the context requires (it is a single product, or the
   read is a whole '+'-term).  Then InlineVariable is not refused and the program prints the same, from
   every initial environment. *)
Theorem C04_variable_subst :
  forall x p,
    side_variable x p = true ->
    exists q, inline_variable true x p = Some q /\ forall env, output q env = output p env.
Proof. exact variable_subst. Qed.
Print Assumptions C04_variable_subst.

(* textual replacement agrees with the parenthesised (capture-free, meaning-preserving) substitution
   wherever [prec_ok] holds *)
Theorem C04_textual_is_substitution :
  forall env x r s,
    wf_rhs r = true -> prec_ok x r s = true ->
    eval_sum env (tsubst_sum x r s) = eval_sum env (psubst_sum x r s).
Proof.
  exact (fun env x r s W P =>
    eq_trans (tsubst_sum_safe env x r W s P)
             (eq_sym (eq_trans (eq_sym (eval_atom_paren env (psubst_sum x r s)))
                       (eq_trans (f_equal (eval_atom env) (eq_sym (psub_atom_paren x r s)))
                         (eq_trans (psub_atom_eval env x r (AParen s))
                                   (eval_atom_paren (upd_env env x (eval_sum env r)) s)))))).
Qed.
Print Assumptions C04_textual_is_substitution.

(* Both remaining hypotheses are necessary for the current code (open findings; documented as known bugs at the top
   of inline.py): *)
Theorem C04_variable_reassigned_dep_refuted :
  exists x p q, inline_variable true x p = Some q /\
    cond_once x p = true /\ cond_prec x p = true /\ cond_deps_stable x p = false /\
    exists env, output q env <> output p env.
Proof. exact variable_reassigned_dep_refuted. Qed.
Print Assumptions C04_variable_reassigned_dep_refuted.

Theorem C04_variable_precedence_refuted :
  exists x p q, inline_variable true x p = Some q /\
    cond_once x p = true /\ cond_deps_stable x p = true /\ cond_prec x p = false /\
    exists env, output q env <> output p env.
Proof. exact variable_precedence_refuted. Qed.
Print Assumptions C04_variable_precedence_refuted.

Example C04_variable_subst_nontrivial :
  let p := [SAssign 2 (num 3); SAssign 3 (num 4);
            SAssign 1 [(false, [AVar 2]); (true, [AVar 3; ANum 2])];
            SAssign 4 [(false, [AVar 1]); (false, [ANum 5; AParen [(false, [AVar 1]); (true, [AVar 2])]])];
            SPrint [[(false, [AVar 4])]; [(false, [AVar 1])]]] in
  side_variable 1 p = true /\
  inline_variable true 1 p =
    Some [SAssign 2 (num 3); SAssign 3 (num 4);
          SAssign 4 [(false, [AVar 2]); (true, [AVar 3; ANum 2]);
                     (false, [ANum 5; AParen [(false, [AVar 2]); (true, [AVar 3; ANum 2]); (true, [AVar 2])]])];
          SPrint [[(false, [AVar 4])]; [(false, [AVar 2]); (true, [AVar 3; ANum 2])]]].
Proof. exact variable_subst_nontrivial. Qed.
Print Assumptions C04_variable_subst_nontrivial.

(* ------------------------------------------------------------------------------------------------
   Function inlining: the parameters of a call site inlined into the body (`_calculate_definition`:
   header lines in front of the body, then `_inline_variable` for each header name in turn).
   [side_call]: header names distinct, no argument text mentions a header name, and at every step of the
   sequence the side condition of C04_variable_subst holds (parameter not reassigned in the body, operands
   of the argument not assigned in the body, reads in positions where the argument text binds tightly
   enough).  Then the result prints what the body prints with the arguments evaluated in the caller's
   environment and bound simultaneously to the parameters.
   Full statement C04_call_preserves (host module around the call, renaming of the guest names on a
   conflict with the host scope, replacement of `return`, indentation) is NOT proved: those steps are
   covered by the execution oracle of the harness only. *)
Theorem C04_call_params_subst :
  forall tbl hdr body,
    side_call tbl hdr body = true ->
    exists q, inline_header (map fst hdr) (guest tbl hdr body) = Some q /\
              forall env, output q env = call_output tbl hdr body env.
Proof. exact call_params_subst. Qed.
Print Assumptions C04_call_params_subst.

Theorem C04_call_preserves_partial :
  forall alias d c b tbl body,
    valid_def d = true -> bind d c = Some b ->
    side_call tbl (header_of_binding b) body = true ->
    exists q, fst (inline_call alias d tbl body (init_state d) c) = Some q /\
              forall env, output q env = call_output tbl (header_of_binding b) body env.
Proof. exact call_preserves. Qed.
Print Assumptions C04_call_preserves_partial.

Theorem C04_calls_preserve_partial :
  forall d tbl body cs bs,
    valid_def d = true -> map (bind d) cs = map Some bs ->
    Forall (fun b => side_call tbl (header_of_binding b) body = true) bs ->
    Forall2 (fun r b => exists q, r = Some q /\
                        forall env, output q env = call_output tbl (header_of_binding b) body env)
            (inline_calls false d tbl body (init_state d) cs) bs.
Proof. exact calls_preserve. Qed.
Print Assumptions C04_calls_preserve_partial.

(* the hypotheses are necessary for the current code (open findings C04-method-arg-capture,
   C04-method-param-reassigned, C04-method-arg-precedence) *)
Theorem C04_call_arg_capture_refuted :
  exists tbl hdr body q env,
    inline_header (map fst hdr) (guest tbl hdr body) = Some q /\
    args_closed tbl hdr = false /\ output q env <> call_output tbl hdr body env.
Proof. exact call_arg_capture_refuted. Qed.
Print Assumptions C04_call_arg_capture_refuted.

Theorem C04_call_param_reassigned_refuted :
  exists tbl hdr body q env,
    inline_header (map fst hdr) (guest tbl hdr body) = Some q /\
    args_closed tbl hdr = true /\ side_header (map fst hdr) (guest tbl hdr body) = false /\
    output q env <> call_output tbl hdr body env.
Proof. exact call_param_reassigned_refuted. Qed.
Print Assumptions C04_call_param_reassigned_refuted.

Theorem C04_call_arg_precedence_refuted :
  exists tbl hdr body q env,
    inline_header (map fst hdr) (guest tbl hdr body) = Some q /\
    args_closed tbl hdr = true /\ side_header (map fst hdr) (guest tbl hdr body) = false /\
    output q env <> call_output tbl hdr body env.
Proof. exact call_arg_precedence_refuted. Qed.
Print Assumptions C04_call_arg_precedence_refuted.

Example C04_call_params_subst_nontrivial :
  let tbl := [(21%N, [(false, [AVar 11; ANum 2])]); (22%N, [(false, [ANum 3])]);
              (23%N, [(false, [AVar 12]); (false, [ANum 1])])] in
  let hdr := [(1%N, 21%N); (2%N, 22%N); (3%N, 23%N)] in
  let body := [SAssign 9 [(false, [AVar 1; AVar 2]); (false, [AVar 3])]; SPrint [nmv 9; nmv 1]] in
  side_call tbl hdr body = true /\
  inline_header (map fst hdr) (guest tbl hdr body) =
    Some [SAssign 9 [(false, [AVar 11; ANum 2; ANum 3]); (false, [AVar 12]); (false, [ANum 1])];
          SPrint [nmv 9; [(false, [AVar 11; ANum 2])]]].
Proof. exact call_params_subst_nontrivial. Qed.
Print Assumptions C04_call_params_subst_nontrivial.

(* ------------------------------------------------------------------------------------------------
   Method calls: the implicit argument that CallInfo.read puts in front of the arguments of
   `recv.name(...)` is the whole receiver text (stripped), whatever the number of dots in it: this is what
   Python binds to `self`.  (The text model of the computation is compared with rope's CallInfo.args on every
   generated call site, receivers being attribute chains of depth 1 to 4.) *)
Theorem C04_receiver_full :
  forall recv name pos,
    existsb (N.eqb dot) name = false ->
    implicit_receiver true (recv ++ dot :: name) = Some (strip recv) /\
    read_args true (recv ++ dot :: name) pos = strip recv :: pos.
Proof. exact (fun recv name pos H => conj (receiver_full recv name H) (read_args_full recv name pos H)). Qed.
Print Assumptions C04_receiver_full.

Example C04_receiver_chain :
  implicit_receiver true [97;112;112;46;104;117;98;46;115;116;111;114;101;46;103;101;116]%N
  = Some [97;112;112;46;104;117;98;46;115;116;111;114;101]%N.
Proof. exact receiver_chain. Qed.
Print Assumptions C04_receiver_chain.

(* ------------------------------------------------------------------------------------------------
   The name-conflict step of _calculate_definition (Rename.v): when a name the guest module (header + body)
   defines is also a name of the scope of the call site, every occurrence of every guest name is given the
   `__N__` spelling, then the header names are inlined.

   Renaming is alpha-equivalence: a renaming that is injective on the names a program uses does not change what it
   prints when the environment is renamed along. *)
Theorem C04_rename_alpha :
  forall r U, inj_on r U -> forall p env env',
    incl (uses p) U -> (forall x, In x U -> env' (r x) = env x) ->
    output (map (ren_stmt r) p) env' = output p env.
Proof. exact rename_alpha. Qed.
Print Assumptions C04_rename_alpha.

(* Capture-freedom under the modelled condition [side_renamed]: the prefixed spellings are fresh (the renaming is
   injective on the names of the guest and the identity outside the guest names), every read of a guest name comes
   after an assignment to it (no argument text mentions a guest name; locals are assigned before they are read),
   header names distinct, and the side condition of C04_variable_subst holds along the sequence of inlinings.  Then
   the renamed, parameter-inlined definition prints what the body prints with the arguments evaluated in the
   caller's environment and bound simultaneously. *)
Theorem C04_call_renamed_preserves :
  forall tbl hdr body r,
    side_renamed tbl hdr body r = true ->
    exists q, inline_header (map r (map fst hdr)) (map (ren_stmt r) (guest tbl hdr body)) = Some q /\
              forall env, output q env = call_output tbl hdr body env.
Proof. exact call_renamed_preserves. Qed.
Print Assumptions C04_call_renamed_preserves.

(* _calculate_definition as a whole (conflict detection included), up to the replacement of returns *)
Theorem C04_definition_preserves :
  forall tbl hdr body host ptbl,
    (if conflict (all_names hdr body) host
     then side_renamed tbl hdr body (table_ren ptbl (all_names hdr body))
     else side_call tbl hdr body) = true ->
    exists q, calculate_definition tbl hdr body host ptbl = Some q /\
              forall env, output q env = call_output tbl hdr body env.
Proof. exact definition_preserves. Qed.
Print Assumptions C04_definition_preserves.

(* the renamed form of argument capture (open finding C04-method-arg-capture): `a = 1; f(a + 1)` for
   `def f(a): print(a)` becomes `print(__0__a + 1)` *)
Theorem C04_definition_capture_refuted :
  exists tbl hdr body host ptbl q env,
    conflict (all_names hdr body) host = true /\
    calculate_definition tbl hdr body host ptbl = Some q /\
    def_before_read (all_names hdr body) [] (guest tbl hdr body) = false /\
    output q env <> call_output tbl hdr body env.
Proof. exact definition_capture_refuted. Qed.
Print Assumptions C04_definition_capture_refuted.

Example C04_definition_preserves_nontrivial :
  let tbl := [(21%N, [(false, [AVar 11; ANum 3])])] in
  let hdr := [(1%N, 21%N)] in
  let body := [SAssign 9 [(false, [AVar 1; ANum 2])]; SPrint [nmv 9; [(false, [AVar 1]); (true, [ANum 3])]]] in
  let ptbl := [(1%N, 101%N); (9%N, 109%N)] in
  conflict (all_names hdr body) [9%N; 11%N] = true /\
  side_renamed tbl hdr body (table_ren ptbl (all_names hdr body)) = true /\
  calculate_definition tbl hdr body [9%N; 11%N] ptbl =
    Some [SAssign 109 [(false, [AVar 11; ANum 3; ANum 2])];
          SPrint [nmv 109; [(false, [AVar 11; ANum 3]); (true, [ANum 3])]]].
Proof. exact definition_preserves_nontrivial. Qed.
Print Assumptions C04_definition_preserves_nontrivial.

(* ------------------------------------------------------------------------------------------------
   C04_call_preserves: the host module around the call, for a call that is a whole statement `f(args)` or the
   right-hand side of an assignment `y = f(args)` in a straight-line host  pre; <site>; post  (Splice.v: the
   definition text replaces / precedes the line, `return e` is dropped resp. becomes `y = e`).
   Reference [ref_host]: Python's call -- arguments evaluated in the caller, bound simultaneously in a new
   environment, nothing the function assigns visible to the caller, the value of the call is the returned
   expression.  Hypotheses, all computable: the site is in the domain of C04_definition_preserves
   ([domain_site]) and the names the inlined text assigns are not used by the rest of the host ([frame_ok];
   this is what the `__N__` renaming is for, see C04_call_frame_refuted).
   Not covered: calls nested in larger expressions, hosts with control flow, indentation, imports. *)
Theorem C04_call_preserves :
  forall pre kind post tbl hdr body ret host ptbl d,
    inline_site kind tbl hdr body ret host ptbl = Some d ->
    domain_site tbl hdr body ret host ptbl = true ->
    frame_ok kind d post = true ->
    forall env, output (pre ++ d ++ post) env = ref_host pre kind post tbl hdr body ret env.
Proof. exact call_preserves_full. Qed.
Print Assumptions C04_call_preserves.

Example C04_call_preserves_nontrivial :
  let tbl := [(21%N, [(false, [AVar 11; ANum 3])])] in
  let hdr := [(1%N, 21%N)] in
  let body := [SAssign 9 [(false, [AVar 1; ANum 2])]] in
  let ret := Some [(false, [AVar 9]); (false, [AVar 1])] in
  let pre := [SAssign 11 (num 2); SAssign 9 (num 5)] in
  let post := [SPrint [nmv 12; nmv 9]] in
  let host := [9%N; 11%N; 12%N] in
  let ptbl := [(1%N, 101%N); (9%N, 109%N)] in
  let d := [SAssign 109 [(false, [AVar 11; ANum 3; ANum 2])];
            SAssign 12 [(false, [AVar 109]); (false, [AVar 11; ANum 3])]] in
  inline_site (KAssign 12) tbl hdr body ret host ptbl = Some d /\
  domain_site tbl hdr body ret host ptbl = true /\ frame_ok (KAssign 12) d post = true /\
  ref_host pre (KAssign 12) post tbl hdr body ret (fun _ => 0%Z) = [[18%Z; 5%Z]].
Proof. exact call_preserves_nontrivial. Qed.
Print Assumptions C04_call_preserves_nontrivial.

(* the frame condition is necessary: if the host scope were not consulted (host = []), a local of the function
   overwrites the host's variable of the same name *)
Theorem C04_call_frame_refuted :
  exists pre kind post tbl hdr body ret d env,
    inline_site kind tbl hdr body ret [] [] = Some d /\
    domain_site tbl hdr body ret [] [] = true /\ frame_ok kind d post = false /\
    output (pre ++ d ++ post) env <> ref_host pre kind post tbl hdr body ret env.
Proof. exact frame_needed. Qed.
Print Assumptions C04_call_frame_refuted.
