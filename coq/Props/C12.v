(* Property C12 — theorems only. Each is closed by [exact] and followed by Print Assumptions. *)
From Coq Require Import List NArith ZArith Bool.
From RopeVerif.Lib Require Import Text.
From RopeVerif.C12 Require Import Serializer SerializerProofs.
Import ListNotations.

(* Every value the data serializer accepts decodes to an equal value of the same type: equality is
   Leibniz equality on [pyval], whose constructors are the Python types (PBool is bool, PInt is int,
   PTuple is tuple, PList is list). For every digit predicate that contains the ASCII digits
   (str.isdigit does), and both serializer versions; unbounded in size and nesting. *)
Theorem C12_serializer_roundtrip :
  forall (isdig : N -> bool) (ver : N),
    (forall c, is_ascii_digit c = true -> isdig c = true) ->
    (ver = 1%N \/ ver = 2%N) ->
    forall v data refs,
      wf_py v = true ->
      python_to_json isdig ver v = Some (data, refs) ->
      json_to_python isdig ver data refs = Some v.
Proof. exact serializer_roundtrip. Qed.
Print Assumptions C12_serializer_roundtrip.

(* The trip through JSON text (json.dumps then json.loads: objects lose repeated keys) is the identity
   on the encoder's output: no object the encoder builds has two equal keys. *)
Theorem C12_json_text_identity :
  forall (isdig : N -> bool) (ver : N),
    (forall c, is_ascii_digit c = true -> isdig c = true) ->
    forall v data refs,
      wf_py v = true ->
      python_to_json isdig ver v = Some (data, refs) ->
      json_rt data = data /\ map json_rt refs = refs.
Proof. exact json_text_roundtrip_id. Qed.
Print Assumptions C12_json_text_identity.

(* The serializer accepts every well-formed value (dict keys hashable, pairwise unequal as Python
   compares them, none equal to "$"). *)
Theorem C12_encoder_total :
  forall (isdig : N -> bool) (ver : N),
    (ver = 1%N \/ ver = 2%N) ->
    forall v, wf_py v = true -> exists data refs, python_to_json isdig ver v = Some (data, refs).
Proof. exact encoder_total. Qed.
Print Assumptions C12_encoder_total.

(* The three together: the statement of the property for the serializer. *)
Theorem C12_roundtrip_through_json_text :
  forall (isdig : N -> bool) (ver : N),
    (forall c, is_ascii_digit c = true -> isdig c = true) ->
    (ver = 1%N \/ ver = 2%N) ->
    forall v, wf_py v = true ->
      exists data refs,
        python_to_json isdig ver v = Some (data, refs) /\
        json_to_python isdig ver (json_rt data) (map json_rt refs) = Some v.
Proof.
  exact (fun isdig ver Hd Hv v Hwf =>
    match encoder_total isdig ver Hv v Hwf with
    | ex_intro _ data (ex_intro _ refs E) =>
        ex_intro _ data (ex_intro _ refs (conj E
          (match json_text_roundtrip_id isdig ver Hd v data refs Hwf E with
           | conj A B => eq_ind_r (fun d => json_to_python isdig ver d (map json_rt refs) = Some v)
                           (eq_ind_r (fun r => json_to_python isdig ver data r = Some v)
                              (serializer_roundtrip isdig ver Hd Hv v data refs Hwf E) B) A
           end)))
    end).
Qed.
Print Assumptions C12_roundtrip_through_json_text.

(* Non-vacuity: a value with a tuple key, a digit-string key, an int key equal to it as a number, a bool
   and None key, nested list/tuple/dict, is well-formed and takes the reference-table path. *)
Example C12_example_nontrivial :
  let isd := is_ascii_digit in
  let v := PDict [ (PTuple [PInt 1; PStr [97%N]], PList [PTuple [PNone]; PDict [(PStr [49%N], PBool true)]]);
                   (PStr [49%N; 50%N], PInt 7); (PInt 12, PStr []); (PBool false, PNone); (PNone, PTuple []) ] in
  wf_py v = true /\
  (exists d r, python_to_json isd 2 v = Some (d, r) /\ length r = 6) /\
  json_to_python isd 1 (fst (match python_to_json isd 1 v with Some x => x | None => (JNull, []) end))
                       (snd (match python_to_json isd 1 v with Some x => x | None => (JNull, []) end)) = Some v.
Proof. exact (conj eq_refl (conj (ex_intro _ _ (ex_intro _ _ (conj eq_refl eq_refl))) eq_refl)). Qed.
Print Assumptions C12_example_nontrivial.

(* ------------------------------------------------------------------------------------------------
   History persistence (ChangeToData / DataToChange, History.write / _load_history). *)
From RopeVerif.C12 Require Import Persist PersistProofs.

(* A change rebuilt from its saved data is the same change: class, paths, resource class (File or
   Folder), contents, description, time, children in order — for every change tree. (Model variant
   keep_kind = true, the code after commit "fix: keep folder-ness of a MoveResource ...".) *)
Theorem C12_change_data_roundtrip : forall c, of_data true (to_data true c) = Some c.
Proof. exact change_data_roundtrip. Qed.
Print Assumptions C12_change_data_roundtrip.

(* Before that fix the same holds only for changes without a folder move ... *)
Theorem C12_change_data_roundtrip_legacy :
  forall c, no_folder_move c = true -> of_data false (to_data false c) = Some c.
Proof. exact change_data_roundtrip_legacy. Qed.
Print Assumptions C12_change_data_roundtrip_legacy.

(* ... and fails for a folder move (witness replayed on the implementation as corpus/C12/folder-move-reload.json). *)
Theorem C12_folder_move_reload_refuted : exists c, of_data false (to_data false c) <> Some c.
Proof. exact folder_move_reload_refuted. Qed.
Print Assumptions C12_folder_move_reload_refuted.

(* Closing and reopening yields the same undo and redo lists (same order and contents); the undo list
   is the saved one trimmed to the configured limit, which is the identity when the limit was respected. *)
Theorem C12_reopen_lists :
  forall limit h, length (undo_list h) <= limit -> reopen true (close true limit h) = Some h.
Proof. exact reopen_lists. Qed.
Print Assumptions C12_reopen_lists.

Theorem C12_reopen_trimmed :
  forall limit h,
    reopen true (close true limit h) =
    Some {| undo_list := trim limit (undo_list h); redo_list := redo_list h |}.
Proof. exact reopen_trimmed. Qed.
Print Assumptions C12_reopen_trimmed.

(* Saving again after a reopen writes the same data (close ∘ reopen ∘ close = close), either variant. *)
Theorem C12_repeat :
  forall keep limit h h', reopen keep (close keep limit h) = Some h' -> close keep limit h' = close keep limit h.
Proof. exact close_reopen_close. Qed.
Print Assumptions C12_repeat.

(* Stored object information: ScopeInfo.__setstate__ (__getstate__ s) restores call_info and per_name. *)
Theorem C12_scopeinfo_state :
  forall (isdig : N -> bool), (forall c, is_ascii_digit c = true -> isdig c = true) ->
  forall ci pn s, wf_py ci = true -> wf_py pn = true ->
    getstate isdig ci pn = Some s -> setstate isdig s = Some (ci, pn).
Proof. exact scopeinfo_state. Qed.
Print Assumptions C12_scopeinfo_state.

Theorem C12_scopeinfo_getstate_total :
  forall (isdig : N -> bool) ci pn, wf_py ci = true -> wf_py pn = true -> exists s, getstate isdig ci pn = Some s.
Proof. exact scopeinfo_getstate_total. Qed.
Print Assumptions C12_scopeinfo_getstate_total.

Example C12_example_history :
  let c := CSet [120%N] [CMove [100%N] RFolder [101%N]; CContents [101%N; 47%N; 109%N] [49%N] (Some [])] (Some 5%N) in
  let h := {| undo_list := [CCreate [100%N] RFolder; c]; redo_list := [CRemove [102%N] RFile] |} in
  reopen true (close true 2 h) = Some h /\ length (undo_list h) <= 2.
Proof. exact (conj eq_refl (le_n 2)). Qed.
Print Assumptions C12_example_history.

(* The whole stored object information {path: {scope: ScopeInfo}} survives the save/load pair. *)
Theorem C12_objectdb_roundtrip :
  forall (isdig : N -> bool), (forall c, is_ascii_digit c = true -> isdig c = true) ->
  forall d, wf_db d = true -> exists d', save_db isdig d = Some d' /\ load_db isdig d' = Some d.
Proof. exact objectdb_roundtrip. Qed.
Print Assumptions C12_objectdb_roundtrip.
