(* Property C12 — theorems only. Each is closed by [exact] and followed by Print Assumptions. *)
From Coq Require Import List NArith ZArith Bool.
From RopeVerif.Lib Require Import Text.
From RopeVerif.C12 Require Import Serializer SerializerProofs.

(* Every value the data serializer accepts decodes, after the trip through JSON, to an equal value of
   the same type: equality is Leibniz equality on [pyval], whose constructors are the Python types
   (PBool is bool, PInt is int, PTuple is tuple, PList is list). For every digit predicate that
   contains the ASCII digits (str.isdigit does), and both serializer versions. *)
Theorem C12_serializer_roundtrip :
  forall (isdig : N -> bool) (ver : N),
    (forall c, is_ascii_digit c = true -> isdig c = true) ->
    (ver = 1%N \/ ver = 2%N) ->
    forall v data refs,
      wf_py v = true ->
      python_to_json isdig ver v = Some (data, refs) ->
      json_to_python isdig ver data refs = Some v.
Proof. exact serializer_roundtrip. Qed.
Print Assumptions C12_serializer_roundtrip.
