(* Property C12 — theorems only. Each is closed by [exact] and followed by Print Assumptions. *)
From Coq Require Import List NArith ZArith Bool.
From RopeVerif.Lib Require Import Text.
From RopeVerif.C12 Require Import Serializer SerializerProofs.
Import ListNotations.

(* Every value the data serializer accepts decodes to an equal value of the same type: equality is
   Leibniz equality on [pyval], whose constructors are the Python types (PBool is bool, PInt is int,
   PTuple is tuple, PList is list). For every digit predicate that contains the ASCII digits
   (str.isdigit does), and both serializer versions; unbounded in size and nesting. *)
Theorem C12_serializer_roundtrip :
  forall (isdig : N -> bool) (ver : N),
    (forall c, is_ascii_digit c = true -> isdig c = true) ->
    (ver = 1%N \/ ver = 2%N) ->
    forall v data refs,
      wf_py v = true ->
      python_to_json isdig ver v = Some (data, refs) ->
      json_to_python isdig ver data refs = Some v.
Proof. exact serializer_roundtrip. Qed.
Print Assumptions C12_serializer_roundtrip.

(* The trip through JSON text (json.dumps then json.loads: objects lose repeated keys) is the identity
   on the encoder's output: no object the encoder builds has two equal keys. *)
Theorem C12_json_text_identity :
  forall (isdig : N -> bool) (ver : N),
    (forall c, is_ascii_digit c = true -> isdig c = true) ->
    forall v data refs,
      wf_py v = true ->
      python_to_json isdig ver v = Some (data, refs) ->
      json_rt data = data /\ map json_rt refs = refs.
Proof. exact json_text_roundtrip_id. Qed.
Print Assumptions C12_json_text_identity.

(* The serializer accepts every well-formed value (dict keys hashable, pairwise unequal as Python
   compares them, none equal to "$"). *)
Theorem C12_encoder_total :
  forall (isdig : N -> bool) (ver : N),
    (ver = 1%N \/ ver = 2%N) ->
    forall v, wf_py v = true -> exists data refs, python_to_json isdig ver v = Some (data, refs).
Proof. exact encoder_total. Qed.
Print Assumptions C12_encoder_total.

(* The three together: the statement of the property for the serializer. *)
Theorem C12_roundtrip_through_json_text :
  forall (isdig : N -> bool) (ver : N),
    (forall c, is_ascii_digit c = true -> isdig c = true) ->
    (ver = 1%N \/ ver = 2%N) ->
    forall v, wf_py v = true ->
      exists data refs,
        python_to_json isdig ver v = Some (data, refs) /\
        json_to_python isdig ver (json_rt data) (map json_rt refs) = Some v.
Proof.
  exact (fun isdig ver Hd Hv v Hwf =>
    match encoder_total isdig ver Hv v Hwf with
    | ex_intro _ data (ex_intro _ refs E) =>
        ex_intro _ data (ex_intro _ refs (conj E
          (match json_text_roundtrip_id isdig ver Hd v data refs Hwf E with
           | conj A B => eq_ind_r (fun d => json_to_python isdig ver d (map json_rt refs) = Some v)
                           (eq_ind_r (fun r => json_to_python isdig ver data r = Some v)
                              (serializer_roundtrip isdig ver Hd Hv v data refs Hwf E) B) A
           end)))
    end).
Qed.
Print Assumptions C12_roundtrip_through_json_text.

(* Non-vacuity: a value with a tuple key, a digit-string key, an int key equal to it as a number, a bool
   and None key, nested list/tuple/dict, is well-formed and takes the reference-table path. *)
Example C12_example_nontrivial :
  let isd := is_ascii_digit in
  let v := PDict [ (PTuple [PInt 1; PStr [97%N]], PList [PTuple [PNone]; PDict [(PStr [49%N], PBool true)]]);
                   (PStr [49%N; 50%N], PInt 7); (PInt 12, PStr []); (PBool false, PNone); (PNone, PTuple []) ] in
  wf_py v = true /\
  (exists d r, python_to_json isd 2 v = Some (d, r) /\ length r = 6) /\
  json_to_python isd 1 (fst (match python_to_json isd 1 v with Some x => x | None => (JNull, []) end))
                       (snd (match python_to_json isd 1 v with Some x => x | None => (JNull, []) end)) = Some v.
Proof. exact (conj eq_refl (conj (ex_intro _ _ (ex_intro _ _ (conj eq_refl eq_refl))) eq_refl)). Qed.
Print Assumptions C12_example_nontrivial.

(* ------------------------------------------------------------------------------------------------
   History persistence (ChangeToData / DataToChange, History.write / _load_history). *)
From RopeVerif.C12 Require Import Persist PersistProofs.

(* A change rebuilt from its saved data is the same change: class, paths, resource class (File or
   Folder), contents, description, time, children in order — for every change tree. (Model variant
   keep_kind = true, the code after commit "fix: keep folder-ness of a MoveResource ...".) *)
Theorem C12_change_data_roundtrip : forall c, of_data true (to_data true c) = Some c.
Proof. exact change_data_roundtrip. Qed.
Print Assumptions C12_change_data_roundtrip.

(* Before that fix the same holds only for changes without a folder move ... *)
Theorem C12_change_data_roundtrip_legacy :
  forall c, no_folder_move c = true -> of_data false (to_data false c) = Some c.
Proof. exact change_data_roundtrip_legacy. Qed.
Print Assumptions C12_change_data_roundtrip_legacy.

(* ... and fails for a folder move (witness replayed on the implementation as corpus/C12/folder-move-reload.json). *)
Theorem C12_folder_move_reload_refuted : exists c, of_data false (to_data false c) <> Some c.
Proof. exact folder_move_reload_refuted. Qed.
Print Assumptions C12_folder_move_reload_refuted.

(* Closing and reopening yields the same undo and redo lists (same order and contents); the undo list
   is the saved one trimmed to the configured limit, which is the identity when the limit was respected. *)
Theorem C12_reopen_lists :
  forall limit h, length (undo_list h) <= limit -> reopen true (close true limit h) = Some h.
Proof. exact reopen_lists. Qed.
Print Assumptions C12_reopen_lists.

Theorem C12_reopen_trimmed :
  forall limit h,
    reopen true (close true limit h) =
    Some {| undo_list := trim limit (undo_list h); redo_list := redo_list h |}.
Proof. exact reopen_trimmed. Qed.
Print Assumptions C12_reopen_trimmed.

(* Saving again after a reopen writes the same data (close ∘ reopen ∘ close = close), either variant. *)
Theorem C12_repeat :
  forall keep limit h h', reopen keep (close keep limit h) = Some h' -> close keep limit h' = close keep limit h.
Proof. exact close_reopen_close. Qed.
Print Assumptions C12_repeat.

(* Stored object information: ScopeInfo.__setstate__ (__getstate__ s) restores call_info and per_name. *)
Theorem C12_scopeinfo_state :
  forall (isdig : N -> bool), (forall c, is_ascii_digit c = true -> isdig c = true) ->
  forall ci pn s, wf_py ci = true -> wf_py pn = true ->
    getstate isdig ci pn = Some s -> setstate isdig s = Some (ci, pn).
Proof. exact scopeinfo_state. Qed.
Print Assumptions C12_scopeinfo_state.

Theorem C12_scopeinfo_getstate_total :
  forall (isdig : N -> bool) ci pn, wf_py ci = true -> wf_py pn = true -> exists s, getstate isdig ci pn = Some s.
Proof. exact scopeinfo_getstate_total. Qed.
Print Assumptions C12_scopeinfo_getstate_total.

Example C12_example_history :
  let c := CSet [120%N] [CMove [100%N] RFolder [101%N]; CContents [101%N; 47%N; 109%N] [49%N] (Some [])] (Some 5%N) in
  let h := {| undo_list := [CCreate [100%N] RFolder; c]; redo_list := [CRemove [102%N] RFile] |} in
  reopen true (close true 2 h) = Some h /\ length (undo_list h) <= 2.
Proof. exact (conj eq_refl (le_n 2)). Qed.
Print Assumptions C12_example_history.

(* The whole stored object information {path: {scope: ScopeInfo}} survives the save/load pair. *)
Theorem C12_objectdb_roundtrip :
  forall (isdig : N -> bool), (forall c, is_ascii_digit c = true -> isdig c = true) ->
  forall d, wf_db d = true -> exists d', save_db isdig d = Some d' /\ load_db isdig d' = Some d.
Proof. exact objectdb_roundtrip. Qed.
Print Assumptions C12_objectdb_roundtrip.

(* ------------------------------------------------------------------------------------------------
   Ignored resources inside recorded changes. Whether a resource is ignored decides only whether
   History.do records a change at all (interesting); what is saved never depends on it. *)

(* The saved data has exactly one leaf entry per primitive change of the tree, in execution order —
   in particular for the children that work on ignored resources — in either data format. *)
Theorem C12_saved_data_keeps_every_leaf :
  forall keep c,
    data_leaves (to_data keep c) = map (to_data keep) (leaves c) /\
    length (data_leaves (to_data keep c)) = length (leaves c).
Proof. exact saved_data_keeps_every_leaf. Qed.
Print Assumptions C12_saved_data_keeps_every_leaf.

(* For every ignore predicate, the reloaded change has the same primitive changes, the same ones on
   ignored resources, the same changed resources, and is recorded by History.do iff the original is. *)
Theorem C12_reload_keeps_every_leaf :
  forall (ign : text -> bool) c c',
    of_data true (to_data true c) = Some c' ->
    leaves c' = leaves c /\ ignored_leaves ign c' = ignored_leaves ign c /\
    changed_paths c' = changed_paths c /\ interesting ign c' = interesting ign c.
Proof. exact reload_keeps_every_leaf. Qed.
Print Assumptions C12_reload_keeps_every_leaf.

(* A change History.do records (some changed resource is not ignored) is, after close and reopen, the
   last entry of the undo list and the same change, whatever else it does to ignored resources; the
   redo list is empty as History.do left it. *)
Theorem C12_recorded_change_reloads_whole :
  forall (ign : text -> bool) limit h c,
    interesting ign c = true -> 0 < limit ->
    exists pre, reopen true (close true limit (hist_do ign limit h c)) =
                Some {| undo_list := pre ++ [c]; redo_list := [] |}.
Proof. exact recorded_change_reloads_whole. Qed.
Print Assumptions C12_recorded_change_reloads_whole.

(* ... and a change to ignored resources only is not part of the history the project promises to keep. *)
Theorem C12_ignored_only_change_not_recorded :
  forall (ign : text -> bool) limit h c,
    interesting ign c = false ->
    hist_do ign limit h c = {| undo_list := undo_list h; redo_list := [] |}.
Proof. exact ignored_only_change_not_recorded. Qed.
Print Assumptions C12_ignored_only_change_not_recorded.

(* Non-vacuity: "save with backup" — one set writes the old text to the ignored a.py~ and the new text to
   a.py; with a.py~ ignored it is mixed, is recorded, and comes back whole (2 children, the first one on
   the ignored resource) behind an older entry, with limit 2. *)
Example C12_example_mixed_set :
  let bak := [97%N; 46%N; 112%N; 121%N; 126%N] in
  let src := [97%N; 46%N; 112%N; 121%N] in
  let ign := ign_of [bak] in
  let c := CSet [115%N] [CContents bak [49%N] None; CContents src [50%N] (Some [49%N])] (Some 7%N) in
  let h := {| undo_list := [CCreate src RFile; CCreate [100%N] RFolder]; redo_list := [CRemove [100%N] RFolder] |} in
  mixed ign c = true /\ length (ignored_leaves ign c) = 1 /\
  interesting ign (CContents bak [49%N] None) = false /\
  reopen true (close true 2 (hist_do ign 2 h c)) = Some {| undo_list := [CCreate [100%N] RFolder; c]; redo_list := [] |}.
Proof. exact (conj eq_refl (conj eq_refl (conj eq_refl eq_refl))). Qed.
Print Assumptions C12_example_mixed_set.

(* The scope that exists but holds no facts (FileInfo.create_scope with nothing recorded yet): its saved
   state is a value (never "no state") and __setstate__ restores two empty tables, for every digit
   predicate. C12_scopeinfo_state covers it too when the predicate contains the ASCII digits. *)
Theorem C12_scopeinfo_empty_state :
  forall (isdig : N -> bool),
    exists s, getstate isdig (PDict []) (PDict []) = Some s /\
              setstate isdig s = Some (PDict [], PDict []).
Proof. exact scopeinfo_empty_state. Qed.
Print Assumptions C12_scopeinfo_empty_state.

(* Non-vacuity of C12_objectdb_roundtrip on the shapes met at close: a file with a filled scope and an
   empty scope, and a file entry without any scope. *)
Example C12_example_objectdb_empty_scope :
  let str := PTuple [PStr [98%N]; PStr [115%N]] in
  let d := [ ([109%N], [ ([102%N], (PDict [(PTuple [str], str)], PDict [(PStr [120%N], PList [str])]));
                          ([103%N], (PDict [], PDict [])) ]);
             ([110%N], []) ] in
  wf_db d = true /\
  exists d', save_db is_ascii_digit d = Some d' /\ load_db is_ascii_digit d' = Some d.
Proof. exact (conj eq_refl (ex_intro _ _ (conj eq_refl eq_refl))). Qed.
Print Assumptions C12_example_objectdb_empty_scope.

(* ---- lifted over any number of sessions (coq/C12/Sessions.v) ---- *)
From RopeVerif.C12 Require Import Sessions SessionsProofs.

(* Any number of sessions, each opening what the previous close wrote, doing / undoing / redoing / undoing-and-dropping any
   changes, clearing the history, and closing again: the file written by the last close is the file the project that was
   never closed would write, for every ignore predicate and every max_history_items, from every
   history [within] the limit (|undo| + |redo| <= limit: what History maintains from an empty
   history on, C12_sessions_from_empty), and for every way [stamp] a redo re-stamps the change it
   performs again (ChangeSet.do sets time.time()). No session fails to load (the result is Some). *)
Theorem C12_sessions_lose_nothing :
  forall (ign : text -> bool) limit (stamp : change -> change) ss h,
    within limit h ->
    sessions ign limit stamp (close true limit h) ss = Some (close true limit (live ign limit stamp h (concat ss))).
Proof. exact sessions_lose_nothing. Qed.
Print Assumptions C12_sessions_lose_nothing.

(* ... and the next open has exactly the undo and redo lists of the never-closed project. *)
Theorem C12_sessions_reopen :
  forall (ign : text -> bool) limit (stamp : change -> change) ss h d,
    within limit h ->
    sessions ign limit stamp (close true limit h) ss = Some d ->
    reopen true d = Some (live ign limit stamp h (concat ss)).
Proof. exact sessions_reopen. Qed.
Print Assumptions C12_sessions_reopen.

(* The hypothesis is met by every history grown from the empty one, across any sessions. *)
Theorem C12_sessions_from_empty :
  forall (ign : text -> bool) limit (stamp : change -> change) ss,
    exists d, sessions ign limit stamp (close true limit empty_hist) ss = Some d /\
              reopen true d = Some (live ign limit stamp empty_hist (concat ss)) /\
              within limit (live ign limit stamp empty_hist (concat ss)).
Proof. exact sessions_from_empty. Qed.
Print Assumptions C12_sessions_from_empty.

(* Without the invariant (a saved history longer than the limit, e.g. max_history_items lowered
   between sessions): sessions that only do changes still end with the never-closed project's file,
   because trimming at close commutes with the trimming History.do performs. *)
Theorem C12_do_sessions_lose_nothing :
  forall (ign : text -> bool) limit (stamp : change -> change) ss h,
    forallb (forallb only_do) ss = true ->
    sessions ign limit stamp (close true limit h) ss = Some (close true limit (live ign limit stamp h (concat ss))).
Proof. exact do_sessions_lose_nothing. Qed.
Print Assumptions C12_do_sessions_lose_nothing.

(* The invariant cannot be dropped for redo: History.redo does not trim, so from a history outside
   the invariant a redo leaves a live undo list that the next close shortens. (Not reachable from an
   empty history with a fixed limit - C12_sessions_from_empty - hence no finding.) *)
Theorem C12_redo_beyond_limit_needs_invariant :
  exists (ign : text -> bool) limit h ops h',
    ~ within limit h /\
    reopen true (close true limit (live ign limit (fun c => c) h ops)) = Some h' /\
    h' <> live ign limit (fun c => c) h ops.
Proof. exact redo_beyond_limit_trimmed_at_close. Qed.
Print Assumptions C12_redo_beyond_limit_needs_invariant.

(* Non-vacuity: four sessions with do, undo, redo, undo(drop), clear, an ignored-only change and a trimmed entry. *)
Example C12_example_sessions :
  let ign := ign_of [[98%N]] in
  let a := CCreate [97%N] RFile in let b := CCreate [98%N] RFile in
  let c := CContents [97%N] [49%N] (Some []) in let m := CMove [97%N] RFile [99%N] in
  let ss := [[SDo a; SDo b; SDo c]; [SUndo; SUndo; SRedo]; [SRedo; SDo m; SUndo]; [SDo b; SUndoDrop; SDo a; SClear; SDo m]] in
  within 2 empty_hist /\
  live ign 2 (fun c => c) empty_hist (concat ss) = {| undo_list := [m]; redo_list := [] |} /\
  sessions ign 2 (fun c => c) (close true 2 empty_hist) ss =
    Some (close true 2 {| undo_list := [m]; redo_list := [] |}).
Proof. exact (conj (le_S _ _ (le_S _ _ (le_n 0))) (conj eq_refl eq_refl)). Qed.
Print Assumptions C12_example_sessions.
