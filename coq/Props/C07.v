(* Property C07 — theorems only. Each is closed by [exact] and followed by Print Assumptions.

   Model: coq/C07/Imports.v (rope/refactor/importutils, quirks included); spec: coq/C07/Spec.v
   (Python's import-binding semantics: statements execute in order, the last binding of a name wins). *)
From Coq Require Import List NArith Bool Permutation Sorted.
From RopeVerif.Lib Require Import Text.
From RopeVerif.C07 Require Import Imports Spec Renaming BasicsProofs SpecProofs SortProofs OrganizeProofs LoadedProofs
     ExpandProofs IdemProofs Idem2Proofs Layout LayoutProofs Unbound StableProofs Witnesses WitnessProofs.
Import ListNotations.

(* ---- the used names ------------------------------------------------------------------------------------
   Every theorem below quantifies over the used primaries [used]; the code computes them with
   _GlobalUnboundNameFinder, modelled in coq/C07/Unbound.v and compared with rope's _get_unbound_names on
   every generated module.  FULL STRENGTH (refuted): the finder reports every global name the module uses
   under Python's scoping ([py_unbound_names], validated against CPython's symtable) - it visits default
   values, decorators and base classes with the inner scope's table, so `def g(x=x)` hides the use of x
   (finding C07-default-value-hidden: organize_imports then removes the import of x). *)
Theorem C07_used_names_refuted :
  exists gnames body u, In u (py_unbound_names gnames body) /\ ~ In u (unbound_names gnames body).
Proof. exact used_names_refuted. Qed.
Print Assumptions C07_used_names_refuted.

Example C07_used_names_example :
  unbound_names [n_g] hidden_body = [[n_print]; [n_la]; [n_la; n_y]] /\
  py_unbound_names [n_g] hidden_body = [[n_x]; [n_print]; [n_la]; [n_la; n_y]].
Proof. exact used_names_example. Qed.
Print Assumptions C07_used_names_example.

(* ---- organize_imports: meaning --------------------------------------------------------------------
   organize_imports (remove unused with the first-import-wins selector, split_imports, remove
   duplicates, sort; every preference) never changes the object that a used dotted primary or a name of
   __all__ denotes, for every import block in which no name is bound to two different objects
   ([consistent], a witnessed defect: C07_duplicate_binding_refuted).  [star_table_complete] is a
   well-formedness condition on the layout, not on the code: an un-aliased public name from-imported from
   a star-imported module is in the table of names the star import binds.  (Before rope c04424c the
   theorem needed the stronger exclusion "no aliased or private from-import next to a star import of the
   same module": the star import absorbed them; see C07_star_absorbs_fixed.)
   [None] = rope raises (NotImplementedError in remove_duplicates): nothing is changed. *)
Theorem C07_organize_meaning_preserved :
  forall lay pr used exported l out,
    organize lay pr used exported l = Some out ->
    consistent lay l = true -> star_table_complete lay l = true ->
    forall u, In u (names_unused used exported) -> resolve lay out u = resolve lay l u.
Proof. exact organize_meaning_preserved. Qed.
Print Assumptions C07_organize_meaning_preserved.

Example C07_organize_meaning_preserved_nonvacuous :
  exists out, organize w_lay w_prefs ex_used ex_exported ex_stmts = Some out /\
              consistent w_lay ex_stmts = true /\ star_table_complete w_lay ex_stmts = true /\
              map s_info out <> map s_info ex_stmts /\
              resolve w_lay out [n_pkg; n_s; n_f] = Some (false, 0%N, [n_pkg; n_s; n_f]) /\
              resolve w_lay out [n_x] = Some (true, 0%N, [n_lb; n_x]).
Proof. exact ex_organize_nonvacuous. Qed.
Print Assumptions C07_organize_meaning_preserved_nonvacuous.

(* FULL STRENGTH (refuted): the same without [consistent] — from a import x; from b import x. *)
Theorem C07_duplicate_binding_refuted :
  exists lay pr used exported l out u,
    organize lay pr used exported l = Some out /\ star_table_complete lay l = true /\ In u (names_unused used exported) /\
    resolve lay out u <> resolve lay l u.
Proof. exact duplicate_binding_refuted. Qed.
Print Assumptions C07_duplicate_binding_refuted.

(* FIXED DEFECT (rope c04424c), kept as a regression example: from a import *; from a import x as q.
   The star import used to absorb the aliased from-import and q became unbound; the model of the old
   code refuted the theorem without the exclusion (replay: corpus/C07/C07-star-absorbs.json). *)
Example C07_star_absorbs_fixed :
  exists out, organize w_lay w_prefs absorb_used [] absorb_stmts = Some out /\
              map s_info out = map s_info absorb_stmts /\
              resolve w_lay out [n_q] = Some (true, 0%N, [n_la; n_x]).
Proof. exact star_absorbs_fixed. Qed.
Print Assumptions C07_star_absorbs_fixed.

(* the self-import step of organize_imports (SelfImportVisitor + the till-dot renaming) is modelled
   (organize_self in coq/C07/Renaming.v) and compared with rope on every case; the theorems above speak of
   modules that do not import themselves (there organize_self is organize; the runner's [self_free]). *)
Example C07_self_import_example :
  option_map (fun r => (map s_info (fst r), snd r)) (organize_self w_lay w_prefs [n_m] self_used [] self_stmts)
  = Some ([Normal [([n_la], None)]], [[n_g]; [n_la; n_x]]) /\
  option_map (fun r => (map s_info (fst r), snd r)) (organize_self w_lay w_prefs [n_m] self_used_bare [] self_stmts)
  = Some ([Normal [([n_m], None)]; Normal [([n_la], None)]], self_used_bare).
Proof. exact self_import_example. Qed.
Print Assumptions C07_self_import_example.

(* ---- organize_imports: submodules stay loaded ------------------------------------------------------
   a dotted primary that is used and whose module is loaded by an un-aliased plain import (import a.b
   loads a and a.b) is still loaded by some plain import afterwards: an import used only through a
   dotted path is never dropped. *)
Theorem C07_organize_loaded_preserved :
  forall lay pr used exported l out,
    organize lay pr used exported l = Some out -> consistent lay l = true ->
    forall u, In u (names_unused used exported) -> In u (plain_loaded l) -> In u (loaded out).
Proof. exact organize_loaded_preserved. Qed.
Print Assumptions C07_organize_loaded_preserved.

Example C07_organize_loaded_preserved_nonvacuous :
  exists out, organize w_lay w_prefs ex_used ex_exported ex_stmts = Some out /\
              consistent w_lay ex_stmts = true /\ In [n_pkg; n_s] (names_unused ex_used ex_exported) /\
              In [n_pkg; n_s] (plain_loaded ex_stmts) /\ In [n_pkg; n_t] (plain_loaded ex_stmts) /\
              ~ In [n_pkg; n_t] (loaded out).
Proof. exact ex_loaded_nonvacuous. Qed.
Print Assumptions C07_organize_loaded_preserved_nonvacuous.

(* FULL STRENGTH (refuted): with [loaded] (any plain import, aliased or not) in the hypothesis —
   import pkg.s as q; import pkg; pkg.s.f. *)
Theorem C07_loaded_by_aliased_refuted :
  exists lay pr used exported l out u,
    consistent lay l = true /\ star_table_complete lay l = true /\ organize lay pr used exported l = Some out /\
    In u (names_unused used exported) /\ In u (loaded l) /\ ~ In u (loaded out).
Proof. exact loaded_by_aliased_refuted. Qed.
Print Assumptions C07_loaded_by_aliased_refuted.

(* ---- expand_star_imports ---------------------------------------------------------------------------*)
(* every used primary and (since rope e222b99) every name of __all__ keeps its meaning *)
Theorem C07_expand_stars_meaning_preserved :
  forall lay used exported l,
    consistent lay l = true ->
    forall u, In u (names_expand used exported) ->
              resolve lay (expand_stars lay used exported l) u = resolve lay l u.
Proof. exact expand_stars_meaning_preserved. Qed.
Print Assumptions C07_expand_stars_meaning_preserved.

Example C07_expand_stars_meaning_preserved_nonvacuous :
  consistent w_lay rel_stmts = true /\ In [n_y] (names_expand rel_used []) /\
  map s_info (expand_stars w_lay rel_used [] rel_stmts) <> map s_info rel_stmts /\
  resolve w_lay (expand_stars w_lay rel_used [] rel_stmts) [n_y] = Some (true, 0%N, [n_la; n_y]).
Proof. exact ex_expand_nonvacuous. Qed.
Print Assumptions C07_expand_stars_meaning_preserved_nonvacuous.

(* FIXED DEFECT (rope e222b99), regression example: from a import * with x only in __all__ — the old
   selector was built from the used names alone and the import was dropped
   (replay: corpus/C07/C07-expand-stars-exports.json). *)
Example C07_expand_stars_export_fixed :
  map s_info (expand_stars w_lay [] star_exported star_stmts) = [From [n_la] 0%N [(n_x, None)]] /\
  resolve w_lay (expand_stars w_lay [] star_exported star_stmts) [n_x] = resolve w_lay star_stmts [n_x].
Proof. exact expand_stars_export_fixed. Qed.
Print Assumptions C07_expand_stars_export_fixed.

(* FIXED DEFECT (rope 15d6126), regression example: froms_to_imports leaves from __future__ import ...
   alone (replay: corpus/C07/C07-froms-future.json). *)
Example C07_froms_future_fixed :
  option_map (fun r => (map s_info (fst r), snd r)) (froms_to_imports w_lay w_prefs fut_used [] fut_stmts)
  = Some ([From [t_future] 0%N [(n_x, None)]; Normal [([n_la], None)]], [[n_la; n_y]]).
Proof. exact froms_future_fixed. Qed.
Print Assumptions C07_froms_future_fixed.

(* froms_to_imports renames by object identity (whole primaries): one object used through two routes *)
Example C07_froms_two_routes :
  option_map (fun r => (map s_info (fst r), snd r)) (froms_to_imports w_lay w_prefs routes_used [] routes_stmts)
  = Some ([Normal [([n_la], None)]], [[n_la; n_x]; [n_la; n_x]; [n_la; n_y]]).
Proof. exact froms_two_routes. Qed.
Print Assumptions C07_froms_two_routes.

(* ---- relatives_to_absolutes ------------------------------------------------------------------------
   for every layout that describes one project ([abs_coherent]: a module has the same rows under its
   relative and its absolute name) every dotted primary denotes the same object afterwards. *)
Theorem C07_relatives_to_absolutes_meaning_preserved :
  forall lay l, abs_coherent lay = true ->
    forall u, resolve lay (relatives_to_absolutes lay l) u = resolve lay l u.
Proof. exact relatives_to_absolutes_meaning_preserved. Qed.
Print Assumptions C07_relatives_to_absolutes_meaning_preserved.

Example C07_relatives_to_absolutes_nonvacuous :
  abs_coherent w_lay = true /\
  map s_info (relatives_to_absolutes w_lay rel_stmts) <> map s_info rel_stmts /\
  resolve w_lay (relatives_to_absolutes w_lay rel_stmts) [n_f] = Some (true, 0%N, [n_pkg; n_s; n_f]).
Proof. exact ex_rel_abs_nonvacuous. Qed.
Print Assumptions C07_relatives_to_absolutes_nonvacuous.

(* ---- sorting ---------------------------------------------------------------------------------------
   the result of sort_imports is ordered by group (0 __future__, 1 standard, 2 third party, 3 project)
   and inside a group by the key of the preference; it is a permutation of the statements; sorting a
   sorted block changes nothing.  The model sorts stably in source order, which is what the code does
   since rope 2352e54 (SortingVisitor fills lists; it used to fill sets, so equal keys came out in a
   run-dependent order: corpus/C07/C07-alphabetical-ties.json); the correspondence is exact. *)
Theorem C07_sorted_groups :
  forall lay (alpha : bool) l,
    StronglySorted (gk_le lay (if alpha then key_alpha else key_default)) (sort_imports lay alpha l) /\
    Permutation (sort_imports lay alpha l) (filter (grouped lay) l).
Proof. exact sorted_groups. Qed.
Print Assumptions C07_sorted_groups.

Theorem C07_sort_idempotent :
  forall lay (alpha : bool) l, sort_imports lay alpha (sort_imports lay alpha l) = sort_imports lay alpha l.
Proof. exact sort_imports_idempotent. Qed.
Print Assumptions C07_sort_idempotent.

Example C07_alphabetical_ties_stable :
  key_alpha tie_a = key_alpha tie_b /\
  sort_imports w_lay true [tie_a; tie_b] = [tie_a; tie_b] /\
  sort_imports w_lay true [tie_b; tie_a] = [tie_b; tie_a].
Proof. exact alphabetical_ties_stable. Qed.
Print Assumptions C07_alphabetical_ties_stable.

Example C07_sorted_groups_nonvacuous :
  map s_info (sort_imports w_lay false ex_stmts) <> map s_info ex_stmts /\
  length (sort_imports w_lay false ex_stmts) = length ex_stmts.
Proof. exact ex_sort_nonvacuous. Qed.
Print Assumptions C07_sorted_groups_nonvacuous.

(* ---- only import statements change -----------------------------------------------------------------
   text level (coq/C07/Layout.v: _rewrite_imports and the pull-to-top path of get_changed_source, for
   arbitrary statement locations, blank-line counts, first import line and separating-line count):
   in place every line outside the import statements is kept; when imports are pulled to the top or
   sorted every non-blank line outside the import statements is kept, in order (only blank lines are
   dropped).  [originals] are the pieces of the result taken from the original text. *)
Theorem C07_only_imports_change_in_place :
  forall lines imps, originals (emit_inplace lines imps) = outside lines imps.
Proof. exact only_imports_change_in_place. Qed.
Print Assumptions C07_only_imports_change_in_place.

Theorem C07_only_imports_change_pulled :
  forall lines imps fil sep,
    nonblank (originals (emit_top lines imps fil sep)) = nonblank (outside lines imps).
Proof. exact only_imports_change_pulled. Qed.
Print Assumptions C07_only_imports_change_pulled.

Example C07_only_imports_change_nonvacuous :
  out_text (emit_top lay_lines lay_imps 2 2) <> concat lay_lines /\
  originals (emit_top lay_lines lay_imps 2 2) <> outside lay_lines lay_imps /\
  length (nonblank (outside lay_lines lay_imps)) = 3 /\
  originals (emit_inplace lay_lines lay_imps) = outside lay_lines lay_imps.
Proof. exact ex_layout_nonvacuous. Qed.
Print Assumptions C07_only_imports_change_nonvacuous.

(* ---- idempotence -----------------------------------------------------------------------------------
   expand_star_imports and relatives_to_absolutes are idempotent as whole actions (statement texts
   included). For organize_imports:
   C07_idempotent_partial: the stages are idempotent on their own (unused-import removal from the same
   selector state; sorting, above).
   FULL STRENGTH (refuted): organize (organize m) = organize m — sorting can move a statement in front
   of the one that made it redundant (import pkg.t; import pkg.s with only pkg.s.f used). *)
Theorem C07_expand_stars_idempotent :
  forall lay used exported l,
    expand_stars lay used exported (expand_stars lay used exported l) = expand_stars lay used exported l.
Proof. exact expand_stars_idempotent. Qed.
Print Assumptions C07_expand_stars_idempotent.

Theorem C07_relatives_to_absolutes_idempotent :
  forall lay l, abs_coherent lay = true ->
    relatives_to_absolutes lay (relatives_to_absolutes lay l) = relatives_to_absolutes lay l.
Proof. exact relatives_to_absolutes_idempotent. Qed.
Print Assumptions C07_relatives_to_absolutes_idempotent.

Theorem C07_idempotent_partial :
  forall lay names l, remove_unused lay names (remove_unused lay names l) = remove_unused lay names l.
Proof. exact remove_unused_idempotent. Qed.
Print Assumptions C07_idempotent_partial.

Example C07_idempotent_partial_nonvacuous :
  map s_info (remove_unused w_lay (names_unused ex_used ex_exported) ex_stmts) <> map s_info ex_stmts.
Proof. exact ex_remove_unused_nonvacuous. Qed.
Print Assumptions C07_idempotent_partial_nonvacuous.

(* the positive side of the refutation: the block left by the removal of unused imports, put in ANY
   order (sorting included) in which no name is bound by two import statements ([distinct_heads], the
   negation of the shape of finding C07-not-idempotent-reselection), is left alone by a further removal *)
Theorem C07_removal_stable_under_reordering :
  forall lay names l0 l,
    Permutation l (remove_unused lay names l0) -> distinct_heads lay l = true ->
    remove_unused lay names l = l.
Proof. exact removal_stable_under_reordering. Qed.
Print Assumptions C07_removal_stable_under_reordering.

Example C07_removal_stable_nonvacuous :
  let l := sort_imports w_lay false (remove_unused w_lay (names_unused ex_used ex_exported) ex_stmts) in
  distinct_heads w_lay l = true /\ map s_info l <> map s_info ex_stmts /\
  distinct_heads w_lay idem_stmts = false.
Proof. exact ex_stable_nonvacuous. Qed.
Print Assumptions C07_removal_stable_nonvacuous.

Theorem C07_idempotent_refuted :
  exists lay pr used exported l out out2,
    consistent lay l = true /\ star_table_complete lay l = true /\
    organize lay pr used exported l = Some out /\ organize lay pr used exported out = Some out2 /\
    map s_info out2 <> map s_info out.
Proof. exact idempotent_refuted. Qed.
Print Assumptions C07_idempotent_refuted.
