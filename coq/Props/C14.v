(* Property C14 — theorems only. Each is closed by [exact] and followed by Print Assumptions.
   Models: coq/C14/{Lines,Regions,RealCode,Logical,Words}.v; reference notions: coq/C14/Spec.v and Regions.ref_regions. *)
From Coq Require Import List NArith ZArith Bool.
From RopeVerif.Lib Require Import Text.
From RopeVerif.C14 Require Import Base Lines Regions RealCode Logical Words Spec PrimarySpec LiteralSpec.
From RopeVerif.C14 Require Import LinesProofs RegionsProofs LiteralProofs RegionsShapeProofs RealCodeProofs LogicalProofs LogicalInProofs WordsProofs PrimaryProofs FindingsProofs.
Import ListNotations.

(* ---------------------------------------------------------------- SourceLinesAdapter, for ALL texts *)

(* starts is strictly increasing (so bisect is used inside its contract) *)
Theorem C14_starts_sorted : forall s : text, increasing (line_starts s).
Proof. exact starts_sorted. Qed.
Print Assumptions C14_starts_sorted.

(* line -> offset -> line: get_line_number(get_line_start(n)) = n for every n for which get_line_start is defined
   (1 <= n <= length()+1) *)
Theorem C14_line_offset_inverse : forall (s : text) (n : nat) (a : N),
  line_start s n = Some a -> line_number s a = n.
Proof. exact line_offset_inverse. Qed.
Print Assumptions C14_line_offset_inverse.

(* offset -> line -> offsets: every offset 0..len(s) lies on an existing line, between that line's start and end *)
Theorem C14_offset_line : forall (s : text) (o : N), (o <= lenN s)%N ->
  exists a b, (1 <= line_number s o <= length_lines s)%nat
    /\ line_start s (line_number s o) = Some a /\ line_end s (line_number s o) = Some b /\ (a <= o)%N /\ (o <= b)%N.
Proof. exact offset_line. Qed.
Print Assumptions C14_offset_line.

(* the lines partition the text: all_lines lists get_line(1..length()), it is str.split, and joining gives the text back *)
Theorem C14_lines_partition : forall s : text,
  join_nl (all_lines s) = s
  /\ all_lines s = split_nl s
  /\ length (all_lines s) = length_lines s
  /\ (forall n, (1 <= n)%nat -> nth_error (all_lines s) (n - 1) = get_line s n)
  /\ Forall (fun l => ~ In cNL l) (all_lines s).
Proof.
  intro s. split; [exact (lines_partition s)|]. split; [exact (all_lines_split s)|].
  split; [exact (all_lines_length s)|]. split; [exact (all_lines_get_line s)|].
  rewrite all_lines_split. exact (split_nl_no_newline s).
Qed.
Print Assumptions C14_lines_partition.

Example C14_lines_example :
  line_starts [97; 10; 98; 99]%N = [0; 2; 5]%N /\ line_number [97; 10; 98; 99]%N 3 = 2%nat
  /\ all_lines [97; 10; 98; 99]%N = [[97]; [98; 99]]%N.
Proof. vm_compute. repeat split; reflexivity. Qed.
Print Assumptions C14_lines_example.

(* ---------------------------------------------------------------- ignored_regions, for ALL texts *)

(* the scanner's regions are ascending, disjoint, inside the text; comments start with '#' and are non-empty,
   strings have at least two characters *)
Theorem C14_scan_regions_wf : forall (u : utable) (s : text), regions_wf s (scan_regions u s) = true.
Proof. exact scan_regions_wf. Qed.
Print Assumptions C14_scan_regions_wf.

(* a comment region starts at '#', contains no newline and stops exactly at the next newline or the end of the text *)
Theorem C14_comment_region_exact : forall (u : utable) (s : text) (a b : N), In (a, b, None) (scan_regions u s) ->
  getN s a = Some cHASH
  /\ (forall o c, (a <= o)%N -> (o < b)%N -> getN s o = Some c -> c <> cNL)
  /\ (b = lenN s \/ getN s b = Some cNL).
Proof. exact comment_region_exact. Qed.
Print Assumptions C14_comment_region_exact.

(* no '#' is missed: every '#' of the text lies inside a region (a comment starts there unless a string or an
   earlier comment already covers it) *)
Theorem C14_hash_covered : forall (u : utable) (s : text) (o : N), getN s o = Some cHASH ->
  exists a b pre, In (a, b, pre) (scan_regions u s) /\ (a <= o)%N /\ (o < b)%N.
Proof. exact hash_covered. Qed.
Print Assumptions C14_hash_covered.

(* a string region is: at most four letters of bBfFrRuU (reported as the prefix), a quote, ..., at least two more characters *)
Theorem C14_string_region_shape : forall (u : utable) (s : text) (a b : N) (pre : text), In (a, b, Some pre) (scan_regions u s) ->
  (length pre <= 4)%nat /\ forallb is_prefix_char pre = true
  /\ sliceN a (a + lenN pre) s = pre
  /\ (exists q, getN s (a + lenN pre) = Some q /\ is_quote q = true)
  /\ (a + lenN pre + 2 <= b)%N.
Proof. exact string_region_shape. Qed.
Print Assumptions C14_string_region_shape.

(* after its prefix a string region is exactly one literal of the lexical grammar of the language reference
   (coq/C14/LiteralSpec.v: a long literal up to the first unescaped closing triple quote if the text starts with three
   quotes and that literal is terminated, otherwise a short literal) *)
Theorem C14_string_region_is_literal : forall (u : utable) (s : text) (a b : N) (pre : text), In (a, b, Some pre) (scan_regions u s) ->
  exists q r1 n, skipn (N.to_nat (a + lenN pre)) s = q :: r1 /\ is_quote q = true
    /\ b = (a + lenN pre + N.of_nat n)%N
    /\ ((exists r3 m, r1 = q :: q :: r3 /\ long_lit q r3 m /\ n = (3 + m)%nat)
        \/ ((forall r3 m, r1 = q :: q :: r3 -> ~ long_lit q r3 m) /\ exists m, short_lit q r1 m /\ n = S m)).
Proof. exact string_region_is_literal. Qed.
Print Assumptions C14_string_region_is_literal.

(* FULL STATEMENT (not proved): for every valid source, scan_regions s = the tokenizer's STRING/COMMENT/f-string spans.
   Proved: the scanner equals the reference lexer ref_regions. The reference (coq/C14/Regions.v) starts a literal at a
   quote or at a whole word that is a legal prefix, and extends f-literals as Python 3.12 nests them (replacement
   fields with brackets, nested literals re-using the quote, format specs, comments); it is compared with CPython's
   tokenizer inside Coq on every valid generated text, nested f-strings included. Side condition (boolean lex_sane,
   evaluated on every case): wherever the scanner stands on a prefix letter, regular expression and lexer start the
   same thing. It fails only for (1) an illegal prefix spelling before a literal, (2) a prefix directly after a
   non-alphanumeric character above 127 — both not valid programs — and (3) an f-literal whose 3.12 extent differs
   from the regular expression's: the open finding C14-fstring-nested-quote, refuted below on a valid program. *)
Theorem C14_regions_are_tokens_partial : forall (u : utable) (s : text),
  lex_sane u s = true -> scan_regions u s = ref_regions s.
Proof. exact regions_are_tokens_partial. Qed.
Print Assumptions C14_regions_are_tokens_partial.

Example C14_regions_example :
  let s := [120; 32; 61; 32; 114; 98; 34; 97; 34; 32; 43; 32; 102; 34; 123; 100; 91; 39; 107; 39; 93; 58; 62; 123; 119; 125; 125; 34; 32; 35; 32; 99; 10]%N in
  lex_sane (table_of [] [] [] []) s = true
  /\ scan_regions (table_of [] [] [] []) s = [(4, 9, Some [114; 98]); (12, 28, Some [102]); (29, 32, None)]%N.
Proof. exact lex_sane_example. Qed.
Print Assumptions C14_regions_example.

(* the defect fixed by 704800d, now inside the theorem's domain:  x = a or<dq>s<dq>  is lex_sane and the region is the
   literal alone (it used to start at the r of the keyword; replay corpus/C14/C14-prefix-glued-to-keyword.json) *)
Example C14_prefix_glued_fixed :
  lex_sane (table_of [] [] [] []) glued_witness = true
  /\ scan_regions (table_of [] [] [] []) glued_witness = [(8, 11, Some [])]%N.
Proof. exact prefix_glued_fixed. Qed.
Print Assumptions C14_prefix_glued_fixed.

(* the side condition cannot be dropped: an illegal prefix spelling separates rope from the lexer (not a valid program) *)
Theorem C14_prefix_spelling_refuted : exists s : text, scan_regions (table_of [] [] [] []) s <> ref_regions s.
Proof. exact prefix_spelling_refuted. Qed.
Print Assumptions C14_prefix_spelling_refuted.

(* ... and on the VALID program  x = f<dq>{d[<dq>k<dq>]}<dq>  (Python 3.12): the lexer has one f-literal 4..15, rope two regions.
   This is the open finding C14-fstring-nested-quote (findings/C14-fstring-nested-quote.json). *)
Theorem C14_fstring_nesting_refuted :
  ref_regions fnest_witness = [(4, 15, Some [102])]%N
  /\ scan_regions (table_of [] [] [] []) fnest_witness = [(4, 10, Some [102]); (11, 15, Some [])]%N
  /\ lex_sane (table_of [] [] [] []) fnest_witness = false.
Proof. exact fstring_nesting_refuted. Qed.
Print Assumptions C14_fstring_nesting_refuted.

(* ... and  x = f<sq>{a}{ NL b}<sq>  (a newline inside a replacement field of a single-quoted f-literal, valid since
   3.12): the lexer has one f-literal, the regular expression finds nothing. Open finding C14-fstring-newline-in-field. *)
Theorem C14_fstring_newline_refuted :
  ref_regions fnl_witness = [(4, 14, Some [102])]%N
  /\ scan_regions (table_of [] [] [] []) fnl_witness = []
  /\ lex_sane (table_of [] [] [] []) fnl_witness = false.
Proof. exact fstring_newline_refuted. Qed.
Print Assumptions C14_fstring_newline_refuted.

(* ---------------------------------------------------------------- real_code, for ALL texts and ALL well-formed region lists *)

Theorem C14_real_code_length : forall (rs : list region) (s : text),
  regions_wf s rs = true -> length (real_code_with rs s) = length s.
Proof. exact real_code_length. Qed.
Print Assumptions C14_real_code_length.

(* in particular for rope's own regions, unconditionally *)
Theorem C14_real_code_length_all : forall (u : utable) (s : text), length (real_code u s) = length s.
Proof. intros u s. exact (real_code_length (scan_regions u s) s (scan_regions_wf u s)). Qed.
Print Assumptions C14_real_code_length_all.

(* outside the regions a character is kept, or tab -> space, ';' -> newline, newline -> space, backslash -> space *)
Theorem C14_real_code_outside : forall (rs : list region) (s : text), regions_wf s rs = true ->
  forall (o : nat) (c : N), nth_error s o = Some c ->
    (forall a b pre, In (a, b, pre) rs -> ~ (a <= N.of_nat o /\ N.of_nat o < b)%N) ->
    exists c', nth_error (real_code_with rs s) o = Some c'
      /\ (c' = c \/ (c = cTAB /\ c' = cSP) \/ (c = cSEMI /\ c' = cNL) \/ ((c = cNL \/ c = cBSL) /\ c' = cSP)).
Proof. exact real_code_outside. Qed.
Print Assumptions C14_real_code_outside.

(* the same holds inside regions that real_code leaves verbatim (f-strings) *)
Theorem C14_real_code_outside_or_fstring : forall (rs : list region) (s : text), regions_wf s rs = true ->
  forall (o : nat) (c : N), nth_error s o = Some c ->
    (forall a b pre, In (a, b, pre) rs -> (a <= N.of_nat o /\ N.of_nat o < b)%N ->
       has_f pre = true /\ getN s a <> Some cHASH) ->
    exists c', nth_error (real_code_with rs s) o = Some c'
      /\ (c' = c \/ (c = cTAB /\ c' = cSP) \/ (c = cSEMI /\ c' = cNL) \/ ((c = cNL \/ c = cBSL) /\ c' = cSP)).
Proof. exact real_code_outside_or_fstring. Qed.
Print Assumptions C14_real_code_outside_or_fstring.

Example C14_real_code_example :
  (* x = 'a;' # c NL (1, NL 2) NL *)
  let s := [120; 32; 61; 32; 39; 97; 59; 39; 32; 35; 32; 99; 10; 40; 49; 44; 10; 50; 41; 10]%N in
  regions_wf s (scan_regions (table_of [] [] [] []) s) = true
  /\ real_code (table_of [] [] [] []) s = [120; 32; 61; 32; 34; 32; 32; 34; 32; 32; 32; 32; 10; 40; 49; 44; 32; 50; 41; 10]%N.
Proof. vm_compute. split; reflexivity. Qed.
Print Assumptions C14_real_code_example.

(* FULL STATEMENT (false for the model): a newline outside every region is replaced by a space only inside brackets.
   Witness  x = f"{{" NL y = 1 : no bracket outside the regions, yet the newline becomes a space. *)
Theorem C14_real_code_newline_refuted :
  exists (s : text) (o : nat), nth_error s o = Some cNL
    /\ outside (scan_regions (table_of [] [] [] []) s) (N.of_nat o) = true
    /\ plain_outside (scan_regions (table_of [] [] [] []) s) s = true
    /\ nth_error (real_code (table_of [] [] [] []) s) o = Some cSP.
Proof. exact real_code_newline_refuted. Qed.
Print Assumptions C14_real_code_newline_refuted.

(* ---------------------------------------------------------------- custom_generator, for ALL line lists and Unicode tables *)

(* FULL STATEMENT (not proved, and false, see the two refutations): the reported ranges are the tokenizer's statements.
   Proved: the reported logical lines are ordered and disjoint, every line before/between/after them is blank,
   each starts at a non-blank line, i.e. they partition the non-blank physical lines. *)
Theorem C14_logical_lines_partition_partial : forall (u : utable) (lines : list text),
  parts_ok u (custom_generator u lines) lines 1.
Proof. exact custom_generator_partition. Qed.
Print Assumptions C14_logical_lines_partition_partial.

(* CachingLogicalLineFinder.logical_line_in (PyModule.logical_lines): a line inside a reported range is mapped to
   exactly that range *)
Theorem C14_logical_line_in : forall (u : utable) (lines : list text) (a b n : nat),
  In (a, b) (custom_generator u lines) -> (a <= n <= b)%nat ->
  logical_line_in (custom_generator u lines) n = (a, b).
Proof. exact logical_line_in_custom. Qed.
Print Assumptions C14_logical_line_in.

Example C14_logical_lines_example :
  (* x = (1, NL 2) NL NL y = 1 *)
  custom_generator (table_of [] [] [] []) [[120; 32; 61; 32; 40; 49; 44]; [50; 41]; []; [121; 32; 61; 32; 49]]%N
  = [(1, 2); (4, 4)]%nat.
Proof. vm_compute. reflexivity. Qed.
Print Assumptions C14_logical_lines_example.

Theorem C14_logical_lines_escaped_quote_refuted : exists s : text, merges_after_line1 s.
Proof. exact logical_lines_escaped_quote_refuted. Qed.
Print Assumptions C14_logical_lines_escaped_quote_refuted.

Theorem C14_logical_lines_adjacent_quotes_refuted : exists s : text, merges_after_line1 s.
Proof. exact logical_lines_adjacent_quotes_refuted. Qed.
Print Assumptions C14_logical_lines_adjacent_quotes_refuted.

(* FULL STATEMENT (NOT PROVED — evaluated inside Coq on every generated case, code 23 of the runner; the proof would be a
   simulation between rope's token scanner and the character-level lexer: at every position that is not inside an
   escape pair both are in the same (string, depth) state; a run of n backslashes before a token escapes it iff n is odd,
   and the two machines consume the same characters except in the two shapes excluded by shape_free):
     forall u lines, shape_free u lines = true -> ref_generator u lines = Some rg -> custom_generator u lines = rg
   where ref_generator (coq/C14/Logical.v) is the reference lexer's view of logical lines (strings end at the first
   unescaped delimiter, a backslash escapes one character); it is compared with tokenize's statements on every valid
   case (code 22). Proved about the exclusion: shape_free is violated by exactly the two open defect witnesses, on
   which the reference reads two statements and rope one; their neighbours with one blank between the quotes satisfy it
   and there rope and the reference agree. *)
Theorem C14_logical_lines_shape_witnesses :
  shape_free u0 (all_lines escq_witness) = false
  /\ ref_generator u0 (all_lines escq_witness) = Some [(1, 1); (2, 2)]%nat
  /\ custom_generator u0 (all_lines escq_witness) = [(1, 3)]%nat
  /\ shape_free u0 (all_lines adjstr_witness) = false
  /\ ref_generator u0 (all_lines adjstr_witness) = Some [(1, 1); (2, 2)]%nat
  /\ custom_generator u0 (all_lines adjstr_witness) = [(1, 3)]%nat.
Proof. exact shape_free_witnesses. Qed.
Print Assumptions C14_logical_lines_shape_witnesses.

Example C14_logical_lines_shape_example :
  shape_free u0 (all_lines escq_neighbour) = true
  /\ ref_generator u0 (all_lines escq_neighbour) = Some (custom_generator u0 (all_lines escq_neighbour))
  /\ custom_generator u0 (all_lines escq_neighbour) = [(1, 1); (2, 2)]%nat
  /\ shape_free u0 (all_lines adjstr_neighbour) = true
  /\ ref_generator u0 (all_lines adjstr_neighbour) = Some (custom_generator u0 (all_lines adjstr_neighbour))
  /\ custom_generator u0 (all_lines adjstr_neighbour) = [(1, 1); (2, 2)]%nat.
Proof. exact shape_free_neighbours. Qed.
Print Assumptions C14_logical_lines_shape_example.

(* ---------------------------------------------------------------- Worder, for ALL texts and Unicode tables *)

(* at an identifier character, get_word_range is the maximal run of identifier characters around the offset and
   get_word_at is that slice of the original text. Identifier characters (is_id_char, in idc) are the characters Python
   accepts inside an identifier: ASCII letters, digits, underscore, and above 127 the XID_Continue table of the case
   ((a + c).isidentifier(), rope commit d70e7ea; before it was str.isalnum() or underscore) *)
Theorem C14_word_at : forall (u : utable) (code raw : text) (L : Z) (F : nat),
  L = lenZ code -> (length code + 2 <= F)%nat ->
  forall o : Z, (0 <= o < L)%Z -> idc u code o true ->
  exists a b, get_word_range u code L F o = Val (a, b) /\ get_word_at u code raw L F o = Val (sliceZ raw a b)
    /\ (0 <= a <= o)%Z /\ (o < b <= L)%Z
    /\ (forall i, (a <= i < b)%Z -> idc u code i true)
    /\ (a = 0%Z \/ idc u code (a - 1) false) /\ (b = L \/ idc u code b false).
Proof. exact word_range_maximal. Qed.
Print Assumptions C14_word_at.

Example C14_word_at_example :
  (* ab.cd at offset 4 *)
  w_word_range (table_of [] [] [] []) [97; 98; 46; 99; 100]%N 4 = Val (3, 5)%Z
  /\ w_primary_range (table_of [] [] [] []) [97; 98; 46; 99; 100]%N 4 = Val (0, 5)%Z.
Proof. vm_compute. split; reflexivity. Qed.
Print Assumptions C14_word_at_example.

(* the defect fixed by d70e7ea:  e U+0301 x = 1 . With Python's identifier table the word is the lexer's word [0,3);
   with a table that lacks U+0301 (the old str.isalnum() behaviour) the same model gives [0,1) — third conjunct, kept as
   documentation (replay corpus/C14/C14-identifier-with-non-alnum-xid-continue.json) *)
Example C14_word_at_xid_fixed :
  lex_word_range xid_witness 0 = (0, 3)%nat
  /\ w_word_range (table_of [] [] [769] []%N) xid_witness 0 = Val (0, 3)%Z
  /\ w_word_range (table_of [] [] [] []) xid_witness 0 = Val (0, 1)%Z.
Proof. exact word_at_xid_fixed. Qed.
Print Assumptions C14_word_at_xid_fixed.

(* FULL STATEMENT (not proved; oracle: ast attribute chains on every generated case): at the last identifier of any
   attribute chain (with calls, subscripts, spaces, continuation lines) get_primary_range is the chain.
   Proved: for plain dotted names name_1.name_2. ... .name_k without spaces, at every offset of name_k, for every text and
   every Unicode table in which identifier characters are not white space: the range is the whole chain, provided every
   name before a dot (for the last name: the part of it up to the offset, unless the offset is not its last character)
   is no keyword OR follows an attribute dot (attr_dot: the word before that dot does not start with a digit, i.e. the
   dot does not end a number; rope 2b4039e + 06a46a8), no name before a dot is the word from itself (the relative-import
   test of _find_primary_start fires on it) and the chain is not preceded by a dot (name_at / attr_dot / chain_from in
   coq/C14/PrimarySpec.v). Names ending in the letters f-r-o-m are inside the theorem since rope commit b8cf919. *)
Theorem C14_primary_chain_partial : forall (u : utable) (code : text) (s e o a : Z) (n : nat),
  (forall c, is_id_char u c = true -> isspace u c = false) ->
  name_at u code (lenZ code) s e -> (e = lenZ code \/ idc u code e false) -> (s <= o < e)%Z ->
  (iskeyword (sliceC code (lenZ code) s (o + 1)) = false \/ (o + 1 < e)%Z \/ attr_dot u code (lenZ code) s) ->
  chain_from u code (lenZ code) (fuel_for code) s a n ->
  w_primary_range u code o = Val (a, e).
Proof. exact primary_chain_entry. Qed.
Print Assumptions C14_primary_chain_partial.

(* the hypotheses are satisfiable: ab.cd.ef at offset 7 (proved by applying the theorem, not by evaluation) *)
Example C14_primary_chain_example :
  w_primary_range (table_of [] [] [] []) [97; 98; 46; 99; 100; 46; 101; 102]%N 7 = Val (0, 8)%Z.
Proof. exact primary_chain_example. Qed.
Print Assumptions C14_primary_chain_example.

(* s.is.x : an attribute name spelled like a keyword no longer cuts the chain (2b4039e) *)
Example C14_primary_keyword_attribute_example :
  w_primary_range (table_of [] [] [] []) [115; 46; 105; 115; 46; 120]%N 5 = Val (0, 6)%Z
  /\ w_primary_range (table_of [] [] [] []) [115; 46; 105; 115; 46; 120]%N 3 = Val (0, 4)%Z.
Proof. exact primary_keyword_attribute_example. Qed.
Print Assumptions C14_primary_keyword_attribute_example.

(* the defect fixed by b8cf919:  x = date_from.year  (replay corpus/C14/C14-name-ending-in-from.json) *)
Example C14_primary_from_fixed :
  lex_chain_range fromname_witness 14 = (4, 18)%nat
  /\ w_primary_range (table_of [] [] [] []) fromname_witness 14 = Val (4, 18)%Z.
Proof. exact primary_from_fixed. Qed.
Print Assumptions C14_primary_from_fixed.

(* The faithful model still refutes the full statement in two places (open findings): *)

(* the defect fixed by 06a46a8:  y = b if 3. else (c).r . History: with _follows_dot as rope 2b4039e introduced it (the
   as-found variant kept in coq/C14/Words.v as parameter as_found) the reported primary [9,22) contained the keyword else;
   the current model and rope report the expression (c).r = [17,22) (replay corpus/C14/C14-keyword-after-float-dot.json) *)
Theorem C14_primary_keyword_after_float_refuted_as_found :
  w_primary_range_as_found_2b4039e u0 (real_code u0 kwdot_witness) 21 = Val (9, 22)%Z
  /\ iskeyword (sliceZ kwdot_witness 12 16) = true.
Proof. exact primary_keyword_after_float_refuted_as_found. Qed.
Print Assumptions C14_primary_keyword_after_float_refuted_as_found.

Example C14_primary_keyword_after_float_fixed :
  w_primary_range u0 (real_code u0 kwdot_witness) 21 = Val (17, 22)%Z.
Proof. exact primary_keyword_after_float_fixed. Qed.
Print Assumptions C14_primary_keyword_after_float_fixed.

(* y(.5).z : the start of the reported expression is negative *)
Theorem C14_primary_dot_number_refuted : negative_primary_start (real_code (table_of [] [] [] []) dotnum_witness).
Proof. exact primary_dot_number_refuted. Qed.
Print Assumptions C14_primary_dot_number_refuted.

(* an f-string containing its own (escaped) quote inside call brackets: negative start as well *)
Theorem C14_primary_fstring_quote_refuted : negative_primary_start (real_code (table_of [] [] [] []) fquote_witness).
Proof. exact primary_fstring_quote_refuted. Qed.
Print Assumptions C14_primary_fstring_quote_refuted.
