(* Property C19 — theorems only. Each is closed by [exact] and followed by Print Assumptions.
   Model: RopeVerif.C19.Matcher (similarfinder._ASTMatcher / RawSimilarFinder.get_matches).
   [erase t] forgets node ids, regions and expr_context fields; "t ≡ u" is [erase t = erase u].
   [acc] is the wildcard acceptance callback; rope's two callbacks are [acc_default exact]. *)
From Coq Require Import List NArith Bool.
From RopeVerif.Lib Require Import Text.
From RopeVerif.C19 Require Import Tree Matcher MatcherProofs FindProofs Restructure RestructureProofs Precedence PrecedenceProofs Examples.
Import ListNotations.

(* rope's acceptance tests (isinstance(node, ast.expr); `exact`) only accept nodes and do not look at
   ids, regions or contexts: the hypotheses of the theorems below hold for them. *)
Theorem C19_acc_default_ok :
  forall exact,
    (forall w t, acc_default exact w t = true -> is_node t = true) /\
    (forall w a b, erase a = erase b -> acc_default exact w a = acc_default exact w b).
Proof. exact (fun exact => conj (acc_default_node exact) (acc_default_erase exact)). Qed.
Print Assumptions C19_acc_default_ok.

(* Soundness: substituting the bound nodes for the wildcards gives the matched code (modulo
   expr_context), for every searched node free of reserved identifiers.
   Full strength (no hypothesis on the searched node) is false: C19_match_sound_reserved_refuted. *)
Theorem C19_match_sound_partial :
  forall acc, (forall w t, acc w t = true -> is_node t = true) ->
  forall t pat m,
    no_wild t = true -> mn acc t pat [] = Some m -> erase (inst m pat) = erase t.
Proof. exact match_sound. Qed.
Print Assumptions C19_match_sound_partial.

Example C19_match_sound_nonvacuous :
  no_wild ex_call = true /\ mn (acc_default []) ex_call ex_pat [] = Some [([112%N], ex_arg1)].
Proof. exact (conj eq_refl ex_match). Qed.
Print Assumptions C19_match_sound_nonvacuous.

Theorem C19_match_sound_reserved_refuted :
  exists t pat m, mn (acc_default []) t pat [] = Some m /\ erase (inst m pat) <> erase t.
Proof. exact reserved_refuted. Qed.
Print Assumptions C19_match_sound_reserved_refuted.

(* statement patterns: the window is the instantiated pattern, statement by statement *)
Theorem C19_match_stmts_sound_partial :
  forall acc, (forall w t, acc w t = true -> is_node t = true) ->
  forall ws ps m,
    forallb no_wild ws = true -> match_stmts acc ws ps [] = Some m ->
    map erase (map (inst m) ps) = map erase ws.
Proof. exact match_stmts_sound. Qed.
Print Assumptions C19_match_stmts_sound_partial.

(* Consistency: whatever sub-tree of the matched node faces an occurrence of wildcard w is equal
   (modulo expr_context) to the node bound to w — hence all occurrences face equal code. *)
Theorem C19_match_consistent :
  forall acc, (forall w t, acc w t = true -> is_node t = true) ->
  forall t pat m w x b,
    no_wild t = true -> mn acc t pat [] = Some m ->
    occurs pat t w x -> lookup m w = Some b -> erase b = erase x.
Proof. exact match_consistent. Qed.
Print Assumptions C19_match_consistent.

Example C19_match_consistent_nonvacuous :
  occurs ex_pat ex_call [112%N] ex_arg2 /\ lookup [([112%N], ex_arg1)] [112%N] = Some ex_arg1
  /\ erase ex_arg1 = erase ex_arg2.
Proof. exact (conj ex_occurs (conj eq_refl eq_refl)). Qed.
Print Assumptions C19_match_consistent_nonvacuous.

(* Completeness: if some assignment sg of accepted nodes to the wildcards instantiates the pattern to
   the node (modulo expr_context), the matcher succeeds, and what it binds agrees with sg. *)
Theorem C19_match_complete :
  forall acc,
    (forall w t, acc w t = true -> is_node t = true) ->
    (forall w a b, erase a = erase b -> acc w a = acc w b) ->
  forall t pat sg,
    no_wild t = true -> shape_ok t = true -> is_lst pat = false -> shape_ok pat = true ->
    mnode sg -> accepts acc sg pat -> erase (inst sg pat) = erase t ->
    exists m, mn acc t pat [] = Some m /\ agree m sg.
Proof. exact match_complete. Qed.
Print Assumptions C19_match_complete.

Example C19_match_complete_nonvacuous :
  (no_wild ex_body = true /\ shape_ok ex_body = true /\ shape_ok ex_pat = true /\ is_lst ex_pat = false) /\
  let sg := [([112%N], ex_arg2)] in
  mnode sg /\ accepts (acc_default []) sg ex_pat /\ erase (inst sg ex_pat) = erase ex_call.
Proof. exact (conj ex_domain ex_complete_inst). Qed.
Print Assumptions C19_match_complete_nonvacuous.

Theorem C19_match_stmts_complete :
  forall acc,
    (forall w t, acc w t = true -> is_node t = true) ->
    (forall w a b, erase a = erase b -> acc w a = acc w b) ->
  forall ws ps sg,
    forallb no_wild ws = true -> forallb shape_ok ws = true ->
    forallb (fun x => negb (is_lst x) && shape_ok x) ps = true ->
    mnode sg -> (forall p, In p ps -> accepts acc sg p) ->
    map erase (map (inst sg) ps) = map erase ws ->
    exists m, match_stmts acc ws ps [] = Some m /\ agree m sg.
Proof. exact match_stmts_complete. Qed.
Print Assumptions C19_match_stmts_complete.

(* The finder reports exactly the visited nodes that match, and every descendant node is visited. *)
Theorem C19_find_all_expr :
  forall acc body p a,
    In a (find_matches acc body (PExpr p)) <->
    exists n m, In n (nodes body) /\ mn acc n p [] = Some m /\ a = MExpr n m.
Proof. exact find_expr_iff. Qed.
Print Assumptions C19_find_all_expr.

Theorem C19_nodes_complete : forall n body, desc n body -> In n (nodes body).
Proof. exact nodes_complete. Qed.
Print Assumptions C19_nodes_complete.

Example C19_find_all_nonvacuous :
  In ex_call (nodes ex_body) /\
  find_matches (acc_default []) ex_body (PExpr ex_pat) = [MExpr ex_call [([112%N], ex_arg1)]].
Proof. exact (conj ex_visited ex_found). Qed.
Print Assumptions C19_find_all_nonvacuous.

(* statement patterns: exactly the list-valued fields of visited nodes are scanned, and every
   non-empty window that matches is reported *)
Theorem C19_find_all_stmts :
  forall acc body ps a,
    In a (find_matches acc body (PStmts ps)) <->
    exists n l, In n (nodes body) /\ In (Lst l) (node_kids n) /\ In a (check_stmt_list acc ps l).
Proof. exact find_stmts_iff. Qed.
Print Assumptions C19_find_all_stmts.

Theorem C19_window_reported :
  forall acc ps l pre ws post m,
    l = pre ++ ws ++ post -> ws <> [] -> match_stmts acc ws ps [] = Some m ->
    In (MStmts ws m) (check_stmt_list acc ps l).
Proof. exact window_reported. Qed.
Print Assumptions C19_window_reported.

Example C19_window_nonvacuous :
  check_stmt_list (acc_default []) [st_a 0 97; st_a 0 98] [st_a 1 99; st_a 2 97; st_a 3 98; st_a 4 99]
  = [MStmts [st_a 2 97; st_a 3 98] []].
Proof. exact ex_window. Qed.
Print Assumptions C19_window_nonvacuous.

(* get_matches = the matches found whose region lies inside [st, en] and does not overlap skip *)
Theorem C19_in_region :
  forall acc body pat st en skip a,
    In a (get_matches acc body pat st en skip) <->
    In a (find_matches acc body pat) /\
    ((st <= fst (match_region a) /\ snd (match_region a) <= en)%N /\
     (forall s0 s1, skip = Some (s0, s1) ->
        ~ (s0 < snd (match_region a) /\ fst (match_region a) < s1)%N)).
Proof. exact get_matches_spec. Qed.
Print Assumptions C19_in_region.

(* With goal = pattern the tree-level restructuring leaves the syntax tree unchanged. *)
Theorem C19_identity_goal :
  forall acc pat body,
    (forall w t, acc w t = true -> is_node t = true) ->
    no_wild body = true -> erase (restructure_tree acc pat pat body) = erase body.
Proof. exact identity_goal. Qed.
Print Assumptions C19_identity_goal.

(* ---- text level (model RopeVerif.C19.Restructure of restructure._ChangeComputer) ----
   The code as it stands is the model with sorted_stmts = true and same_tree = true: statement matches
   are replaced in source order (/repo 220be77) and restructure.replace searches the tree it rewrites
   (/repo 52b3ff8).  The *_legacy* statements are about the model variants with the flags off; they
   document the two defects that were found by this check and repaired, and stay as regression
   witnesses (their replays are in corpus/C19). *)

(* Statement patterns: a character of the source lying in no match region is kept; [newpos] gives
   its offset in the new text and is strictly increasing on kept characters (C19_kept_order), so
   the text outside the matches is untouched.  [region_ok]: start <= end <= len(source).
   Expression patterns: C19_untouched_outside_expr below. *)
Theorem C19_untouched_outside :
  forall src goal ms cs i,
    Forall (region_ok (tlen src)) ms ->
    stmt_changes src goal (sort_matches ms) 0 = LOk cs ->
    (i < tlen src)%N ->
    (forall a, In a ms -> ~ (fst (match_region a) <= i /\ i < snd (match_region a))%N) ->
    nth_error (apply_changes src cs) (newpos 0 cs i) = nth_error src (N.to_nat i).
Proof. exact stmt_sorted_untouched_outside. Qed.
Print Assumptions C19_untouched_outside.

(* the same for any order of the matches (in particular the legacy traversal order) *)
Theorem C19_untouched_outside_any_order :
  forall src goal ms cs i,
    Forall (region_ok (tlen src)) ms ->
    stmt_changes src goal ms 0 = LOk cs ->
    (i < tlen src)%N ->
    (forall a, In a ms -> ~ (fst (match_region a) <= i /\ i < snd (match_region a))%N) ->
    nth_error (apply_changes src cs) (newpos 0 cs i) = nth_error src (N.to_nat i).
Proof. exact stmt_untouched_outside. Qed.
Print Assumptions C19_untouched_outside_any_order.

Theorem C19_kept_order :
  forall cs last len i j,
    wf_changes last cs len -> (last <= i /\ i < j)%N -> outside cs i -> outside cs j ->
    (newpos last cs i < newpos last cs j)%nat.
Proof. exact newpos_mono. Qed.
Print Assumptions C19_kept_order.

Example C19_untouched_outside_nonvacuous :
  Forall (region_ok (tlen so_src)) so_matches /\
  restructure_text (acc_default []) so_src so_goal true true so_body so_pat
  = CText [105;102;32;99;58;10;32;32;32;32;97;32;61;32;50;10;97;32;61;32;50;10]%N.
Proof. exact (conj so_regions_ok so_result_sorted). Qed.
Print Assumptions C19_untouched_outside_nonvacuous.

(* Expression patterns (Restructure and restructure.replace): the new module text is the old one in
   which the regions of the outermost matched nodes ([nearest matched body], _get_nearest_roots) are
   replaced bottom-up; every character outside those regions is kept, at [newpos], in order
   (C19_kept_order applies to the well-formed change list).  Hypotheses: the module node is not itself
   a match and spans the source; the outermost matched nodes have pairwise disjoint regions inside the
   source (boolean [roots_okb], evaluated per case by the runner). *)
Theorem C19_untouched_outside_expr :
  forall src goal matched f body r,
    find_matched matched body = None ->
    node_start body = 0%N -> node_end body = tlen src ->
    ForallOrdPairs node_disj (nearest matched body) ->
    Forall (fun n => (node_start n <= node_end n /\ node_end n <= tlen src)%N) (nearest matched body) ->
    node_text src goal true matched (Datatypes.S f) body false = TOk r ->
    exists cs,
      map (fun c => (ch_start c, ch_end c)) cs
      = map (fun n => (node_start n, node_end n)) (nearest matched body) /\
      wf_changes 0 (sort_ch cs) (tlen src) /\
      forall i, (i < tlen src)%N ->
        (forall n, In n (nearest matched body) -> ~ (node_start n <= i /\ i < node_end n)%N) ->
        nth_error r (newpos 0 (sort_ch cs) i) = nth_error src (N.to_nat i).
Proof. exact expr_untouched_outside. Qed.
Print Assumptions C19_untouched_outside_expr.

Example C19_untouched_outside_expr_nonvacuous :
  find_matched rp_matched rp_body = None /\ node_start rp_body = 0%N /\ node_end rp_body = tlen rp_src /\
  length (nearest rp_matched rp_body) = 1%nat /\
  Forall (fun n => (node_start n <= node_end n /\ node_end n <= tlen rp_src)%N) (nearest rp_matched rp_body) /\
  ForallOrdPairs node_disj (nearest rp_matched rp_body).
Proof. exact rp_expr_domain. Qed.
Print Assumptions C19_untouched_outside_expr_nonvacuous.

(* Each statement match is replaced: every match is replaced or starts inside a replaced one. *)
Theorem C19_stmt_each_replaced :
  forall src goal ms cs,
    stmt_changes src goal (sort_matches ms) 0 = LOk cs ->
    forall a, In a ms ->
      (exists t, In (fst (match_region a), snd (match_region a), t) cs) \/
      (exists s e t, In (s, e, t) cs /\ (s <= fst (match_region a) /\ fst (match_region a) < e)%N).
Proof. exact stmt_sorted_each_replaced. Qed.
Print Assumptions C19_stmt_each_replaced.

(* Legacy (before 220be77; repaired, replay corpus/C19/C19-stmt-order.json): with the matches taken
   in traversal order an instance in a nested block that precedes a replaced instance of an enclosing
   list was dropped although it overlaps nothing. *)
Theorem C19_stmt_each_replaced_legacy_refuted :
  exists src goal ms cs a,
    stmt_changes src goal ms 0 = LOk cs /\ In a ms /\
    ~ (exists t, In (fst (match_region a), snd (match_region a), t) cs) /\
    ~ (exists s e t, In (s, e, t) cs /\ (s <= fst (match_region a) /\ fst (match_region a) < e)%N).
Proof. exact stmt_order_refuted. Qed.
Print Assumptions C19_stmt_each_replaced_legacy_refuted.

(* restructure.replace (and Restructure) with an expression pattern: every matched node is a key of
   matched_asts, and its text is the goal instantiated with the texts of the bound nodes -- not
   its own source text. *)
Theorem C19_replace_expression :
  forall src goal ms t m f,
    In (MExpr t m) ms -> is_node t = true ->
    exists a', In a' ms /\ match_ast_id a' = node_id t /\
      node_text src goal true (keys ms) (Datatypes.S f) t false =
      matched_text_with src goal true (node_text src goal true (keys ms) f) a'.
Proof. exact replace_repaired_matched. Qed.
Print Assumptions C19_replace_expression.

Example C19_replace_expression_nonvacuous :
  restructure_text (acc_default []) rp_src rp_goal true true rp_body rp_pat
  = CText [120;32;61;32;103;40;49;41;10]%N.
Proof. exact rp_repaired. Qed.
Print Assumptions C19_replace_expression_nonvacuous.

(* Legacy (before 52b3ff8; repaired, replay corpus/C19/C19-replace-expression.json): with the matches
   found on another parse of the code the result never depended on the goal or the matches -- it was
   the text of the module node, i.e. "no change". *)
Theorem C19_replace_expression_legacy_noop :
  forall src goal sorted body t m ms,
    change_computer src goal sorted false body (MExpr t m :: ms) =
    let r := slice src (node_start body) (node_end body) in
    if text_eqb r src then CNone else CText r.
Proof. exact replace_expression_noop. Qed.
Print Assumptions C19_replace_expression_legacy_noop.

(* make_pattern(code, variables) -- the pattern builder of extract / use-function -- replaces
   exactly the regions of the visited Name nodes spelled like a variable (names not starting with
   "?"): its match list for ${v} is characterised completely. *)
Theorem C19_make_pattern_matches :
  forall v body len a,
    plain_name v ->
    In a (get_matches (acc_default [v]) body (PExpr (wild_name v)) 0 len None) <->
    exists n, In n (nodes body) /\ name_id n = Some v /\ a = MExpr n [(v, n)] /\ (node_end n <= len)%N.
Proof. exact make_pattern_matches. Qed.
Print Assumptions C19_make_pattern_matches.

(* ---- meaning of textual insertion (model RopeVerif.C19.Precedence: the level / required-level
   scheme of CPython's ast.unparse, generic in the operator table) ----
   [pp c e] is the canonical text of e at an operand position requiring level c; [tsub] replaces the
   wildcard tokens by texts, as _get_matched_text does; [fits sg c g]: every wildcard position of the
   goal g (and g's own position) requires a level not above the level of the expression bound to it.
   Then inserting the bare texts of the bound expressions gives exactly the canonical text of the
   tree-level substitution. *)
Theorem C19_subst_meaning :
  forall sg g c,
    fits sg c g = true ->
    pp c (psubst sg g) = tsub (fun w => pp 0 (sg w)) (pp c g).
Proof. exact subst_meaning. Qed.
Print Assumptions C19_subst_meaning.

Example C19_subst_meaning_nonvacuous :
  fits sg_pow 0 goal_add = true /\
  pp 0 (psubst sg_pow goal_add)
  = [TTok [50%N]; TTok [42%N; 42%N]; TTok [49%N]; TTok [43%N]; TTok [50%N]].      (* 2 ** 1 + 2 *)
Proof. exact subst_meaning_example. Qed.
Print Assumptions C19_subst_meaning_nonvacuous.

(* Outside the condition the statement fails: goal ${a} ** 2 with a -> 2 + 1 is not fit, the text
   obtained is not the text of the substituted tree but the canonical text of 2 + (1 ** 2)
   (open finding C19-precedence, whose signature is "fits is false"; replayed on rope). *)
Theorem C19_precedence_refuted :
  fits sg_sum 0 goal_pow = false /\
  tsub (fun w => pp 0 (sg_sum w)) (pp 0 goal_pow) <> pp 0 (psubst sg_sum goal_pow) /\
  tsub (fun w => pp 0 (sg_sum w)) (pp 0 goal_pow)
  = pp 0 (add (atom [50%N]) (pow (atom [49%N]) (atom [50%N]))).
Proof. exact precedence_refuted. Qed.
Print Assumptions C19_precedence_refuted.
