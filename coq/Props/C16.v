(* Property C16 — theorems only. Each is closed by [exact] and followed by Print Assumptions.
   All positive theorems are about [repaired] = the code in /repo after the fixes f64a998, c286168, 2fa467c;
   the `_refuted` lemmas at the end are about [legacy] = the code before them and document the fixed defects
   (each is paired with a `_fixed` example on the same witness).
   Model: coq/C16/{Newlines,Codec,Cookie,FileModel}.v (rope/base/fscommands.py file_data_to_unicode,
   unicode_to_file_data, read_str_coding, _find_coding, _decode_data; resources.File.read/write;
   change.ChangeContents.do; change._ResourceOperations.write_file). *)
From Coq Require Import List NArith Bool.
From RopeVerif.Lib Require Import Text.
From RopeVerif.C16 Require Import Newlines Codec Cookie FileModel Session
  NewlinesProofs CodecProofs CookieProofs FileModelProofs SessionProofs.
Import ListNotations.
Local Open Scope N_scope.

(* ---- newline layer -------------------------------------------------------------------------------------- *)
(* A text that uses one convention (LF, CRLF or CR; also: no final newline, empty text, only newlines) is
   normalised to CR-free text, the convention is remembered, and re-applying it gives the text back. *)
Theorem C16_newline_roundtrip :
  forall (n : nl) (t : text),
    consistentb n t = true ->
    encode_nl (fst (decode_nl t)) (Some (snd (decode_nl t))) = t
    /\ has_cr (fst (decode_nl t)) = false
    /\ (has_break t = true -> snd (decode_nl t) = n)
    /\ (has_break t = false -> decode_nl t = (t, NlLF)).
Proof. exact newline_roundtrip. Qed.
Print Assumptions C16_newline_roundtrip.

(* ... and only such texts survive: mixed conventions never do. *)
Theorem C16_newline_roundtrip_only_if :
  forall t : text,
    encode_nl (fst (decode_nl t)) (Some (snd (decode_nl t))) = t -> consistent_any t = true.
Proof. exact newline_roundtrip_only_if. Qed.
Print Assumptions C16_newline_roundtrip_only_if.

(* Writing a CR-free text with any remembered convention and normalising again gives the text and, if it has
   a line break at all, the convention. *)
Theorem C16_newline_write_read :
  forall (t : text) (n : nl),
    has_cr t = false -> decode_nl (encode_nl t (Some n)) = (t, if has_lf t then n else NlLF).
Proof. exact newline_write_read. Qed.
Print Assumptions C16_newline_write_read.

(* ---- codecs --------------------------------------------------------------------------------------------- *)
(* The executable UTF-8 and Latin-1 (and ASCII) codecs satisfy the laws the theorems below ask of a codec:
   dec (enc t) = t, ASCII code points are themselves, everything else becomes bytes >= 128. *)
Theorem C16_utf8_laws : codec_ok utf8.
Proof. exact utf8_ok. Qed.
Print Assumptions C16_utf8_laws.

Theorem C16_latin1_laws : codec_ok latin1.
Proof. exact latin1_ok. Qed.
Print Assumptions C16_latin1_laws.

Theorem C16_ascii_laws : codec_ok ascii.
Proof. exact ascii_ok. Qed.
Print Assumptions C16_ascii_laws.

(* ... and so does every single-byte codec given by a decoding table whose first 128 entries are the identity
   (cp1252, koi8-r, iso-8859-x, ...: the tables are supplied per case by the harness and checked there). *)
Theorem C16_charmap_laws : forall tbl : list N, charmap_table_ok tbl = true -> codec_ok (charmap tbl).
Proof. exact charmap_ok. Qed.
Print Assumptions C16_charmap_laws.

(* the cp1252 table (1114112 marks the five undefined bytes) is such a table *)
Example C16_ex_charmap_cp1252 : charmap_table_ok cp1252_table = true.
Proof. exact cp1252_table_ok. Qed.
Print Assumptions C16_ex_charmap_cp1252.

(* ---- the coding cookie ---------------------------------------------------------------------------------- *)
(* The declaration found in a text (when writing) is the declaration found in its encoding (when reading), for
   every codec with the laws above.  No side condition: read_str_coding is the same function on str and bytes. *)
Theorem C16_cookie_agree :
  forall (c : codec), codec_ok c ->
  forall (t : text) (b : list N), enc c t = Some b -> cookie_of t = cookie_of b.
Proof. exact cookie_of_enc. Qed.
Print Assumptions C16_cookie_agree.

(* rope's declaration is the PEP 263 declaration as CPython reads it: the regular expression's group on the
   first two lines under universal newlines.  For every input ([pep263_line] itself is compared with CPython's
   tokenize.cookie_re on every case of the correspondence run). *)
Theorem C16_cookie_pep263 :
  forall b : list N, cookie_of b = pep263_universal b.
Proof. exact cookie_of_is_pep263. Qed.
Print Assumptions C16_cookie_pep263.

(* ---- files ---------------------------------------------------------------------------------------------- *)
(* Reading a file and writing the same text back leaves its bytes unchanged (the text is CR-free and the
   detected convention is the file's). For every lookup function (codecs.lookup) and every codec with the laws. *)
Theorem C16_bytes_roundtrip :
  forall (lookup : text -> option codec) (c : codec) (t : text) (n : nl) (b : list N),
    codec_ok c ->
    enc c t = Some b ->
    declared_codec repaired lookup b = Some c ->
    consistentb n t = true ->
    to_bytes repaired lookup (fst (from_bytes repaired lookup b)) (Some (snd (from_bytes repaired lookup b))) = WBytes b
    /\ has_cr (fst (from_bytes repaired lookup b)) = false
    /\ (has_break t = true -> snd (from_bytes repaired lookup b) = n).
Proof. exact bytes_roundtrip. Qed.
Print Assumptions C16_bytes_roundtrip.

(* The same with the declaration taken from the PEP 263 regular expression as CPython applies it. *)
Theorem C16_bytes_roundtrip_pep263 :
  forall (lookup : text -> option codec) (c : codec) (t : text) (n : nl) (b : list N),
    codec_ok c -> enc c t = Some b ->
    match pep263_universal b with None => c = utf8 | Some name => lookup name = Some c end ->
    consistentb n t = true ->
    to_bytes repaired lookup (fst (from_bytes repaired lookup b)) (Some (snd (from_bytes repaired lookup b))) = WBytes b
    /\ has_cr (fst (from_bytes repaired lookup b)) = false
    /\ (has_break t = true -> snd (from_bytes repaired lookup b) = n).
Proof. exact bytes_roundtrip_pep263. Qed.
Print Assumptions C16_bytes_roundtrip_pep263.

(* Text written through rope reads back equal. *)
Theorem C16_text_roundtrip :
  forall (lookup : text -> option codec) (t : text) (n : nl) (b : list N),
    (forall name c, lookup name = Some c -> codec_ok c) ->
    has_cr t = false ->
    to_bytes repaired lookup t (Some n) = WBytes b ->
    from_bytes repaired lookup b = (t, if has_lf t then n else NlLF).
Proof. exact text_roundtrip. Qed.
Print Assumptions C16_text_roundtrip.

(* An edit of one region of the text changes exactly the image of that region in the bytes written. *)
Theorem C16_edit_preserves_rest :
  forall (lookup : text -> option codec) (p m m' s : text) (nl0 : option nl) (b b' : list N),
    to_bytes repaired lookup (p ++ m ++ s) nl0 = WBytes b ->
    to_bytes repaired lookup (p ++ m' ++ s) nl0 = WBytes b' ->
    cookie_of (encode_nl (p ++ m' ++ s) nl0) = cookie_of (encode_nl (p ++ m ++ s) nl0) ->
    exists c bp bm bm' bs,
      b = bp ++ bm ++ bs /\ b' = bp ++ bm' ++ bs
      /\ enc c (encode_nl p nl0) = Some bp /\ enc c (encode_nl s nl0) = Some bs
      /\ enc c (encode_nl m nl0) = Some bm /\ enc c (encode_nl m' nl0) = Some bm'.
Proof. exact edit_preserves_rest. Qed.
Print Assumptions C16_edit_preserves_rest.

(* The same for ChangeContents.do() on a File object that has not read the file, with or without old_contents
   (history reloaded after reopening the project, undo, redo), on a file inside the property: the rest of the
   FILE keeps its bytes, the edited region is written in the file's encoding and newline convention. *)
Theorem C16_change_preserves_rest :
  forall (lookup : text -> option codec) (c : codec) (n : nl) (b : list N) (p m m' s : text)
         (old : option text) (b' : list N),
    codec_ok c ->
    enc c (encode_nl (p ++ m ++ s) (Some n)) = Some b ->
    declared_codec repaired lookup b = Some c ->
    has_cr (p ++ m ++ s) = false -> has_lf (p ++ m ++ s) = true ->
    cookie_of (encode_nl (p ++ m' ++ s) (Some n)) = cookie_of (encode_nl (p ++ m ++ s) (Some n)) ->
    change_do repaired lookup b None (p ++ m' ++ s) old = WBytes b' ->
    exists bp bm bm' bs,
      b = bp ++ bm ++ bs /\ b' = bp ++ bm' ++ bs
      /\ enc c (encode_nl p (Some n)) = Some bp /\ enc c (encode_nl s (Some n)) = Some bs
      /\ enc c (encode_nl m (Some n)) = Some bm /\ enc c (encode_nl m' (Some n)) = Some bm'.
Proof. exact change_preserves_rest. Qed.
Print Assumptions C16_change_preserves_rest.

(* An edit behind the second line break (of any kind) of the file as written cannot change the declaration. *)
Theorem C16_cookie_behind_header :
  forall (p m m' s : text) (nl0 : option nl),
    two_breaks (encode_nl p nl0) = true ->
    cookie_of (encode_nl (p ++ m' ++ s) nl0) = cookie_of (encode_nl (p ++ m ++ s) nl0).
Proof. exact cookie_behind_header. Qed.
Print Assumptions C16_cookie_behind_header.

(* ---- sessions ------------------------------------------------------------------------------------------- *)
(* One live project, one caller's File object plus the objects held by the history: any sequence of read,
   File.write, ChangeContents on the same or a fresh File object, undo, redo, close/reopen, external rewrites.
   [session_inv]: the bytes on disk are a text of the file (CR-free, same declaration, encodable) in the file's
   codec and convention, every File object's newlines is None or the file's convention, every history entry holds
   texts of the file.  Texts written need NOT contain a line break (since fe48e43).  The only dynamic condition
   ([step_ok] / [obj_knows]): a File object that has never read the file - the caller's at the start, a fresh
   one, the ones of a history reloaded after close/reopen - is only used while the file shows a line break;
   external rewrites show one.  With automatic_soa on or off. *)
Theorem C16_session_step :
  forall (lookup : text -> option codec) (soa : bool) (c : codec) (n : nl) (ck : option text),
    codec_ok c -> codec_declared lookup c ck ->
    forall (s : sess) (st : step),
      session_inv c n ck s -> step_ok lookup c n ck s st ->
      session_inv c n ck (fst (run_step repaired lookup soa s st))
      /\ step_bytes c n s st (s_disk (fst (run_step repaired lookup soa s st))).
Proof. exact session_step. Qed.
Print Assumptions C16_session_step.

Theorem C16_session_preserves :
  forall (lookup : text -> option codec) (soa : bool) (c : codec) (n : nl) (ck : option text),
    codec_ok c -> codec_declared lookup c ck ->
    forall (steps : list step) (s : sess),
      session_inv c n ck s -> steps_ok lookup c n ck soa s steps ->
      session_inv c n ck (run_steps repaired lookup soa s steps).
Proof. exact session_preserves. Qed.
Print Assumptions C16_session_preserves.

Theorem C16_session_initial :
  forall (c : codec) (n : nl) (ck : option text) (T : text) (d : list N),
    ok_text c n ck T -> file_of c n T = Some d -> session_inv c n ck (initial d).
Proof. exact initial_inv. Qed.
Print Assumptions C16_session_initial.

(* Static form for ONE File object without reopening (read, File.write, ChangeContents on that object, undo, redo,
   external rewrites that show a line break): no condition on the state at all, and the texts written may lack
   any line break - undo and redo restore the file's convention all the same.  [single] = session_inv + one File
   object that has read the file or a file that shows its convention + all history entries through that object. *)
Theorem C16_session_single_object :
  forall (lookup : text -> option codec) (soa : bool) (c : codec) (n : nl) (ck : option text),
    codec_ok c -> codec_declared lookup c ck ->
    forall (steps : list step) (s : sess),
      single lookup c n ck s -> Forall (step_single c n ck) steps ->
      single lookup c n ck (run_steps repaired lookup soa s steps).
Proof. exact single_preserves. Qed.
Print Assumptions C16_session_single_object.

Theorem C16_session_single_step :
  forall (lookup : text -> option codec) (soa : bool) (c : codec) (n : nl) (ck : option text),
    codec_ok c -> codec_declared lookup c ck ->
    forall (s : sess) (st : step),
      single lookup c n ck s -> step_single c n ck st ->
      single lookup c n ck (fst (run_step repaired lookup soa s st)) /\ step_ok lookup c n ck s st.
Proof. exact single_step_full. Qed.
Print Assumptions C16_session_single_step.

Theorem C16_session_single_initial :
  forall (lookup : text -> option codec) (c : codec) (n : nl) (ck : option text),
    codec_ok c -> codec_declared lookup c ck ->
    forall (T : text) (d : list N), good c n ck T -> file_of c n T = Some d -> single lookup c n ck (initial d).
Proof. exact initial_single. Qed.
Print Assumptions C16_session_single_initial.

Example C16_ex_single_hyps :
  codec_declared std_lookup latin1 ex_ck
  /\ good latin1 NlCRLF ex_ck ex_text /\ file_of latin1 NlCRLF ex_text = Some ex_text_raw
  /\ Forall (step_single latin1 NlCRLF ex_ck) ex_single_steps
  /\ has_lf ex_cookie_line = false
  /\ s_disk (run_steps repaired std_lookup true (initial ex_text_raw) ex_single_steps) = ex_text_raw.
Proof. exact ex_single_hyps. Qed.
Print Assumptions C16_ex_single_hyps.

Example C16_ex_session_hyps :
  ok_text latin1 NlCRLF ex_ck ex_text /\ file_of latin1 NlCRLF ex_text = Some ex_text_raw
  /\ steps_ok std_lookup latin1 NlCRLF ex_ck true (initial ex_text_raw) ex_session_steps.
Proof. exact ex_session_hyps. Qed.
Print Assumptions C16_ex_session_hyps.

(* Closed instances: UTF-8 / Latin-1 / ASCII as implemented here, every other name unknown. *)
Theorem C16_bytes_roundtrip_std :
  forall (c : codec) (t : text) (n : nl) (b : list N),
    (c = utf8 \/ c = latin1 \/ c = ascii) ->
    enc c t = Some b -> declared_codec repaired std_lookup b = Some c -> consistentb n t = true ->
    to_bytes repaired std_lookup (fst (from_bytes repaired std_lookup b)) (Some (snd (from_bytes repaired std_lookup b))) = WBytes b
    /\ has_cr (fst (from_bytes repaired std_lookup b)) = false
    /\ (has_break t = true -> snd (from_bytes repaired std_lookup b) = n).
Proof. exact bytes_roundtrip_std. Qed.
Print Assumptions C16_bytes_roundtrip_std.

Theorem C16_text_roundtrip_std :
  forall (t : text) (n : nl) (b : list N),
    has_cr t = false -> to_bytes repaired std_lookup t (Some n) = WBytes b ->
    from_bytes repaired std_lookup b = (t, if has_lf t then n else NlLF).
Proof. exact text_roundtrip_std. Qed.
Print Assumptions C16_text_roundtrip_std.

(* ---- non-vacuity ---------------------------------------------------------------------------------------- *)
(* "# -*- coding: latin-1 -*-" CRLF "s = 'é'" CRLF "x = 1" satisfies the hypotheses of C16_bytes_roundtrip_std *)
Example C16_ex_bytes_roundtrip_hyps :
  enc latin1 ex_text_raw = Some ex_text_raw
  /\ declared_codec repaired std_lookup ex_text_raw = Some latin1
  /\ consistentb NlCRLF ex_text_raw = true
  /\ has_break ex_text_raw = true /\ existsb (fun x => 128 <=? x) ex_text_raw = true.
Proof. exact ex_bytes_roundtrip_hyps. Qed.
Print Assumptions C16_ex_bytes_roundtrip_hyps.

Example C16_ex_text_roundtrip_hyps :
  has_cr ex_text = false /\ to_bytes repaired std_lookup ex_text (Some NlCRLF) = WBytes ex_text_raw.
Proof. exact ex_text_roundtrip_hyps. Qed.
Print Assumptions C16_ex_text_roundtrip_hyps.

(* an astral character and U+00A0 in an undeclared UTF-8 file with CR line ends *)
Example C16_ex_utf8_hyps :
  enc utf8 ex_utf8_text = Some ex_utf8_bytes
  /\ declared_codec repaired std_lookup ex_utf8_bytes = Some utf8 /\ consistentb NlCR ex_utf8_text = true.
Proof. exact ex_utf8_hyps. Qed.
Print Assumptions C16_ex_utf8_hyps.

(* ---- refutations ---------------------------------------------------------------------------------------- *)
(* outside the property (it promises a *consistent* convention): mixed newlines are not preserved *)
Theorem C16_mixed_newlines_refuted :
  exists t, encode_nl (fst (decode_nl t)) (Some (snd (decode_nl t))) <> t.
Proof. exact mixed_newlines_refuted. Qed.
Print Assumptions C16_mixed_newlines_refuted.

(* FIXED (c286168) C16-cookie-first-coding: "# encoding coding: latin-1": PEP 263 name latin-1, LEGACY rope found
   none and an edit wrote UTF-8 into the Latin-1 file; the repaired code keeps Latin-1 *)
Theorem C16_cookie_first_coding_refuted :
  exists b new b' expected,
    pep263_bytes b = Some latin_1_name /\ legacy_cookie_bytes b = None
    /\ forallb first_coding_is_cookie (first_two_lines b) = false
    /\ enc latin1 (fst (from_bytes legacy std_lookup b)) = Some b
    /\ new = fst (from_bytes legacy std_lookup b) ++ [121; 10]
    /\ change_do legacy std_lookup b None new None = WBytes b'
    /\ enc latin1 new = Some expected /\ b' <> expected.
Proof. exact cookie_first_coding_refuted. Qed.
Print Assumptions C16_cookie_first_coding_refuted.

Example C16_cookie_first_coding_fixed :
  cookie_of refute_cookie_file = Some latin_1_name
  /\ change_do repaired std_lookup refute_cookie_file None (fst (from_bytes repaired std_lookup refute_cookie_file) ++ [121; 10]) None
     = WBytes (refute_cookie_file ++ [121; 10]).
Proof. exact cookie_first_coding_fixed. Qed.
Print Assumptions C16_cookie_first_coding_fixed.

(* FIXED (f64a998) C16-stale-newlines: LEGACY ChangeContents with old_contents supplied on a fresh File wrote LF
   into a CRLF file; the repaired write_file reads the file first *)
Theorem C16_stale_newlines_refuted :
  exists b old new b1 b2,
    consistentb NlCRLF b = true /\ from_bytes legacy std_lookup b = (old, NlCRLF)
    /\ change_do legacy std_lookup b None new (Some old) = WBytes b1 /\ has_cr b1 = false
    /\ change_do legacy std_lookup b None new None = WBytes b2 /\ consistentb NlCRLF b2 = true /\ has_cr b2 = true.
Proof. exact stale_newlines_refuted. Qed.
Print Assumptions C16_stale_newlines_refuted.

Example C16_stale_newlines_fixed :
  change_do repaired std_lookup [120; 13; 10; 121; 13; 10] None [120; 10; 121; 10; 122; 10] (Some [120; 10; 121; 10])
  = WBytes [120; 13; 10; 121; 13; 10; 122; 13; 10].
Proof. exact stale_newlines_fixed. Qed.
Print Assumptions C16_stale_newlines_fixed.

(* FIXED (2fa467c) C16-cr-only-declaration: CR-only file, declaration on the second line after a blank one: LEGACY
   rope split on "\n" only and missed it *)
Theorem C16_cr_only_declaration_refuted :
  exists b b' expected,
    consistentb NlCR b = true /\ pep263_universal b = Some latin_1_name /\ legacy_cookie_bytes b = None
    /\ change_do legacy std_lookup b None (fst (from_bytes legacy std_lookup b) ++ [121; 10]) None = WBytes b'
    /\ enc latin1 (encode_nl (fst (from_bytes legacy std_lookup b) ++ [121; 10]) (Some NlCR)) = Some expected
    /\ b' <> expected.
Proof. exact cr_only_declaration_refuted. Qed.
Print Assumptions C16_cr_only_declaration_refuted.

Example C16_cr_only_declaration_fixed :
  cookie_of refute_cr_file = Some latin_1_name
  /\ change_do repaired std_lookup refute_cr_file None (fst (from_bytes repaired std_lookup refute_cr_file) ++ [121; 10]) None
     = WBytes (refute_cr_file ++ [121; 13]).
Proof. exact cr_only_declaration_fixed. Qed.
Print Assumptions C16_cr_only_declaration_fixed.

(* FIXED (fe48e43) C16-oneline-resets-newlines: Python file, automatic_soa on: an edit leaves the CRLF file without
   line break, then undo: BEFORE fe48e43 the bytes were not restored (LF line ends), also without the observer when
   the one-line file was read through the same object; the code in /repo now restores them *)
Theorem C16_oneline_resets_newlines_refuted :
  exists b t,
    consistentb NlCRLF b = true /\ has_lf t = false
    /\ s_disk (run_steps before_fe48e43 std_lookup true (initial b) [SWrite t; SUndo]) <> b
    /\ has_cr (s_disk (run_steps before_fe48e43 std_lookup true (initial b) [SWrite t; SUndo])) = false
    /\ s_disk (run_steps before_fe48e43 std_lookup false (initial b) [SDoSame t; SRead; SUndo]) <> b.
Proof. exact oneline_resets_newlines_refuted. Qed.
Print Assumptions C16_oneline_resets_newlines_refuted.

Example C16_oneline_resets_newlines_fixed :
  s_disk (run_steps repaired std_lookup true (initial oneline_file) [SWrite oneline_text; SUndo]) = oneline_file
  /\ s_disk (run_steps repaired std_lookup false (initial oneline_file) [SDoSame oneline_text; SRead; SUndo]) = oneline_file
  /\ s_disk (run_steps repaired std_lookup true (initial oneline_file) [SWrite oneline_text; SUndo; SRedo; SWrite [97; 10; 98; 10]])
     = [97; 13; 10; 98; 13; 10].
Proof. exact oneline_resets_newlines_fixed. Qed.
Print Assumptions C16_oneline_resets_newlines_fixed.

(* OPEN FINDING C16-oneline-reopen-loses-newlines (code in /repo now): the same edit, then close/reopen, then undo:
   the reloaded change has a fresh File object, write_file detects the convention from the one-line file, the old
   text comes back with LF line ends; within one session (last conjunct) it is restored.  This is the use of a
   never-read File object on a file without line break that [obj_knows] excludes in C16_session_step. *)
Theorem C16_oneline_reopen_refuted :
  exists b t,
    consistentb NlCRLF b = true /\ has_lf t = false
    /\ s_disk (run_steps repaired std_lookup true (initial b) [SWrite t; SReopen; SUndo]) <> b
    /\ has_cr (s_disk (run_steps repaired std_lookup false (initial b) [SWrite t; SReopen; SUndo])) = false
    /\ s_disk (run_steps repaired std_lookup true (initial b) [SWrite t; SUndo]) = b.
Proof. exact oneline_reopen_refuted. Qed.
Print Assumptions C16_oneline_reopen_refuted.

(* HISTORY: the findings C16-import-above-header (fixed 0fb88c4), C16-move-takes-header (fixed 495d665) and
   C16-move-above-blank-header (fixed 40406b4) shared this mechanism, which stays a property of write_file itself:
   the refactoring's new text no longer has the coding line on its first two lines, so the hypothesis
   "cookie_of new = cookie_of old" of C16_change_preserves_rest fails and the file is written as UTF-8 *)
Theorem C16_edit_moving_declaration_refuted :
  exists b new b' expected,
    declared_codec repaired std_lookup b = Some latin1 /\ enc latin1 (fst (from_bytes repaired std_lookup b)) = Some b
    /\ cookie_of new = None /\ cookie_of b = Some latin_1_name
    /\ change_do repaired std_lookup b None new None = WBytes b'
    /\ enc latin1 new = Some expected /\ b' <> expected.
Proof. exact edit_moving_declaration_refuted. Qed.
Print Assumptions C16_edit_moving_declaration_refuted.
