(* Property C15 — scopes and name tables agree with Python's own symbol table.  Theorems only; each is closed
   by [exact] and followed by Print Assumptions.

   MODEL  = coq/C15/RopeScopes.v (rope's visitors, parameters, lookup chain, written handler for handler)
   SPEC   = coq/C15/Scoping.v    (CPython's symbol-table rules, validated against [symtable] on every case)
   DOMAIN = coq/C15/Fragment.v   ([in_fragment_C15], [query_ok]; every excluded shape is a recorded finding
                                  with a [_refuted] theorem below whose witness is that finding's replay)

   Line extents: [C15_scope_ends_agree] and [C15_scope_for_line] are proved under the explicit, boolean layout
   hypotheses of coq/C15/Layout.v ([ends_ok]: block layout of every scope - including one-line definitions and
   statements continued over several physical lines; [lines_ok]: sub-scopes in line order, non-blank lines of
   a function / class indented at least like its header).  That CPython's [end_lineno] satisfies [ends_ok] for
   the source at hand is a property of the tokenizer's block structure; the check evaluates the predicates on
   every generated case and counts them.  The earlier [_partial] statements are kept. *)
From Coq Require Import List NArith Bool.
From RopeVerif.C15 Require Import Syntax Scoping RopeScopes Fragment RopeScopesProofs LookupProofs ExtentProofs Layout Witnesses Theorems LayoutProofs.
Import ListNotations.

(* The scopes rope builds are exactly the module's function, class and comprehension scopes, nested the same
   way, in source order, with the same kinds and start lines - for every module of the fragment. *)
Theorem C15_scopes_agree :
  forall (p : program) (nl : N),
    in_fragment_C15 p = true ->
    rshape (rope_tree p) = sshape (spec_tree nl p).
Proof. exact scopes_agree. Qed.
Print Assumptions C15_scopes_agree.

(* For every scope (addressed by its path in the common tree) the names rope records - leaving out the names
   that are only instance attributes [self.x], which rope adds to the class on purpose - are exactly the names
   the symbol table binds or declares there: assignments of every form, parameters, imports, definitions,
   for / with / except / walrus targets, global declarations. *)
Theorem C15_names_agree :
  forall (p : program) (nl : N) (path : list nat) (rs : rscope) (ss : sscope),
    in_fragment_C15 p = true ->
    scope_at (rope_tree p) path = Some rs ->
    sscope_at (spec_tree nl p) path = Some ss ->
    forall x, In x (real_names (revs rs)) <-> In x (spec_names ss).
Proof. exact names_agree_at. Qed.
Print Assumptions C15_names_agree.

(* Looking a name up from any scope finds the binding the interpreter would use: for every module of the
   fragment, every scope, every identifier (whether or not it occurs there), every set of builtins and every
   table of inherited class attributes - except the queries excluded by [query_ok] (a class body asking for
   a name that is only an inherited / instance attribute of the class; a comprehension written directly in a
   class body asking for an attribute of the class). *)
Theorem C15_lookup_agrees :
  forall (p : program) (nl : N) (bi : list ident) (inh : list nat -> ident -> option binding)
         (path : list nat) (x : ident),
    in_fragment_C15 p = true ->
    query_ok inh (rope_tree p) path x = true ->
    rope_lookup bi inh (rope_tree p) path x = spec_resolve bi (spec_tree nl p) path x.
Proof. exact lookup_agrees. Qed.
Print Assumptions C15_lookup_agrees.

(* The same statement on abstract trees: whatever produced them, two scope trees related by [tree_agree]
   answer every allowed query alike (this is what C02 / C01 / C20 reuse). *)
Theorem C15_lookup_agrees_trees :
  forall mn bi inh rt st,
    tree_agree mn rt st -> rk rt = KModule -> sglobals st = [] ->
    (forall x, In x (sbound st) <-> In x mn) ->
    forall p x, query_ok inh rt p x = true ->
    rope_lookup bi inh rt p x = spec_resolve bi st p x.
Proof. exact lookup_agrees_trees. Qed.
Print Assumptions C15_lookup_agrees_trees.

(* The end line of every scope: for every module of the fragment whose layout satisfies [ends_ok] (Layout.v),
   and every function / class / comprehension scope of it, the end rope computes - [find_scope_end]'s indentation
   walk over the logical lines followed by [get_end], including the one-liner branch - is the last line of the
   scope's ast node. *)
Theorem C15_scope_ends_agree :
  forall (lay : list lineinfo) (p : program) (nl : N) (path : list nat) (rs : rscope) (ss : sscope),
    in_fragment_C15 p = true ->
    ends_ok lay (rope_tree p) (spec_tree nl p) = true ->
    scope_at (rope_tree p) path = Some rs -> sscope_at (spec_tree nl p) path = Some ss ->
    rk rs <> KModule ->
    rope_end lay rs = sstop ss.
Proof. exact scope_ends_agree_fragment. Qed.
Print Assumptions C15_scope_ends_agree.

(* The same without the fragment hypothesis, for any two trees that [ends_ok] can walk in parallel. *)
Theorem C15_scope_ends_agree_trees :
  forall lay p nl path rs ss,
    ends_ok lay (rope_tree p) (spec_tree nl p) = true ->
    scope_at (rope_tree p) path = Some rs -> sscope_at (spec_tree nl p) path = Some ss ->
    rk rs <> KModule -> rk rs <> KLambda ->
    rope_end lay rs = sstop ss.
Proof. exact scope_ends_agree. Qed.
Print Assumptions C15_scope_ends_agree_trees.

(* The scope holding a line: for every non-blank, non-comment line l, [get_inner_scope_for_line(l)] - followed
   down to the innermost function / class / module on its path, since a comprehension shares its lines with
   the statement that contains it - is the innermost function / class / module whose ast extent contains l. *)
Theorem C15_scope_for_line :
  forall (lay : list lineinfo) (p : program) (nl : N) (l : N),
    in_fragment_C15 p = true ->
    ends_ok lay (rope_tree p) (spec_tree nl p) = true ->
    lines_ok lay (rope_tree p) = true ->
    li_empty (line_at lay l) = false ->
    strip_comps (rope_tree p) (rope_scope_for_line lay (rope_tree p) l)
    = spec_scope_for_line (spec_tree nl p) [] l.
Proof. exact scope_for_line. Qed.
Print Assumptions C15_scope_for_line.

Example C15_layouts_inhabited :
  in_fragment_C15 w_oneliners = true
  /\ ends_ok lay_example (rope_tree w_example) (spec_tree 20 w_example) = true
  /\ lines_ok lay_example (rope_tree w_example) = true
  /\ ends_ok lay_oneliners (rope_tree w_oneliners) (spec_tree 21 w_oneliners) = true
  /\ lines_ok lay_oneliners (rope_tree w_oneliners) = true
  /\ rope_scope_for_line lay_oneliners (rope_tree w_oneliners) 4 = [0; 0]%nat
  /\ spec_scope_for_line (spec_tree 21 w_oneliners) [] 4 = [0; 0]%nat
  /\ rope_scope_for_line lay_oneliners (rope_tree w_oneliners) 17 = [2]%nat
  /\ strip_comps (rope_tree w_oneliners) [2]%nat = []
  /\ (exists s, scope_at (rope_tree w_oneliners) [0; 0]%nat = Some s /\ one_liner lay_oneliners s = true
                /\ rope_end lay_oneliners s = 4%N).
Proof. exact example_layouts. Qed.
Print Assumptions C15_layouts_inhabited.

(* PARTIAL (line extents), kept from the first round.  Full strength is [C15_scope_for_line] / [C15_scope_ends_agree] of the header
   comment.  Proved for every layout, every tree and every line: the scope rope reports for a line is a valid
   path of the tree and every scope on the way down contains the line in its own extent get_start .. get_end;
   and the end rope computes for a function / class is never before the last statement of its body. *)
Theorem C15_scope_for_line_sound_partial :
  forall (lay : list lineinfo) (t : rscope) (l : N),
    exists ch, rchain t (rope_scope_for_line lay t l) = Some (ch ++ [([], t)])
               /\ Forall (fun ps => contains lay (snd ps) l) ch.
Proof. exact holding_sound. Qed.
Print Assumptions C15_scope_for_line_sound_partial.

Theorem C15_scope_end_lower_bound_partial :
  forall (lay : list lineinfo) (s : rscope),
    (rk s = KFunction \/ rk s = KClass) -> (rblast s <= nlines lay)%N -> (rblast s <= find_scope_end lay s)%N.
Proof. exact find_scope_end_ge. Qed.
Print Assumptions C15_scope_end_lower_bound_partial.

(* PARTIAL (end lines).  If the layout of a function / class is regular - its body starts below its header,
   every code line (first line of a non-blank, non-comment logical line) from the last body statement down to
   line [stopL] is indented at least like the first body statement, [stopL]'s logical line ends on line [stop],
   and the next code line [d] (if any) is indented less - then the end rope computes by its indentation walk
   (find_scope_end + get_end) is [stop].  What is NOT proved: that [end_lineno] of the ast node is that [stop]
   for every source CPython accepts (it is, except for continuation / comment lines indented less than the
   body; checked per case by the oracle). *)
Theorem C15_scope_end_regular_partial :
  forall (lay : list lineinfo) (s : rscope) (stopL stop d : N),
    (rk s = KFunction \/ rk s = KClass) ->
    regular_end lay s stopL stop d ->
    rope_end lay s = stop.
Proof. exact rope_end_regular. Qed.
Print Assumptions C15_scope_end_regular_partial.

Example C15_regular_end_inhabited :
  exists s, scope_at (rope_tree w_example) [0; 0]%nat = Some s
            /\ (rk s = KFunction \/ rk s = KClass)
            /\ regular_end lay_example s 12 12 13.
Proof. exact example_regular_end. Qed.
Print Assumptions C15_regular_end_inhabited.

Example C15_lines_inhabited :
  rope_scope_for_line lay_example (rope_tree w_example) 7 = [0; 0]%nat
  /\ rope_scope_for_line lay_example (rope_tree w_example) 16 = [1; 1]%nat
  /\ (exists s, scope_at (rope_tree w_example) [0; 0]%nat = Some s /\ rope_start s = 5%N /\ rope_end lay_example s = 12%N).
Proof. exact example_lines. Qed.
Print Assumptions C15_lines_inhabited.

(* Non-vacuity: a module with a class, a method declaring a global, nested functions, two nested
   comprehensions, a walrus, tuple targets, with / for / del / import is inside the domain; it has 7 scopes;
   allowed queries with three different kinds of answer exist. *)
Example C15_fragment_inhabited :
  in_fragment_C15 w_example = true /\ length (r_all (rope_tree w_example)) = 7%nat.
Proof. exact example_in_fragment. Qed.
Print Assumptions C15_fragment_inhabited.

Example C15_queries_inhabited :
  let inh := inh_of (fst (rope_inh bi_example (rope_tree w_example) ids_example)) in
  query_ok inh (rope_tree w_example) [0; 0]%nat 1%N = true
  /\ rope_lookup bi_example inh (rope_tree w_example) [0; 0]%nat 1%N = BScope []
  /\ query_ok inh (rope_tree w_example) [1; 0]%nat 12%N = true
  /\ rope_lookup bi_example inh (rope_tree w_example) [1; 0]%nat 12%N = BScope [1%nat]
  /\ query_ok inh (rope_tree w_example) [1; 1; 0]%nat 15%N = true
  /\ rope_lookup bi_example inh (rope_tree w_example) [1; 1; 0]%nat 15%N = BScope [1; 1]%nat.
Proof. exact example_queries. Qed.
Print Assumptions C15_queries_inhabited.

Example C15_names_inhabited :
  exists rs ss, scope_at (rope_tree w_example) [0; 0]%nat = Some rs
                /\ sscope_at (spec_tree 20 w_example) [0; 0]%nat = Some ss
                /\ length (spec_names ss) = 10%nat.
Proof. exact example_names. Qed.
Print Assumptions C15_names_inhabited.

(* ---- refutations: the faithful model does NOT satisfy the property on these inputs; each witness is the
        replay input of an open finding (findings.d/C15.json) and is re-confirmed on the real library on every run *)
Theorem C15_kwonly_refuted : in_fragment_C15 w_kwonly_param = false /\ names_differ w_kwonly_param 3.
Proof. exact kwonly_refuted. Qed.
Print Assumptions C15_kwonly_refuted.

Theorem C15_posonly_refuted : in_fragment_C15 w_posonly_param = false /\ names_differ w_posonly_param 3.
Proof. exact posonly_refuted. Qed.
Print Assumptions C15_posonly_refuted.

Theorem C15_nonlocal_refuted :
  in_fragment_C15 w_nonlocal = false /\ lookup_differs w_nonlocal 7 bi_nonlocal ids_nonlocal.
Proof. exact nonlocal_refuted. Qed.
Print Assumptions C15_nonlocal_refuted.

Theorem C15_augassign_only_refuted :
  in_fragment_C15 w_aug_or_del_only_binding = false /\ names_differ w_aug_or_del_only_binding 5.
Proof. exact aug_only_refuted. Qed.
Print Assumptions C15_augassign_only_refuted.

Theorem C15_class_body_inherited_refuted :
  query_refuted w_class_inherited_attribute 6 bi_class_inherited_attribute ids_class_inherited_attribute.
Proof. exact class_inherited_refuted. Qed.
Print Assumptions C15_class_body_inherited_refuted.

Theorem C15_class_body_selfattr_refuted :
  query_refuted w_class_self_attribute 6 bi_class_self_attribute ids_class_self_attribute.
Proof. exact class_self_attribute_refuted. Qed.
Print Assumptions C15_class_body_selfattr_refuted.

Theorem C15_comprehension_in_class_refuted :
  query_refuted w_comprehension_in_class 5 bi_comprehension_in_class ids_comprehension_in_class.
Proof. exact comprehension_in_class_refuted. Qed.
Print Assumptions C15_comprehension_in_class_refuted.

Theorem C15_global_not_honoured_refuted :
  in_fragment_C15 w_global_declaration_not_honoured = false
  /\ lookup_differs w_global_declaration_not_honoured 6 bi_global_declaration_not_honoured
                    ids_global_declaration_not_honoured.
Proof. exact global_not_honoured_refuted. Qed.
Print Assumptions C15_global_not_honoured_refuted.

Theorem C15_module_level_global_refuted :
  in_fragment_C15 w_module_level_global_unbound = false
  /\ lookup_differs w_module_level_global_unbound 3 bi_module_level_global_unbound ids_module_level_global_unbound.
Proof. exact module_level_global_refuted. Qed.
Print Assumptions C15_module_level_global_refuted.

Theorem C15_lambda_refuted :
  in_fragment_C15 w_lambda_no_scope = false
  /\ rshape (rope_tree w_lambda_no_scope) <> sshape (spec_tree 3 w_lambda_no_scope).
Proof. exact lambda_refuted. Qed.
Print Assumptions C15_lambda_refuted.

Theorem C15_walrus_in_comprehension_refuted :
  in_fragment_C15 w_walrus_in_comprehension = false /\ names_differ w_walrus_in_comprehension 4.
Proof. exact walrus_in_comprehension_refuted. Qed.
Print Assumptions C15_walrus_in_comprehension_refuted.

Theorem C15_unvisited_expression_refuted :
  in_fragment_C15 w_unvisited_expression = false
  /\ rshape (rope_tree w_unvisited_expression) <> sshape (spec_tree 3 w_unvisited_expression).
Proof. exact unvisited_refuted. Qed.
Print Assumptions C15_unvisited_expression_refuted.

Theorem C15_misattached_expression_refuted :
  in_fragment_C15 w_misattached_expression = false
  /\ rshape (rope_tree w_misattached_expression) <> sshape (spec_tree 5 w_misattached_expression).
Proof. exact misattached_refuted. Qed.
Print Assumptions C15_misattached_expression_refuted.

Theorem C15_comprehension_extent_refuted :
  in_fragment_C15 w_comprehension_extent = true /\
  exists rs ss, scope_at (rope_tree w_comprehension_extent) [0%nat] = Some rs
                /\ sscope_at (spec_tree 4 w_comprehension_extent) [0%nat] = Some ss
                /\ rope_end lay_comprehension_extent rs <> sstop ss.
Proof. exact comprehension_extent_refuted. Qed.
Print Assumptions C15_comprehension_extent_refuted.
