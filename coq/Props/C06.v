(* Property C06 — theorems only. Each is closed by [exact] and followed by Print Assumptions.
   Model: coq/C06/Args.v (DefinitionInfo / CallInfo / ArgumentMapping / the changers of
   change_signature.py / to_call_info, and the specification [bind] of Python's call binding).
   [kwfix] selects the variant of the call parser: true = the current code (091d633: a call containing
   **mapping is read, the mapping carried through), false = the code as first found (AssertionError on
   such a call, a fixed defect); the text-level theorems hold for both.
   [rdel] selects the variant of ArgumentRemover.change_argument_mapping: the current code is
   rdel = true (26a80fc); every theorem quantified over rdel holds for both variants.  With rdel = true
   side_ok additionally asks for distinct parameter names in every intermediate definition. *)
From Coq Require Import List NArith Bool Arith Permutation.
From RopeVerif.C06 Require Import Args ArgsProofs.
Import ListNotations.

(* For every definition, every call without * / ** and every changer sequence on which rope does not
   raise: if the call was valid ([bind d c] succeeds, which includes that the definition compiles) and
   the side conditions hold -- the new definition compiles (valid_order: no parameter without default
   behind one with a default unless autodef is given; distinct names), every added parameter is new
   and has a default or a value, calls with surplus positionals keep *a and get values for added
   parameters, calls with extra keywords keep **k -- then the rewritten call binds under Python's rules
   against the rewritten definition, every parameter present before and after receives the same
   expression (a default-filled parameter: the default expression), and *a / **k collect the same. *)
Theorem C06_preserve :
  forall rdel d cs c d' c' b,
    apply_defs cs d = Some d' -> change_call rdel cs d c = Some c' ->
    side_ok rdel d cs c d' = true -> bind d c = Some b ->
    exists b', bind d' c' = Some b'
      /\ (forall n, In n (names d) -> In n (names d') -> lookup n b' = lookup n b)
      /\ b_star b' = b_star b /\ b_kw b' = b_kw b /\ map fst (b_params b') = names d'.
Proof. exact preserve. Qed.
Print Assumptions C06_preserve.

Example C06_preserve_nonvacuous : forall rdel,
  exists d cs c d' c' b,
    d = mkDef [(1, None); (2, None); (3, Some 10)]%N (Some 7%N) (Some 8%N)
    /\ cs = [Reorder [0; 2; 1] (Some 11%N); Add 3 4%N (Some 12%N) None; InlineDefault 1 true]
    /\ c = mkCall 20%N [30; 31]%N [(9, 32)]%N None None true false
    /\ apply_defs cs d = Some d' /\ change_call rdel cs d c = Some c'
    /\ side_ok rdel d cs c d' = true /\ bind d c = Some b
    /\ c_kws c' = [(9, 32)]%N /\ c_args c' = [30; 10; 31]%N.
Proof. exact preserve_nonvacuous. Qed.
Print Assumptions C06_preserve_nonvacuous.

(* The same at the level of the program text, for plain, method (receiver printed in front) and
   constructor (receiver parameter inserted by CallInfo.read) calls: the call as rope reads it from the
   source, changed, printed by to_string and read again from the new source against the new
   definition, binds every surviving parameter to the same expression. recv_ok: the receiver
   parameter stays first. *)
Theorem C06_preserve_text :
  forall rdel kwfix d cs implicit ctor r c d' c' r' b,
    call_read kwfix d implicit ctor r = Some c ->
    apply_defs cs d = Some d' -> change_call rdel cs d c = Some c' -> call_render c' = Some r' ->
    side_ok rdel d cs c d' = true -> recv_ok d c d' = true -> bind d c = Some b ->
    exists c2 b', call_read kwfix d' implicit ctor r' = Some c2 /\ bind d' c2 = Some b'
      /\ (forall n, In n (names d) -> In n (names d') -> lookup n b' = lookup n b)
      /\ b_star b' = b_star b /\ b_kw b' = b_kw b /\ map fst (b_params b') = names d'.
Proof. exact preserve_text. Qed.
Print Assumptions C06_preserve_text.

Example C06_preserve_text_nonvacuous : forall rdel kwfix,
  exists d cs r c d' c' r' b,
    d = mkDef [(1, None); (2, None); (3, Some 10)]%N None (Some 8%N)
    /\ cs = [Reorder [0; 2; 1] (Some 11%N); InlineDefault 1 true]
    /\ r = mkRend None 20%N [31]%N [(9, 32)]%N None None
    /\ call_read kwfix d false true r = Some c
    /\ apply_defs cs d = Some d' /\ change_call rdel cs d c = Some c' /\ call_render c' = Some r'
    /\ side_ok rdel d cs c d' = true /\ recv_ok d c d' = true /\ bind d c = Some b
    /\ r' = mkRend None 20%N [10; 31]%N [(9, 32)]%N None None.
Proof. exact preserve_text_nonvacuous. Qed.
Print Assumptions C06_preserve_text_nonvacuous.

(* DefinitionInfo._read (the current code, header-parser variant fixed = true since e1c84b5) reads every
   header without keyword-only parameters as what it means in Python, defaults together with *a
   included.  This is what lets C06_preserve speak about the definition in the source.  _partial:
   keyword-only parameters are excluded (C06_kwonly_refuted, open finding). *)
Theorem C06_def_read_partial :
  forall a,
    a_kwonly a = [] -> a_kwdefaults a = [] ->
    def_read true a = Some (def_of_ast a).
Proof. exact def_read_ok_current. Qed.
Print Assumptions C06_def_read_partial.

Example C06_def_read_nonvacuous :
  exists a, a_kwonly a = [] /\ a_kwdefaults a = [] /\ a_vararg a <> None /\ a_defaults a <> []
            /\ def_read true a = Some (def_of_ast a)
            /\ def_of_ast a = mkDef [(1, None); (2, Some 3)]%N (Some 5%N) (Some 7%N).
Proof. exact def_read_ok_nonvacuous. Qed.
Print Assumptions C06_def_read_nonvacuous.

(* An added parameter that survives to the final definition receives, at every call, the supplied
   value, else its default -- whatever changers come before and after (side_ok contains adds_ok: the
   name is new with respect to the original parameters, the keywords of the call and earlier
   additions; C06_remove_then_add_same_name_refuted shows this is necessary). *)
Theorem C06_added :
  forall rdel d pre i n dflt val post c d' c' b b',
    apply_defs (pre ++ Add i n dflt val :: post) d = Some d' ->
    change_call rdel (pre ++ Add i n dflt val :: post) d c = Some c' ->
    side_ok rdel d (pre ++ Add i n dflt val :: post) c d' = true ->
    bind d c = Some b -> bind d' c' = Some b' -> In n (names d') ->
    lookup n b' = match val with Some v => Some v | None => dflt end.
Proof. exact added_value. Qed.
Print Assumptions C06_added.

Example C06_added_nonvacuous : forall rdel,
  exists d pre i n dflt val post c d' c' b b',
    d = mkDef [(1, None); (2, Some 10)]%N None None
    /\ pre = [Remove 0] /\ post = [Reorder [1; 0] None] /\ n = 3%N /\ dflt = Some 12%N /\ val = None
    /\ apply_defs (pre ++ Add i n dflt val :: post) d = Some d'
    /\ change_call rdel (pre ++ Add i n dflt val :: post) d c = Some c'
    /\ side_ok rdel d (pre ++ Add i n dflt val :: post) c d' = true
    /\ bind d c = Some b /\ bind d' c' = Some b' /\ In n (names d') /\ lookup n b' = Some 12%N.
Proof. exact added_nonvacuous. Qed.
Print Assumptions C06_added_nonvacuous.

(* Removing one of the named parameters needs no side condition at all: for every valid call the new
   call binds against the new definition, the removed parameter is gone and nothing else moves. *)
Theorem C06_removed_unused :
  forall rdel d i c b,
    i < length (d_args d) -> bind d c = Some b ->
    exists d' c' b',
      apply_defs [Remove i] d = Some d' /\ change_call rdel [Remove i] d c = Some c'
      /\ names d' = delete_nth i (names d) /\ d_star d' = d_star d /\ d_kw d' = d_kw d
      /\ bind d' c' = Some b'
      /\ (forall n, In n (names d') -> lookup n b' = lookup n b)
      /\ b_star b' = b_star b /\ b_kw b' = b_kw b /\ map fst (b_params b') = names d'.
Proof. exact removed_unused. Qed.
Print Assumptions C06_removed_unused.

Example C06_removed_unused_nonvacuous :
  exists d i c b, d = mkDef [(1, None); (2, None); (3, Some 10)]%N (Some 7%N) None /\ i = 1
    /\ c = mkCall 20%N [30; 31; 32; 33]%N [] None None false false
    /\ i < length (d_args d) /\ bind d c = Some b.
Proof. exact removed_unused_nonvacuous. Qed.
Print Assumptions C06_removed_unused_nonvacuous.

(* With a permutation as new_order (and no autodef) the parameter list is exactly permuted:
   position k of the new list holds old parameter new_order[k], as the docstring promises. *)
Theorem C06_reorder_perm :
  forall d order,
    Permutation order (seq 0 (length (d_args d))) ->
    apply_defs [Reorder order None] d
    = Some (mkDef (map (fun i => nth i (d_args d) (0%N, None)) order) (d_star d) (d_kw d))
    /\ Permutation (map (fun i => nth i (d_args d) (0%N, None)) order) (d_args d).
Proof. exact reorder_perm. Qed.
Print Assumptions C06_reorder_perm.

Example C06_reorder_perm_nonvacuous :
  exists d order, d = mkDef [(1, None); (2, None); (3, Some 10)]%N None None /\ order = [1; 0; 2]
    /\ Permutation order (seq 0 (length (d_args d))).
Proof. exact reorder_perm_nonvacuous. Qed.
Print Assumptions C06_reorder_perm_nonvacuous.

(* Inlining the default of parameter n: a valid call that did not pass n passes the old default
   expression explicitly afterwards (positionally or by keyword), and the definition keeps its
   parameter names, dropping the default when `remove` is set.  That the other parameters keep their
   values is C06_preserve. *)
Theorem C06_inline_default :
  forall rdel d i rm n e c b,
    nth_error (d_args d) i = Some (n, Some e) -> bind d c = Some b -> passed d c n = None ->
    exists d' c',
      apply_defs [InlineDefault i rm] d = Some d' /\ change_call rdel [InlineDefault i rm] d c = Some c'
      /\ names d' = names d /\ d_star d' = d_star d /\ d_kw d' = d_kw d
      /\ In (n, if rm then None else Some e) (d_args d')
      /\ passed d' c' n = Some e.
Proof. exact inline_default. Qed.
Print Assumptions C06_inline_default.

Example C06_inline_default_nonvacuous :
  exists d i n e c b, d = mkDef [(1, None); (2, Some 10); (3, Some 11)]%N None None /\ i = 1
    /\ c = mkCall 20%N [30]%N [(3, 31)]%N None None false false
    /\ nth_error (d_args d) i = Some (n, Some e) /\ bind d c = Some b /\ passed d c n = None.
Proof. exact inline_default_nonvacuous. Qed.
Print Assumptions C06_inline_default_nonvacuous.

(* IntroduceParameter appends (name, expression) to the parameters and leaves the calls alone: every
   valid call without surplus positional arguments still binds, every old parameter receives what it
   received, the new one its default, provided the name is new (introduce_ok).
   C06_introduce_before_vararg_refuted: with surplus arguments the new parameter swallows one. *)
Theorem C06_introduce_parameter :
  forall d c p e b,
    bind d c = Some b -> introduce_ok d c p = true ->
    exists b', bind (introduce_def d p e) c = Some b'
      /\ (forall n, In n (names d) -> lookup n b' = lookup n b)
      /\ lookup p b' = Some e /\ b_star b' = b_star b /\ b_kw b' = b_kw b.
Proof. exact introduce_parameter. Qed.
Print Assumptions C06_introduce_parameter.

Example C06_introduce_parameter_nonvacuous :
  exists d c p e b, d = mkDef [(1, None); (2, Some 10)]%N (Some 7%N) (Some 8%N)
    /\ c = mkCall 20%N [30]%N [(2, 31); (9, 32)]%N None None false false
    /\ bind d c = Some b /\ introduce_ok d c p = true /\ p = 3%N /\ e = 40%N.
Proof. exact introduce_parameter_nonvacuous. Qed.
Print Assumptions C06_introduce_parameter_nonvacuous.

(* The open finding introduce-before-vararg, exactly: for EVERY valid call with surplus positional
   arguments the introduced parameter takes the first of them and *a loses it; nothing else moves.
   The harness attributes a failure to that finding only when rope's output shows this behaviour. *)
Theorem C06_introduce_surplus :
  forall d c p e b,
    bind d c = Some b ->
    has_name p (names d ++ opt_list (d_star d) ++ opt_list (d_kw d) ++ map fst (c_kws c)) = false ->
    has_surplus d c = true ->
    exists x rest b', b_star b = x :: rest /\ bind (introduce_def d p e) c = Some b'
      /\ (forall n, In n (names d) -> lookup n b' = lookup n b)
      /\ lookup p b' = Some x /\ b_star b' = rest /\ b_kw b' = b_kw b.
Proof. exact introduce_surplus. Qed.
Print Assumptions C06_introduce_surplus.

Example C06_introduce_surplus_nonvacuous :
  exists d c p e b, d = mkDef [(1, None)]%N (Some 7%N) None
    /\ c = mkCall 20%N [30; 31; 32]%N [] None None false false /\ p = 3%N /\ e = 40%N
    /\ bind d c = Some b
    /\ has_name p (names d ++ opt_list (d_star d) ++ opt_list (d_kw d) ++ map fst (c_kws c)) = false
    /\ has_surplus d c = true.
Proof. exact introduce_surplus_nonvacuous. Qed.
Print Assumptions C06_introduce_surplus_nonvacuous.

Theorem C06_introduce_before_vararg_refuted :
  exists d c p e b b', bind d c = Some b /\ bind (introduce_def d p e) c = Some b'
    /\ has_name p (names d ++ opt_list (d_star d) ++ opt_list (d_kw d) ++ map fst (c_kws c)) = false
    /\ b_star b = [31%N] /\ b_star b' = [] /\ lookup p b' = Some 31%N /\ e = 40%N.
Proof. exact introduce_before_vararg_refuted. Qed.
Print Assumptions C06_introduce_before_vararg_refuted.

(* An argument the call passes stays an argument: if the call passed v to parameter n explicitly
   (positionally or by keyword) and n survives, the rewritten call passes v to n explicitly as well --
   it is never dropped in favour of a default that merely has the same spelling (a default is
   evaluated when the def runs, an argument at every call: mutable defaults, rebound globals). *)
Theorem C06_explicit_preserved :
  forall rdel d cs c d' c' b n v,
    apply_defs cs d = Some d' -> change_call rdel cs d c = Some c' ->
    side_ok rdel d cs c d' = true -> bind d c = Some b ->
    In n (names d) -> In n (names d') -> passed d c n = Some v -> passed d' c' n = Some v.
Proof. exact explicit_preserved. Qed.
Print Assumptions C06_explicit_preserved.

Example C06_explicit_preserved_nonvacuous : forall rdel,
  exists d cs c d' c' b n v,
    d = mkDef [(1, None); (2, Some 10); (3, Some 10)]%N None None
    /\ cs = [Add 1 4%N (Some 12%N) None]
    /\ c = mkCall 20%N [30]%N [(3, 10)]%N None None false false
    /\ apply_defs cs d = Some d' /\ change_call rdel cs d c = Some c'
    /\ side_ok rdel d cs c d' = true /\ bind d c = Some b
    /\ n = 3%N /\ v = 10%N /\ In n (names d) /\ In n (names d') /\ passed d c n = Some v
    /\ c_kws c' = [(3, 10)]%N.
Proof. exact explicit_preserved_nonvacuous. Qed.
Print Assumptions C06_explicit_preserved_nonvacuous.

(* Project level (call-site discovery of _change_calls over what the callee expression denotes):
   every call site that the occurrence finders reach -- calls of the function itself and, for __init__,
   calls of its class (_MultipleFinders) -- is read, changed and printed so that C06_preserve_text holds
   for it.  C06_subclass_ctor_refuted: a constructor call through a subclass that inherits __init__ is
   not reached, its text stays and its arguments reach other parameters (open finding). *)
Theorem C06_site_preserve :
  forall rdel kwfix is_init d cs s d' r' c b,
    finder_finds is_init (ps_callee s) = true ->
    apply_defs cs d = Some d' -> change_site kwfix rdel is_init d cs s = Some r' ->
    call_read kwfix d (ps_implicit s) (ps_ctor s) (ps_call s) = Some c ->
    side_ok rdel d cs c d' = true -> recv_ok d c d' = true -> bind d c = Some b ->
    exists c2 b', call_read kwfix d' (ps_implicit s) (ps_ctor s) r' = Some c2 /\ bind d' c2 = Some b'
      /\ (forall n, In n (names d) -> In n (names d') -> lookup n b' = lookup n b)
      /\ b_star b' = b_star b /\ b_kw b' = b_kw b /\ map fst (b_params b') = names d'.
Proof. exact site_preserve. Qed.
Print Assumptions C06_site_preserve.

Example C06_site_preserve_nonvacuous : forall rdel kwfix,
  exists d cs s d' r' c b,
    d = mkDef [(1, None); (2, None); (3, Some 10)]%N None None
    /\ cs = [Reorder [0; 2; 1] (Some 11%N)]
    /\ s = mkPsite CClass false true (mkRend None 20%N [31]%N [(3, 32)]%N None None)
    /\ finder_finds true (ps_callee s) = true
    /\ apply_defs cs d = Some d' /\ change_site kwfix rdel true d cs s = Some r'
    /\ call_read kwfix d (ps_implicit s) (ps_ctor s) (ps_call s) = Some c
    /\ side_ok rdel d cs c d' = true /\ recv_ok d c d' = true /\ bind d c = Some b
    /\ r' = mkRend None 20%N [32; 31]%N [] None None.
Proof. exact site_preserve_nonvacuous. Qed.
Print Assumptions C06_site_preserve_nonvacuous.

Theorem C06_subclass_ctor_refuted : forall rdel kwfix,
  exists d cs s d' r' c c2 b b',
    s = mkPsite CSubclass false true (mkRend None 21%N [31; 32]%N [] None None)
    /\ apply_defs cs d = Some d' /\ valid_def d' = true
    /\ change_site kwfix rdel true d cs s = Some r' /\ r' = ps_call s
    /\ call_read kwfix d false true (ps_call s) = Some c /\ bind d c = Some b
    /\ call_read kwfix d' false true r' = Some c2 /\ bind d' c2 = Some b'
    /\ lookup 2%N b = Some 31%N /\ lookup 2%N b' = Some 32%N.
Proof. exact subclass_ctor_refuted. Qed.
Print Assumptions C06_subclass_ctor_refuted.

(* Normalising a call twice gives the same call as normalising it once, for every call (valid or
   not, with or without starred arguments) against every definition with distinct parameter names. *)
Theorem C06_normalize_idempotent :
  forall rdel d c c1,
    NoDup (names d) -> change_call rdel [Normalize] d c = Some c1 -> change_call rdel [Normalize] d c1 = Some c1.
Proof. exact normalize_idempotent. Qed.
Print Assumptions C06_normalize_idempotent.

Example C06_normalize_idempotent_nonvacuous : forall rdel,
  exists d c c1, d = mkDef [(1, None); (2, Some 10); (3, Some 11)]%N (Some 7%N) (Some 8%N)
    /\ c = mkCall 20%N [30]%N [(9, 32); (3, 31)]%N (Some 40%N) None false false
    /\ NoDup (names d) /\ change_call rdel [Normalize] d c = Some c1
    /\ c1 = mkCall 20%N [30]%N [(3, 31); (9, 32)]%N (Some 40%N) None false false.
Proof. exact normalize_idempotent_nonvacuous. Qed.
Print Assumptions C06_normalize_idempotent_nonvacuous.

(* to_string of the changed definition lists exactly its parameters in order with their defaults,
   then *a, then **k: reading the token list back gives the definition. *)
Theorem C06_definition_string :
  forall d, def_unrender (def_render d) (mkDef [] None None) = d.
Proof. exact definition_string. Qed.
Print Assumptions C06_definition_string.

(* Refutations (each witness is replayed on rope by the harness; findings.d/C06.json).
   The model carries two booleans for defects that have been fixed in /repo:
     fixed (header parser)      true = the current code (e1c84b5), false = the code as first found;
     rdel  (ArgumentRemover)    true = the current code (26a80fc: the removed parameter's argument is
                                deleted from the mapping), false = the code as first found (never deleted).
   The harness evaluates the model at fixed = true, rdel = true and reports a VIOLATION if rope shows
   the old behaviour again (corpus/C06).  The theorems above are proved for both values of rdel.
   C06_vararg_default_refuted (fixed = false) and C06_remove_then_add_same_name_refuted (rdel = false)
   document those two FIXED defects: they are statements about the old variants only.  The other
   refutations are open findings of the current code (or, for reorder_invalid_def, a necessary side
   condition). *)
Theorem C06_kwonly_refuted : forall fixed,
  exists a d, a_kwonly a <> [] /\ def_read fixed a = Some d /\ apply_defs [Normalize] d = Some d
              /\ def_render d = [PPlain 1%N; PStar 0%N] /\ a_empty a = 0%N.
Proof. exact kwonly_refuted. Qed.
Print Assumptions C06_kwonly_refuted.

Theorem C06_vararg_default_refuted :
  exists a d, a_kwonly a = [] /\ def_read false a = Some d /\ def_of_ast a <> d /\ valid_def (def_of_ast a) = true
              /\ def_render d = [PPlain 1%N; PPlain 2%N; PDefault 6%N 3%N].
Proof. exact vararg_default_refuted. Qed.
Print Assumptions C06_vararg_default_refuted.

Theorem C06_star_call_reorder_refuted : forall rdel,
  exists d cs c d' c' xs b b',
    apply_defs cs d = Some d' /\ change_call rdel cs d c = Some c' /\ valid_def d' = true /\ c' = c
    /\ bind_with d c xs [] = Some b /\ bind_with d' c' xs [] = Some b'
    /\ lookup 1%N b = Some 40%N /\ lookup 1%N b' = Some 41%N.
Proof. exact star_call_reorder_refuted. Qed.
Print Assumptions C06_star_call_reorder_refuted.

Theorem C06_remove_then_add_same_name_refuted :
  exists d cs c d' c' b',
    cs = [Remove 1; Add 1 2%N (Some 50%N) None]
    /\ apply_defs cs d = Some d' /\ change_call false cs d c = Some c' /\ valid_def d' = true
    /\ bind d' c' = Some b' /\ lookup 2%N b' = Some 31%N.
Proof. exact remove_then_add_same_name_refuted. Qed.
Print Assumptions C06_remove_then_add_same_name_refuted.

Theorem C06_add_default_under_surplus_refuted : forall rdel,
  exists d cs c d' c' b b',
    cs = [Add 1 2%N (Some 50%N) None]
    /\ apply_defs cs d = Some d' /\ change_call rdel cs d c = Some c' /\ valid_def d' = true
    /\ adds_ok (names d ++ map fst (c_kws c)) cs = true
    /\ bind d c = Some b /\ bind d' c' = Some b'
    /\ lookup 2%N b' = Some 31%N /\ b_star b = [31; 32]%N /\ b_star b' = [32%N].
Proof. exact add_default_under_surplus_refuted. Qed.
Print Assumptions C06_add_default_under_surplus_refuted.

(* the side condition valid_order is necessary (a user error, not a defect of rope: autodef exists) *)
Theorem C06_reorder_invalid_def_refuted : forall rdel,
  exists d cs c d' c' b,
    cs = [Reorder [1; 0] None]
    /\ apply_defs cs d = Some d' /\ change_call rdel cs d c = Some c' /\ bind d c = Some b
    /\ valid_def d' = false /\ bind d' c' = None.
Proof. exact reorder_invalid_def_refuted. Qed.
Print Assumptions C06_reorder_invalid_def_refuted.
