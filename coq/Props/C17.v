(* Property C17 — theorems only. Each is closed by [exact] and followed by Print Assumptions. *)
From Coq Require Import List NArith ZArith Bool.
From RopeVerif.C17 Require Import Obj Refactor Witness RefactorProofs Reverse ReverseProofs.
Import ListNotations.

(* EncapsulateField preserves every run that terminates without an uncaught exception: for every program of
   Obj, every field / class / accessor names / defining method, every initial store and heap and every fuel.
   [side] (boolean) asks: accessor names fresh in the class and different from __init__; every rewritten
   plain write has a local variable as primary or primary and value effect-free; every rewritten
   augmented write has an effect-free primary and a right-hand side that is not captured by the pasted
   operator -- that last condition only for [augparen] = false, the code before fix f343c81, which pasted the
   text.  The current code parenthesises ([augparen] = true, the instance the harness compares with rope, see
   C17_encapsulate_current_code): an augmented write then only needs the effect-free primary.  The freshness part
   of [side] is exactly "rope does not refuse the accessor names" (fix 72d97d7, [enc_refuses]).  The semantics is the one that treats a finder-tagged access whose receiver is not an instance
   of the class as [Stuck] (never [Done]). *)
Theorem C17_encapsulate :
  forall augparen cls fld get set skip self value P,
    side (enc_cfg augparen cls fld get set skip self value) P = true ->
    forall n en s r,
      run (is_instance cls) P n en s = Done r ->
      run (is_instance cls) (encapsulate augparen cls fld get set skip self value P) (3 * n + 6) en s = Done r.
Proof. exact encapsulate_forward. Qed.
Print Assumptions C17_encapsulate.

(* The instance for the code as it is now (right-hand sides of augmented writes are parenthesised): no
   precedence condition is left in the side condition, and the side condition excludes exactly the accessor
   names rope refuses. *)
Theorem C17_encapsulate_current_code :
  (forall cls fld get set skip self value P,
     side (enc_cfg true cls fld get set skip self value) P = true ->
     forall n en s r,
       run (is_instance cls) P n en s = Done r ->
       run (is_instance cls) (encapsulate true cls fld get set skip self value P) (3 * n + 6) en s = Done r)
  /\ (forall k on tag p f op e, k_augparen k = true ->
        ok_s k on (SAug tag p f op e) = negb (hit k on tag f) || pure p)
  /\ (forall k P, side k P = true -> enc_refuses k P = false).
Proof.
  exact (conj (encapsulate_forward true) (conj ok_s_aug_paren side_not_refused)).
Qed.
Print Assumptions C17_encapsulate_current_code.

(* Inheritance: Obj looks a method up in the class and then in its base class (one level; [side] asks that a base
   class has no base).  The refusal predicate looks at inherited methods too (`accessor in pyclass`): a class
   whose base class defines get_x is refused and outside [side]; a class inheriting an unrelated method is inside
   the domain of the theorems (C17_inheritance_example). *)
Example C17_inheritance_example :
  side w_cfg_paren w_inherit_ok = true /\
  output_of (run (is_instance 1) w_inherit_ok 30 [] ([], [])) = Some [VInt 10; VInt 8; VInt 25] /\
  output_of (run (is_instance 1) (tP w_cfg_paren w_inherit_ok) 96 [] ([], [])) = Some [VInt 10; VInt 8; VInt 25].
Proof. exact inherit_example. Qed.
Print Assumptions C17_inheritance_example.

Example C17_inherited_accessor_refused :
  enc_refuses w_cfg w_inherit = true /\ side w_cfg w_inherit = false.
Proof. exact inherited_refused. Qed.
Print Assumptions C17_inherited_accessor_refused.

Example C17_encapsulate_example :
  side w_cfg w_good = true /\
  tP w_cfg w_good <> w_good /\
  output_of (run (is_instance 1) w_good 30 [] ([], []))
    = Some [VInt 14; VInt 162; VInt 77; VInt 14; VInt 9; VInt 40] /\
  output_of (run (is_instance 1) (tP w_cfg w_good) 96 [] ([], []))
    = Some [VInt 14; VInt 162; VInt 77; VInt 14; VInt 9; VInt 40].
Proof. exact good_example. Qed.
Print Assumptions C17_encapsulate_example.

(* IntroduceFactory (static method or global function returning C( *args, **kwds)), for every [chk]. *)
Theorem C17_factory :
  forall glob cls name chk P,
    side (fac_cfg glob cls name) P = true ->
    forall n en s r,
      run chk P n en s = Done r ->
      run chk (introduce_factory glob cls name P) (3 * n + 6) en s = Done r.
Proof. exact factory_forward. Qed.
Print Assumptions C17_factory.

Example C17_factory_example :
  side (fac_cfg false 1 15) w_good = true /\ side (fac_cfg true 1 15) w_good = true /\
  output_of (run (fun _ _ => true) (introduce_factory false 1 15 w_good) 96 [] ([], []))
    = output_of (run (fun _ _ => true) w_good 30 [] ([], [])) /\
  output_of (run (fun _ _ => true) (introduce_factory true 1 15 w_good) 96 [] ([], []))
    = Some [VInt 14; VInt 162; VInt 77; VInt 14; VInt 9; VInt 40].
Proof. exact good_factory_example. Qed.
Print Assumptions C17_factory_example.

(* The reverse direction: if the refactored program's run ends without an uncaught exception, so does the
   original program's run, with the same fuel and the same result -- or the original run is [Stuck], i.e. a
   finder-tagged occurrence met a receiver that is not an instance of the class (outside of what the
   finder's classification describes).  [unused_prog] (boolean): the program does not already call a method
   by one of the new names, and a rewritten plain write whose primary is not a variable has a primary
   without finder tags. *)
Theorem C17_encapsulate_reverse :
  forall augparen cls fld get set skip self value P,
    side (enc_cfg augparen cls fld get set skip self value) P = true ->
    unused_prog (enc_cfg augparen cls fld get set skip self value) P = true ->
    forall n en s r,
      run (is_instance cls) (encapsulate augparen cls fld get set skip self value P) n en s = Done r ->
      run (is_instance cls) P n en s = Done r \/ run (is_instance cls) P n en s = Stuck.
Proof. exact encapsulate_reverse. Qed.
Print Assumptions C17_encapsulate_reverse.

(* Both directions together: normal termination with result r is preserved and reflected. *)
Theorem C17_encapsulate_equiv :
  forall augparen cls fld get set skip self value P,
    side (enc_cfg augparen cls fld get set skip self value) P = true ->
    unused_prog (enc_cfg augparen cls fld get set skip self value) P = true ->
    forall en s r,
      (forall n, run (is_instance cls) P n en s <> Stuck) ->
      ((exists n, run (is_instance cls) P n en s = Done r) <->
       (exists n, run (is_instance cls) (encapsulate augparen cls fld get set skip self value P) n en s = Done r)).
Proof. exact encapsulate_equiv. Qed.
Print Assumptions C17_encapsulate_equiv.

Theorem C17_factory_reverse :
  forall glob cls name chk P,
    side (fac_cfg glob cls name) P = true ->
    unused_prog (fac_cfg glob cls name) P = true ->
    forall n en s r,
      run chk (introduce_factory glob cls name P) n en s = Done r ->
      run chk P n en s = Done r \/ run chk P n en s = Stuck.
Proof. exact factory_reverse. Qed.
Print Assumptions C17_factory_reverse.

Example C17_reverse_example :
  unused_prog w_cfg w_good = true /\ unused_prog (fac_cfg false 1 15) w_good = true.
Proof. exact reverse_example. Qed.
Print Assumptions C17_reverse_example.

(* Classification: an attribute occurrence is rewritten by exactly one rule, chosen by its syntactic kind
   (read / write / augmented write), iff the finder reports it, it names the field and it lies outside the
   defining method; the body of the defining method is returned unchanged. *)
Theorem C17_encapsulate_classification :
  forall k on tag p f op e,
    tE k on (EAttr tag p f) =
      (if k_enc k && on && tag && N.eqb f (k_fld k) then EMeth (tE k on p) (k_get k) [] else EAttr tag (tE k on p) f)
    /\ tS k on (SWrite tag p f e) =
      (if k_enc k && on && tag && N.eqb f (k_fld k) then SExpr (EMeth (tE k on p) (k_set k) [tE k on e])
       else SWrite tag (tE k on p) f (tE k on e))
    /\ tS k on (SAug tag p f op e) =
      (if k_enc k && on && tag && N.eqb f (k_fld k)
       then SExpr (EMeth (tE k on p) (k_set k) [paste k op (EMeth p (k_get k) []) (tE k on e)])
       else SAug tag (tE k on p) f op (tE k on e))
    /\ (k_fac k = false -> forall c, tS k false c = c).
Proof.
  exact (fun k on tag p f op e =>
    conj (classification_expr k on tag p f)
      (conj (classification_write k on tag p f e)
         (conj (classification_aug k on tag p f op e) (tS_off_id k)))).
Qed.
Print Assumptions C17_encapsulate_classification.

(* Refutations.  Open findings (witness replayed on the real library, findings/C17-*.json):
   C17_aug_primary_effect_refuted, C17_write_order_refuted, C17_chained_write_refuted.
   FIXED defects, kept as documentation of the old behaviour (the replays are in corpus/C17/ and must pass now):
   C17_aug_precedence_refuted (f343c81; about the model instance augparen = false),
   C17_trailing_comment_refuted (807a6f1), C17_read_classified_as_write_refuted (aad0d13).
   `ident(a).x += 1`: the primary is evaluated twice. *)
Theorem C17_aug_primary_effect_refuted :
  outputs_differ (output_of (run (is_instance 1) w_aug_effect 30 [] ([], [])))
                 (output_of (run (is_instance 1) (tP w_cfg w_aug_effect) 96 [] ([], []))).
Proof. exact aug_primary_effect_refuted. Qed.
Print Assumptions C17_aug_primary_effect_refuted.

(* FIXED (f343c81), old behaviour: `a.x *= 1 + 2` became `a.set_x(a.get_x() * 1 + 2)`. *)
Theorem C17_aug_precedence_refuted :
  outputs_differ (output_of (run (is_instance 1) w_aug_prec 30 [] ([], [])))
                 (output_of (run (is_instance 1) (tP w_cfg w_aug_prec) 96 [] ([], []))).
Proof. exact aug_precedence_refuted. Qed.
Print Assumptions C17_aug_precedence_refuted.

Example C17_aug_precedence_fixed_example :
  side w_cfg_paren w_aug_prec = true /\
  output_of (run (is_instance 1) (tP w_cfg_paren w_aug_prec) 96 [] ([], []))
    = output_of (run (is_instance 1) w_aug_prec 30 [] ([], [])).
Proof. exact aug_precedence_fixed_example. Qed.
Print Assumptions C17_aug_precedence_fixed_example.

(* `ident(a).x = noisy(5)`: the assignment evaluates the value first, the setter call the primary. *)
Theorem C17_write_order_refuted :
  outputs_differ (output_of (run (is_instance 1) w_write_order 30 [] ([], [])))
                 (output_of (run (is_instance 1) (tP w_cfg w_write_order) 96 [] ([], []))).
Proof. exact write_order_refuted. Qed.
Print Assumptions C17_write_order_refuted.

(* ------------------------------------------------------------------------------------------------
   Text level (coq/C17/Splice.v: _FindChangesForModule.get_changed_module / _manage_writes and
   worder.get_assignment_type, compared with rope's exact output text on every case). *)
From RopeVerif.C17 Require Import Splice SpliceProofs.

(* Every setter call the state machine opens is closed exactly once and nothing is left pending, for every
   source text and every list of occurrences in which no written occurrence starts while an earlier
   setter call is pending ([no_overlap], boolean). *)
Theorem C17_setter_calls_closed :
  forall src getter setter skip_start skip_end os st,
    no_overlap src skip_start skip_end None os = true ->
    loop src getter setter skip_start skip_end init_state os = inl st ->
    let st1 := manage_writes src (length src) st in
    n_close st1 = n_open st1 /\ ls st1 = None.
Proof. exact setter_calls_closed. Qed.
Print Assumptions C17_setter_calls_closed.

Example C17_setter_calls_closed_example :
  no_overlap w_ok_src 0 0 None w_ok_occs = true /\
  changed_module w_ok_src w_get w_set 0 0 w_ok_occs
    = Changed (T [97; 46; 115; 101; 116; 95; 120; 40; 97; 46; 103; 101; 116; 95; 120; 40; 41; 32; 43; 32; 49; 41; 10;
                  98; 46; 115; 101; 116; 95; 120; 40; 98; 46; 103; 101; 116; 95; 120; 40; 41; 32; 43; 32; 50; 41; 10]).
Proof. exact closed_example. Qed.
Print Assumptions C17_setter_calls_closed_example.

Example C17_aug_parenthesised_text_example :
  changed_module (T [97; 46; 120; 32; 42; 61; 32; 49; 32; 43; 32; 50; 10]) w_get w_set 0 0
    [ {| o_start := 2; o_end := 3; o_prim := 0; o_tuple := false; o_line_end := 12; o_rhs_primary := false |} ]
    = Changed (T [97; 46; 115; 101; 116; 95; 120; 40; 97; 46; 103; 101; 116; 95; 120; 40; 41; 32; 42; 32;
                  40; 49; 32; 43; 32; 50; 41; 41; 10]).
Proof. exact aug_paren_example. Qed.
Print Assumptions C17_aug_parenthesised_text_example.

(* The closing of a setter call that ends exactly at the end of the text (module without final newline whose last
   statement is a write): inside [no_overlap], closed by the final flush. *)
Example C17_write_at_end_of_text_example :
  changed_module (T [97; 46; 120; 32; 61; 32; 53]) w_get w_set 0 0
    [ {| o_start := 2; o_end := 3; o_prim := 0; o_tuple := false; o_line_end := 7; o_rhs_primary := true |} ]
    = Changed (T [97; 46; 115; 101; 116; 95; 120; 40; 53; 41]) /\
  no_overlap (T [97; 46; 120; 32; 61; 32; 53]) 0 0 None
    [ {| o_start := 2; o_end := 3; o_prim := 0; o_tuple := false; o_line_end := 7; o_rhs_primary := true |} ] = true /\
  changed_module (T [97; 46; 120; 32; 42; 61; 32; 51]) w_get w_set 0 0
    [ {| o_start := 2; o_end := 3; o_prim := 0; o_tuple := false; o_line_end := 8; o_rhs_primary := true |} ]
    = Changed (T [97; 46; 115; 101; 116; 95; 120; 40; 97; 46; 103; 101; 116; 95; 120; 40; 41; 32; 42; 32; 51; 41]).
Proof. exact eof_write_example. Qed.
Print Assumptions C17_write_at_end_of_text_example.

(* `a.x = c.x = 1` -> `a.set_x( c.set_x(1)`: two calls opened, one closed (findings/C17-chained.json). *)
Theorem C17_chained_write_refuted :
  no_overlap w_chained_src 0 0 None w_chained_occs = false /\
  changed_module w_chained_src w_get w_set 0 0 w_chained_occs
    = Changed (T [97; 46; 115; 101; 116; 95; 120; 40; 32; 99; 46; 115; 101; 116; 95; 120; 40; 49; 41; 10]) /\
  (exists st, loop w_chained_src w_get w_set 0 0 init_state w_chained_occs = inl st /\
              n_open (manage_writes w_chained_src (length w_chained_src) st) = 2 /\
              n_close (manage_writes w_chained_src (length w_chained_src) st) = 1).
Proof. exact chained_refuted. Qed.
Print Assumptions C17_chained_write_refuted.

(* FIXED (807a6f1), old behaviour: with the end of the physical line as the end of the value,
   `a.x = 5  # five` -> `a.set_x(5  # five)` (corpus/C17/comment.json); with the statement end the same state
   machine gives `a.set_x(5)  # five`. *)
Theorem C17_trailing_comment_refuted :
  changed_module w_comment_src w_get w_set 0 0 w_comment_occs
    = Changed (T [97; 46; 115; 101; 116; 95; 120; 40; 53; 32; 32; 35; 32; 102; 105; 118; 101; 41; 10])
  /\ changed_module w_comment_src w_get w_set 0 0
       [ {| o_start := 2; o_end := 3; o_prim := 0; o_tuple := false; o_line_end := 7; o_rhs_primary := true |} ]
     = Changed (T [97; 46; 115; 101; 116; 95; 120; 40; 53; 41; 32; 32; 35; 32; 102; 105; 118; 101; 10]).
Proof. exact (conj comment_refuted comment_fixed). Qed.
Print Assumptions C17_trailing_comment_refuted.

(* FIXED (aad0d13), old behaviour: `(1 + a.x) == 2`: the read was classified as written
   (corpus/C17/misread-write.json); the current get_assignment_type answers None. *)
Theorem C17_read_classified_as_write_refuted :
  assignment_type_old (skipn 8 w_misread_src) = Some (T [41; 32; 61]) /\
  assignment_type (skipn 8 w_misread_src) = None /\
  is_written w_misread_src {| o_start := 7; o_end := 8; o_prim := 5; o_tuple := false; o_line_end := 14; o_rhs_primary := true |} = false.
Proof. exact misread_refuted. Qed.
Print Assumptions C17_read_classified_as_write_refuted.

(* ------------------------------------------------------------------------------------------------
   LocalToField and MethodObject (coq/C17/Local.v; compared with rope's parsed result and rope's refusal on
   every generated case, MethodObject results are also run in Obj against CPython's output).

   NOT PROVED (kept visible):
     C17_local_to_field : field name not used as an attribute anywhere, method not re-entered ->
                          run (local_to_field c m v P) and run P print the same
     C17_method_object  : run (method_object nm u P) and run P print the same
   Both need a simulation up to extra attributes / extra objects in the heap (locations shift after the
   allocation of the method object), which the forward/reverse proofs above (equal heaps) do not provide. *)
From RopeVerif.C17 Require Import Local LocalProofs.

(* LocalToField is accepted exactly for an assigned, non-parameter local of a method with a first parameter
   (_is_a_method_local); everything else -- parameters, locals of plain functions, globals -- is refused. *)
Theorem C17_local_to_field_refusal :
  forall P u v,
    l2f_refuses P u v = false <->
    exists c m cd d, u = UMethod c m /\ find_c (p_classes P) c = Some cd /\ find_m (c_methods cd) m = Some d /\
      existsb (N.eqb v) (m_params d) = false /\
      (exists l, m_body d = BCode l /\ existsb (assigns v) l = true) /\ m_params d <> [].
Proof. exact l2f_accepts_iff. Qed.
Print Assumptions C17_local_to_field_refusal.

Example C17_local_to_field_example :
  l2f_refuses (w_l2f 21) (UMethod 1 13) 21 = false /\
  l2f_refuses (w_l2f 21) (UMethod 1 13) 12 = true /\ l2f_refuses (w_l2f 21) UMain 8 = true /\
  output_of (run tt_chk (w_l2f 21) 30 [] ([], [])) = Some [VInt 7; VInt 1] /\
  output_of (run tt_chk (local_to_field 1 13 21 (w_l2f 21)) 30 [] ([], [])) = Some [VInt 7; VInt 1].
Proof. exact l2f_example. Qed.
Print Assumptions C17_local_to_field_example.

(* Open finding C17-l2f-clash (findings/C17-l2f-clash.json): a local spelled like a field is not refused and
   overwrites the field. *)
Theorem C17_local_to_field_clash_refuted :
  l2f_refuses (w_l2f 2) (UMethod 1 13) 2 = false /\
  output_of (run tt_chk (w_l2f 2) 30 [] ([], [])) = Some [VInt 7; VInt 1] /\
  output_of (run tt_chk (local_to_field 1 13 2 (w_l2f 2)) 30 [] ([], [])) = Some [VInt 12; VInt 6].
Proof. exact l2f_clash_refuted. Qed.
Print Assumptions C17_local_to_field_clash_refuted.

Example C17_method_object_example :
  (exists P', method_object w_names (UMethod 1 13) (w_l2f 21) = Some P' /\
              output_of (run tt_chk P' 40 [] ([], [])) = output_of (run tt_chk (w_l2f 21) 30 [] ([], []))) /\
  (exists P', method_object w_names (UFunc 9) w_mo_fun = Some P' /\
              output_of (run tt_chk P' 40 [] ([], [])) = Some [VInt 5; VInt 15] /\
              output_of (run tt_chk w_mo_fun 30 [] ([], [])) = Some [VInt 5; VInt 15]).
Proof. exact method_object_example. Qed.
Print Assumptions C17_method_object_example.
