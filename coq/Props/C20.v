(* Property C20 — completion and definition lookup are sound at every cursor position.  Theorems only; each
   is closed by [exact] and followed by Print Assumptions.

   MODEL  = coq/C20/Split.v     (worder.get_splitted_primary_before and the finders it calls, on text)
            coq/C20/Complete.v  (codeassist._code_completions / _undotted_completions / _is_defined_after /
                                 keywords, fixsyntax._logical_start, the definition line of a table entry;
                                 on top of coq/C15/RopeScopes.v: rope_tree, gnames, lookup_chain, holding)
   SPEC   = coq/C15/Scoping.v   ([visible_at]: C15's spec_resolve finds a binding = the name is bound in the
                                 holding scope, in an enclosing FUNCTION scope, at module level or is a builtin;
                                 validated against CPython's symtable on every generated case)
   DOMAIN = coq/C15/Fragment.v  ([in_fragment_C15], [query_ok]): C20 inherits C15's 14 open findings; an
                                 identifier whose lookup from the scope is outside [query_ok] (a class body
                                 asking for an inherited / instance attribute, a comprehension in a class body)
                                 is not spoken about.

   What is NOT a theorem (decided by exhaustive execution on every run, see harness/c20_sweep.py): "returns
   without an internal error at every position, also for a module made invalid by an incomplete line".
   Dotted completion is modelled for receivers that are statically a class (C20_dotted_sound / _complete); other
   receivers, [name=] proposals and completion after [from m import] are covered by the oracle only.

   The theorems C20_sound / C20_complete hold for EVERY scope of the module (path q).  That the scope rope
   selects for a cursor line ([holding_path]: logical start, indentation, get_inner_scope_for_line) is the
   scope Python's rules give is proved only partially in C15 (C15_scope_for_line_sound_partial,
   C15_scope_end_regular_partial) and checked per position by the oracle; the corollaries for that scope are
   therefore named [_partial].  Full strength would add
       holding_path w lineno = spec_scope_for_line (spec_tree nl p) [] (logical line of lineno). *)
From Coq Require Import List NArith Bool.
From RopeVerif.Lib Require Import Text.
From RopeVerif.C15 Require Import Syntax Scoping RopeScopes Fragment Theorems.
From RopeVerif.C20 Require Import Split Complete CompleteProofs SplitProofs EraseProofs BindLines BindLinesProofs Dotted DottedProofs Witnesses Theorems.
Import ListNotations.

(* The scope walk of _undotted_completions finds a name exactly when CPython resolves it from that scope:
   for every module of the fragment, every scope, every cursor line, every identifier whose query C15
   allows, every table of builtins and of inherited attributes. *)
Theorem C20_walk_agrees_with_python :
  forall (p : program) (lay : list lineinfo) (nl : N) (bi : list ident)
         (inh : list nat -> ident -> option binding) (ids : list ident) (spell : ident -> text) (kws : list text),
    in_fragment_C15 p = true -> inh_ok inh ->
    forall (q : list nat) (lineno : N) (x : ident),
      query_ok inh (rope_tree p) q x = true ->
      (names_at (world_of p lay bi inh ids spell kws) q lineno true x <> None
       <-> visible_at bi (spec_tree nl p) q x = true).
Proof. exact names_at_visible. Qed.
Print Assumptions C20_walk_agrees_with_python.

(* SOUND: every proposal extends the typed prefix and is either the spelling of an identifier visible from the
   scope under Python's rules, or a keyword - with later_locals True and False. *)
Theorem C20_sound :
  forall (p : program) (lay : list lineinfo) (nl : N) (bi : list ident)
         (inh : list nat -> ident -> option binding) (ids : list ident) (spell : ident -> text) (kws : list text),
    in_fragment_C15 p = true -> inh_ok inh ->
    forall (q : list nat) (lineno : N) (starting : text) (ll : bool) (t : text) (k : pscope),
      In (t, k) (completions_at (world_of p lay bi inh ids spell kws) q lineno starting ll) ->
      is_prefix starting t = true /\
      ((exists x, In x ids /\ spell x = t /\ k <> PKeyword /\
                  (query_ok inh (rope_tree p) q x = true -> visible_at bi (spec_tree nl p) q x = true))
       \/ (k = PKeyword /\ In t kws)).
Proof. exact completions_sound. Qed.
Print Assumptions C20_sound.

(* COMPLETE: every visible identifier whose spelling extends the typed prefix is proposed. *)
Theorem C20_complete :
  forall (p : program) (lay : list lineinfo) (nl : N) (bi : list ident)
         (inh : list nat -> ident -> option binding) (ids : list ident) (spell : ident -> text) (kws : list text),
    in_fragment_C15 p = true -> inh_ok inh ->
    forall (q : list nat) (lineno : N) (starting : text) (x : ident),
      In x ids -> is_prefix starting (spell x) = true ->
      query_ok inh (rope_tree p) q x = true ->
      visible_at bi (spec_tree nl p) q x = true ->
      exists k, In (spell x, k) (completions_at (world_of p lay bi inh ids spell kws) q lineno starting true).
Proof. exact completions_complete. Qed.
Print Assumptions C20_complete.

(* ... and every keyword extending a non-blank prefix. *)
Theorem C20_complete_keywords :
  forall (p : program) (lay : list lineinfo) (bi : list ident)
         (inh : list nat -> ident -> option binding) (ids : list ident) (spell : ident -> text) (kws : list text)
         (q : list nat) (lineno : N) (starting : text) (ll : bool) (t : text),
    In t kws -> is_prefix starting t = true -> blank starting = false ->
    In (t, PKeyword) (completions_at (world_of p lay bi inh ids spell kws) q lineno starting ll).
Proof. exact completions_keywords. Qed.
Print Assumptions C20_complete_keywords.

(* later_locals = False removes a visible identifier only if the innermost scope holds it with a definition
   line between the cursor line and the end of that scope (_is_defined_after). *)
Theorem C20_complete_later_locals_false :
  forall (p : program) (lay : list lineinfo) (nl : N) (bi : list ident)
         (inh : list nat -> ident -> option binding) (ids : list ident) (spell : ident -> text) (kws : list text),
    in_fragment_C15 p = true -> inh_ok inh ->
    forall (q : list nat) (lineno : N) (starting : text) (x : ident) ps s outer,
      In x ids -> is_prefix starting (spell x) = true ->
      query_ok inh (rope_tree p) q x = true ->
      visible_at bi (spec_tree nl p) q x = true ->
      rchain (rope_tree p) q = Some ((ps, s) :: outer) ->
      (match gnames bi inh ((ps, s) :: outer) x with
       | Some b => defined_after (ltree p) lay s lineno b x = false
       | None => True
       end) ->
      exists k, In (spell x, k) (completions_at (world_of p lay bi inh ids spell kws) q lineno starting false).
Proof. exact completions_complete_nolater. Qed.
Print Assumptions C20_complete_later_locals_false.

(* PARTIAL (see the header): the two statements at the scope rope selects for the cursor line. *)
Theorem C20_sound_at_cursor_partial :
  forall (p : program) (lay : list lineinfo) (nl : N) (bi : list ident)
         (inh : list nat -> ident -> option binding) (ids : list ident) (spell : ident -> text) (kws : list text),
    in_fragment_C15 p = true -> inh_ok inh ->
    forall (lineno : N) (starting : text) (ll : bool) (t : text) (k : pscope),
      let w := world_of p lay bi inh ids spell kws in
      In (t, k) (completions w lineno starting ll) ->
      is_prefix starting t = true /\
      ((exists x, In x ids /\ spell x = t /\ k <> PKeyword /\
                  (query_ok inh (rope_tree p) (holding_path w lineno) x = true ->
                   visible_at bi (spec_tree nl p) (holding_path w lineno) x = true))
       \/ (k = PKeyword /\ In t kws)).
Proof. exact cursor_sound. Qed.
Print Assumptions C20_sound_at_cursor_partial.

Theorem C20_complete_at_cursor_partial :
  forall (p : program) (lay : list lineinfo) (nl : N) (bi : list ident)
         (inh : list nat -> ident -> option binding) (ids : list ident) (spell : ident -> text) (kws : list text),
    in_fragment_C15 p = true -> inh_ok inh ->
    forall (lineno : N) (starting : text) (x : ident),
      let w := world_of p lay bi inh ids spell kws in
      In x ids -> is_prefix starting (spell x) = true ->
      query_ok inh (rope_tree p) (holding_path w lineno) x = true ->
      visible_at bi (spec_tree nl p) (holding_path w lineno) x = true ->
      exists k, In (spell x, k) (completions w lineno starting true).
Proof. exact cursor_complete. Qed.
Print Assumptions C20_complete_at_cursor_partial.

(* STARTING OFFSET, identifier prefixes (PARTIAL: the dotted case [e.w|] is covered by the correspondence and
   the oracle only).  If the text before the cursor ends in a non-empty word [w] of identifier characters that
   is preceded by something that is neither an identifier character nor - after skipping blanks on the same
   line - a dot, then nothing is dotted, the text to be replaced is exactly [w], and it starts at its first
   letter: raw[so..o) = starting. *)
Theorem C20_starting_offset_partial :
  forall (kws : list text) (pre w post raw : text),
    w <> [] -> forallb is_id_char w = true ->
    word_boundary_before (rev pre) (last (pre ++ w ++ post) 0%N) = true ->
    split_in kws (pre ++ w ++ post) raw (tlen pre + tlen w)
    = Some ([], slice raw (tlen pre) (tlen pre + tlen w), tlen pre).
Proof. exact split_identifier_prefix. Qed.
Print Assumptions C20_starting_offset_partial.

(* STARTING OFFSET after a blank (all texts): if the character before the cursor is white space and the last
   non-blank character before it on the line is not a dot, nothing is being typed - no expression, empty prefix,
   insertion at the cursor - whatever precedes.  (Before repo commit faeb634 the previous word lost its last
   letter to a phantom expression: C20_split_after_space_fixed.) *)
Theorem C20_starting_offset_after_blank :
  forall (kws : list text) (pre post raw : text) (c : N),
    is_space c = true ->
    oc_is (N.eqb ch_dot) (hd_error (fst (last_non_space (c :: rev pre) (hd_error post)))) = false ->
    split_in kws (pre ++ c :: post) raw (tlen pre + 1) = Some ([], [], (tlen pre + 1)%N).
Proof. exact split_after_blank. Qed.
Print Assumptions C20_starting_offset_after_blank.

(* STARTING OFFSET, one-level dotted prefixes [v.w|] (PARTIAL: longer chains, calls and subscripts as receivers
   are covered by the correspondence and the oracle only).  If the text before the cursor is a word v that is not
   a keyword, does not begin with a digit (the dot of `3.` belongs to the number: repo commit 06a46a8) and is not the
   word "from", a dot, and a possibly empty word w - ANY word, also one spelled like a
   keyword, since repo commit 2b4039e -, and v is preceded as in C20_starting_offset_partial, then the expression
   to complete is exactly v - what precedes the dot -, the text to be replaced is exactly w and starts right
   after the dot. *)
Theorem C20_starting_offset_dotted_partial :
  forall (kws : list text) (pre v w post raw : text),
    v <> [] -> forallb is_id_char v = true -> is_kw kws v = false ->
    oc_is is_digit (hd_error v) = false ->
    forallb is_id_char w = true ->
    ends_from (rev v ++ rev pre) = false ->
    word_boundary_before (rev pre) (last (pre ++ v ++ ch_dot :: w ++ post) 0%N) = true ->
    split_in kws (pre ++ v ++ ch_dot :: w ++ post) raw (tlen pre + tlen v + 1 + tlen w)
    = Some (slice raw (tlen pre) (tlen pre + tlen v),
            slice raw (tlen pre + tlen v + 1) (tlen pre + tlen v + 1 + tlen w),
            (tlen pre + tlen v + 1)%N).
Proof. exact split_dotted_prefix. Qed.
Print Assumptions C20_starting_offset_dotted_partial.

(* "x = os.is|": the attribute prefix is spelled like the keyword is *)
Example C20_starting_offset_dotted_inhabited :
  let kws := [[105; 115]; [102; 111; 114]]%N in
  let pre := [120; 32; 61; 32]%N in let v := [111; 115]%N in let w := [105; 115]%N in let post := [10]%N in
  is_kw kws v = false /\ is_kw kws w = true /\ ends_from (rev v ++ rev pre) = false
  /\ word_boundary_before (rev pre) (last (pre ++ v ++ ch_dot :: w ++ post) 0%N) = true
  /\ split_in kws (pre ++ v ++ ch_dot :: w ++ post) (pre ++ v ++ ch_dot :: w ++ post) 9 = Some (v, w, 7%N).
Proof. exact split_dotted_example. Qed.
Print Assumptions C20_starting_offset_dotted_inhabited.

(* "abc |" and "a.b |" give nothing to complete, "a. |" still completes the attributes of a *)
Example C20_starting_offset_after_blank_inhabited :
  split_in [[105; 102]]%N [97; 98; 99; 32]%N [97; 98; 99; 32]%N 4 = Some ([], [], 4%N)
  /\ split_in [[105; 102]]%N [97; 46; 98; 32]%N [97; 46; 98; 32]%N 4 = Some ([], [], 4%N)
  /\ split_in [[105; 102]]%N [97; 46; 32]%N [97; 46; 32]%N 3 = Some ([97%N], [], 3%N).
Proof. exact split_after_blank_example. Qed.
Print Assumptions C20_starting_offset_after_blank_inhabited.

(* DEFINITION LINE, the discipline of the names dictionary (the two lemmas the syntax theorems below rest on; kept
   with their [_partial] names).  Proved: the discipline of the names
   dictionary on the events of a scope, whatever statements produced them - a name whose first event is a plain
   assignment (assignment statement, for / with / except target) and that is later only assigned again has the
   line of that FIRST assignment; a name whose last rebinding event is a def / class statement, a parameter or a
   comprehension target has the line of that event.  The link from statements to events ([ls_names], one event
   per binding construct with the statement's line) is checked by the correspondence on every name token. *)
Theorem C20_definition_line_assignment_partial :
  forall (pre post : levents) (x : ident) (l0 : N),
    (forall e, In e pre -> fst (fst e) <> x) ->
    (forall e, In e post -> fst (fst e) = x -> weak (snd (fst e)) = true) ->
    entry_line (pre ++ (x, NAssigned, Pay None (ALine l0)) :: post) x = Some l0.
Proof. exact entry_line_first_assignment. Qed.
Print Assumptions C20_definition_line_assignment_partial.

Theorem C20_definition_line_definition_partial :
  forall (pre post : levents) (x : ident) (k : nkind) (l0 : N) (a : Complete.app),
    definition_kind k ->
    (forall e, In e post -> fst (fst e) = x -> weak (snd (fst e)) = true) ->
    entry_line (pre ++ (x, k, Pay (Some l0) a) :: post) x = Some l0.
Proof. exact entry_line_definition. Qed.
Print Assumptions C20_definition_line_definition_partial.

(* DOTTED COMPLETION on a receiver that is statically a class (MODEL coq/C20/Dotted.v: a plain name that Scope.lookup
   answers with the DefinedName of a class statement; the proposals are PyClass.get_attributes() = the class's own table
   over what it inherits).  For every module of the fragment and every class scope c of it (cs in rope's tree, ss in
   CPython's): SOUND - a proposal extends the typed prefix and is a name the class body binds under Python's rules, an
   instance attribute self.x assigned in one of its methods (rope lists them on purpose), or an inherited attribute;
   COMPLETE - every name the class body binds whose spelling extends the prefix is proposed.  Receivers that need type
   inference (instances, call results, modules) are outside the model: oracle only. *)
Theorem C20_dotted_sound :
  forall (p : program) (lay : list lineinfo) (nl : N) (bi : list ident) (inh : list nat -> ident -> option binding)
         (ids : list ident) (spell : ident -> text) (kws : list text),
    in_fragment_C15 p = true ->
    forall (c : list nat) (cs : rscope) (ss : sscope) (starting t : text) (k : N),
      scope_at (rope_tree p) c = Some cs ->
      sscope_at (spec_tree nl p) c = Some ss ->
      In (t, k) (dotted_completions_at (world_of p lay bi inh ids spell kws) c starting) ->
      is_prefix starting t = true /\
      exists x, In x ids /\ spell x = t /\
                (In x (spec_names ss)
                 \/ (In x (keys (revs cs)) /\ has_real (revs cs) x = false)
                 \/ inh c x <> None).
Proof. exact dotted_sound. Qed.
Print Assumptions C20_dotted_sound.

Theorem C20_dotted_complete :
  forall (p : program) (lay : list lineinfo) (nl : N) (bi : list ident) (inh : list nat -> ident -> option binding)
         (ids : list ident) (spell : ident -> text) (kws : list text),
    in_fragment_C15 p = true ->
    forall (c : list nat) (cs : rscope) (ss : sscope) (starting : text) (x : ident),
      scope_at (rope_tree p) c = Some cs ->
      sscope_at (spec_tree nl p) c = Some ss ->
      In x ids -> In x (spec_names ss) -> is_prefix starting (spell x) = true ->
      exists k, In (spell x, k) (dotted_completions_at (world_of p lay bi inh ids spell kws) c starting).
Proof. exact dotted_complete. Qed.
Print Assumptions C20_dotted_complete.

Example C20_dotted_inhabited :
  in_fragment_C15 w_klass = true
  /\ receiver_class world_klass (holding_path world_klass 6) 0%N = Some [0%nat]
  /\ dotted_completions world_klass 6 0%N [107%N] = Some [([107; 97]%N, 6%N); ([107; 98]%N, 6%N)]
  /\ dotted_completions world_klass 6 0%N [] = Some [([107; 97]%N, 6%N); ([109; 101]%N, 6%N); ([107; 98]%N, 6%N)]
  /\ (exists cs ss, scope_at (rope_tree w_klass) [0%nat] = Some cs /\ sscope_at (spec_tree 7 w_klass) [0%nat] = Some ss
                    /\ In 1%N (spec_names ss) /\ In 2%N (spec_names ss)).
Proof. exact klass_example. Qed.
Print Assumptions C20_dotted_inhabited.

(* DEFINITION LINE FROM THE SYNTAX.  SPEC: [s_bind_lines] (coq/C20/BindLines.v) is C15's [s_binds] - the names a
   statement binds in its block - annotated with the statement's line and the kind of construct; [determined body x l]:
   x is bound in the block by an assignment / for / with / except target, a def or a class statement, every binding of
   x in the block is of such a kind and on line l, and x is not declared global there.  (Not covered, each a recorded
   deviation: imports - the definition is in the imported module -, walrus targets and bare annotations - finding
   C20-definition-line-unknown -, names bound only by augmented assignment or del - C15 -, and a value that starts on
   a continuation line - C20-definition-line-of-value; the correspondence keeps those apart.) *)
Theorem C20_binding_lines_are_C15 :
  forall s : stmt, map bname (s_bind_lines s) = s_binds s.
Proof. exact bind_lines_names. Qed.
Print Assumptions C20_binding_lines_are_C15.

(* go-to-definition on a module-level name of a module of the fragment leads to the line of its binding statement *)
Theorem C20_definition_line_module :
  forall (p : program) (lay : list lineinfo) (bi : list ident) (inh : list nat -> ident -> option binding)
         (ids : list ident) (spell : ident -> text) (kws : list text) (x : ident) (l : N),
    in_fragment_C15 p = true ->
    determined p x l ->
    definition_line (world_of p lay bi inh ids spell kws) [] x = Some l.
Proof. exact module_definition_line. Qed.
Print Assumptions C20_definition_line_module.

(* the same for every def statement of the fragment, wherever it stands, on the table of the function's own scope
   ([function_levents] is the table [ls_scopes] puts into the tree for the statement: C20_function_scope_table; a
   lookup that answers with that scope reads its line there: [binding_line]) *)
Theorem C20_definition_line_local :
  forall (mn mn' : list ident) (cls : bool) (l st : N) (d : list expr) (n : occ) (ps : list param) (ae : list expr)
         (r : option expr) (body : list stmt) (x : ident) (lx : N),
    frag_stmt mn cls (SDef l st d n ps ae r body) = true ->
    ~ In x (map pname ps) ->
    determined body x lx ->
    entry_line (function_levents mn' l d ps ae r body) x = Some lx.
Proof. exact local_definition_line. Qed.
Print Assumptions C20_definition_line_local.

(* a parameter rope records (plain, *args, **kwargs) has the line of its def statement, whatever the body does *)
Theorem C20_definition_line_parameter :
  forall (mn' : list ident) (l : N) (d : list expr) (ps : list param) (ae : list expr) (r : option expr)
         (body : list stmt) (x : ident),
    In x (rope_param_names ps) ->
    entry_line (function_levents mn' l d ps ae r body) x = Some l.
Proof. exact parameter_definition_line. Qed.
Print Assumptions C20_definition_line_parameter.

Theorem C20_function_scope_table :
  forall (mn' : list ident) (cls : bool) (l st : N) (d : list expr) (n : occ) (ps : list param) (ae : list expr)
         (r : option expr) (body : list stmt),
    exists rest cs,
      ls_scopes mn' cls (SDef l st d n ps ae r body) = LScope (function_levents mn' l d ps ae r body) cs :: rest.
Proof. exact function_scope_is. Qed.
Print Assumptions C20_function_scope_table.

Example C20_determined_inhabited :
  in_fragment_C15 w_demo = true /\ determined w_demo 1%N 2%N /\ determined w_demo 2%N 3%N.
Proof. exact (conj (proj1 demo_example) demo_determined). Qed.
Print Assumptions C20_determined_inhabited.

(* COHERENCE of the two trees the model walks: the tree of l-events (definition lines) erases to C15's rope_tree -
   a path addresses a scope in one iff in the other, with the same events in the same order once the payload is
   dropped - and the kind of table entry the l-state machine ends with is C15's [entry].  So [definition_line] and
   [defined_after] read the line of exactly the entry that [gnames] / [rope_lookup] found. *)
Theorem C20_definition_tree_coherent :
  forall (p : program) (q : list nat),
    match lscope_at (ltree p) q, scope_at (rope_tree p) q with
    | Some ls, Some rs => map strip (llevs ls) = revs rs
    | None, None => True
    | _, _ => False
    end.
Proof. exact ltree_paths. Qed.
Print Assumptions C20_definition_tree_coherent.

Theorem C20_entry_kind_coherent :
  forall (evs : levents) (x : ident),
    option_map state_kind (lstate_from None evs x) = entry (map strip evs) x.
Proof. exact lstate_entry. Qed.
Print Assumptions C20_entry_kind_coherent.

(* ---- non-vacuity *)
Example C20_demo :
  in_fragment_C15 w_demo = true
  /\ holding_path world_demo 6 = [0%nat]
  /\ completions world_demo 6 t_xa true = [(t_xa, PLocal); (t_xab, PLocal)]
  /\ completions world_demo 6 t_xa false = [(t_xa, PLocal); (t_xab, PGlobal)]
  /\ completions world_demo 6 [102%N] false = [(t_fo, PGlobal); (t_for, PKeyword)]
  /\ definition_line world_demo [0%nat] 1%N = Some 6%N
  /\ definition_line world_demo [0%nat] 0%N = Some 1%N
  /\ definition_line world_demo [0%nat] 3%N = Some 3%N.
Proof. exact demo_example. Qed.
Print Assumptions C20_demo.

Example C20_demo_queries_allowed :
  inh_ok no_inh /\ forall x, In x ids_demo -> query_ok no_inh (rope_tree w_demo) [0%nat] x = true.
Proof. exact (conj no_inh_ok demo_queries_allowed). Qed.
Print Assumptions C20_demo_queries_allowed.

Example C20_starting_offset_inhabited :
  word_boundary_before (rev [120; 32; 61; 32]%N) 10%N = true
  /\ split_in kws2 ([120; 32; 61; 32] ++ [97; 108] ++ [112; 10])%N ([120; 32; 61; 32] ++ [97; 108] ++ [112; 10])%N 6
     = Some ([], [97; 108]%N, 4%N).
Proof. exact split_identifier_example. Qed.
Print Assumptions C20_starting_offset_inhabited.

(* ---- refutations: the faithful model does NOT satisfy the property on these inputs; each is an open finding
        replayed against the real library on every run (findings.d/C20.json) *)
Theorem C20_later_import_refuted :
  in_fragment_C15 w_later_import = true
  /\ In (t_os, PImported) (completions world_later_import 2 [] false)
  /\ ~ In (t_zz, PLocal) (completions world_later_import 2 [] false)
  /\ In (t_zz, PLocal) (completions world_later_import 2 [] true).
Proof. exact later_import_refuted. Qed.
Print Assumptions C20_later_import_refuted.

Theorem C20_definition_line_unknown_refuted :
  in_fragment_C15 w_line_unknown = true
  /\ definition_line world_line_unknown [0%nat] 2%N = None
  /\ (exists ss, sscope_at (spec_tree 6 w_line_unknown) [0%nat] = Some ss /\ In 2%N (sbound ss)).
Proof. exact definition_line_unknown_refuted. Qed.
Print Assumptions C20_definition_line_unknown_refuted.

(* ---- fixed defects: the witnesses of three former [_refuted] theorems, now positive examples of the repaired
        code and model (repo commits faeb634, 2b4039e, 5d25e3b); their inputs are replayed from corpus/C20 *)
Example C20_split_after_space_fixed :
  split_in kws2 [97; 98; 99; 32]%N [97; 98; 99; 32]%N 4 = Some ([], [], 4%N).
Proof. exact split_after_space_fixed. Qed.
Print Assumptions C20_split_after_space_fixed.

Example C20_dotted_keyword_prefix_fixed :
  split_in [[105; 115]]%N [115; 46; 105; 115]%N [115; 46; 105; 115]%N 4 = Some ([115%N], [105; 115]%N, 2%N)
  /\ split_in [[105; 115]]%N [115; 46; 105; 120]%N [115; 46; 105; 120]%N 4 = Some ([115%N], [105; 120]%N, 2%N).
Proof. exact dotted_keyword_prefix_fixed. Qed.
Print Assumptions C20_dotted_keyword_prefix_fixed.

Example C20_definition_line_annotation_fixed :
  definition_line world_line_unknown [0%nat] 3%N = Some 4%N.
Proof. exact definition_line_annotation_fixed. Qed.
Print Assumptions C20_definition_line_annotation_fixed.
